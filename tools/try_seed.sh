#!/bin/bash
# usage: tools/try_seed.sh <patch.diff> <Cxx> [<Cyy> ...]
# Applies the patch to a scratch worktree of /repo (never to /repo itself), runs the given
# checks against it through VERIF_REPO, prints their verdict lines, removes the worktree.
set -u
patch=$(readlink -f "$1"); shift
wt=/tmp/try_seed_$$
git -C /repo worktree add -q --detach "$wt" HEAD || exit 2
if ! git -C "$wt" apply "$patch"; then echo "patch does not apply"; git -C /repo worktree remove --force "$wt"; exit 2; fi
cd /verif
for c in "$@"; do
  VERIF_REPO="$wt" timeout 1500 /venv/bin/python harness/check.py "$c" > /tmp/try_seed_$$.$c.log 2>&1
  echo "== $c exit=$? =="
  grep -E "^(VIOLATION|KNOWN-FINDING|PASS|FAIL)|signature=" /tmp/try_seed_$$.$c.log | cut -c1-260 | head -12
  git -C /verif checkout -q -- evidence/$c.json 2>/dev/null
done
git -C /repo worktree remove --force "$wt"
rm -f /tmp/try_seed_$$.*.log
# regenerate translated files from the real tree again
/venv/bin/python harness/regen.py > /dev/null 2>&1
