#!/venv/bin/python
"""Writes /verif/MANIFEST.json from the table below (kept in one place so that the
manifest is always valid and always in step with the checks that exist)."""
import json
import os

HERE = os.path.dirname(os.path.dirname(os.path.abspath(__file__)))
PY = '/venv/bin/python'

# id -> (technique, level text, level note, design ref)
SRV_NOTE = ('Trusted: Coq kernel + vm_compute; hand models Server/Server.v + Manager/Manager.v + Codec/Packet.v tied by sampled '
            'correspondence (per-peer packet sequences, handler / callback sequences, API results, full canonical state dump) against '
            'socketio.Server and socketio.AsyncServer over real engine.io sockets built by hand; scripted handlers; json.loads oracle; '
            'engine.io id generator replaced by a counter.')


def srv(text, ref):
    return ('Coq theorems about the hand model of server.py/base_manager.py + differential correspondence with Server and '
            'AsyncServer evaluated by vm_compute + Coq-checked boolean checker judging the implementation\'s observations',
            text, SRV_NOTE, ref)


CLAIMED = {
    'C01': ('Coq theorems about a hand model of packet.py (round trip, conformance to a spec-derived codec) + '
            'differential correspondence model/implementation evaluated by vm_compute + Coq-checked boolean checker on implementation output',
            'Proof (Coq 8.16.1) about the hand model Codec/Packet.v for all packets of the stated domain: encode = spec_encode for every '
            'packet, reconstruct o deconstruct = id, decimal round trip, full round trip and interop with the spec-derived decoder '
            '(json.loads as a named oracle premise, hence "_partial"); the model is tied to src/socketio/packet.py on every run by '
            'differential execution on generated packets and a malformed frame stream (byte-exact frames, equal decoded fields / '
            'exception class), and the checker c01_eval (proved sound) is evaluated inside Coq on what the implementation produced.',
            'Trusted: Coq kernel + vm_compute; the hand model and the sampled correspondence; json.loads as an oracle '
            '(round-trip theorems carry it as a hypothesis); generators; Python->Gallina printer. Top-level numeric payloads are '
            'outside the domain (wire format cannot carry them, C01_number_payload_refuted).',
            'DESIGN.md section 6 C01'),
    'C03': srv('Proof about the model (invariant WF over all histories, recipients of emit = specification set) + correspondence on '
               'random histories + recipients checker on the packets the implementation queued.', 'DESIGN.md section 6 C03'),
    'C04': srv('Proof about the model of _handle_connect/_handle_disconnect/disconnect (sequential histories) + correspondence + '
               'Coq checker of the four connection outcomes, handler-once, fresh sids and disconnect-handler-exactly-once on the '
               'implementation; asyncio interleavings are covered by the asyncio scheduler part when present, thread races are C20.',
               'DESIGN.md section 6 C04'),
    'C05': srv('Proof about the model of event dispatch + correspondence + Coq checker (one handler call, one ACK to the sender only).',
               'DESIGN.md section 6 C05'),
    'C06': srv('Proof about the model of ack-id generation and trigger_callback + correspondence + Coq checker (unique ids, callback '
               'only for the outstanding (client, id), unknown ids without side effect, at most once).', 'DESIGN.md section 6 C06'),
    'C11': srv('Proof about the model (no component mentions a departed transport) + full-state correspondence + Coq checker applied to '
               'the implementation\'s state dump + object-graph growth measurement.', 'DESIGN.md section 6 C11'),
    'C12': srv('Proof about the model (a frame from one transport changes nothing owned by another) + correspondence under a malformed '
               'stream + Coq checker on bystanders.', 'DESIGN.md section 6 C12'),
    'C16': srv('Proof about the model of the session store + correspondence + Coq checker replaying a specification store keyed by '
               '(sid, namespace); one open finding (KNOWN_FINDINGS.txt).', 'DESIGN.md section 6 C16'),
    'C13': ('py2coq translation of the four lookup functions from /repo on every run; Coq theorems (generated function = six-level '
            'precedence spec for all registries/events/namespaces/args) re-proved against the regenerated text; exhaustive run on the real classes',
            'Proof by translation: the Gallina definitions are regenerated from base_server.py / base_client.py on every run and the '
            'theorems re-checked; plus exhaustive enumeration (2^6 x reserved x unrelated x 6 class/handler kinds) on the real classes '
            'compared in Coq with spec and generated functions.',
            'Trusted: Coq kernel; py2coq translator (validated each run by evaluating generated definitions against the real functions); '
            'hand model of _trigger_event / Namespace.trigger_event tied by the exhaustive correspondence.', 'DESIGN.md section 5, 6 C13'),
    'C17': ('fwd2coq translation of every namespace helper and underlying signature from /repo on every run; Coq theorems per helper '
            '(forwards_ok for all argument values and all explicit-argument subsets); exhaustive run on the real classes',
            'Proof by translation: helper bodies and underlying signatures are regenerated each run; 30 per-helper theorems + cover + '
            'soundness re-checked; exhaustive call shapes on the real classes compared in Coq.',
            'Trusted: Coq kernel; fwd2coq translator (validated against inspect.signature each run); bind_call model of Python argument '
            'binding (validated against CPython each run).', 'DESIGN.md section 5, 6 C17'),
    'C14': ('direct comparison, inside Coq, of the traces of the threaded and the asyncio member of each pair on the same scenario + '
            'Coq theorems that the comparison is an equivalence and that parity follows from correspondence of both members with one model',
            'The Coq content is thin by nature (parity relates two programs): theorems C14_checker_decides / equivalence / '
            'C14_parity_by_model; the deciding evidence is the direct comparison of both members on every scenario plus the fact that every '
            'pair is compared with one shared deterministic model in the property that owns its driver.',
            'Trusted: Coq kernel + vm_compute; drivers of the owning properties; handlers inline (async_handlers disabled).',
            'DESIGN.md section 6 C14'),
    'C15': ('Coq theorems about a hand model of the pub/sub listener loop and Redis retry loops + differential correspondence with '
            'PubSubManager / AsyncPubSubManager + Coq-checked checkers on implementation traces',
            'Proof about the model Listener/Listener.v (totality and compositionality of the loop for all message lists and fault scripts, '
            'inertness of ineffective messages, echo filter, foreign callbacks, Redis back-off) + correspondence on channel sequences with '
            'sentinels on both managers + fake redis.',
            'Trusted: Coq kernel + vm_compute; hand model tied by sampled correspondence; pickle/json decode oracle; fake redis module; '
            'the broker is an ordered reliable channel by assumption.', 'DESIGN.md section 6 C15'),
    'C10': ('Coq theorems about a hand model of the reconnection policy + differential correspondence with Client / AsyncClient over a fake engine.io client',
            'Proof about the model Reconnect/Reconnect.v (delay bounds, attempt limits, only-accidental, abort, single effort) for all '
            'parameters and fault scripts + correspondence on fault-script x parameter grids, waits observed through the wait primitive.',
            'Trusted: Coq kernel + vm_compute; hand model tied by sampled correspondence; fake engine.io client reproducing the state '
            'transitions socketio relies on; random.random patched to dyadic values.', 'DESIGN.md section 6 C10'),
    'C19': ('Coq theorems about a small-step interleaving model of SimpleClient.receive for all schedules + scheduled runs of the real SimpleClient / AsyncSimpleClient',
            'Proof about the model Simple/SimpleClient.v (FIFO, timeout only if empty, disconnected after drain, termination) for all '
            'schedules + deterministic scheduled runs of the real classes compared step for step.',
            'Trusted: Coq kernel + vm_compute; hand model and its choice of atomic steps; deterministic schedulers (instrumented events); '
            'fake Client class.', 'DESIGN.md section 6 C19'),
}

READY = {'C01', 'C03', 'C04', 'C05', 'C06', 'C10', 'C15', 'C19', 'C11', 'C12', 'C13', 'C14', 'C16', 'C17'}
NOT_YET = 'check not built yet in this round; planned as described in DESIGN.md section 6'


def main():
    props = [json.loads(l) for l in open(os.path.join(HERE, 'properties.jsonl'))]
    checks, na = [], []
    for p in props:
        cid = p['id']
        if cid in CLAIMED and cid in READY and os.path.exists(os.path.join(HERE, 'harness', 'props', cid.lower() + '.py')):
            tech, text, note, ref = CLAIMED[cid]
            checks.append({
                'property_id': cid,
                'quick_cmd': '%s harness/check.py %s --tier quick' % (PY, cid),
                'thorough_cmd': '%s harness/check.py %s --tier thorough' % (PY, cid),
                'evidence_file': 'evidence/%s.json' % cid,
                'replay_cmd_template': '%s harness/check.py %s --replay {path}' % (PY, cid),
                'engine': 'coq-model',
                'level_claimed': {'category': 'proof', 'text': text, 'design_ref': ref},
                'level_note': note,
                'technique': tech,
            })
        else:
            na.append({'property_id': cid, 'reason': NA.get(cid, NOT_YET)})
    m = {
        'version': 1,
        'setup_cmd': './setup.sh',
        'hooks': {
            'guard': 'PYTHON_SOCKETIO_VERIF',
            'enable': 'no source hook exists: the harness substitutes server.eio / client.eio / packet_class.json from outside; '
                      'PYTHON_SOCKETIO_VERIF is reserved and unused',
            'baseline_off_cmd': 'cd /repo && /venv/bin/python -m pytest -ra -q -p no:cacheprovider --timeout=900 '
                                '--continue-on-collection-errors',
            'source_commits': [],
            'add_only': True,
        },
        'engines': [{
            'name': 'coq-model', 'path': 'coq/',
            'serves_properties': [c['property_id'] for c in checks],
            'kind_free_text': 'Coq 8.16.1 development (stdlib only, no axioms): executable Gallina models of python-socketio, '
                              'property theorems in coq/Props, correspondence cases evaluated by vm_compute inside coqc '
                              '(harness/check.py), fail-closed py2coq translator for the declarative functions',
        }],
        'checks': checks,
        'not_applicable': na,
        'notes': 'See DESIGN.md. Evidence files are rewritten by every run of a check.',
    }
    with open(os.path.join(HERE, 'MANIFEST.json'), 'w') as f:
        json.dump(m, f, indent=1)
    print('MANIFEST.json: %d checks, %d not_applicable' % (len(checks), len(na)))


NA = {}

if __name__ == '__main__':
    main()
