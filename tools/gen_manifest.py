#!/venv/bin/python
"""Writes /verif/MANIFEST.json from the table below (kept in one place so that the
manifest is always valid and always in step with the checks that exist)."""
import json
import os

HERE = os.path.dirname(os.path.dirname(os.path.abspath(__file__)))
PY = '/venv/bin/python'

# id -> (technique, level text, level note, design ref)
CLAIMED = {
    'C01': ('Coq theorems about a hand model of packet.py (round trip, conformance to a spec-derived codec) + '
            'differential correspondence model/implementation evaluated by vm_compute + Coq-checked boolean checker on implementation output',
            'Proof (Coq 8.16.1) about the hand model Codec/Packet.v for all packets of the stated domain; the model is tied to '
            'src/socketio/packet.py on every run by differential execution on generated packets and a malformed frame stream '
            '(byte-exact frames, equal decoded fields / exception class), and the property checker c01_eval is evaluated inside Coq '
            'on what the implementation produced.',
            'Trusted: Coq kernel + vm_compute; the hand model and the sampled correspondence; json.loads as an oracle '
            '(round-trip theorems carry it as a hypothesis); generators; Python->Gallina printer. Top-level numeric payloads are '
            'outside the domain (wire format cannot carry them).',
            'DESIGN.md section 6 C01'),
}

NOT_YET = 'check not built yet in this round; planned as described in DESIGN.md section 6'


def main():
    props = [json.loads(l) for l in open(os.path.join(HERE, 'properties.jsonl'))]
    checks, na = [], []
    for p in props:
        cid = p['id']
        if cid in CLAIMED and os.path.exists(os.path.join(HERE, 'harness', 'props', cid.lower() + '.py')):
            tech, text, note, ref = CLAIMED[cid]
            checks.append({
                'property_id': cid,
                'quick_cmd': '%s harness/check.py %s --tier quick' % (PY, cid),
                'thorough_cmd': '%s harness/check.py %s --tier thorough' % (PY, cid),
                'evidence_file': 'evidence/%s.json' % cid,
                'replay_cmd_template': '%s harness/check.py %s --replay {path}' % (PY, cid),
                'engine': 'coq-model',
                'level_claimed': {'category': 'proof', 'text': text, 'design_ref': ref},
                'level_note': note,
                'technique': tech,
            })
        else:
            na.append({'property_id': cid, 'reason': NA.get(cid, NOT_YET)})
    m = {
        'version': 1,
        'setup_cmd': './setup.sh',
        'hooks': {
            'guard': 'PYTHON_SOCKETIO_VERIF',
            'enable': 'no source hook exists: the harness substitutes server.eio / client.eio / packet_class.json from outside; '
                      'PYTHON_SOCKETIO_VERIF is reserved and unused',
            'baseline_off_cmd': 'cd /repo && /venv/bin/python -m pytest -ra -q -p no:cacheprovider --timeout=900 '
                                '--continue-on-collection-errors',
            'source_commits': [],
            'add_only': True,
        },
        'engines': [{
            'name': 'coq-model', 'path': 'coq/',
            'serves_properties': [c['property_id'] for c in checks],
            'kind_free_text': 'Coq 8.16.1 development (stdlib only, no axioms): executable Gallina models of python-socketio, '
                              'property theorems in coq/Props, correspondence cases evaluated by vm_compute inside coqc '
                              '(harness/check.py), fail-closed py2coq translator for the declarative functions',
        }],
        'checks': checks,
        'not_applicable': na,
        'notes': 'See DESIGN.md. Evidence files are rewritten by every run of a check.',
    }
    with open(os.path.join(HERE, 'MANIFEST.json'), 'w') as f:
        json.dump(m, f, indent=1)
    print('MANIFEST.json: %d checks, %d not_applicable' % (len(checks), len(na)))


NA = {}

if __name__ == '__main__':
    main()
