#!/venv/bin/python
"""Writes /verif/MANIFEST.json from the table below (kept in one place so that the
manifest is always valid and always in step with the checks that exist)."""
import json
import os

HERE = os.path.dirname(os.path.dirname(os.path.abspath(__file__)))
PY = '/venv/bin/python'

# id -> (technique, level text, level note, design ref)
SRV_NOTE = ('Trusted: Coq kernel + vm_compute; hand models Server/Server.v + Manager/Manager.v + Codec/Packet.v tied by sampled '
            'correspondence (per-peer packet sequences, handler / callback sequences, API results, full canonical state dump) against '
            'socketio.Server and socketio.AsyncServer over real engine.io sockets built by hand; scripted handlers; json.loads oracle; '
            'engine.io id generator replaced by a counter.')


def srv(text, ref):
    return ('Coq theorems about the hand model of server.py/base_manager.py + differential correspondence with Server and '
            'AsyncServer evaluated by vm_compute + Coq-checked boolean checker judging the implementation\'s observations',
            text, SRV_NOTE, ref)


CLAIMED = {
    'C01': ('Coq theorems about a hand model of packet.py (round trip, conformance to a spec-derived codec) + '
            'differential correspondence model/implementation evaluated by vm_compute + Coq-checked boolean checker on implementation output',
            'Proof (Coq 8.16.1) about the hand model Codec/Packet.v for all packets of the stated domain: encode = spec_encode for every '
            'packet, reconstruct o deconstruct = id, decimal round trip, full round trip and interop with the spec-derived decoder '
            '(json.loads as a named oracle premise, hence "_partial", and discharged by the concrete parser Codec/JsonParse.v in '
            'C01_roundtrip_concrete, that parser being compared with json.loads on every run); the model is tied to src/socketio/packet.py on every run by '
            'differential execution on generated packets and a malformed frame stream (byte-exact frames, equal decoded fields / '
            'exception class), and the checker c01_eval (proved sound) is evaluated inside Coq on what the implementation produced.',
            'Trusted: Coq kernel + vm_compute; the hand model and the sampled correspondence; json.loads as an oracle '
            '(round-trip theorems carry it as a hypothesis); generators; Python->Gallina printer. Top-level numeric payloads are '
            'outside the domain (wire format cannot carry them, C01_number_payload_refuted).',
            'DESIGN.md section 6 C01'),
    'C03': srv('Proof about the model (invariant WF over all histories, recipients of emit = specification set) + correspondence on '
               'random histories + recipients checker on the packets the implementation queued.', 'DESIGN.md section 6 C03'),
    'C04': srv('Proof about the model of _handle_connect/_handle_disconnect/disconnect (sequential histories) + correspondence + '
               'Coq checker of the four connection outcomes, handler-once, fresh sids and disconnect-handler-exactly-once on the '
               'implementation; every interleaving of 2-3 concurrent terminating causes, and of a CONNECT whose coroutine handler is suspended '
               'with such causes, on the real AsyncServer under a gate scheduler against the interleaving models Conc/ServerConc.v (GAsync) '
               'and Conc/ConnConc.v (C04_once_async, C04_connect_in_progress_accept); thread races are C20.',
               'DESIGN.md section 6 C04'),
    'C05': srv('Proof about the model of event dispatch + correspondence + Coq checker (one handler call, one ACK to the sender only).',
               'DESIGN.md section 6 C05'),
    'C06': srv('Proof about the model of ack-id generation and trigger_callback + correspondence + Coq checker (unique ids, callback '
               'only for the outstanding (client, id), unknown ids without side effect, at most once); call() result shaping; 2-5 overlapping '
               'call()s / emits with callback with explicit send / timeout / ACK events against Manager/AckOverlap.v (C06_overlap_*).',
               'DESIGN.md section 6 C06'),
    'C11': srv('Proof about the model (no component mentions a departed transport) + full-state correspondence + Coq checker applied to '
               'the implementation\'s state dump + object-graph growth measurement; histories with async_handlers=True whose operations do '
               'not wait for the handler tasks, judged by the final-state checker at every quiescent point (C11_quiescent).',
               'DESIGN.md section 6 C11'),
    'C12': srv('Proof about the model (a frame from one transport changes nothing owned by another) + correspondence under a malformed '
               'stream + Coq checker on bystanders + with/without-offender comparison of the bystanders\' view + allocation guard + a packet '
               'processed from inside a broadcast\'s send (Server/EmitNested.v, C12_nested_run).', 'DESIGN.md section 6 C12'),
    'C16': srv('Proof about the model of the session store + correspondence + Coq checker replaying a specification store keyed by '
               '(sid, namespace), proved to accept the model\'s own run for every history without a namespace rejoin on one transport '
               '(C16_fold_run_except); one open finding (KNOWN_FINDINGS.txt).', 'DESIGN.md section 6 C16'),
    'C13': ('py2coq translation of the four lookup functions from /repo on every run; Coq theorems (generated function = six-level '
            'precedence spec for all registries/events/namespaces/args) re-proved against the regenerated text; ns2coq translation of the '
            'namespace classes\' trigger_event; theorems over all histories of registrations and events; exhaustive run on the real classes',
            'Proof by translation: the Gallina definitions are regenerated from base_server.py / base_client.py on every run and the '
            'theorems re-checked; plus exhaustive enumeration (2^6 x reserved x unrelated x 6 class/handler kinds) on the real classes '
            'compared in Coq with spec and generated functions; sequences of on() / register_namespace() / events over several instances of '
            'shared Namespace subclasses, observing which object ran (Routing/History.v, C13_*_history_routing).',
            'Trusted: Coq kernel; py2coq and ns2coq translators (validated each run by evaluating generated definitions against the real '
            'functions); hand model of _trigger_event tied by the exhaustive correspondence.', 'DESIGN.md section 5, 6 C13'),
    'C17': ('fwd2coq translation of every namespace helper and underlying signature from /repo on every run; Coq theorems per helper '
            '(forwards_ok for all argument values and all explicit-argument subsets) and per class over the life of a namespace object '
            '(attach, register, events dispatched, helper calls during and after dispatch); exhaustive run on the real classes',
            'Proof by translation: helper bodies and underlying signatures are regenerated each run; 30 per-helper theorems + cover + '
            'soundness re-checked; class descriptions (constructor writes, namespace a plain attribute, dispatch path writes nothing) '
            'regenerated and C17_life_* re-checked; exhaustive call shapes and object lives on the real classes compared in Coq.',
            'Trusted: Coq kernel; fwd2coq translator (validated against inspect.signature each run); bind_call model of Python argument '
            'binding (validated against CPython each run).', 'DESIGN.md section 5, 6 C17'),
    'C14': ('direct comparison, inside Coq, of the traces of the threaded and the asyncio member of each pair on the same scenario + '
            'Coq theorems that the comparison is an equivalence and that parity follows from correspondence of both members with one model',
            'The Coq content is thin by nature (parity relates two programs): theorems C14_checker_decides / equivalence / '
            'C14_parity_by_model / C14_pubsub_parity_by_model; the deciding evidence is the direct comparison of both members on every scenario plus the fact that every '
            'pair is compared with one shared deterministic model in the property that owns its driver.',
            'Trusted: Coq kernel + vm_compute; drivers of the owning properties (server pair incl. nested acks / nested broadcast, clients, '
            'reconnection, simple clients, pub/sub listener, pub/sub cluster with application handlers, forwarders); handlers inline.',
            'DESIGN.md section 6 C14'),
    'C15': ('Coq theorems about a hand model of the pub/sub listener loop and Redis retry loops + differential correspondence with '
            'PubSubManager / AsyncPubSubManager + Coq-checked checkers on implementation traces',
            'Proof about the model Listener/Listener.v (totality and compositionality of the loop for all message lists and all fault scripts '
            'of Exception faults - C15_total, with C15_total_except / C15_total_refuted delimiting BaseException faults -, real application '
            'callbacks incl. a coroutine callback awaiting a cancelled job, '
            'inertness of ineffective messages, echo filter, foreign callbacks, Redis back-off) + correspondence on channel sequences with '
            'sentinels on both managers + the real Redis _thread() loops over a subscription-tracking fake broker.',
            'Trusted: Coq kernel + vm_compute; hand model tied by sampled correspondence; pickle/json decode oracle; fake redis module; '
            'the broker is an ordered reliable channel by assumption.', 'DESIGN.md section 6 C15'),
    'C02': ('Coq theorems about a pipe model (sender packing + frames -> receiver reassembly + unpacking) built on the proved C01 round trip + '
            'loopback of the real Client<->Server / AsyncClient<->AsyncServer through the real engine.io codecs, judged in Coq',
            'Proof about E2E/Pipe.v (arguments, acks, call() results, order, both directions, default and msgpack serializers; json / msgpack '
            'libraries as named pointwise oracle premises, hence "_partial", the JSON one discharged by the concrete parser in C02_*_concrete) + '
            'bridge theorems to Server.v / Client.v + acknowledgement-table model E2E/AckTable.v for acknowledgements that arrive after a '
            'call() timed out (C02_ack_routing, C02_late_ack_own_value) + correspondence on 8 configurations with frames compared byte-exact '
            '(default) or as dicts (msgpack).',
            'Trusted: Coq kernel + vm_compute; hand models tied by the loopback correspondence; engine.io packet/payload codecs and msgpack are '
            'trusted dependencies; single sender per direction.', 'DESIGN.md section 6 C02'),
    'C08': ('Coq theorems about a hand model of client.py/async_client.py + differential correspondence with Client / AsyncClient over a fake engine.io client + Coq-checked checkers',
            'Proof about Client/Client.v (connect sends, wait all-or-error, bad namespace, reset, disconnect once per cause, per-packet mirror lemmas) + '
            'correspondence on generated histories (effects and state dump after every operation) + clause checkers on the implementation.',
            'Trusted: Coq kernel + vm_compute; hand model tied by sampled correspondence; fake engine.io client reproducing connect / send / '
            'disconnect / transport error / CLOSE / reset; the connect wait is modelled as a window (deterministic fake event).',
            'DESIGN.md section 6 C08'),
    'C09': ('Coq theorems about the client model (ack ids, callbacks, event dispatch, call()) + correspondence with Client / AsyncClient + Coq-checked checkers',
            'Proof about Client/Client.v (ack-id invariant over all histories, unique, at most once, unknown ignored, right namespace, event -> one '
            'handler + one ACK, call result / timeout) + correspondence + checkers on the implementation.',
            'Trusted: as C08.', 'DESIGN.md section 6 C09'),
    'C20': ('Coq theorems about a small-step interleaving model of the terminating paths at thread granularity (refutation, characterisation, '
            'safety outside the window) + exhaustive scheduled runs of the real threaded Server',
            'Proof about Conc/ServerConc.v: with the lock of the repaired tree (GLocked) the property holds for ALL schedules, any number of '
            'tasks and sessions (C20_all_schedules, C20_two_sessions_one_transport); without it (GThread, the pinned tree) it is refuted, every '
            'violating schedule goes through the check-then-mark window (C20_only_via_double_check) and a try-lock variant is refuted too; all '
            'interleavings of 2 (thorough: 3) terminating actions on one and on two sessions of a transport replayed on the real Server under a '
            'baton scheduler (instrumented lock honouring non-blocking acquires) and compared with the model.',
            'Trusted: Coq kernel + vm_compute; hand model and its choice of atomic steps (every manager / transport access); deterministic thread '
            'scheduler wrapping manager accessors, eio.send and handlers.', 'DESIGN.md section 6 C20'),
    'C07': ('Coq theorems about a cluster model (N hosts, one FIFO channel, per-host cursor) refining the single-server model + correspondence with '
            '2-4 real PubSubManager / AsyncPubSubManager instances on a shared in-memory channel',
            'Proof about Cluster/PubSub.v (immediate consumption = single server; no double delivery on origin; callback once on issuer; '
            'delayed consumption: at most once, eligibility, exactness for unraced messages) + correspondence under scheduled consumption.',
            'Trusted: Coq kernel + vm_compute; hand model tied by sampled correspondence; the broker is an ordered reliable channel by assumption; '
            'pickle as used by the bundled backends.', 'DESIGN.md section 6 C07'),
    'C18': ('admin2coq translation of admin_connect and of the registration block from /repo on every run + Coq theorems (auth decision iff '
            'documented condition; read-only registers no mutating handler; wrappers transparent) + side-by-side runs of plain and instrumented servers',
            'Proof by translation for the authentication decision and the registration block (re-proved each run), hand model of the wrappers, '
            'plus auth-payload mutations and application scenarios run on plain vs instrumented Server / AsyncServer.',
            'Trusted: Coq kernel; admin2coq translator (validated each run against the real method); hand model of the wrappers tied by side-by-side runs.',
            'DESIGN.md section 5, 6 C18'),
    'C10': ('Coq theorems about a hand model of the reconnection policy + differential correspondence with Client / AsyncClient over a fake engine.io client',
            'Proof about the model Reconnect/Reconnect.v (delay bounds, attempt limits, only-accidental, abort, single effort) for all '
            'parameters and fault scripts + correspondence on fault-script x parameter grids, waits observed through the wait primitive.',
            'Trusted: Coq kernel + vm_compute; hand model tied by sampled correspondence; fake engine.io client reproducing the state '
            'transitions socketio relies on; random.random patched to dyadic values.', 'DESIGN.md section 6 C10'),
    'C19': ('Coq theorems about a small-step interleaving model of SimpleClient.receive for all schedules + scheduled runs of the real SimpleClient / AsyncSimpleClient',
            'Proof about the model Simple/SimpleClient.v (FIFO, timeout only if empty, disconnected after drain, termination) for all '
            'schedules, and about Simple/SimpleTransport.v (what the real Client dispatches for a transport history; received = sent, '
            'C19_transport_fifo) + deterministic scheduled runs of the real classes, driven directly and through the real Client / AsyncClient '
            'over a scripted transport, compared step for step. One open known finding (C19_held_back_during_outage_refuted).',
            'Trusted: Coq kernel + vm_compute; hand model and its choice of atomic steps; deterministic schedulers (instrumented events); '
            'fake Client class / fake engine.io transport.', 'DESIGN.md section 6 C19'),
}

READY = {'C01', 'C02', 'C07', 'C08', 'C18', 'C03', 'C04', 'C05', 'C06', 'C09', 'C10', 'C15', 'C19', 'C20', 'C11', 'C12', 'C13', 'C14', 'C16', 'C17'}
NOT_YET = 'check not built yet in this round; planned as described in DESIGN.md section 6'


def main():
    props = [json.loads(l) for l in open(os.path.join(HERE, 'properties.jsonl'))]
    checks, na = [], []
    for p in props:
        cid = p['id']
        if cid in CLAIMED and cid in READY and os.path.exists(os.path.join(HERE, 'harness', 'props', cid.lower() + '.py')):
            tech, text, note, ref = CLAIMED[cid]
            checks.append({
                'property_id': cid,
                'quick_cmd': '%s harness/check.py %s --tier quick' % (PY, cid),
                'thorough_cmd': '%s harness/check.py %s --tier thorough' % (PY, cid),
                'evidence_file': 'evidence/%s.json' % cid,
                'replay_cmd_template': '%s harness/check.py %s --replay {path}' % (PY, cid),
                'engine': 'coq-model',
                'level_claimed': {'category': 'proof', 'text': text, 'design_ref': ref},
                'level_note': note,
                'technique': tech,
            })
        else:
            na.append({'property_id': cid, 'reason': NA.get(cid, NOT_YET)})
    m = {
        'version': 1,
        'setup_cmd': './setup.sh',
        'hooks': {
            'guard': 'PYTHON_SOCKETIO_VERIF',
            'enable': 'no source hook exists: the harness substitutes server.eio / client.eio / packet_class.json from outside; '
                      'PYTHON_SOCKETIO_VERIF is reserved and unused',
            'baseline_off_cmd': 'cd /repo && /venv/bin/python -m pytest -ra -q -p no:cacheprovider --timeout=900 '
                                '--continue-on-collection-errors',
            'source_commits': [],
            'add_only': True,
        },
        'engines': [{
            'name': 'coq-model', 'path': 'coq/',
            'serves_properties': [c['property_id'] for c in checks],
            'kind_free_text': 'Coq 8.16.1 development (stdlib only, no axioms): executable Gallina models of python-socketio, '
                              'property theorems in coq/Props, correspondence cases evaluated by vm_compute inside coqc '
                              '(harness/check.py), fail-closed py2coq translator for the declarative functions',
        }],
        'checks': checks,
        'not_applicable': na,
        'notes': 'See DESIGN.md. Evidence files are rewritten by every run of a check.',
    }
    with open(os.path.join(HERE, 'MANIFEST.json'), 'w') as f:
        json.dump(m, f, indent=1)
    print('MANIFEST.json: %d checks, %d not_applicable' % (len(checks), len(na)))


NA = {}

if __name__ == '__main__':
    main()
