#!/venv/bin/python
"""Confirm a seeded change independently: usage confirm_seed.py <Cxx> <seed dir with mN.diff / demo_mN.py> <mN>
 1. scratch worktree of /repo HEAD (outside /repo and /verif), demo on the clean tree must exit 0;
 2. apply the patch; demo must exit non-zero;
 3. the repository's own suite must still pass (the 7 tests that fail offline on the clean tree are deselected);
 4. copy patch + demo + meta.json to /verif/seeded/<Cxx>-<mN>/ ; remove the worktree."""
import json
import os
import shutil
import subprocess
import sys
import tempfile

DESELECT = ['tests/async/test_admin.py::TestAsyncAdmin::test_admin_connect_only_admin',
            'tests/async/test_admin.py::TestAsyncAdmin::test_admin_connect_production',
            'tests/async/test_admin.py::TestAsyncAdmin::test_admin_connect_with_others',
            'tests/common/test_admin.py::TestAdmin::test_admin_connect_only_admin',
            'tests/common/test_admin.py::TestAdmin::test_admin_connect_production',
            'tests/common/test_admin.py::TestAdmin::test_admin_connect_with_others',
            'tests/common/test_admin.py::TestAdmin::test_admin_features']


def sh(cmd, cwd=None, env=None, timeout=3000):
    p = subprocess.run(cmd, cwd=cwd, env=env, stdout=subprocess.PIPE, stderr=subprocess.STDOUT, text=True, timeout=timeout)
    return p.returncode, p.stdout


def main():
    cid, sdir, m = sys.argv[1], sys.argv[2], sys.argv[3]
    patch = os.path.join(sdir, m + '.diff')
    demo = os.path.join(sdir, 'demo_%s.py' % m)
    wt = tempfile.mkdtemp(prefix='confirm_%s_%s_' % (cid, m), dir='/tmp')
    os.rmdir(wt)
    meta = {'property': cid, 'change': m, 'confirmed': False}
    try:
        rc, out = sh(['git', '-C', '/repo', 'worktree', 'add', '-q', '--detach', wt, 'HEAD'])
        assert rc == 0, out
        env = dict(os.environ, PYTHONPATH=os.path.join(wt, 'src'), PYTHONHASHSEED='0')
        rc0, out0 = sh(['/venv/bin/python', demo], cwd=wt, env=env, timeout=300)
        meta['demo_clean_exit'] = rc0
        rc, out = sh(['git', '-C', wt, 'apply', patch])
        meta['applies'] = rc == 0
        if rc != 0:
            meta['error'] = out[-500:]
            return meta
        rc1, out1 = sh(['/venv/bin/python', demo], cwd=wt, env=env, timeout=300)
        meta['demo_changed_exit'] = rc1
        meta['demo_changed_tail'] = out1[-400:]
        cmd = ['/venv/bin/python', '-m', 'pytest', '-q', '-p', 'no:cacheprovider', '--timeout=900', 'tests']
        for d in DESELECT:
            cmd += ['--deselect', d]
        # the admin tests bind a fixed port: give every run its own network namespace
        import shlex
        inner = 'ip link set lo up; ' + ' '.join(shlex.quote(c) for c in cmd)
        rc2, out2 = sh(['unshare', '-rn', 'sh', '-c', inner], cwd=wt, env=env, timeout=3000)
        meta['suite_exit'] = rc2
        meta['suite_tail'] = out2.strip().split('\n')[-1][-200:]
        meta['confirmed'] = (rc0 == 0 and rc1 != 0 and rc2 == 0)
        meta['ran'] = ['demo on clean worktree (exit %d)' % rc0, 'demo with change (exit %d)' % rc1,
                       'pytest tests with change, 7 offline-failing tests deselected (exit %d)' % rc2]
        return meta
    finally:
        sh(['git', '-C', '/repo', 'worktree', 'remove', '--force', wt])
        shutil.rmtree(wt, ignore_errors=True)
        if meta.get('confirmed'):
            dst = os.path.join('/verif/seeded', '%s-%s' % (cid, m))
            os.makedirs(dst, exist_ok=True)
            shutil.copy(patch, os.path.join(dst, 'patch.diff'))
            shutil.copy(demo, os.path.join(dst, 'demo.py'))
            readme = os.path.join(sdir, 'README.md')
            if os.path.exists(readme):
                shutil.copy(readme, os.path.join(dst, 'AUTHOR_NOTES.md'))
            json.dump(meta, open(os.path.join(dst, 'meta.json'), 'w'), indent=1)
        print(json.dumps(meta))


if __name__ == '__main__':
    main()
