#!/bin/bash
# Whole-development audit: forbidden vernacular anywhere, full build, Print Assumptions of every property file.
cd /verif
/venv/bin/python - <<'PY'
import sys
sys.path.insert(0, '/verif/harness')
from vt import coqio
hits = coqio.grep_gate()
print('forbidden vernacular hits in the whole development:', len(hits))
for h in hits[:20]:
    print('  ', h)
PY
./setup.sh | tail -2
cd coq
tot=0; closed=0
for f in Props/*.v; do
  n=$(grep -c "^Theorem" $f)
  c=$(coqc -Q . VT $f 2>&1 | grep -c "Closed under the global context")
  a=$(coqc -Q . VT $f 2>&1 | grep -c "Axioms:")
  echo "$f theorems=$n closed=$c axioms_sections=$a"
  tot=$((tot+n)); closed=$((closed+c))
done
echo "TOTAL theorems=$tot closed=$closed"
