#!/venv/bin/python
"""Prints markdown summaries used in DESIGN.md: theorems per property, seeded-change detection matrix."""
import glob
import json
import os
import re

HERE = os.path.dirname(os.path.dirname(os.path.abspath(__file__)))


def theorems():
    print('| property | theorems in coq/Props (all closed under the global context) |')
    print('|---|---|')
    for f in sorted(glob.glob(os.path.join(HERE, 'coq/Props/C*.v'))):
        cid = os.path.basename(f)[:-2]
        src = open(f).read()
        names = re.findall(r'^Theorem\s+([A-Za-z0-9_\']+)', src, re.M)
        print('| %s | %d: %s |' % (cid, len(names), ', '.join('`%s`' % n for n in names)))


def seeds():
    print('| seeded change | breaks | what it needs to manifest | caught by (signatures) |')
    print('|---|---|---|---|')
    for d in sorted(glob.glob(os.path.join(HERE, 'seeded/*/'))):
        sid = os.path.basename(d.rstrip('/'))
        det = os.path.join(d, 'detection.txt')
        meta = os.path.join(d, 'meta.json')
        if not os.path.exists(meta):
            continue
        m = json.load(open(meta))
        txt = open(det).read() if os.path.exists(det) else ''
        checks = re.findall(r'== (C\d+\w*) exit=(\d+) ==', txt)
        sigs = re.findall(r'signature=([^:\s]+)', txt)
        caught = [c for c, e in checks if e != '0']
        missed = [c for c, e in checks if e == '0']
        what = m.get('summary', '')
        needs = m.get('needs', '')
        res = ('**%s**: %s' % (', '.join(caught), ', '.join(sorted(set(sigs)))[:160])) if caught else 'not run'
        if missed:
            res += ' (not flagged by %s)' % ', '.join(missed)
        print('| %s | %s | %s | %s |' % (sid, what, needs, res))


if __name__ == '__main__':
    import sys
    if len(sys.argv) > 1 and sys.argv[1] == 'seeds':
        seeds()
    else:
        theorems()
