#!/venv/bin/python
"""Regenerates the seeded-change table of DESIGN.md (between the SEEDS markers) from seeded/*/meta.json
and seeded/*/detection.txt."""
import subprocess, re, sys
tab = subprocess.run(['/venv/bin/python', '/verif/tools/summarize.py', 'seeds'], capture_output=True, text=True).stdout
tab = '\n'.join(l for l in tab.splitlines() if l.startswith('|'))
p = '/verif/DESIGN.md'
s = open(p).read()
b, e = '<!-- SEEDS-BEGIN -->', '<!-- SEEDS-END -->'
if b not in s:
    sys.exit('markers missing')
s = s[:s.index(b) + len(b)] + '\n' + tab + '\n' + s[s.index(e):]
open(p, 'w').write(s)
print('rows', tab.count('\n') - 1)
