#!/bin/bash
# Runs every confirmed seeded change against the check of the property it targets (plus extra checks
# given in seeded/<id>/extra_checks, if any) and records the verdict lines in seeded/<id>/detection.txt
# usage: tools/seed_matrix.sh [prefix ...]   (no argument: all)
cd /verif
for d in seeded/*/; do
  id=$(basename $d); prop=${id%%-*}
  [ -f $d/patch.diff ] || continue
  if [ $# -gt 0 ]; then ok=0; for p in "$@"; do [[ "$id" == $p* ]] && ok=1; done; [ $ok = 1 ] || continue; fi
  patch=$d/patch.diff; [ -f $d/patch_rebased.diff ] && patch=$d/patch_rebased.diff
  if ! git -C /repo apply --check $(readlink -f $patch) 2>/dev/null; then
    echo "#### $id: patch no longer applies on /repo HEAD (made before later fix commits); keeping earlier detection.txt"; continue
  fi
  extra=""; [ -f $d/extra_checks ] && extra=$(cat $d/extra_checks)
  echo "#### $id"
  { echo "repo HEAD $(git -C /repo rev-parse --short HEAD), patch $(basename $patch)"; tools/try_seed.sh $patch $prop $extra 2>&1 | grep -E "^==|^PASS|^FAIL|signature=" | cut -c1-220; } | tee $d/detection.txt
done
