#!/bin/bash
# Runs every confirmed seeded change against the check of the property it targets (plus extra checks
# given in seeded/<id>/extra_checks, if any) and records the verdict lines in seeded/<id>/detection.txt
cd /verif
for d in seeded/*/; do
  id=$(basename $d); prop=${id%%-*}
  [ -f $d/patch.diff ] || continue
  if [ -n "$1" ] && [[ "$id" != $1* ]]; then continue; fi
  extra=""; [ -f $d/extra_checks ] && extra=$(cat $d/extra_checks)
  echo "#### $id"
  tools/try_seed.sh $d/patch.diff $prop $extra 2>&1 | grep -E "^==|^PASS|^FAIL|signature=" | cut -c1-220 | tee $d/detection.txt
done
