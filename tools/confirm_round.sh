#!/bin/bash
# usage: tools/confirm_round.sh <round dir, e.g. /tmp/seed3> <mA> <mB> [Cxx ...]
# confirms every delivered change of a seeding round that is not yet under seeded/ (4 at a time)
R=$1; A=$2; B=$3; shift 3
ids=${@:-$(ls $R | grep -E '^C[0-9]+$')}
for id in $ids; do for m in $A $B; do
  [ -f $R/$id/_seed/$m.diff ] || continue
  [ -f /verif/seeded/$id-$m/meta.json ] && continue
  echo "$id $m"
done; done | xargs -P 6 -L 1 sh -c '/venv/bin/python /verif/tools/confirm_seed.py $0 '$R'/$0/_seed $1 > /tmp/confirm_$0_$1.log 2>&1; echo "$0 $1: $(grep -o "\"confirmed\": [a-z]*" /tmp/confirm_$0_$1.log)"'
