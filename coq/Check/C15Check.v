(* Case type and boolean checkers evaluated on what the implementation produced (C15). *)
From VT Require Export Listener.Listener Listener.RedisRetry.
Open Scope N_scope.

(* ---- structural equality of observations ---- *)
Definition opname_eqb (a b : opname) : bool :=
  match a, b with
  | OEmit, OEmit | OEnter, OEnter | OLeave, OLeave | OClose, OClose
  | OTrigger, OTrigger | OIsConn, OIsConn => true
  | _, _ => false
  end.
Definition eff_eqb (a b : eff) : bool :=
  match a, b with
  | EListen, EListen | ELogErr, ELogErr | ELogWarn, ELogWarn => true
  | ELogExc x, ELogExc y => exn_eqb x y
  | EOp o l, EOp o' l' => opname_eqb o o' && list_eqb pv_eqb l l'
  | ESend e p, ESend e' p' => pv_eqb e e' && pv_eqb p p'
  | ECallback n l, ECallback n' l' => N.eqb n n' && list_eqb pv_eqb l l'
  | EDisconnect s n q, EDisconnect s' n' q' => pv_eqb s s' && pv_eqb n n' && Bool.eqb q q'
  | EPublish m, EPublish m' => pv_eqb m m'
  | _, _ => false
  end.
Definition slot_eqb (a b : cbslot) : bool :=
  match a, b with
  | Counter x, Counter y => Z.eqb x y
  | CbApp x, CbApp y => N.eqb x y
  | CbRemote h a1 b1 c1, CbRemote h' a2 b2 c2 => pv_eqb h h' && pv_eqb a1 a2 && pv_eqb b1 b2 && pv_eqb c1 c2
  | _, _ => false
  end.
Definition pair_eqb {A B} (f : A -> A -> bool) (g : B -> B -> bool) (x y : A * B) : bool :=
  f (fst x) (fst y) && g (snd x) (snd y).
Definition mgr_eqb (a b : mgr) : bool :=
  list_eqb (pair_eqb pv_eqb (list_eqb (pair_eqb pv_eqb (list_eqb (pair_eqb pv_eqb pv_eqb))))) (rooms a) (rooms b) &&
  list_eqb (pair_eqb pv_eqb (list_eqb (pair_eqb pv_eqb slot_eqb))) (cbs a) (cbs b).
Definition effs_eqb := list_eqb eff_eqb.
Definition segs_eqb := list_eqb effs_eqb.

Definition revent_eqb (a b : revent) : bool :=
  match a, b with
  | RConnect, RConnect | RSubscribe, RSubscribe | RListen, RListen | REnd, REnd => true
  | RYield x, RYield y => pv_eqb x y
  | RSleep x, RSleep y => Z.eqb x y
  | RRaised x, RRaised y => exn_eqb x y
  | _, _ => false
  end.
Definition bevent_eqb (a b : bevent) : bool :=
  match a, b with
  | BSub, BSub | BUnsub, BUnsub | BConnect, BConnect => true
  | BDeliver x, BDeliver y | BLost x, BLost y => Nat.eqb x y
  | _, _ => false
  end.
Definition pevent_eqb (a b : pevent) : bool :=
  match a, b with
  | PConnect, PConnect | PPublish, PPublish | PGiveUp, PGiveUp | PEnd, PEnd => true
  | PRaised x, PRaised y => exn_eqb x y
  | _, _ => false
  end.

(* ---- scenarios ---- *)
Inductive tag :=
| TNone
| TBad                                    (* the generator claims: one of the ineffective classes *)
| TSent (eio ev : pv) (withcb : bool).    (* valid sentinel: an emit of event ev that must reach eio *)

Inductive c15case :=
| Lst (async : bool) (own : str) (init : mgr) (items : list (tag * item))
      (obsA : list (list eff)) (finA : mgr)     (* run on all items: [before first] ++ per item ++ [after last] *)
      (obsB : option (list (list eff))) (finB : option mgr)
                                                (* run with the TBad items removed; None = the harness found it
                                                   textually identical to run A without the TBad segments / to finA *)
| ApiMsg (model observed : pv)                  (* message built by the API method vs. the transcribed literal *)
| RL (channel : str) (script : list outcome) (obs : list revent)
| RP (script : list outcome) (obs : list pevent)
| RT (async : bool) (own : str) (items : list ritem)       (* the real RedisManager._thread over a fake broker *)
     (obs : list bevent) (sentinels : list bool).           (* was each sentinel's effect observed? *)

Definition is_bad (t : tag) : bool := match t with TBad => true | _ => false end.

(* first and last element are the loop's own prefix / suffix *)
Definition middle {A} (l : list A) : list A := removelast (tl l).

(* ---- the property evaluated on an observation ---- *)
Definition sentinel_seen (eio ev : pv) (withcb : bool) (seg : list eff) : bool :=
  existsb (fun e => match e with
                    | ESend eio' (PTuple [_; PList (ev' :: _); id]) =>
                        pv_eqb eio eio' && pv_eqb ev ev' &&
                        Bool.eqb withcb (match id with PNone => false | _ => true end)
                    | _ => false
                    end) seg.
Definition chk_sentinels (items : list (tag * item)) (segs : list (list eff)) : bool :=
  forallb (fun p => match fst (fst p) with
                    | TSent eio ev cb => sentinel_seen eio ev cb (snd p)
                    | _ => true
                    end) (combine items segs).

Definition foreign_callback (own : pv) (it : item) : bool :=
  match it with
  | IMsg m pk js _ =>
      match decode m pk js with
      | PDict kv => match aget (PStr k_method) kv with
                    | Some meth => py_eq meth (PStr k_callback) && negb (py_eq own (dget k_host_id kv))
                    | None => false
                    end
      | _ => false
      end
  | _ => false
  end.
Definition own_echo (own : pv) (it : item) : bool :=
  match it with
  | IMsg m pk js _ =>
      match decode m pk js with
      | PDict kv => match aget (PStr k_method) kv with
                    | Some meth => negb (py_eq meth (PStr k_callback)) && py_eq (dget k_host_id kv) own
                    | None => false
                    end
      | _ => false
      end
  | _ => false
  end.
Definition is_nil {A} (l : list A) : bool := match l with [] => true | _ => false end.
(* an acknowledgement addressed to another host does nothing here;
   a non-callback message carrying this host's id is not applied *)
Definition chk_ignored (own : pv) (items : list (tag * item)) (segs : list (list eff)) : bool :=
  forallb (fun p => if foreign_callback own (snd (fst p)) || own_echo own (snd (fst p))
                    then is_nil (snd p) else true) (combine items segs).

(* the tagged messages are ineffective: nothing observable while they are handled, and the
   run without them shows the same observable effects item by item and the same final state *)
Definition chk_inert (items : list (tag * item)) (segsA segsB : list (list eff)) (finA finB : mgr) : bool :=
  let za := combine items segsA in
  forallb (fun p => if is_bad (fst (fst p)) then is_nil (filter observable (snd p)) else true) za &&
  segs_eqb (map (fun p => filter observable (snd p)) (filter (fun p => negb (is_bad (fst (fst p)))) za))
           (map (filter observable) segsB) &&
  mgr_eqb finA finB.

(* the generator's TBad tags are checked against the specification's classes, in the model's
   state at that point of the channel *)
Fixpoint tags_justified (own : pv) (async : bool) (s : mgr) (items : list (tag * item)) : bool :=
  match items with
  | [] => true
  | (t, it) :: rest =>
      (if is_bad t then match classify own s it with Some _ => true | None => false end else true) &&
      tags_justified own async (fst (step own async s it)) rest
  end.
Fixpoint has_counter_class (own : pv) (async : bool) (s : mgr) (items : list (tag * item)) : bool :=
  match items with
  | [] => false
  | (t, it) :: rest =>
      (is_bad t && match classify own s it with Some BCallbackCounter => true | _ => false end) ||
      has_counter_class own async (fst (step own async s it)) rest
  end.

(* the defect behind signature c15-callback-id0-pops-counter, recognised on the observed final state:
   some callbacks[sid] has lost key 0, the id generator (it is created with the dict and nothing may
   ever delete it) *)
Definition counter_lost (fin : mgr) : bool :=
  existsb (fun p : pv * list (pv * cbslot) =>
             match aget (PInt 0%Z) (snd p) with Some (Counter _) => false | _ => true end) (cbs fin).

Definition lst_corr (async : bool) (own : pv) (init : mgr) (its : list item)
           (obs : list (list eff)) (fin : mgr) : bool :=
  match thread own async init its, run own async init its with
  | (s, effs, en), (s2, segs) =>
      match en with
      | Exited =>
          mgr_eqb s fin && mgr_eqb s2 fin &&
          effs_eqb effs (List.concat obs) &&
          segs_eqb ([EListen] :: segs ++ [[ELogErr]]) obs
      | Stopped =>                         (* the model's listener ended on a CancelledError: the fold [run] does
                                              not apply; the flat effect list and the state are compared *)
          mgr_eqb s fin && effs_eqb effs (List.concat obs)
      | OutOfFuel => false
      end
  end.

(* the observed listener read the channel to its end: its last act is the logger.error after the for loop *)
Definition listener_finished (obs : list (list eff)) : bool := effs_eqb (last obs []) [ELogErr].

Definition lst_prop (own : pv) (items : list (tag * item)) (obsA obsB : list (list eff)) (finA finB : mgr) : bool :=
  let segsA := middle obsA in
  let segsB := middle obsB in
  Nat.eqb (List.length segsA) (List.length items) &&
  chk_sentinels items segsA &&
  chk_ignored own items segsA &&
  chk_inert items segsA segsB finA finB.

(* run A's observation with the segments of the TBad items removed *)
Definition without_bad (items : list (tag * item)) (obsA : list (list eff)) : list (list eff) :=
  hd [] obsA :: map snd (filter (fun p : tag * item * list eff => negb (is_bad (fst (fst p))))
                                (combine items (middle obsA))) ++ [last obsA []].
Definition obsB_of items obsA (obsB : option (list (list eff))) :=
  match obsB with Some o => o | None => without_bad items obsA end.
Definition finB_of (finA : mgr) (finB : option mgr) := match finB with Some f => f | None => finA end.

Definition bits (corr prop : bool) : nat :=
  ((if corr then 0 else 1) + (if prop then 0 else 2))%nat.

Definition c15_eval (c : c15case) : nat :=
  match c with
  | Lst async own init items obsA finA obsB0 finB0 =>
      let o := PStr own in
      let obsB := obsB_of items obsA obsB0 in
      let finB := finB_of finA finB0 in
      let its := map snd items in
      let itsB := map snd (filter (fun p => negb (is_bad (fst p))) items) in
      (bits (lst_corr async o init its obsA finA && lst_corr async o init itsB obsB finB)
            (lst_prop o items obsA obsB finA finB)
       + (if tags_justified o async init items then 0 else 4)
       + (if counter_lost finA then 8 else 0)
       + (if listener_finished obsA then 0 else 16))%nat
  | ApiMsg model observed => bits (pv_eqb model observed) true
  | RL channel script obs =>
      bits (list_eqb revent_eqb (listen_run channel script) obs)
           (if redis_only channel script then
              match script with
              | LRedisError :: _ => true      (* the first subscribe is outside the retry loop: _thread restarts _listen *)
              | _ => backoff_ok 1%Z obs && ends_with_end obs
              end
            else true)
  | RP script obs =>
      bits (list_eqb pevent_eqb (pub_run script) obs)
           (if no_other script then pub_no_raise obs && Nat.leb (count_publish obs) 1 else true)
  | RT async own items obs sentinels =>
      bits (list_eqb bevent_eqb (rt_model (PStr own) async items) obs)
           (deliveries_ok false obs && forallb (fun b => b) sentinels)
  end.

(* shown by --replay: the clauses one by one
   [model=run A; model=run B; one segment per item; sentinels delivered; foreign acks and own echoes
    ignored; tagged messages ineffective; tags justified; no id generator lost (final state);
    no counter-class message in the scenario; the listener read the channel to its end] *)
Definition c15_clauses (c : c15case) : list bool :=
  match c with
  | Lst async own init items obsA finA obsB0 finB0 =>
      let o := PStr own in
      let obsB := obsB_of items obsA obsB0 in
      let finB := finB_of finA finB0 in
      let its := map snd items in
      let itsB := map snd (filter (fun p => negb (is_bad (fst p))) items) in
      [lst_corr async o init its obsA finA; lst_corr async o init itsB obsB finB;
       Nat.eqb (List.length (middle obsA)) (List.length items);
       chk_sentinels items (middle obsA); chk_ignored o items (middle obsA);
       chk_inert items (middle obsA) (middle obsB) finA finB;
       tags_justified o async init items; negb (counter_lost finA);
       negb (has_counter_class o async init items); listener_finished obsA]
  | _ => []
  end.

(* shown by --replay: what the model computes for the case *)
Definition c15_explain (c : c15case) :=
  match c with
  | Lst async own init items obsA finA obsB finB =>
      (Some (thread (PStr own) async init (map snd items),
             run (PStr own) async init (map snd (filter (fun p => negb (is_bad (fst p))) items))),
       None, None)
  | ApiMsg model observed => (None, None, None)
  | RL channel script obs => (None, Some (listen_run channel script), None)
  | RP script obs => (None, None, Some (pub_run script))
  | RT async own items obs sentinels => (None, None, None)
  end.
