(* Meaning of the boolean checkers of Check/C07Check.v, and: every run of the model passes the
   delivery checker that is applied to the implementation's traces. *)
From VT Require Import Manager.ManagerProofs.
From VT Require Import Cluster.PubSub Cluster.ClusterLemmas Cluster.ClusterProofs Check.C07Check.
From Coq Require Import Permutation.
Open Scope N_scope.

Lemma opt_eqb_eq {A} (f : A -> A -> bool) :
  (forall x y, f x y = true <-> x = y) -> forall a b, opt_eqb f a b = true <-> a = b.
Proof.
  intros Hf [x|] [y|]; cbn; split; intro H; try discriminate; try reflexivity.
  - apply Hf in H. congruence.
  - injection H as ->. apply Hf. reflexivity.
Qed.

Lemma pkt_eqb_eq a b : pkt_eqb a b = true <-> a = b.
Proof.
  split.
  - destruct a, b; cbn [pkt_eqb]; intro H; try discriminate.
    + apply andb_true_iff in H as [H H3]. apply andb_true_iff in H as [H1 H2].
      apply str_eqb_eq in H1. apply (list_eqb_eq pv_eqb pv_eqb_eq) in H2. apply (opt_eqb_eq N.eqb N.eqb_eq) in H3. congruence.
    + apply andb_true_iff in H as [H1 H2]. apply str_eqb_eq in H1, H2. congruence.
    + apply str_eqb_eq in H. congruence.
    + apply str_eqb_eq in H. congruence.
  - intros <-. destruct a; cbn [pkt_eqb]; rewrite ?str_eqb_refl; try reflexivity.
    cbn [andb]. apply andb_true_iff. split.
    + apply (list_eqb_eq pv_eqb pv_eqb_eq). reflexivity.
    + apply (opt_eqb_eq N.eqb N.eqb_eq). reflexivity.
Qed.
Lemma dl_eqb_eq a b : dl_eqb a b = true <-> a = b.
Proof.
  destruct a as [e1 p1], b as [e2 p2]. unfold dl_eqb. cbn [fst snd]. split; intro H.
  - apply andb_true_iff in H as [H1 H2]. apply str_eqb_eq in H1. apply pkt_eqb_eq in H2. congruence.
  - injection H as -> ->. rewrite str_eqb_refl. apply pkt_eqb_eq. reflexivity.
Qed.

Section Bag.
  Context {A : Type} (f : A -> A -> bool).
  Hypothesis Hf : forall x y, f x y = true <-> x = y.

  Lemma remove1_some x l l' : remove1 f x l = Some l' -> Permutation l (x :: l').
  Proof.
    revert l'. induction l as [|y l IH]; intros l' H; cbn [remove1] in H; [discriminate|].
    destruct (f x y) eqn:E.
    - injection H as <-. apply Hf in E. subst. apply Permutation_refl.
    - destruct (remove1 f x l) as [r|] eqn:Er; [|discriminate]. injection H as <-.
      eapply Permutation_trans; [apply perm_skip; apply IH; reflexivity|]. apply perm_swap.
  Qed.
  Lemma remove1_none x l : remove1 f x l = None -> ~ In x l.
  Proof.
    induction l as [|y l IH]; intros H Hin; cbn [remove1] in H; [destruct Hin|].
    destruct (f x y) eqn:E; [discriminate|].
    destruct (remove1 f x l) eqn:Er; [discriminate|].
    destruct Hin as [->|Hin]; [|apply IH; auto].
    assert (f x x = true) by (apply Hf; reflexivity). congruence.
  Qed.

  (* the boolean multiset comparison decides "is a permutation of" *)
  Lemma bag_eqb_perm a : forall b, bag_eqb f a b = true <-> Permutation a b.
  Proof.
    induction a as [|x a IH]; intro b; cbn [bag_eqb].
    - destruct b; split; intro H; try reflexivity; try discriminate.
      apply Permutation_nil in H. discriminate.
    - destruct (remove1 f x b) as [b'|] eqn:E.
      + rewrite IH. pose proof (remove1_some _ _ _ E) as Hp. split; intro H.
        * eapply Permutation_trans; [apply perm_skip; exact H|]. apply Permutation_sym. exact Hp.
        * apply (Permutation_cons_inv (a:=x)). eapply Permutation_trans; [exact H|exact Hp].
      + split; [discriminate|]. intro H. exfalso. apply (remove1_none _ _ E).
        eapply Permutation_in; [exact H|left; reflexivity].
  Qed.
End Bag.

(* the delivery comparison of the immediate checker, on bare effect lists *)
Fixpoint deliveries_okb (a b : list (list eff)) : bool :=
  match a, b with
  | [], [] => true
  | x :: a', y :: b' => bag_eqb dl_eqb (deliveries x) (deliveries y) && deliveries_okb a' b'
  | _, _ => false
  end.
Lemma imm_deliveries_ok_eq c : imm_deliveries_ok c = deliveries_okb (k_obs c) (k_single c).
Proof.
  unfold imm_deliveries_ok. generalize (k_obs c) (k_single c).
  induction l as [|x a IH]; intros [|y b]; cbn; try reflexivity; try (rewrite IH; reflexivity).
Qed.
Lemma deliveries_okb_spec a b : deliveries_okb a b = true <-> Forall2 deliveries_agree a b.
Proof.
  revert b. induction a as [|x a IH]; intros [|y b]; cbn [deliveries_okb]; split; intro H;
    try discriminate; try (inversion H; fail); try constructor.
  - apply andb_true_iff in H as [H1 H2]. apply (bag_eqb_perm dl_eqb dl_eqb_eq) in H1. exact H1.
  - apply andb_true_iff in H as [H1 H2]. apply IH. exact H2.
  - inversion H; subst. apply andb_true_iff. split; [apply (bag_eqb_perm dl_eqb dl_eqb_eq); assumption|apply IH; assumption].
Qed.

(* every run of the model under immediate consumption passes the checker applied to the implementation *)
Theorem chk_immediate_model (place : str -> nat) wos ops :
  Forall (wf_op place (cluster_init wos)) ops ->
  deliveries_okb (snd (run_imm (cluster_init wos) ops)) (snd (run_single single_init ops)) = true.
Proof.
  intro H. apply deliveries_okb_spec. apply (immediate_refines place wos ops H).
Qed.
