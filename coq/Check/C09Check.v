(* C09: client events and acknowledgements: one handler, one ACK, callback once.
   Mirror image of C05 / C06 on the client. *)
From VT Require Export Client.CliCheck.
Open Scope N_scope.

(* the EVENT / ACK this engine.io message carries or completes, if any *)
Inductive spk := SEvent (ns : option str) (id : option Z) (data : pv)
               | SAck (ns : option str) (id : option Z) (data : pv) | SNone.
Definition packet_of (s : cli) (payload : pv) (tbl : jtable) : spk :=
  match binpkt s with
  | Some r => match add_attachment r payload with
              | Ok (r', true) => if type_is (rp r') BINARY_EVENT
                                 then SEvent (pns (rp r')) (pid (rp r')) (pdata (rp r'))
                                 else SAck (pns (rp r')) (pid (rp r')) (pdata (rp r'))
              | _ => SNone end
  | None => match decode (table_loads tbl) payload with
            | Ok r => if type_is (rp r) EVENT then SEvent (pns (rp r)) (pid (rp r)) (pdata (rp r))
                      else if type_is (rp r) ACK then SAck (pns (rp r)) (pid (rp r)) (pdata (rp r))
                      else SNone
            | Err _ => SNone end
  end.

(* the id carried by an emitted EVENT frame *)
Definition frame_id (piece : pv) : option Z :=
  match piece with
  | PStr f => match decode_str (fun _ => Ok PNone) f with Ok r => pid (rp r) | Err _ => None end
  | _ => None
  end.
(* callbacks[ns] as dumped: next value of the id generator and the outstanding ids (a dict has one entry per key) *)
Fixpoint dump_slot_in (l : list (str * N * list N)) (ns : str) : option (N * list N) :=
  match l with
  | [] => None
  | (k, nxt, ids) :: r => if str_eqb k ns then Some (nxt, ids) else dump_slot_in r ns
  end.
Definition dump_slot (d : cdump) (ns : str) : option (N * list N) := dump_slot_in (d_cbs d) ns.
Definition dump_ids (d : cdump) (ns : str) : list N :=
  match dump_slot d ns with Some (_, ids) => ids | None => [] end.
Definition emit_list (data : pv) : list pv := match data with PTuple l => l | PNone => [] | x => [x] end.

Definition B_EVENT := 4%nat.
Definition B_UNIQUE := 8%nat.
Definition B_ACK := 16%nat.       (* at most once, right namespace and id *)
Definition B_UNKNOWN := 32%nat.   (* unknown / repeated / id 0 / foreign ACKs ignored *)
Definition B_CALL := 64%nat.
Definition flag (ok : bool) (b : nat) : nat := if ok then O else b.

Definition no_api_effects (obs : list eff) : bool :=
  match cbcalls_of obs, rets_of obs, raised_of obs with [], [], [] => true | _, _, _ => false end.

(* model state before, implementation dump before, operation, observed effects, dump after *)
Definition c09_step (c : cfg) (s : cli) (dprev : cdump) (o : op) (obs : list eff) (d : cdump) : nat :=
  match o with
  | CMsg payload tbl =>
      if negb (eiost_eqb (eio_state s) EConnected) then O else
      match packet_of s payload tbl with
      | SNone => O
      | SEvent pn id data =>
          let ns := ns_or_default pn in
          match split_event data with
          | Err _ => flag (match obs with [] => true | _ => false end) B_EVENT
          | Ok (PStr evs, args) =>
              let ev := PStr evs in
              if reserved ev then O else
              let '(calls, result) :=
                match responsible c ev ns args with
                | None => ([], Some PNone)                      (* nobody responsible: still acknowledged *)
                | Some (h, a) => if arity_fits c h (List.length a) then ([(h, a)], returns c h) else ([], None)
                end in
              flag (calls_eqb (calls_of obs) calls && no_api_effects obs &&
                    match id, result with
                    | Some i, Some v =>
                        match frames_of ACK (PList (pack v)) ns (Some i) with
                        | Ok fr => list_eqb pv_eqb (sent_of obs) fr
                        | Err _ => true
                        end
                    | _, _ => match sent_of obs with [] => true | _ => false end
                    end) B_EVENT
          | Ok _ => O
          end
      | SAck pn id data =>
          let ns := ns_or_default pn in
          match outstanding (callbacks s) ns id, id with
          | Some cb, Some i =>
              flag (match cb, star_args data with
                    | CbUser n, Ok args => list_eqb eff_eqb obs [CbCall n args]
                    | _, _ => match obs with [] => true | _ => false end
                    end && negb (existsb (N.eqb (Z.to_N i)) (dump_ids d ns))) B_ACK
          | _, _ =>
              (* unknown, already used, id 0, foreign or never issued id: no effect, no state change *)
              flag (match obs with [] => true | _ => false end &&
                    dump_eqb d (mkDump (d_connected dprev) (d_namespaces dprev) (d_cbs dprev) (d_binpkt_none d)
                                       (d_sid dprev) (d_eio dprev))) B_UNKNOWN
          end
      end
  | CEmit _ _ pn (Some _) | CSend _ pn (Some _) | CCall _ _ pn _ _ =>
      let ns := ns_or_default pn in
      if negb (ahas str_eqb (namespaces s) ns) then O else
      (* the id used is the value the generator was at: positive, not outstanding before, and it is the id
         the EVENT carries (the frames are exactly the encoding of the EVENT with that id) *)
      let evname := match o with CEmit ev _ _ _ | CCall ev _ _ _ _ => ev | _ => ev_message end in
      let data := match o with CEmit _ x _ _ | CSend x _ _ | CCall _ x _ _ _ => x | _ => PNone end in
      let uniq :=
        match dump_slot d ns with
        | Some (nxt, _) =>
            let i := nxt - 1 in
            (1 <=? i) &&
            match outstanding (callbacks s) ns (Some (Z.of_N i)) with None => true | Some _ => false end &&
            (if eiost_eqb (eio_state s) EConnected then
               match frames_of EVENT (PList (PStr evname :: emit_list data)) ns (Some (Z.of_N i)) with
               | Ok fr => list_eqb pv_eqb (firstn (List.length fr) (sent_of obs)) fr
               | Err _ => true
               end
             else true)
        | None => false
        end in
      let callres :=
        match o with
        | CCall _ _ _ reply _ =>
            match binpkt s, eio_state s, reply with
            | None, EConnected, Some r => list_eqb pv_eqb (rets_of obs) [shape_result r] &&
                                          match raised_of obs with [] => true | _ => false end
            | None, EConnected, None => list_eqb eff_eqb (skipn (List.length (sent_of obs)) obs) [Raised TimeoutError]
            | _, _, _ => true
            end
        | _ => true
        end in
      (flag uniq B_UNIQUE + flag callres B_CALL)%nat
  | _ => O
  end.

Fixpoint c09_steps (c : cfg) (s : cli) (dprev : cdump) (ops : list op) (obs : list (list eff * cdump)) : nat :=
  match ops, obs with
  | o :: r, (e, d) :: es =>
      match c09_step c s dprev o e d with
      | O => c09_steps c (fst (step c s o)) d r es
      | m => m
      end
  | _, _ => O
  end.

(* over the whole history every application callback is invoked at most once *)
Fixpoint nodup_n (l : list N) : bool :=
  match l with [] => true | x :: r => negb (existsb (N.eqb x) r) && nodup_n r end.
Definition c09_once (obs : list (list eff * cdump)) : bool :=
  nodup_n (map fst (cbcalls_of (List.concat (map fst obs)))).

Definition c09_mask (k : ccase) : nat :=
  match c09_steps (k_cfg k) cli_init dump_init (k_ops k) (k_obs k) with
  | O => flag (c09_once (k_obs k)) B_ACK
  | m => m
  end.
Definition c09_eval (k : ccase) : nat := bits (corr_ok k) (c09_mask k).

Fixpoint c09_first (c : cfg) (s : cli) (dprev : cdump) (ops : list op) (obs : list (list eff * cdump)) (i : nat)
  : option (nat * nat) :=
  match ops, obs with
  | o :: r, (e, d) :: es =>
      match c09_step c s dprev o e d with
      | O => c09_first c (fst (step c s o)) d r es (S i)
      | m => Some (i, m)
      end
  | _, _ => None
  end.
Definition c09_where (k : ccase) := c09_first (k_cfg k) cli_init dump_init (k_ops k) (k_obs k) 0.
(* code used by the harness: bit 1 = correspondence, bit 2 = property, bits 4..64 = clauses of the
   first failing operation, index of that operation times 1024 *)
Definition c09_code (k : ccase) : nat :=
  ((if corr_ok k then 0 else 1) +
   match c09_where k with
   | Some (i, m) => 2 + m + 1024 * i
   | None => if c09_once (k_obs k) then 0 else 2 + B_ACK
   end)%nat.
