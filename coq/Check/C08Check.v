(* C08: client state mirrors the server; disconnect reported once per namespace.
   The checker replays the SERVER's view of a history (which namespaces it accepted and has
   not ended, with the sids it sent) and compares it with what the IMPLEMENTATION did and
   with the implementation's state dump after every operation. *)
From VT Require Export Client.CliCheck.
Open Scope N_scope.

(* ---- the server's view ---- *)
Record sview := mkSV {
  sv_acc : list (str * pv);     (* namespaces accepted and not ended, with the sid the server sent *)
  sv_live : bool;               (* the transport is up *)
  sv_req : list str;            (* namespaces requested by the current connection *)
  sv_clean : bool;              (* connect() returned normally, no refusal / no DISCONNECT before it returned *)
  sv_ever : bool                (* some namespace was accepted on this transport *)
}.
Definition sv_init : sview := mkSV [] false [] false false.
Definition sv_down (sv : sview) : sview := mkSV [] false (sv_req sv) false false.

(* what a message from the server is, given the client's reassembly state *)
Inductive spkt :=
| SConnect (ns : str) (data : pv) | SDisconnect (ns : str) | SError (ns : str) (data : pv) | SOther.
Definition classify (s : cli) (payload : pv) (tbl : jtable) : spkt :=
  match binpkt s with
  | Some _ => SOther                                   (* an attachment of a pending binary packet *)
  | None =>
      match decode (table_loads tbl) payload with
      | Ok r =>
          let p := rp r in
          if type_is p CONNECT then SConnect (ns_or_default (pns p)) (pdata p)
          else if type_is p DISCONNECT then SDisconnect (ns_or_default (pns p))
          else if type_is p CONNECT_ERROR then SError (ns_or_default (pns p)) (pdata p)
          else SOther
      | Err _ => SOther
      end
  end.

(* the notifications ending a namespace calls for: 'disconnect' with the reason, then the internal
   '__disconnect_final' (judged, never expected to invoke an application handler) *)
Definition notify_end (c : cfg) (reason : pv) (ns : str) : option (list (N * list pv)) :=
  match notify c ev_final ns [] with
  | Some _ => notify c ev_disconnect ns [reason]
  | None => None
  end.

Definition error_args (data : pv) : list pv :=
  match data with PNone => [] | PTuple l | PList l => l | x => [x] end.

(* effect of one server packet on the view; also: the connect / connect_error / disconnect
   notifications it calls for (None = not specified), and whether the packet is inside the
   protocol domain (a DISCONNECT for a namespace that is not connected is not) *)
Record pstep := mkPS { ps_view : sview; ps_calls : option (list (N * list pv)); ps_dom : bool }.
Definition sv_packet (c : cfg) (own : pv) (sv : sview) (p : spkt) : pstep :=
  match p with
  | SConnect ns data =>
      if ahas str_eqb (sv_acc sv) ns then mkPS sv (Some []) false else
      match connect_sid data own with
      | Ok v => mkPS (mkSV (aset str_eqb (sv_acc sv) ns v) (sv_live sv) (sv_req sv) (sv_clean sv) true)
                     (notify c ev_connect ns []) true
      | Err _ => mkPS sv (Some []) false
      end
  | SDisconnect ns =>
      if ahas str_eqb (sv_acc sv) ns then
        mkPS (mkSV (adel str_eqb (sv_acc sv) ns) (sv_live sv) (sv_req sv) (sv_clean sv) (sv_ever sv))
             (notify_end c r_server_disconnect ns) true
      else mkPS sv None false
  | SError ns data =>
      mkPS (mkSV (if str_eqb ns slash then [] else adel str_eqb (sv_acc sv) ns) (sv_live sv) (sv_req sv) false (sv_ever sv))
           (notify c ev_connect_error ns (error_args data)) true
  | SOther => mkPS sv (Some []) true
  end.


(* the packets of a connect() wait window, classified along the MODEL's reassembly state.  A
   DISCONNECT that ends the last accepted namespace makes the client close the transport: the rest
   of the window never arrives.  Returns the view, the connect / connect_error notifications the
   window calls for, and whether a DISCONNECT ended a namespace. *)
Definition is_disc (p : spkt) : bool := match p with SDisconnect _ => true | _ => false end.
(* the connect / connect_error notifications one window packet calls for (None = a handler raises) *)
Definition win_here (p : spkt) (st : pstep) : option (list (N * list pv)) :=
  if ps_dom st
  then (if is_disc p then match ps_calls st with Some _ => Some [] | None => None end else ps_calls st)
  else Some [].
(* the packet ended a namespace / ended the last one: the client closes the transport *)
Definition win_ended (p : spkt) (st : pstep) : bool := is_disc p && ps_dom st.
Definition win_stop (p : spkt) (st : pstep) : bool :=
  win_ended p st && match sv_acc (ps_view st) with [] => true | _ => false end.
Fixpoint sv_window (c : cfg) (s : cli) (sv : sview) (w : list (pv * jtable))
  : sview * option (list (N * list pv)) * bool :=
  match w with
  | [] => (sv, Some [], false)
  | (payload, tbl) :: r =>
      let p := classify s payload tbl in
      let st := sv_packet c (sid s) sv p in
      if win_stop p st then (ps_view st, win_here p st, true)
      else
      let '(sv', calls, disc) := sv_window c (fst (fst (deliver c payload tbl s))) (ps_view st) r in
      (sv', opt_app (win_here p st) calls, disc || win_ended p st)
  end.

(* ---- clauses ---- *)
Definition B_SENDS := 4%nat.      (* connect_sends *)
Definition B_WAIT := 8%nat.       (* wait_all_or_error *)
Definition B_MIRROR := 16%nat.    (* mirror *)
Definition B_BADNS := 32%nat.     (* bad_namespace *)
Definition B_ONCE := 64%nat.      (* disconnect_once / connect once *)
Definition B_RESET := 128%nat.    (* reset *)
Definition flag (ok : bool) (b : nat) : nat := if ok then O else b.

Definition is_connect_frame (p : pv) : bool := match p with PStr (48 :: _) => true | _ => false end.
Definition ev_names_conn := [s2l "connect"; s2l "connect_error"].
Definition ev_names_disc := [s2l "disconnect"].
Definition ev_names_all := [s2l "connect"; s2l "connect_error"; s2l "disconnect"].

Definition calls_match (exp : option (list (N * list pv))) (got : list (N * list pv)) : bool :=
  match exp with Some l => calls_eqb l got | None => true end.
Definition last_eff (l : list eff) : option eff := List.last (map Some l) None.
Definition ends_ret (l : list eff) : bool :=
  match last_eff l with Some (Ret PNone) => true | _ => false end && match raised_of l with [] => true | _ => false end.
Definition ends_raise (x : exn) (l : list eff) : bool :=
  match last_eff l with Some (Raised y) => exn_eqb x y | _ => false end.


(* finite-map equality of the namespace tables *)
Definition nsmap_eqb (a b : list (str * pv)) : bool :=
  list_eqb (pair_eqb str_eqb pv_eqb) a b ||
  (Nat.eqb (List.length a) (List.length b) &&
   forallb (fun x => match aget str_eqb b (fst x) with Some v => pv_eqb v (snd x) | None => false end) a).

(* mirror + reset, on the implementation's dump after an operation *)
Definition c08_state (sv : sview) (d : cdump) : nat :=
  (flag (nsmap_eqb (d_namespaces d) (sv_acc sv) &&
         match sv_acc sv with
         | _ :: _ => d_connected d                                   (* set as long as any namespace remains *)
         | [] => if sv_ever sv || negb (sv_live sv) then negb (d_connected d) else true
         end &&
         eiost_eqb (d_eio d) (if sv_live sv then EConnected else EDisconnected)) B_MIRROR +
   flag (if sv_live sv then true
         else match d_cbs d with [] => true | _ => false end && d_binpkt_none d && pv_eqb (d_sid d) PNone) B_RESET)%nat.

(* an expectation that is not specified (a handler raises): the history leaves the domain here *)
Record vstep := mkV { v_view : sview; v_chk : list eff -> cdump -> cdump -> nat }.   (* effects, dump before, dump after *)
Definition judged {A} (exp : option A) (k : A -> option vstep) : option vstep :=
  match exp with None => None | Some x => k x end.
Definition frames_all (t : Z) (data : pv) (nss : list str) : option (list pv) :=
  fold_right (fun n acc => match frames_of t data n None, acc with
                           | Ok f, Some l => Some (f ++ l) | _, _ => None end) (Some []) nss.
Definition no_chk : list eff -> cdump -> cdump -> nat := fun _ _ _ => O.
Definition is_other (p : spkt) : bool := match p with SOther => true | _ => false end.

(* one operation, specification side: from the model state before, the server view before and the
   implementation's dump before: the view after and the judgement to apply to what the
   implementation did (None = the history left the specified domain).  The view never depends on
   the observed effects. *)
Definition view_step (c : cfg) (s : cli) (sv : sview) (dprev : cdump) (o : op) : option vstep :=
  match o with
  | CConnect nss auth _ wait eio_fails window =>
      if sv_live sv then
        (* the specification's client is connected: 'Already connected', nothing changes *)
        if d_connected dprev
        then Some (mkV sv (fun obs dp d => flag (list_eqb eff_eqb obs [Raised ConnectionError] && dump_eqb d dp) B_WAIT))
        else None
      else
      let req := match nss with None => derived_namespaces c | Some l => l end in
      if negb (eiost_eqb (d_eio dprev) EDisconnected) then None else
      match req with [] => None | _ :: _ =>          (* connect(namespaces=[]) is outside the domain *)
      if eio_fails then
        judged (fold_opt (fun n => notify c ev_connect_error n [eio_error_message]) req) (fun calls =>
        Some (mkV (mkSV [] false req false false) (fun obs _ _ =>
          flag (ends_raise ConnectionError obs && match sent_of obs with [] => true | _ => false end &&
                calls_eqb calls (calls_for c ev_names_conn obs)) B_WAIT)))
      else
      let authv := if truthy auth then auth else PDict [] in
      judged (frames_all CONNECT authv req) (fun w =>
      let sends_ok obs :=
        let sent := sent_of obs in
        list_eqb pv_eqb (firstn (List.length w) sent) w &&
        forallb (fun p => negb (is_connect_frame p)) (skipn (List.length w) sent) in
      (* the model state in which the window starts: after eio connect + the CONNECT packets *)
      let s0 := fst (fst (connect_begin c nss auth false s)) in
      let sv0 := mkSV [] true req true false in
      if wait then
        let '(sv1, ocalls, disc) := sv_window c s0 sv0 window in
        judged ocalls (fun calls =>
        if set_eqb (map fst (sv_acc sv1)) req then
          Some (mkV (mkSV (sv_acc sv1) true req (sv_clean sv1 && negb disc) (sv_ever sv1)) (fun obs _ _ =>
            (flag (sends_ok obs) B_SENDS +
             flag (ends_ret obs && calls_eqb calls (calls_for c ev_names_conn obs)) B_WAIT)%nat))
        else
          Some (mkV (mkSV [] false req false false) (fun obs _ _ =>
            (flag (sends_ok obs) B_SENDS +
             flag (ends_raise ConnectionError obs && calls_eqb calls (calls_for c ev_names_conn obs)) B_WAIT)%nat)))
      else
        Some (mkV sv0 (fun obs _ _ => (flag (sends_ok obs) B_SENDS + flag (ends_ret obs) B_WAIT)%nat)))
      end
  | CMsg payload tbl =>
      if negb (sv_live sv) then Some (mkV sv no_chk) else
      let p := classify s payload tbl in
      let st := sv_packet c (sid s) sv p in
      let sv1 := ps_view st in
      match p, sv_acc sv with
      | SDisconnect _, [] => None                  (* DISCONNECT while no namespace is connected: outside the domain *)
      | SOther, _ => Some (mkV sv no_chk)
      | _, _ =>
          (* outside the protocol: a second CONNECT, or a CONNECT_ERROR, for a namespace that is currently accepted
             (per namespace one CONNECT or CONNECT_ERROR, then at most one DISCONNECT): not judged from here on *)
          if match p with
             | SConnect ns _ | SError ns _ => ahas str_eqb (sv_acc sv) ns
             | _ => false
             end then None else
          if negb (ps_dom st) then Some (mkV sv1 no_chk) else
          judged (ps_calls st) (fun calls =>
          (* the last namespace is gone: the client closes the transport *)
          let sv' := match p, sv_acc sv1 with
                     | SDisconnect _, [] => mkSV [] false (sv_req sv1) false false
                     | _, _ => sv1 end in
          Some (mkV sv' (fun obs _ _ =>
            flag (match p with
                  | SDisconnect _ => negb (sv_clean sv) || calls_eqb calls (calls_for c ev_names_all obs)
                  | _ => calls_eqb calls (calls_for c ev_names_all obs)
                  end) B_ONCE)))
      end
  | CEmit _ _ ns _ | CSend _ ns _ | CCall _ _ ns _ _ =>
      let n := ns_or_default ns in
      let on := sv_live sv && ahas str_eqb (sv_acc sv) n in
      (* call(): the frame the fake server answers with must be an ACK for the client, not a connection-level packet *)
      let reply_ok :=
        match o with
        | CCall ev data _ (Some r) tbl =>
            if on then
              match fst (fst (api_emit ev data ns (Some CbInt) s)), snd (api_emit ev data ns (Some CbInt) s) with
              | s1, Ok (Some id) =>
                  match frames_of ACK (PList r) n (Some (Z.of_N id)) with
                  | Ok (f :: _) => is_other (classify s1 f tbl)
                  | _ => true
                  end
              | _, _ => true
              end
            else true
        | _ => true
        end in
      if negb reply_ok then None else
      Some (mkV sv (fun obs _ _ =>
        flag (if on
              then negb (existsb (exn_eqb BadNamespaceError) (raised_of obs)) &&
                   match sent_of obs with [] => false | _ => true end
              else list_eqb eff_eqb obs [Raised BadNamespaceError]) B_BADNS))
  | CDisconnect =>
      let sv' := sv_down sv in
      if sv_live sv then
        judged (fold_opt (notify_end c r_client_disconnect) (map fst (sv_acc sv))) (fun calls =>
        judged (frames_all DISCONNECT PNone (map fst (sv_acc sv))) (fun w =>
        Some (mkV sv' (fun obs _ _ =>
          (flag (list_eqb pv_eqb (sent_of obs) w) B_SENDS +
           flag (negb (sv_clean sv) || calls_eqb calls (calls_for c ev_names_all obs)) B_ONCE)%nat))))
      else Some (mkV sv' (fun obs _ _ => flag (match obs with [] => true | _ => false end) B_ONCE))
  | CLoss | CServerClose =>
      let sv' := sv_down sv in
      let reason := match o with CLoss => r_transport_error | _ => r_server_disconnect end in
      if sv_live sv then
        judged (fold_opt (notify_end c reason) (map fst (sv_acc sv))) (fun calls =>
        Some (mkV sv' (fun obs _ _ =>
          (flag (negb (sv_clean sv) || calls_eqb calls (calls_for c ev_names_all obs)) B_ONCE +
           flag (match sent_of obs with [] => true | _ => false end) B_SENDS)%nat)))
      else Some (mkV sv' (fun obs _ _ => flag (match obs with [] => true | _ => false end) B_ONCE))
  end.

(* one operation: failed clauses (effects judgement + mirror / reset on the dump after), view after *)
Definition c08_step (c : cfg) (s : cli) (sv : sview) (dprev : cdump) (o : op) (obs : list eff) (d : cdump)
  : nat * option sview :=
  match view_step c s sv dprev o with
  | None => (O, None)
  | Some v => ((v_chk v obs dprev d + c08_state (v_view v) d)%nat, Some (v_view v))
  end.

(* the clauses failed by the FIRST operation that fails any (afterwards the server's view and the
   implementation have diverged and further flags would be consequences) *)
Fixpoint c08_steps (c : cfg) (s : cli) (sv : sview) (dprev : cdump) (ops : list op)
         (obs : list (list eff * cdump)) : nat :=
  match ops, obs with
  | o :: r, (e, d) :: es =>
      match c08_step c s sv dprev o e d with
      | (O, Some sv') => c08_steps c (fst (step c s o)) sv' d r es
      | (O, None) => O
      | (m, _) => m
      end
  | _, _ => O
  end.
Definition c08_mask (k : ccase) : nat := c08_steps (k_cfg k) cli_init sv_init dump_init (k_ops k) (k_obs k).
Definition c08_eval (k : ccase) : nat := bits (corr_ok k) (c08_mask k).

(* for replays: the first operation that fails a clause, with the clause mask and the view before it *)
Fixpoint c08_first (c : cfg) (s : cli) (sv : sview) (dprev : cdump) (ops : list op)
         (obs : list (list eff * cdump)) (i : nat) : option (nat * nat * sview) :=
  match ops, obs with
  | o :: r, (e, d) :: es =>
      match c08_step c s sv dprev o e d with
      | (O, Some sv') => c08_first c (fst (step c s o)) sv' d r es (S i)
      | (O, None) => None
      | (m, _) => Some (i, m, sv)
      end
  | _, _ => None
  end.
Definition c08_where (k : ccase) := c08_first (k_cfg k) cli_init sv_init dump_init (k_ops k) (k_obs k) 0.
(* code used by the harness: bit 1 = correspondence, bit 2 = property, bits 4..128 = clauses of the
   first failing operation, index of that operation times 1024 *)
Definition c08_code (k : ccase) : nat :=
  ((if corr_ok k then 0 else 1) +
   match c08_where k with Some (i, m, _) => 2 + m + 1024 * i | None => 0 end)%nat.
