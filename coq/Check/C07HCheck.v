(* C07 - cluster histories with application handlers: case type and correspondence evaluator for the tie
   between Cluster/Handlers.v and the real PubSubManager / AsyncPubSubManager cluster whose servers run
   connect / event / disconnect handlers that call the room API (harness/props/c07.py, handler_batch).
   c07h_eval : bit 1 = model and implementation disagree.  There is no bit 2 for these histories: the
   property statement of C07 (cluster = one server) is evaluated on the handler-free histories only. *)
From VT Require Export Check.C07Check Cluster.Handlers.
Open Scope N_scope.

Definition heff_eqb (a b : heff) : bool :=
  match a, b with
  | HE x, HE y => eff_eqb x y
  | HHandler h n m s a, HHandler h' n' m' s' a' =>
      Nat.eqb h h' && str_eqb n n' && str_eqb m m' && str_eqb s s' && pv_eqb a a'
  | HResult h r, HResult h' r' => Nat.eqb h h' && res_eqb pv_eqb r r'
  | _, _ => false
  end.

Record hcase := mkHCase {
  hk_wos : list bool;
  hk_imm : bool;                                  (* immediate consumption: the harness drained after every op *)
  hk_app : app;
  hk_steps : list (xop * list heff);              (* op, observed effects *)
  hk_finals : list dump
}.
Definition hk_ops (c : hcase) : list xop := map fst (hk_steps c).
Definition hk_obs (c : hcase) : list (list heff) := map snd (hk_steps c).

Definition hcorr_on (wos : list bool) (imm : bool) (ap : app) (ops : list xop)
                    (obs : list (list heff)) (finals : list dump) : bool :=
  let '(cl, effs) := (if imm then xrun_imm else xrun) ap (cluster_init wos) ops in
  list_eqb (list_eqb heff_eqb) effs obs &&
  list_eqb dump_eqb (map dump_of (c_hosts cl)) finals.
Definition hcorr (c : hcase) : bool :=
  hcorr_on (hk_wos c) (hk_imm c) (hk_app c) (hk_ops c) (hk_obs c) (hk_finals c).

Fixpoint hfirst_diff_from (i : nat) (a b : list (list heff)) : option (nat * list heff * list heff) :=
  match a, b with
  | [], [] => None
  | x :: a', y :: b' => if list_eqb heff_eqb x y then hfirst_diff_from (S i) a' b' else Some (i, x, y)
  | x :: _, [] => Some (i, x, [])
  | [], y :: _ => Some (i, [], y)
  end.
(* replay aid: first step on which the model's effects (left) differ from the observed ones (right) *)
Definition hfirst_diff (c : hcase) :=
  let '(cl, effs) := (if hk_imm c then xrun_imm else xrun) (hk_app c) (cluster_init (hk_wos c)) (hk_ops c) in
  hfirst_diff_from 0 effs (hk_obs c).

Definition c07h_eval (c : hcase) : nat := if hcorr c then 0%nat else 1%nat.

(* ---- C14: the threaded and the asyncio cluster on ONE history ---- *)
(* both observations are compared with the model (bit 1) and with each other (bit 2) *)
Record hpair := mkHPair {
  hp_wos : list bool;
  hp_imm : bool;
  hp_app : app;
  hp_ops : list xop;
  hp_obs_s : list (list heff);  hp_obs_a : list (list heff);     (* threaded / asyncio: effects per operation *)
  hp_fin_s : list dump;         hp_fin_a : list dump             (* final tables of every host *)
}.
Definition hpair_corr (p : hpair) : bool :=
  hcorr_on (hp_wos p) (hp_imm p) (hp_app p) (hp_ops p) (hp_obs_s p) (hp_fin_s p) &&
  hcorr_on (hp_wos p) (hp_imm p) (hp_app p) (hp_ops p) (hp_obs_a p) (hp_fin_a p).
Definition hpair_same (p : hpair) : bool :=
  list_eqb (list_eqb heff_eqb) (hp_obs_s p) (hp_obs_a p) && list_eqb dump_eqb (hp_fin_s p) (hp_fin_a p).
Definition hpair_eval (p : hpair) : nat :=
  ((if hpair_corr p then 0 else 1) + (if hpair_same p then 0 else 2))%nat.
