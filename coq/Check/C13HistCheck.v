(* C13 - history cases: a sequence of registrations and events executed on REAL servers /
   clients that share namespace classes, with what was observed for every event (which
   callable ran, on WHICH namespace object - id and `namespace` attribute of the object -
   and with which arguments).  Boolean checker against the specification only
   (Routing/History.v spec_route = ResolveSpec rules applied to the registrations made so
   far on the event's host), its soundness, and the classification of a failing event. *)
From VT Require Export Check.C13Check Routing.History.
Open Scope N_scope.

Definition hobs := option (Res (list kcall)).
Record hcase := HCase {
  hc_side : side;
  hc_async : bool;                   (* asyncio classes (AsyncServer / AsyncClient and their namespaces) *)
  hc_ot : objtable;
  hc_ops : list (hop * hobs);        (* the operation and, for events, what the real class did *)
  hc_final : hstate }.               (* registries read back from the real hosts at the end *)

Definition kcall_eqb (a b : kcall) : bool := call_eqb (fst a) (fst b) && opt_eqb str_eqb (snd a) (snd b).
Definition kobs_eqb (a b : Res (list kcall)) : bool := res_eqb (list_eqb kcall_eqb) a b.
Definition hobs_eqb (a b : hobs) : bool := opt_eqb kobs_eqb a b.

Lemma opt_str_eqb_eq (a b : option str) : opt_eqb str_eqb a b = true <-> a = b.
Proof.
  destruct a as [x|], b as [y|]; cbn [opt_eqb]; split; intro H; try discriminate; try reflexivity.
  - f_equal. apply str_eqb_eq. exact H.
  - inversion H; subst. apply str_eqb_refl.
Qed.
Lemma kcall_eqb_eq a b : kcall_eqb a b = true <-> a = b.
Proof.
  destruct a as [a k], b as [b k']. unfold kcall_eqb. cbn [fst snd].
  rewrite andb_true_iff, call_eqb_eq, opt_str_eqb_eq. split; [intros [-> ->]; reflexivity|].
  intro H; inversion H; auto.
Qed.
Lemma kobs_eqb_eq a b : kobs_eqb a b = true <-> a = b.
Proof.
  destruct a as [x|e], b as [y|e']; cbn [kobs_eqb res_eqb]; split; intro H; try discriminate.
  - f_equal. apply (list_eqb_eq kcall_eqb kcall_eqb_eq). exact H.
  - inversion H; subst. apply (list_eqb_eq kcall_eqb kcall_eqb_eq). reflexivity.
  - f_equal. apply exn_eqb_eq. exact H.
  - inversion H; subst. apply exn_eqb_eq. reflexivity.
Qed.
Lemma hobs_eqb_eq a b : hobs_eqb a b = true <-> a = b.
Proof.
  destruct a as [x|], b as [y|]; cbn [hobs_eqb opt_eqb]; split; intro H; try discriminate; try reflexivity.
  - f_equal. apply kobs_eqb_eq. exact H.
  - inversion H; subst. apply kobs_eqb_eq. reflexivity.
Qed.

(* what the documented rules prescribe for every operation of the history *)
Definition spec_router (c : hcase) : router := spec_route (reserved_of (hc_side c)) (hc_ot c).
Definition spec_hobs (c : hcase) : list hobs := fst (hrun (hc_ot c) (spec_router c) [] (map fst (hc_ops c))).

(* C13 on a history: every event of the sequence ran exactly the prescribed target - the
   prescribed function, or the namespace OBJECT registered under the prescribed key and
   its own on_<event> method - with the prescribed arguments *)
Definition P_C13_hist (c : hcase) : Prop := map snd (hc_ops c) = spec_hobs c.
Definition chk_C13_hist (c : hcase) : bool := list_eqb hobs_eqb (map snd (hc_ops c)) (spec_hobs c).
Lemma chk_C13_hist_sound c : chk_C13_hist c = true -> P_C13_hist c.
Proof. apply (list_eqb_eq hobs_eqb hobs_eqb_eq). Qed.
Lemma chk_C13_hist_complete c : P_C13_hist c -> chk_C13_hist c = true.
Proof. apply (list_eqb_eq hobs_eqb hobs_eqb_eq). Qed.

Definition eval_hspec (c : hcase) : nat := if chk_C13_hist c then 0%nat else 2%nat.

(* ---- classification of the first event that departs from a router ---- *)
Record hfail := HFail {
  hf_index : nat;                  (* position of the operation in the history *)
  hf_events_before : nat;          (* events that were delivered before it *)
  hf_state : hoststate;            (* registries of its host when it arrived *)
  hf_ev : str; hf_ns : str;
  hf_expected : Res (list kcall);
  hf_observed : hobs }.

Fixpoint first_fail (ot : objtable) (route : router) (st : hstate) (ops : list (hop * hobs)) (idx nev : nat)
  : option hfail :=
  match ops with
  | [] => None
  | (o, obs) :: rest =>
      let '(st', out) := hstep ot route st o in
      match o, out with
      | HEvent i ev ns _, Some exp =>
          if hobs_eqb obs out then first_fail ot route st' rest (S idx) (S nev)
          else Some (HFail idx nev (get_host st i) ev ns exp obs)
      | _, _ =>
          if hobs_eqb obs out then first_fail ot route st' rest (S idx) nev
          else Some (HFail idx nev empty_host [] [] (Ok []) obs)
      end
  end.
Definition spec_first_fail (c : hcase) : option hfail :=
  first_fail (hc_ot c) (spec_router c) [] (hc_ops c) 0 0.

(* the observation with the identity of the object whose METHOD ran erased *)
Definition erase_method_instance (k : kcall) : kcall :=
  match k with
  | (MethodRan _ m a, _) => (MethodRan 0 m a, None)
  | _ => k
  end.
Definition kobs_kind (o : hobs) : nat :=
  match o with
  | None | Some (Err _) => 3 | Some (Ok []) => 0 | Some (Ok ((FunRan _ _, _) :: _)) => 1 | Some (Ok _) => 2
  end%nat.
Definition ksame_target (obs : hobs) (exp : Res (list kcall)) : bool :=
  match obs, exp with
  | Some (Ok ((FunRan h _, _) :: _)), Ok ((FunRan h' _, _) :: _) => N.eqb h h'
  | Some (Ok ((NsTriggered k _ _, _) :: _)), Ok ((NsTriggered k' _ _, _) :: _) => N.eqb k k'
  | _, _ => false
  end.
(* the prescribed object received trigger_event with the prescribed arguments, the
   prescribed method name ran with the prescribed arguments, but on ANOTHER object *)
Definition method_on_other_instance (obs : hobs) (exp : Res (list kcall)) : bool :=
  match obs, exp with
  | Some (Ok l), Ok l' =>
      negb (list_eqb kcall_eqb l l') &&
      list_eqb kcall_eqb (map erase_method_instance l) (map erase_method_instance l')
  | _, _ => false
  end.

(* bits 0-1: verdict; bit 2: method of another instance ran; bits 3-5: level the rules
   select; bits 6-7: what was observed; bit 8: the prescribed target did run; bit 9: at
   least one event had been delivered before the failing one; from bit 10: its position *)
Definition hclassify (side_ : side) (verdict : nat) (f : hfail) : nat :=
  (verdict
   + (if method_on_other_instance (hf_observed f) (hf_expected f) then 4 else 0)
   + match level (reserved_of side_) (fst (hf_state f)) (snd (hf_state f)) (hf_ev f) (hf_ns f) with
     | Some l => l | None => 0 end * 8
   + kobs_kind (hf_observed f) * 64
   + (if ksame_target (hf_observed f) (hf_expected f) then 256 else 0)
   + (match hf_events_before f with O => 0 | _ => 512 end)
   + hf_index f * 1024)%nat.
Definition eval_hspec_classified (c : hcase) : nat :=
  match spec_first_fail c with
  | None => eval_hspec c
  | Some f => hclassify (hc_side c) 2 f
  end.
(* the two ways of finding a failure agree *)
Lemma first_fail_none_iff ot route ops : forall st idx nev,
  first_fail ot route st ops idx nev = None <->
  list_eqb hobs_eqb (map snd ops) (fst (hrun ot route st (map fst ops))) = true.
Proof.
  induction ops as [|[o obs] rest IH]; intros st idx nev; cbn [first_fail map hrun fst snd list_eqb].
  - split; reflexivity.
  - destruct (hstep ot route st o) as [st' out] eqn:Es.
    destruct (hrun ot route st' (map fst rest)) as [outs fin] eqn:Er.
    cbn [fst list_eqb].
    assert (Hr : fst (hrun ot route st' (map fst rest)) = outs) by (rewrite Er; reflexivity).
    destruct (hobs_eqb obs out) eqn:Eo.
    + cbn [andb]. rewrite <- Hr.
      destruct o; destruct out; try apply IH.
    + cbn [andb]. destruct o; destruct out; split; intro H; discriminate.
Qed.
Lemma spec_first_fail_none_iff c : spec_first_fail c = None <-> chk_C13_hist c = true.
Proof. apply first_fail_none_iff. Qed.
