(* C09 on histories that include the re-entrant scenario of Client/ClientX.v: while the handler of
   an event (text or reassembled binary) is running, the next server frame is delivered.  The outer
   event must still be handled exactly once and acknowledged exactly once with its own return
   value; the nested frame must have exactly its normal effect; nothing may be lost. *)
From VT Require Export Check.C09Check Client.ClientX.
Open Scope N_scope.

Record xcase := mkXCase { x_cfg : cfg; x_ops : list xop; x_obs : list (list eff * cdump) }.

Fixpoint xcorr_steps (c : cfg) (s : cli) (ops : list xop) (obs : list (list eff * cdump)) : bool :=
  match ops, obs with
  | [], [] => true
  | o :: r, (e, d) :: es =>
      let '(s1, me) := xstep c s o in
      effs_eqb me e && dump_eqb (dump_of s1) d && xcorr_steps c s1 r es
  | _, _ => false
  end.
Definition xcorr_ok (k : xcase) : bool := xcorr_steps (x_cfg k) cli_init (x_ops k) (x_obs k).
Fixpoint xfirst_diff (c : cfg) (s : cli) (ops : list xop) (obs : list (list eff * cdump)) (i : nat)
  : option (nat * list eff * cdump) :=
  match ops, obs with
  | o :: r, (e, d) :: es =>
      let '(s1, me) := xstep c s o in
      if effs_eqb me e && dump_eqb (dump_of s1) d then xfirst_diff c s1 r es (S i)
      else Some (i, filter observable me, dump_of s1)
  | [], [] => None
  | _, _ => Some (i, [], dump_of s)
  end.

Definition B_NESTED := 128%nat.

Definition with_binpkt (s : cli) (b : option rpacket) : cli :=
  mkCli (connected s) (namespaces s) (conn_ns s) (conn_auth s) (callbacks s) b (sid s)
        (eio_state s) (eio_sid s) (eio_count s).

(* what one frame, delivered on its own in state s, must do (None = not specified here) *)
Definition expect_frame (c : cfg) (s : cli) (payload : pv) (tbl : jtable) : option (list eff) :=
  match packet_of s payload tbl with
  | SEvent pn id data =>
      let ns := ns_or_default pn in
      match split_event data with
      | Ok (PStr evs, args) =>
          let ev := PStr evs in
          if reserved ev then None else
          match responsible c ev ns args with
          | None =>
              match id with
              | Some i => match frames_of ACK (PList []) ns (Some i) with Ok fr => Some (map Sent fr) | Err _ => None end
              | None => Some []
              end
          | Some (h, a) =>
              if arity_fits c h (List.length a) then
                match returns c h, id with
                | Some v, Some i => match frames_of ACK (PList (pack v)) ns (Some i) with
                                    | Ok fr => Some (Call h a :: map Sent fr) | Err _ => None end
                | Some v, None => Some [Call h a]
                | None, _ => Some [Call h a]            (* the handler raises: invoked, no ACK owed *)
                end
              else Some []
          end
      | Ok _ => None
      | Err _ => Some []
      end
  | SAck pn id data =>
      let ns := ns_or_default pn in
      match outstanding (callbacks s) ns id with
      | Some (CbUser n) => match star_args data with Ok args => Some [CbCall n args] | Err _ => Some [] end
      | Some CbInt => Some []
      | None => Some []
      end
  | SNone => None
  end.
(* a frame that only opens a binary packet: afterwards the client must be waiting for attachments *)
Definition opens_binary (s : cli) (payload : pv) (tbl : jtable) : bool :=
  match binpkt s with
  | Some _ => false
  | None => match decode (table_loads tbl) payload with
            | Ok r => (type_is (rp r) BINARY_EVENT || type_is (rp r) BINARY_ACK) &&
                      negb (type_is (rp r) CONNECT || type_is (rp r) DISCONNECT || type_is (rp r) EVENT || type_is (rp r) ACK)
            | Err _ => false end
  end.

Definition c09_nested_step (c : cfg) (s : cli) (dprev : cdump) (payload : pv) (tbl : jtable)
           (payload2 : pv) (tbl2 : jtable) (obs : list eff) (d : cdump) : nat :=
  if negb (eiost_eqb (eio_state s) EConnected) then O else
  match packet_of s payload tbl with
  | SEvent pn id data =>
      let ns := ns_or_default pn in
      match split_event data with
      | Ok (PStr evs, args) =>
          let ev := PStr evs in
          if reserved ev then O else
          match responsible c ev ns args with
          | Some (h, a) =>
              if negb (arity_fits c h (List.length a)) then c09_step c s dprev (CMsg payload tbl) obs d else
              (* the state in which the handler body runs: a reassembled binary packet has been consumed *)
              let s1 := with_binpkt s None in
              let ack := match returns c h, id with
                         | Some v, Some i => match frames_of ACK (PList (pack v)) ns (Some i) with
                                             | Ok fr => Some (map Sent fr) | Err _ => None end
                         | _, _ => Some []
                         end in
              let once := Nat.eqb (List.length (filter (fun ha => N.eqb (fst ha) h && list_eqb pv_eqb (snd ha) a) (calls_of obs)))
                                  (match expect_frame c s1 payload2 tbl2 with
                                   | Some l => S (List.length (filter (fun ha => N.eqb (fst ha) h && list_eqb pv_eqb (snd ha) a) (calls_of l)))
                                   | None => 1 end) in
              let exact := match expect_frame c s1 payload2 tbl2, ack with
                           | Some l, Some k => list_eqb eff_eqb obs (Call h a :: l ++ k)
                           | _, Some k =>
                               (* nested effect not specified: the outer part must still be there *)
                               match obs with Call h' a' :: _ => N.eqb h h' && list_eqb pv_eqb a a' | _ => false end &&
                               list_eqb eff_eqb (skipn (List.length obs - List.length k) obs) k
                           | _, None => true
                           end in
              let kept := if opens_binary s1 payload2 tbl2 then negb (d_binpkt_none d) else true in
              flag (once && exact && kept) B_NESTED
          | None => c09_step c s dprev (CMsg payload tbl) obs d
          end
      | _ => c09_step c s dprev (CMsg payload tbl) obs d
      end
  | _ => c09_step c s dprev (CMsg payload tbl) obs d
  end.

Fixpoint c09x_first (c : cfg) (s : cli) (dprev : cdump) (ops : list xop) (obs : list (list eff * cdump)) (i : nat)
  : option (nat * nat) :=
  match ops, obs with
  | o :: r, (e, d) :: es =>
      match (match o with
             | Plain o' => c09_step c s dprev o' e d
             | MsgNested p t p2 t2 => c09_nested_step c s dprev p t p2 t2 e d
             end) with
      | O => c09x_first c (fst (xstep c s o)) d r es (S i)
      | m => Some (i, m)
      end
  | _, _ => None
  end.
Definition c09x_where (k : xcase) := c09x_first (x_cfg k) cli_init dump_init (x_ops k) (x_obs k) 0.

(* code used by the harness: bit 1 = correspondence, bit 2 = property, clause bits, index * 1024 *)
Definition c09x_code (k : xcase) : nat :=
  ((if xcorr_ok k then 0 else 1) +
   match c09x_where k with
   | Some (i, m) => 2 + m + 1024 * i
   | None => if c09_once (x_obs k) then 0 else 2 + B_ACK
   end)%nat.

Definition xmodel_obs (c : cfg) (ops : list xop) : list (list eff * cdump) :=
  map (fun se => (filter observable (snd se), dump_of (fst se))) (snd (xrun c cli_init ops)).
Definition xmodel_case (c : cfg) (ops : list xop) : xcase := mkXCase c ops (xmodel_obs c ops).
