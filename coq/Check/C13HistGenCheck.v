(* C13 - history cases against the MODEL: generated lookups under the hand model of
   _trigger_event select the namespace object, the GENERATED trigger_event of its base
   class (Routing/HistoryGen.v) decides which bound method of which object is called.
   Correspondence bit, including the registries the real hosts end up with; translator
   validation of the generated trigger_event definitions. *)
From VT Require Export Check.C13HistCheck Check.C13GenCheck Routing.HistoryGen.
Open Scope N_scope.

Definition nsclass_of (s : side) (is_async : bool) : nsclass :=
  match s, is_async with
  | SServer, false => KNamespace | SClient, false => KClientNamespace
  | SServer, true => KAsyncNamespace | SClient, true => KAsyncClientNamespace
  end.
Definition model_router (c : hcase) : router :=
  model_route_gen (nsclass_of (hc_side c) (hc_async c)) (trigger_of (hc_side c)) (hc_ot c).
Definition model_hrun (c : hcase) := hrun (hc_ot c) (model_router c) [] (map fst (hc_ops c)).

Definition evmap_eqb (a b : evmap) : bool :=
  list_eqb (fun x y => str_eqb (fst x) (fst y) && N.eqb (snd x) (snd y)) a b.
Definition reg_eqb (a b : reg) : bool :=
  list_eqb (fun x y => str_eqb (fst x) (fst y) && evmap_eqb (snd x) (snd y)) a b.
Definition hoststate_eqb (a b : hoststate) : bool := reg_eqb (fst a) (fst b) && evmap_eqb (snd a) (snd b).
Definition hstate_eqb (a b : hstate) : bool :=
  forallb (fun i => hoststate_eqb (get_host a i) (get_host b i))
          (seq 0 (Nat.max (List.length a) (List.length b))).

Definition model_obs_ok (c : hcase) : bool := list_eqb hobs_eqb (map snd (hc_ops c)) (fst (model_hrun c)).
Definition model_final_ok (c : hcase) : bool := hstate_eqb (snd (model_hrun c)) (hc_final c).

(* bit 1: model and implementation disagree (an observation, or the final registries);
   bit 2: the implementation violates C13 on some event of the history *)
Definition eval_hfull (c : hcase) : nat :=
  ((if model_obs_ok c && model_final_ok c then 0 else 1) + eval_hspec c)%nat.

(* failing cases carry the classification of the first departing event (Check/C13HistCheck.v);
   bit 0 alone with nothing else = only the final registries differ *)
Definition eval_hfull_classified (c : hcase) : nat :=
  match eval_hfull c with
  | O => O
  | v =>
      match spec_first_fail c with
      | Some f => hclassify (hc_side c) v f
      | None =>
          match first_fail (hc_ot c) (model_router c) [] (hc_ops c) 0 0 with
          | Some f => hclassify (hc_side c) v f
          | None => v
          end
      end
  end.

(* ---- translator validation of the generated trigger_event: the real method is run on a
   real namespace object whose on_... attributes are methods of a given arity (None = *args),
   coroutine functions or not, or plain non-callable values; every method answers with
   (its identity, the arguments it received).  The oracle reproduces exactly that. ---- *)
Record nsattr := NsAttr { na_value : pv; na_arity : option (option nat); na_coro : bool }.
   (* na_arity: None = the value is not callable; Some None = *args; Some (Some n) = n parameters *)
Definition attr_of (attrs : list (str * nsattr)) (f : pv) : option nsattr :=
  (fix go (l : list (str * nsattr)) : option nsattr :=
     match l with
     | [] => None
     | (_, a) :: r => if pv_eqb (na_value a) f then Some a else go r
     end) attrs.
Definition tv_call (attrs : list (str * nsattr)) (f args : pv) : Res pv :=
  match attr_of attrs f with
  | Some a =>
      match na_arity a, args with
      | None, _ => Err TypeError                       (* object is not callable *)
      | Some None, _ => echo_call f args
      | Some (Some n), PTuple l => if Nat.eqb n (List.length l) then echo_call f args else Err TypeError
      | Some (Some _), _ => Err TypeError
      end
  | None => Err TypeError
  end.
Definition tv_iscoro (attrs : list (str * nsattr)) (f : pv) : Res pv :=
  Ok (PBool (match attr_of attrs f with Some a => na_coro a | None => false end)).
Definition tv_self (ns : pv) (attrs : list (str * nsattr)) : pv :=
  PDict ((PStr (s2l "namespace"), ns) :: map (fun p => (PStr (fst p), na_value (snd p))) attrs).

Inductive nstv := NsTV (k : nsclass) (ns : pv) (attrs : list (str * nsattr)) (event args : pv) (expected : Res pv).
Definition eval_nstv (c : nstv) : nat :=
  match c with
  | NsTV k ns attrs event args expected =>
      if res_eqb pv_eqb (gen_trigger_event k (tv_call attrs) (tv_iscoro attrs) (tv_self ns attrs) event args) expected
      then 0%nat else 1%nat
  end.
