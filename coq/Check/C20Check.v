(* C20 and the interleaving part of C04: case type for one scheduled run of the real
   Server / AsyncServer, correspondence with the model of Conc/ServerConc.v on the same
   scenario and schedule, and the property evaluated on what the implementation did (observed
   label trace and final listings), with the soundness lemmas of the checker clauses. *)
From Coq Require Import Lia.
From VT Require Export Conc.ServerConc.
Local Open Scope nat_scope.

(* how the initial state is produced (on the real server: CONNECT packets, enter_room, an
   emit with a callback; session ids are handed out in the order of the SConnect entries) *)
Inductive setup :=
| SConnect (eio ns sid : str)
| SEnter (sid ns room : str)
| SAck (sid : str).

Definition apply_setup (me : mgr * list str) (o : setup) : mgr * list str :=
  let '(m, env) := me in
  match o with
  | SConnect eio ns sid =>
      (fst (mgr_connect m eio ns sid), if memb eio env then env else env ++ [eio])
  | SEnter sid ns room => (fst (enter_room m sid ns (PStr room)), env)
  | SAck sid => (fst (generate_ack_id m sid 0%N), env)
  end.
Definition initial (su : list setup) : mgr * list str := fold_left apply_setup su (mgr_init, []).

(* the listings taken from the real server *)
Record dump := mkDump {
  d_rooms : list (str * list (pv * list (str * str)));
  d_pending : list (str * list str);
  d_cbs : list str;
  d_env : list str }.

Inductive ccase :=
| Case (g : gran) (su : list setup) (R : list str) (causes : list cause) (sched : list nat)
       (tr : list (list lbl)) (final : dump) (alldone : bool).

(* ---- equality on observations ---- *)
Definition ostr_eqb := opt_eqb str_eqb.
Definition lbl_eqb (a b : lbl) : bool :=
  match a, b with
  | LNamespaces x, LNamespaces y => list_eqb str_eqb x y
  | LLookup e n r, LLookup e' n' r' => str_eqb e e' && str_eqb n n' && ostr_eqb r r'
  | LCheck s n r, LCheck s' n' r' => ostr_eqb s s' && str_eqb n n' && Bool.eqb r r'
  | LMark s n r, LMark s' n' r' => str_eqb s s' && str_eqb n n' && res_eqb ostr_eqb r r'
  | LSend e f, LSend e' f' => ostr_eqb e e' && str_eqb f f'
  | LHandler s n r, LHandler s' n' r' => str_eqb s s' && str_eqb n n' && str_eqb r r'
  | LDisc s n, LDisc s' n' => str_eqb s s' && str_eqb n n'
  | LEnv e p, LEnv e' p' => str_eqb e e' && Bool.eqb p p'
  | LRaise x, LRaise y => exn_eqb x y
  | LAcquire, LAcquire => true
  | LOther x, LOther y => Nat.eqb x y
  | _, _ => false
  end.
Definition pair_eqb {A B} (f : A -> A -> bool) (g : B -> B -> bool) (x y : A * B) : bool :=
  f (fst x) (fst y) && g (snd x) (snd y).
Definition rooms_eqb := list_eqb (pair_eqb str_eqb (list_eqb (pair_eqb pv_eqb (list_eqb (pair_eqb str_eqb str_eqb))))).
Definition dump_of (c : cfg) : dump :=
  mkDump (rooms (c_mgr c)) (pending (c_mgr c)) (map fst (callbacks (c_mgr c))) (c_env c).
Definition dump_eqb (a b : dump) : bool :=
  rooms_eqb (d_rooms a) (d_rooms b) &&
  list_eqb (pair_eqb str_eqb (list_eqb str_eqb)) (d_pending a) (d_pending b) &&
  list_eqb str_eqb (d_cbs a) (d_cbs b) && list_eqb str_eqb (d_env a) (d_env b).

Definition model_run (k : ccase) : cfg :=
  match k with
  | Case g su R causes sched _ _ _ =>
      let '(m, env) := initial su in run_sched g R causes sched m env
  end.
Definition model_trace (k : ccase) : list (list lbl) :=
  match k with
  | Case g su R causes sched _ _ _ =>
      let '(m, env) := initial su in trace g R (init g m env causes) sched
  end.

(* ---- correspondence: the model run on the same scenario and schedule ---- *)
Definition agree (k : ccase) : bool :=
  match k with
  | Case g su R causes sched tr final alldone =>
      let c := model_run k in
      list_eqb (list_eqb lbl_eqb) (model_trace k) tr &&
      dump_eqb (dump_of c) final && Bool.eqb (all_done c) alldone
  end.

(* ---- the property on the observation ---- *)
Definition targetsb (m : mgr) (k : cause) (sid ns : str) : bool :=
  match k with
  | CApi s n => str_eqb s sid && str_eqb n ns
  | CClient e n => str_eqb n ns && ostr_eqb (sid_from_eio m e ns) (Some sid)
  | CLoss e _ => ostr_eqb (sid_from_eio m e ns) (Some sid)
  end.
(* every (namespace, sid) connected in [m] *)
Definition all_pairs (m : mgr) : list (str * str) :=
  flat_map (fun nr => match aget room_eqb (snd nr) PNone with
                      | Some b => map (fun se => (fst nr, fst se)) b
                      | None => [] end) (rooms m).

(* membership of sid in the rooms of ns, as listed *)
Definition in_rooms (rs : list (str * list (pv * list (str * str)))) (ns sid : str) : list pv :=
  match aget str_eqb rs ns with
  | Some rm => map fst (filter (fun rb => existsb (fun se => str_eqb (fst se) sid) (snd rb)) rm)
  | None => []
  end.
Definition in_pending (p : list (str * list str)) (ns sid : str) : bool :=
  match aget str_eqb p ns with Some l => memb sid l | None => false end.

Section Clauses.
  Variables (m0 : mgr) (causes : list cause) (R : list str).
  Variables (log : list lbl) (final : dump) (alldone : bool).

  Definition targeted (ns sid : str) : bool := existsb (fun k => targetsb m0 k sid ns) causes.

  (* 4: some disconnect handler ran more than once for one (sid, ns) *)
  Definition cl_at_most_once : bool :=
    forallb (fun p => hcount (snd p) (fst p) log <=? 1) (all_pairs m0).
  (* 8: every cause has finished and a client it was aimed at never had its handler run *)
  Definition cl_at_least_once : bool :=
    negb alldone ||
    forallb (fun p => negb (targeted (fst p) (snd p)) || (1 <=? hcount (snd p) (fst p) log)) (all_pairs m0).
  (* 16: an exception escaped a task (other than the scripted handler's own exception) *)
  Definition cl_no_raise : bool :=
    forallb (fun x => match x with
                      | LRaise RuntimeError => match R with [] => false | _ => true end
                      | LRaise _ => false
                      | _ => true end) log.
  (* 32: every cause has finished and a trace of a terminated client remains *)
  Definition cl_no_trace : bool :=
    negb alldone ||
    (forallb (fun p => negb (targeted (fst p) (snd p)) ||
                       (match in_rooms (d_rooms final) (fst p) (snd p) with [] => true | _ => false end &&
                        negb (in_pending (d_pending final) (fst p) (snd p)) &&
                        negb (memb (snd p) (d_cbs final))))
             (all_pairs m0) &&
     match d_pending final with [] => true | _ => false end &&
     forallb (fun k => match k with CLoss e _ => negb (memb e (d_env final)) | _ => true end) causes).
  (* 64: a client no cause was aimed at lost a membership, its callbacks, or had a handler run *)
  Definition cl_others : bool :=
    forallb (fun p => targeted (fst p) (snd p) ||
                      (list_eqb pv_eqb (in_rooms (d_rooms final) (fst p) (snd p))
                                       (in_rooms (rooms m0) (fst p) (snd p)) &&
                       Bool.eqb (memb (snd p) (d_cbs final)) (ahas str_eqb (callbacks m0) (snd p)) &&
                       (hcount (snd p) (fst p) log =? 0)))
            (all_pairs m0).
  (* 128: a handler invocation for nobody, or with a reason that names no cause aimed at it *)
  Definition cl_reason : bool :=
    forallb (fun x => match x with
                      | LHandler s n r =>
                          memb s (map snd (filter (fun p => str_eqb (fst p) n) (all_pairs m0))) &&
                          existsb (fun k => targetsb m0 k s n && str_eqb (reason_of k) r) causes
                      | _ => true end) log.

  Definition prop_bits : nat :=
    (if cl_at_most_once then 0 else 4) + (if cl_at_least_once then 0 else 8) +
    (if cl_no_raise then 0 else 16) + (if cl_no_trace then 0 else 32) +
    (if cl_others then 0 else 64) + (if cl_reason then 0 else 128).
End Clauses.

(* the stable signature: did two tasks see is_connected = True for the same (sid, ns) before
   either marked it?  (computed from the observed trace and schedule) *)
Definition win := (nat * str * str)%type.
Definition win_same (i : nat) (s n : str) (w : win) : bool :=
  negb (Nat.eqb (fst (fst w)) i) && str_eqb (snd (fst w)) s && str_eqb (snd w) n.
Definition win_is (i : nat) (s n : str) (w : win) : bool :=
  Nat.eqb (fst (fst w)) i && str_eqb (snd (fst w)) s && str_eqb (snd w) n.
(* a check that the same task repeats under the lock (its next access is the acquire) does not
   open a window: only the check that is followed by the mark does *)
Definition on_lbl (i : nat) (next : option lbl) (st : list win * bool) (x : lbl) : list win * bool :=
  match x with
  | LCheck (Some s) n true =>
      match next with
      | Some LAcquire => st
      | _ => ((i, s, n) :: fst st, snd st || existsb (win_same i s n) (fst st))
      end
  | LMark s n _ => (filter (fun w => negb (win_is i s n w)) (fst st), snd st)
  | _ => st
  end.
Fixpoint flat_trace (sched : list nat) (tr : list (list lbl)) : list (nat * lbl) :=
  match sched, tr with
  | i :: s, l :: t => map (fun x => (i, x)) l ++ flat_trace s t
  | _, _ => []
  end.
Fixpoint next_lbl (i : nat) (l : list (nat * lbl)) : option lbl :=
  match l with
  | [] => None
  | (j, x) :: r => if Nat.eqb i j then Some x else next_lbl i r
  end.
Fixpoint walk (l : list (nat * lbl)) (st : list win * bool) : list win * bool :=
  match l with
  | [] => st
  | (i, x) :: r => walk r (on_lbl i (next_lbl i r) st x)
  end.
Definition double_check_seen (sched : list nat) (tr : list (list lbl)) : bool :=
  snd (walk (flat_trace sched tr) ([], false)).
Definition keyerror_seen (log : list lbl) : bool :=
  existsb (fun x => match x with LMark _ _ (Err KeyError) => true | _ => false end) log.

(* the thread driver logs [LOther 2] when a task asked for self._disconnect_lock without
   blocking while another task held it and went on without the lock (the model has no such
   access: a task that wants the lock waits) *)
Definition gave_up_seen (log : list lbl) : bool :=
  existsb (fun x => match x with LOther 2 => true | _ => false end) log.

Definition case_bits (k : ccase) : nat :=
  match k with
  | Case g su R causes sched tr final alldone =>
      prop_bits (fst (initial su)) causes R (List.concat tr) final alldone
  end.

(* 0 = fine; bit 1 = model and implementation disagree; bit 2 = the implementation's own
   observation violates the property, the higher bits say how: 4 handler more than once,
   8 handler never ran, 16 exception escaped, 32 trace left, 64 bystander affected, 128 bad
   reason; with bit 2 also 256 = the double-check window was open in this run and
   512 = pre_disconnect raised KeyError, 1024 = a task went on without the lock after a
   non-blocking acquire found it busy *)
Definition c20_eval (k : ccase) : nat :=
  (if agree k then 0 else 1) +
  match case_bits k with
  | 0 => 0
  | b => 2 + b +
         match k with Case _ _ _ _ sched tr _ _ =>
           (if double_check_seen sched tr then 256 else 0) +
           (if keyerror_seen (List.concat tr) then 512 else 0) +
           (if gave_up_seen (List.concat tr) then 1024 else 0) end
  end.

Definition c20_explain (k : ccase) :=
  (model_trace k, dump_of (model_run k), all_done (model_run k), case_bits k).

(* ---- soundness of the clauses ---- *)
Lemma cl_at_most_once_sound m0 log :
  cl_at_most_once m0 log = true ->
  forall ns sid, In (ns, sid) (all_pairs m0) -> hcount sid ns log <= 1.
Proof.
  unfold cl_at_most_once. intros H ns sid Hin. rewrite forallb_forall in H.
  specialize (H _ Hin). cbn [fst snd] in H. apply Nat.leb_le. exact H.
Qed.

Lemma cl_at_least_once_sound m0 causes log :
  cl_at_least_once m0 causes log true = true ->
  forall ns sid, In (ns, sid) (all_pairs m0) -> targeted m0 causes ns sid = true -> 1 <= hcount sid ns log.
Proof.
  unfold cl_at_least_once. cbn [negb orb]. intros H ns sid Hin Ht. rewrite forallb_forall in H.
  specialize (H _ Hin). cbn [fst snd] in H. rewrite Ht in H. cbn [negb orb] in H.
  apply Nat.leb_le. exact H.
Qed.

Lemma cl_no_raise_sound log : cl_no_raise [] log = true -> raised log = false.
Proof.
  unfold cl_no_raise, raised. induction log as [|x l IH]; [reflexivity|].
  cbn [forallb existsb]. intro H. apply andb_true_iff in H as [Hx Hl].
  rewrite (IH Hl). destruct x; try reflexivity. destruct e; discriminate.
Qed.

Lemma prop_bits_zero m0 causes R log final alldone :
  prop_bits m0 causes R log final alldone = 0 ->
  cl_at_most_once m0 log = true /\ cl_at_least_once m0 causes log alldone = true /\
  cl_no_raise R log = true /\ cl_no_trace m0 causes final alldone = true /\
  cl_others m0 causes log final = true /\ cl_reason m0 causes log = true.
Proof.
  unfold prop_bits.
  destruct (cl_at_most_once _ _), (cl_at_least_once _ _ _ _), (cl_no_raise _ _),
    (cl_no_trace _ _ _ _), (cl_others _ _ _ _), (cl_reason _ _ _); cbn; intro H;
    try discriminate; repeat split; reflexivity.
Qed.
