(* C05 on histories that include the re-entrant scenario of Server/ServerX.v: the client is
   disconnected by the server while its event is still being handled.  The event must still be
   handled exactly once and acknowledged exactly once, to that client. *)
From VT Require Export Check.C05Check Server.ServerX.
Open Scope N_scope.

Record xhcase := mkXH { xh_cfg : cfg; xh_ops : list xop; xh_obs : list (list eff); xh_final : sdump }.

Fixpoint xcorr_steps (c : cfg) (s : srv) (ops : list xop) (obs : list (list eff)) : bool * srv :=
  match ops, obs with
  | [], [] => (true, s)
  | o :: r, e :: es => let '(s1, me) := xstep c s o in
                       let '(b, sf) := xcorr_steps c s1 r es in (effs_eqb me e && b, sf)
  | _, _ => (false, s)
  end.
Definition xcorr_ok (h : xhcase) : bool :=
  let '(b, sf) := xcorr_steps (xh_cfg h) srv_init (xh_ops h) (xh_obs h) in
  b && dump_eqb (dump_of sf) (xh_final h).
Fixpoint xfirst_diff (c : cfg) (s : srv) (ops : list xop) (obs : list (list eff)) (i : nat) : option nat :=
  match ops, obs with
  | o :: r, e :: es => let '(s1, me) := xstep c s o in
                       if effs_eqb me e then xfirst_diff c s1 r es (S i) else Some i
  | [], [] => None
  | _, _ => Some i
  end.

(* how often the frame list [fr] occurs as a contiguous block in [l] *)
Fixpoint starts_with (fr l : list pv) : bool :=
  match fr, l with
  | [], _ => true
  | x :: fr', y :: l' => pv_eqb x y && starts_with fr' l'
  | _ :: _, [] => false
  end.
Fixpoint count_frames (fr l : list pv) : nat :=
  match l with
  | [] => O
  | _ :: l' => ((if starts_with fr l then 1 else 0) + count_frames fr l')%nat
  end.

Definition c05_sd_step (c : cfg) (s : srv) (eio : str) (payload : pv) (tbl : jtable) (obs : list eff) : bool :=
  if negb (existsb (str_eqb eio) (live s)) || has_actions c then true else
  match event_of c s eio payload tbl with
  | None => true
  | Some (pn, id, data) =>
      let ns := ns_or_default pn in
      match split_event data with
      | Err _ => true
      | Ok (ev, args) =>
          if reserved ev || is_unhashable ev then true else
          let osid := sid_from_eio (mg s) eio ns in
          match (if is_connected (mg s) osid ns then osid else None) with
          | None => match obs with [] => true | _ => false end
          | Some sid =>
              match responsible c ev ns (PStr sid :: args) with
              | Some (Some h, a) =>
                  if negb (arity_ok c h (List.length a)) then true else
                  match outcome_of c h with
                  | Some (Returns v) =>
                      (* handled exactly once ... *)
                      match calls_of obs with
                      | (h', a') :: _ => N.eqb h h' && list_eqb pv_eqb a a'
                      | [] => false end &&
                      Nat.eqb (List.length (filter (fun ha => N.eqb (fst ha) h) (calls_of obs))) 1 &&
                      forallb (str_eqb eio) (out_eios obs) &&
                      (* ... and acknowledged exactly once, to that client, although the server has
                         ended its connection in the meantime (unless the disconnect handler raised) *)
                      match id with
                      | Some i =>
                          match frames_of c ACK (PList (pack v)) ns (Some i) with
                          | Ok fr =>
                              (* the disconnect dispatch fails iff the responsible handler does not return, or fits
                                 neither (prefix, sid, reason) nor the legacy (prefix, sid); catch-all targets get
                                 the namespace prepended, hence the prefix *)
                              let disc_failed := match responsible c ev_disconnect ns [] with
                                                 | Some (Some dh, pre) =>
                                                     match outcome_of c dh with
                                                     | Some (Returns _) =>
                                                         negb (arity_ok c dh (List.length pre + 2)
                                                               || arity_ok c dh (List.length pre + 1))
                                                     | _ => true end
                                                 | _ => false end in
                              disc_failed || Nat.eqb (count_frames fr (outs_of eio obs)) 1
                          | Err _ => true
                          end
                      | None => true
                      end
                  | _ => true
                  end
              | _ => true
              end
          end
      end
  end.

Fixpoint xall_steps (c : cfg) (s : srv) (ops : list xop) (obs : list (list eff)) : bool :=
  match ops, obs with
  | o :: r, e :: es =>
      match o with
      | Plain o' => c05_step c s o' e
      | EventSD eio payload tbl => c05_sd_step c s eio payload tbl e
      end && xall_steps c (fst (xstep c s o)) r es
  | _, _ => true
  end.

Definition c05x_eval (h : xhcase) : nat :=
  bits (xcorr_ok h) (xall_steps (xh_cfg h) srv_init (xh_ops h) (xh_obs h)).
