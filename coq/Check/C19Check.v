(* C19: case type, correspondence with the model, and the property evaluated on what the
   implementation did (the observed label trace), with the soundness lemmas of the checker. *)
From Coq Require Import Lia.
From VT Require Export Base.PyVal Simple.SimpleClient Simple.SimpleTransport.
Local Open Scope nat_scope.

Inductive status := SDone | SReady | SNotified | SBlocked (timeout : bool).

(* one scheduled run of the real class: scenario + observation *)
Inductive c19case :=
| Case (fixed recheck atomic : bool) (P : list (list hop)) (C : list cop) (sched : list nat)
       (tr : list (list lbl))            (* labels of the accesses performed at each choice *)
       (stat : status) (pdone : bool)    (* consumer status and "all producers finished" at the end *)
       (fbuf : list pv) (fiev fcev fconn fnsup : bool).   (* final buffer and flags *)

(* short names used by the generated case files *)
Definition ev (name : string) (n : Z) : hop := HEvent (PStr (s2l name)) [PInt n].
Definition it (name : string) (n : Z) : pv := PList [PStr (s2l name); PInt n].
Definition Tmo := TimeoutError.
Definition Dis := DisconnectedError.

(* ---- equality on observations ---- *)
Definition evt_eqb (a b : evt) : bool := match a, b with CE, CE | IE, IE => true | _, _ => false end.
Definition lbl_eqb (a b : lbl) : bool :=
  match a, b with
  | LBufTest x, LBufTest y => Bool.eqb x y
  | LWaitEnter e x, LWaitEnter f y => evt_eqb e f && Bool.eqb x y
  | LWake e, LWake f | LTimeout e, LTimeout f | LClear e, LClear f | LSet e, LSet f => evt_eqb e f
  | LConnRead x, LConnRead y | LConnWrite x, LConnWrite y | LNs x, LNs y | LSend x, LSend y => Bool.eqb x y
  | LPop, LPop | LSent, LSent | LDone, LDone => true
  | LAppend x, LAppend y | LRet x, LRet y => pv_eqb x y
  | LRaise x, LRaise y => exn_eqb x y
  | LOther x, LOther y => Nat.eqb x y
  | _, _ => false
  end.
Definition status_eqb (a b : status) : bool :=
  match a, b with
  | SDone, SDone | SReady, SReady | SNotified, SNotified => true
  | SBlocked x, SBlocked y => Bool.eqb x y
  | _, _ => false
  end.

Definition status_of (c : cfg) : status :=
  match pc c with
  | CDone => SDone
  | RCW WBlocked | RIW WBlocked | EW WBlocked => SBlocked (cur_timeout c)
  | RCW WNotified | RIW WNotified | EW WNotified => SNotified
  | _ => SReady
  end.

(* ---- correspondence: the model run on the same scenario and schedule ---- *)
Definition agree (k : c19case) : bool :=
  match k with
  | Case fixed recheck atomic P C sched tr stat pdone fbuf fiev fcev fconn fnsup =>
      let v := mkVariant fixed recheck in
      let c := run v atomic (init P C) sched in
      list_eqb (list_eqb lbl_eqb) (trace v atomic (init P C) sched) tr &&
      status_eqb (status_of c) stat && Bool.eqb (prods_done c) pdone &&
      list_eqb pv_eqb (buf (sh c)) fbuf &&
      Bool.eqb (iev (sh c)) fiev && Bool.eqb (cev (sh c)) fcev &&
      Bool.eqb (conn (sh c)) fconn && Bool.eqb (nsup (sh c)) fnsup
  end.

(* ---- the property on the observed trace ---- *)
Fixpoint apps (l : list lbl) : list pv :=
  match l with [] => [] | LAppend x :: r => x :: apps r | _ :: r => apps r end.
Fixpoint rets (l : list lbl) : list pv :=
  match l with [] => [] | LRet x :: r => x :: rets r | _ :: r => rets r end.
Definition final_seen (l : list lbl) : bool :=
  existsb (fun x => match x with LConnWrite false => true | _ => false end) l.

(* no loss, no duplication, no reordering: what was returned followed by what is still
   buffered is what was appended, in append order *)
Definition chk_fifo (tr : list (list lbl)) (fbuf : list pv) : bool :=
  list_eqb pv_eqb (rets (List.concat tr) ++ fbuf) (apps (List.concat tr)).

(* the call is blocked for ever although the connection has ended for good *)
Definition chk_hang (tr : list (list lbl)) (stat : status) (pdone fconn : bool) : bool :=
  negb (status_eqb stat (SBlocked false) && pdone && final_seen (List.concat tr) && negb fconn).

(* ghost bookkeeping along the trace *)
Record gh := mkGh {
  g_app : nat;             (* items appended so far *)
  g_ret : nat;             (* items returned so far *)
  g_pend : list nat;       (* producers (by choice) whose on_event has appended and not yet returned *)
  g_final : bool;          (* a `connected = False` has been written *)
  g_wait : evt;            (* the wait the consumer entered last *)
  g_bits : nat }.          (* violations found so far *)
Definition remove_all (x : nat) (l : list nat) : list nat := filter (fun y => negb (Nat.eqb x y)) l.
Definition flag (g : gh) (bit : nat) : gh :=
  mkGh (g_app g) (g_ret g) (g_pend g) (g_final g) (g_wait g)
       (if Nat.eqb (Nat.land (g_bits g) bit) 0 then g_bits g + bit else g_bits g).
(* completed hand-offs (appended by a handler invocation that has returned) not yet returned *)
Definition unconsumed (g : gh) : nat := g_app g - List.length (g_pend g) - g_ret g.
(* `recv`: the call of the application in progress is a receive().  The drain condition of clause 64
   is receive()'s ("DisconnectedError once ... the events received before that have been returned");
   emit() / call() raise DisconnectedError once the connection has ended for good (clause 32),
   whatever is buffered. *)
Definition on_label (recv : bool) (ch : nat) (g : gh) (x : lbl) : gh :=
  match x with
  | LAppend _ => mkGh (S (g_app g)) (g_ret g) (ch :: g_pend g) (g_final g) (g_wait g) (g_bits g)
  | LDone => mkGh (g_app g) (g_ret g) (remove_all ch (g_pend g)) (g_final g) (g_wait g) (g_bits g)
  | LRet _ => mkGh (g_app g) (S (g_ret g)) (g_pend g) (g_final g) (g_wait g) (g_bits g)
  | LWaitEnter e _ | LTimeout e =>
      mkGh (g_app g) (g_ret g) (g_pend g) (g_final g) e (g_bits g)
  | LConnWrite false => mkGh (g_app g) (g_ret g) (g_pend g) true (g_wait g) (g_bits g)
  | LRaise TimeoutError =>
      if 0 <? unconsumed g then flag g (match g_wait g with IE => 8 | CE => 16 end) else g
  | LRaise DisconnectedError =>
      let g1 := if g_final g then g else flag g 32 in
      if recv && (0 <? unconsumed g1) then flag g1 64 else g1
  | LRaise _ => flag g 256
  | _ => g
  end.
Definition call_over (x : lbl) : bool := match x with LRet _ | LRaise _ | LSent => true | _ => false end.
Definition in_recv (C : list cop) : bool := match C with Recv _ :: _ => true | _ => false end.
(* the labels of one step; C = the calls of the application not yet finished *)
Fixpoint wlabels (ch : nat) (l : list lbl) (g : gh) (C : list cop) : gh * list cop :=
  match l with
  | [] => (g, C)
  | x :: r => wlabels ch r (on_label (in_recv C) ch g x) (if call_over x then tl C else C)
  end.
Fixpoint walk (sched : list nat) (tr : list (list lbl)) (g : gh) (C : list cop) : gh * list cop :=
  match sched, tr with
  | ch :: s, l :: t => let '(g', C') := wlabels ch l g C in walk s t g' C'
  | _, _ => (g, C)
  end.
Definition g0 := mkGh 0 0 [] false CE 0.

(* an event is held back: a receive() is blocked for ever in a wait without timeout, every
   producer has finished, and a completely handed-off event is in the buffer (`recv`: the pending
   call is a receive(); an emit() waiting out an outage holds nothing back) *)
Definition chk_held (g : gh) (stat : status) (pdone recv : bool) : bool :=
  negb (recv && status_eqb stat (SBlocked false) && pdone && (0 <? unconsumed g)).

(* One shape of a held-back event has its own bit (4096, signature
   held-back-in-connected-wait-during-outage; notes/C19.md section 9): an untimed receive() blocked in
   connected_event.wait() - not in input_event.wait() - while the connection is down (flag clear) and no
   final disconnect has been seen, thread granularity.  Every other held-back shape is bit 512. *)
Definition held_in_outage (atomic : bool) (g : gh) (tr : list (list lbl)) (fcev : bool) : bool :=
  negb atomic && evt_eqb (g_wait g) CE && negb fcev && negb (final_seen (List.concat tr)).

(* bits: 4 fifo, 8 TimeoutError from the input wait while a completed hand-off is unconsumed,
   16 the same from the connected wait, 32 DisconnectedError before any final disconnect,
   64 DisconnectedError while a completed hand-off is unconsumed, 128 blocked for ever after
   the final disconnect, 256 any other exception, 512 blocked for ever while a completely
   handed-off event is buffered (4096: the one shape described above) *)
(* Clauses 16 and 64 speak about "events received before the connection ended": they are
   evaluated on scenarios in which the handlers are invoked the way the Client does on one
   namespace (one producer, `lifecycle`); the other clauses on every scenario. *)
Definition in_domain (P : list (list hop)) : bool :=
  match P with [scr] => lifecycle scr | _ => false end.
Definition domain_mask (P : list (list hop)) (bits : nat) : nat :=
  if in_domain P then bits
  else bits - (if Nat.eqb (Nat.land bits 16) 0 then 0 else 16) - (if Nat.eqb (Nat.land bits 64) 0 then 0 else 64).
Definition prop_bits (k : c19case) : nat :=
  match k with
  | Case fixed recheck atomic P C sched tr stat pdone fbuf fiev fcev fconn fnsup =>
      let '(g, Crest) := walk sched tr g0 C in
      domain_mask P (g_bits g) + (if chk_fifo tr fbuf then 0 else 4) +
      (if chk_hang tr stat pdone fconn then 0 else 128) +
      (if chk_held g stat pdone (in_recv Crest) then 0
       else if held_in_outage atomic g tr fcev then 4096 else 512)
  end.

(* 0 = fine; bit 1 = model and implementation disagree; bit 2 = the implementation's own
   observation violates the property (the higher bits say which clause) *)
Definition c19_eval (k : c19case) : nat :=
  (if agree k then 0 else 1) + (match prop_bits k with 0 => 0 | b => 2 + b end).

Definition c19_explain (k : c19case) :=
  match k with
  | Case fixed recheck atomic P C sched tr stat pdone fbuf fiev fcev fconn fnsup =>
      let v := mkVariant fixed recheck in
      let c := run v atomic (init P C) sched in
      (trace v atomic (init P C) sched, status_of c, prods_done c, sh c, prop_bits k)
  end.

(* ---- soundness of the checker clauses ---- *)
Lemma chk_fifo_sound tr fbuf : chk_fifo tr fbuf = true -> rets (List.concat tr) ++ fbuf = apps (List.concat tr).
Proof. unfold chk_fifo. intro H. apply (list_eqb_eq pv_eqb pv_eqb_eq). exact H. Qed.

Lemma status_eqb_eq a b : status_eqb a b = true <-> a = b.
Proof.
  destruct a as [| | |[]], b as [| | |[]]; simpl; split; intro H; try reflexivity; try discriminate.
Qed.

Lemma chk_hang_sound tr stat pdone fconn : chk_hang tr stat pdone fconn = true ->
  ~ (stat = SBlocked false /\ pdone = true /\ final_seen (List.concat tr) = true /\ fconn = false).
Proof.
  unfold chk_hang. intros H (H1 & H2 & H3 & H4). subst. rewrite H3 in H. simpl in H. discriminate.
Qed.

Lemma flag_bits_mono g b : g_bits g <= g_bits (flag g b).
Proof. unfold flag; simpl. destruct (Nat.eqb _ 0); lia. Qed.

(* ===================================================================================== *)
(* Transport-level cases: SimpleClient / AsyncSimpleClient over the REAL Client /          *)
(* AsyncClient over a fake engine.io transport (drivers/sched_simple_eio.py).  The producer *)
(* script is a history of what the server / transport does; the model runs on `dispatch` of *)
(* it (Simple/SimpleTransport.v).                                                          *)
(* ===================================================================================== *)
Inductive c19tcase :=
| TCase (fixed recheck atomic : bool)
        (reconn : bool) (att : nat)       (* Client(reconnection=, reconnection_attempts=) *)
        (T : list top) (C : list cop) (sched : list nat)
        (tr : list (list lbl)) (stat : status) (pdone : bool)
        (fbuf : list pv) (fiev fcev fconn fnsup : bool).

Definition tev (name : string) (n : Z) : top := TEvent (PStr (s2l name)) [PInt n].

(* correspondence: the model run on `dispatch T`, on the schedule of the tie (at asyncio
   granularity a producer choice is one whole transport event) *)
Definition tagree (k : c19tcase) : bool :=
  match k with
  | TCase fixed recheck atomic reconn att T C sched tr stat pdone fbuf fiev fcev fconn fnsup =>
      let v := mkVariant fixed recheck in
      let tp := mkTP reconn att in
      let gs := tgroups atomic tp T sched in
      let c := grun v atomic (tinit tp T C) gs in
      list_eqb (list_eqb lbl_eqb) (gtrace v atomic (tinit tp T C) gs) tr &&
      status_eqb (status_of c) stat && Bool.eqb (prods_done c) pdone &&
      list_eqb pv_eqb (buf (sh c)) fbuf &&
      Bool.eqb (iev (sh c)) fiev && Bool.eqb (cev (sh c)) fcev &&
      Bool.eqb (conn (sh c)) fconn && Bool.eqb (nsup (sh c)) fnsup
  end.

Fixpoint prefix_eqb (a b : list pv) : bool :=
  match a, b with
  | [], _ => true
  | x :: a', y :: b' => pv_eqb x y && prefix_eqb a' b'
  | _ :: _, [] => false
  end.

(* what receive() returned, followed by what is still buffered, is what the SERVER sent (each
   event once, in order, nothing else): a prefix of it while the Client is still processing the
   history, all of it once it has processed everything *)
Definition chk_sent (tp : tparams) (T : list top) (tr : list (list lbl)) (fbuf : list pv) (pdone : bool) : bool :=
  let got := rets (List.concat tr) ++ fbuf in
  if pdone then list_eqb pv_eqb got (server_sent tp T) else prefix_eqb got (server_sent tp T).

(* the lifecycle notifications of the underlying Client are never received as events *)
Definition lifecycle_names : list str :=
  map s2l ["connect"; "connect_error"; "disconnect"; "__disconnect_final"]%string.
Definition is_lifecycle_item (x : pv) : bool :=
  match x with PList (PStr s :: _) => existsb (str_eqb s) lifecycle_names | _ => false end.
Definition chk_no_lifecycle (tp : tparams) (T : list top) (tr : list (list lbl)) (fbuf : list pv) : bool :=
  forallb (fun x => negb (is_lifecycle_item x) || existsb (pv_eqb x) (server_sent tp T))
          (rets (List.concat tr) ++ fbuf).

(* bits of prop_bits (every dispatched script is inside `lifecycle`, so all clauses apply), plus
   1024 received ++ buffered differs from what the server sent, 2048 a lifecycle notification of
   the underlying client was received as an event *)
Definition tprop_bits (k : c19tcase) : nat :=
  match k with
  | TCase fixed recheck atomic reconn att T C sched tr stat pdone fbuf fiev fcev fconn fnsup =>
      let tp := mkTP reconn att in
      prop_bits (Case fixed recheck atomic [dispatch tp T] C sched tr stat pdone fbuf fiev fcev fconn fnsup) +
      (if chk_sent tp T tr fbuf pdone then 0 else 1024) +
      (if chk_no_lifecycle tp T tr fbuf then 0 else 2048)
  end.

Definition c19t_eval (k : c19tcase) : nat :=
  (if tagree k then 0 else 1) + (match tprop_bits k with 0 => 0 | b => 2 + b end).

Definition c19t_explain (k : c19tcase) :=
  match k with
  | TCase fixed recheck atomic reconn att T C sched tr stat pdone fbuf fiev fcev fconn fnsup =>
      let v := mkVariant fixed recheck in
      let tp := mkTP reconn att in
      let gs := tgroups atomic tp T sched in
      let c := grun v atomic (tinit tp T C) gs in
      (dispatch tp T, server_sent tp T, gtrace v atomic (tinit tp T C) gs, status_of c, prods_done c, sh c,
       tprop_bits k)
  end.

Lemma prefix_eqb_sound a : forall b, prefix_eqb a b = true -> exists rest, a ++ rest = b.
Proof.
  induction a as [|x a IH]; intros b H; [exists b; reflexivity|].
  destruct b as [|y b]; [discriminate|]. simpl in H. apply andb_true_iff in H as [H1 H2].
  apply pv_eqb_eq in H1. subst y. destruct (IH b H2) as [rest Hr]. exists rest. simpl. rewrite Hr. reflexivity.
Qed.

(* reading of clause 1024, the observable half of `transport_fifo` *)
Lemma chk_sent_sound tp T tr fbuf pdone : chk_sent tp T tr fbuf pdone = true ->
  exists rest, rets (List.concat tr) ++ fbuf ++ rest = server_sent tp T /\ (pdone = true -> rest = []).
Proof.
  unfold chk_sent. destruct pdone; intro H.
  - exists []. rewrite app_nil_r. split; [|reflexivity]. apply (list_eqb_eq pv_eqb pv_eqb_eq). exact H.
  - apply prefix_eqb_sound in H as [rest Hr]. exists rest. rewrite app_assoc. split; [exact Hr|discriminate].
Qed.

(* every transport case is inside the domain of clauses 16 and 64 *)
Lemma transport_in_domain tp T : in_domain [dispatch tp T] = true.
Proof. apply dispatch_lifecycle. Qed.
