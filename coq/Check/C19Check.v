(* C19: case type, correspondence with the model, and the property evaluated on what the
   implementation did (the observed label trace), with the soundness lemmas of the checker. *)
From Coq Require Import Lia.
From VT Require Export Base.PyVal Simple.SimpleClient.
Local Open Scope nat_scope.

Inductive status := SDone | SReady | SNotified | SBlocked (timeout : bool).

(* one scheduled run of the real class: scenario + observation *)
Inductive c19case :=
| Case (fixed recheck atomic : bool) (P : list (list hop)) (C : list cop) (sched : list nat)
       (tr : list (list lbl))            (* labels of the accesses performed at each choice *)
       (stat : status) (pdone : bool)    (* consumer status and "all producers finished" at the end *)
       (fbuf : list pv) (fiev fcev fconn fnsup : bool).   (* final buffer and flags *)

(* short names used by the generated case files *)
Definition ev (name : string) (n : Z) : hop := HEvent (PStr (s2l name)) [PInt n].
Definition it (name : string) (n : Z) : pv := PList [PStr (s2l name); PInt n].
Definition Tmo := TimeoutError.
Definition Dis := DisconnectedError.

(* ---- equality on observations ---- *)
Definition evt_eqb (a b : evt) : bool := match a, b with CE, CE | IE, IE => true | _, _ => false end.
Definition lbl_eqb (a b : lbl) : bool :=
  match a, b with
  | LBufTest x, LBufTest y => Bool.eqb x y
  | LWaitEnter e x, LWaitEnter f y => evt_eqb e f && Bool.eqb x y
  | LWake e, LWake f | LTimeout e, LTimeout f | LClear e, LClear f | LSet e, LSet f => evt_eqb e f
  | LConnRead x, LConnRead y | LConnWrite x, LConnWrite y | LNs x, LNs y | LSend x, LSend y => Bool.eqb x y
  | LPop, LPop | LSent, LSent | LDone, LDone => true
  | LAppend x, LAppend y | LRet x, LRet y => pv_eqb x y
  | LRaise x, LRaise y => exn_eqb x y
  | LOther x, LOther y => Nat.eqb x y
  | _, _ => false
  end.
Definition status_eqb (a b : status) : bool :=
  match a, b with
  | SDone, SDone | SReady, SReady | SNotified, SNotified => true
  | SBlocked x, SBlocked y => Bool.eqb x y
  | _, _ => false
  end.

Definition status_of (c : cfg) : status :=
  match pc c with
  | CDone => SDone
  | RCW WBlocked | RIW WBlocked | EW WBlocked => SBlocked (cur_timeout c)
  | RCW WNotified | RIW WNotified | EW WNotified => SNotified
  | _ => SReady
  end.

(* ---- correspondence: the model run on the same scenario and schedule ---- *)
Definition agree (k : c19case) : bool :=
  match k with
  | Case fixed recheck atomic P C sched tr stat pdone fbuf fiev fcev fconn fnsup =>
      let v := mkVariant fixed recheck in
      let c := run v atomic (init P C) sched in
      list_eqb (list_eqb lbl_eqb) (trace v atomic (init P C) sched) tr &&
      status_eqb (status_of c) stat && Bool.eqb (prods_done c) pdone &&
      list_eqb pv_eqb (buf (sh c)) fbuf &&
      Bool.eqb (iev (sh c)) fiev && Bool.eqb (cev (sh c)) fcev &&
      Bool.eqb (conn (sh c)) fconn && Bool.eqb (nsup (sh c)) fnsup
  end.

(* ---- the property on the observed trace ---- *)
Fixpoint apps (l : list lbl) : list pv :=
  match l with [] => [] | LAppend x :: r => x :: apps r | _ :: r => apps r end.
Fixpoint rets (l : list lbl) : list pv :=
  match l with [] => [] | LRet x :: r => x :: rets r | _ :: r => rets r end.
Definition final_seen (l : list lbl) : bool :=
  existsb (fun x => match x with LConnWrite false => true | _ => false end) l.

(* no loss, no duplication, no reordering: what was returned followed by what is still
   buffered is what was appended, in append order *)
Definition chk_fifo (tr : list (list lbl)) (fbuf : list pv) : bool :=
  list_eqb pv_eqb (rets (List.concat tr) ++ fbuf) (apps (List.concat tr)).

(* the call is blocked for ever although the connection has ended for good *)
Definition chk_hang (tr : list (list lbl)) (stat : status) (pdone fconn : bool) : bool :=
  negb (status_eqb stat (SBlocked false) && pdone && final_seen (List.concat tr) && negb fconn).

(* ghost bookkeeping along the trace *)
Record gh := mkGh {
  g_app : nat;             (* items appended so far *)
  g_ret : nat;             (* items returned so far *)
  g_pend : list nat;       (* producers (by choice) whose on_event has appended and not yet returned *)
  g_final : bool;          (* a `connected = False` has been written *)
  g_wait : evt;            (* the wait the consumer entered last *)
  g_bits : nat }.          (* violations found so far *)
Definition remove_all (x : nat) (l : list nat) : list nat := filter (fun y => negb (Nat.eqb x y)) l.
Definition flag (g : gh) (bit : nat) : gh :=
  mkGh (g_app g) (g_ret g) (g_pend g) (g_final g) (g_wait g)
       (if Nat.eqb (Nat.land (g_bits g) bit) 0 then g_bits g + bit else g_bits g).
(* completed hand-offs (appended by a handler invocation that has returned) not yet returned *)
Definition unconsumed (g : gh) : nat := g_app g - List.length (g_pend g) - g_ret g.
Definition on_label (ch : nat) (g : gh) (x : lbl) : gh :=
  match x with
  | LAppend _ => mkGh (S (g_app g)) (g_ret g) (ch :: g_pend g) (g_final g) (g_wait g) (g_bits g)
  | LDone => mkGh (g_app g) (g_ret g) (remove_all ch (g_pend g)) (g_final g) (g_wait g) (g_bits g)
  | LRet _ => mkGh (g_app g) (S (g_ret g)) (g_pend g) (g_final g) (g_wait g) (g_bits g)
  | LWaitEnter e _ | LTimeout e =>
      mkGh (g_app g) (g_ret g) (g_pend g) (g_final g) e (g_bits g)
  | LConnWrite false => mkGh (g_app g) (g_ret g) (g_pend g) true (g_wait g) (g_bits g)
  | LRaise TimeoutError =>
      if 0 <? unconsumed g then flag g (match g_wait g with IE => 8 | CE => 16 end) else g
  | LRaise DisconnectedError =>
      let g1 := if g_final g then g else flag g 32 in
      if 0 <? unconsumed g1 then flag g1 64 else g1
  | LRaise _ => flag g 256
  | _ => g
  end.
Fixpoint walk (sched : list nat) (tr : list (list lbl)) (g : gh) : gh :=
  match sched, tr with
  | ch :: s, l :: t => walk s t (fold_left (on_label ch) l g)
  | _, _ => g
  end.
Definition g0 := mkGh 0 0 [] false CE 0.

(* an event is held back: the call is blocked for ever in a wait without timeout, every
   producer has finished, and a completely handed-off event is in the buffer *)
Definition chk_held (g : gh) (stat : status) (pdone : bool) : bool :=
  negb (status_eqb stat (SBlocked false) && pdone && (0 <? unconsumed g)).

(* bits: 4 fifo, 8 TimeoutError from the input wait while a completed hand-off is unconsumed,
   16 the same from the connected wait, 32 DisconnectedError before any final disconnect,
   64 DisconnectedError while a completed hand-off is unconsumed, 128 blocked for ever after
   the final disconnect, 256 any other exception, 512 blocked for ever while a completely
   handed-off event is buffered *)
(* Clauses 16 and 64 speak about "events received before the connection ended": they are
   evaluated on scenarios in which the handlers are invoked the way the Client does on one
   namespace (one producer, `lifecycle`); the other clauses on every scenario. *)
Definition in_domain (P : list (list hop)) : bool :=
  match P with [scr] => lifecycle scr | _ => false end.
Definition domain_mask (P : list (list hop)) (bits : nat) : nat :=
  if in_domain P then bits
  else bits - (if Nat.eqb (Nat.land bits 16) 0 then 0 else 16) - (if Nat.eqb (Nat.land bits 64) 0 then 0 else 64).
Definition prop_bits (k : c19case) : nat :=
  match k with
  | Case fixed recheck atomic P C sched tr stat pdone fbuf fiev fcev fconn fnsup =>
      let g := walk sched tr g0 in
      domain_mask P (g_bits g) + (if chk_fifo tr fbuf then 0 else 4) +
      (if chk_hang tr stat pdone fconn then 0 else 128) +
      (if chk_held g stat pdone then 0 else 512)
  end.

(* 0 = fine; bit 1 = model and implementation disagree; bit 2 = the implementation's own
   observation violates the property (the higher bits say which clause) *)
Definition c19_eval (k : c19case) : nat :=
  (if agree k then 0 else 1) + (match prop_bits k with 0 => 0 | b => 2 + b end).

Definition c19_explain (k : c19case) :=
  match k with
  | Case fixed recheck atomic P C sched tr stat pdone fbuf fiev fcev fconn fnsup =>
      let v := mkVariant fixed recheck in
      let c := run v atomic (init P C) sched in
      (trace v atomic (init P C) sched, status_of c, prods_done c, sh c, prop_bits k)
  end.

(* ---- soundness of the checker clauses ---- *)
Lemma chk_fifo_sound tr fbuf : chk_fifo tr fbuf = true -> rets (List.concat tr) ++ fbuf = apps (List.concat tr).
Proof. unfold chk_fifo. intro H. apply (list_eqb_eq pv_eqb pv_eqb_eq). exact H. Qed.

Lemma status_eqb_eq a b : status_eqb a b = true <-> a = b.
Proof.
  destruct a as [| | |[]], b as [| | |[]]; simpl; split; intro H; try reflexivity; try discriminate.
Qed.

Lemma chk_hang_sound tr stat pdone fconn : chk_hang tr stat pdone fconn = true ->
  ~ (stat = SBlocked false /\ pdone = true /\ final_seen (List.concat tr) = true /\ fconn = false).
Proof.
  unfold chk_hang. intros H (H1 & H2 & H3 & H4). subst. rewrite H3 in H. simpl in H. discriminate.
Qed.

Lemma flag_bits_mono g b : g_bits g <= g_bits (flag g b).
Proof. unfold flag; simpl. destruct (Nat.eqb _ 0); lia. Qed.
