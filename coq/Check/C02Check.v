(* C02 - the property's domain, the case type of the loopback tie and the boolean checkers
   evaluated on what the REAL Client <-> Server pair did. *)
From VT Require Export Codec.Packet Codec.SpecCodec Check.C01Check Codec.MsgPack E2E.Pipe.
Open Scope N_scope.

(* ---- the quantifier of C02 ---- *)
(* a namespace a client can be connected to: "/..." without ',' (the wire separator) and
   without '?' (the decoder strips a query string) *)
Definition wf_nsname (ns : str) : bool :=
  match ns with
  | 47 :: r => negb (existsb (N.eqb 44) r) && negb (existsb (N.eqb 63) r)
  | _ => false
  end.
(* what the application passes to emit / returns from a handler: a JSON-compatible tree with
   bytes leaves (C01Check.wf_data: string keys, distinct, not the reserved "_placeholder", finite
   floats, ints of <= 100 digits), or a tuple of such trees (tuples only at top level), or None *)
Definition wf_payload (data : pv) : bool :=
  match data with
  | PTuple l => forallb wf_data l
  | d => wf_data d
  end.

Definition msg_wf (m : msg) : bool :=
  match m with
  | MEmit ev data ns id => wf_payload data && wf_nsname ns && wf_id id
  | MAck r ns id => wf_payload r && wf_nsname ns && wf_id (Some id)
  end.
(* the data field of the packet the sender builds *)
Definition msg_payload (m : msg) : pv :=
  match m with
  | MEmit ev data _ _ => PList (PStr ev :: pack data)
  | MAck r _ _ => PList (pack r)
  end.
Definition msg_type (m : msg) : Z := match m with MEmit _ _ _ _ => EVENT | MAck _ _ _ => ACK end.
Definition msg_ns (m : msg) : str := match m with MEmit _ _ ns _ => ns | MAck _ ns _ => ns end.
Definition msg_id (m : msg) : option Z := match m with MEmit _ _ _ id => id | MAck _ _ id => Some id end.
(* the packet as the msgpack serializer sees it (never promoted to a binary type) *)
Definition msg_packet (m : msg) : packet :=
  mkPacket (PInt (msg_type m)) (Some (msg_ns m)) (msg_id m) (msg_payload m).
(* the decoder refuses an attachment count of more than 10 digits ("too many attachments") *)
Definition msg_small (m : msg) : Prop :=
  N.of_nat (List.length (leaves (msg_payload m))) < 10000000000.
(* json.loads inverts json.dumps on the one JSON text of this message (placeholders in place
   of the byte strings): the oracle premise of C01_roundtrip_pointwise_partial *)
Definition msg_json_ok (loads : str -> Res pv) (m : msg) : Prop :=
  forall s, json_dumps (subst (msg_payload m) 0) = Ok s -> loads s = Ok (subst (msg_payload m) 0).
(* msgpack round-trips the one dictionary of this message *)
Definition msg_msgpack_ok (mdumps : pv -> Res str) (mloads : str -> Res pv) (m : msg) : Prop :=
  msgpack_rt mdumps mloads (to_dict (msg_packet m)).

(* the msgpack library's own domain, for the universal form of its hypothesis *)
Definition mp_payload (data : pv) : bool :=
  match data with
  | PTuple l => forallb msgpackable l
  | d => msgpackable d
  end.
Definition msg_mp_wf (m : msg) : bool :=
  match m with
  | MEmit ev data ns id =>
      forallb scalar_cp ev && mp_payload data && forallb scalar_cp ns &&
      match id with Some i => int64ish i | None => true end
  | MAck r ns id => mp_payload r && forallb scalar_cp ns && int64ish id
  end.

(* ---- oracle tables recorded from the real libraries ---- *)
Definition mtable := list (pv * str).        (* (msgpack.loads(blob), blob) for every blob on the wire *)
Fixpoint table_mdumps (tbl : mtable) (v : pv) : Res str :=
  match tbl with
  | [] => Err OracleMiss
  | (k, b) :: r => if pv_eqb k v then Ok b else table_mdumps r v
  end.
Fixpoint table_mloads (tbl : mtable) (b : str) : Res pv :=
  match tbl with
  | [] => Err OracleMiss
  | (k, b') :: r => if str_eqb b' b then Ok k else table_mloads r b
  end.
Definition jstable := list (str * Res pv).   (* every json.loads call of the receiver *)
Fixpoint jstable_loads (tbl : jstable) (s : str) : Res pv :=
  match tbl with
  | [] => Err OracleMiss
  | (k, r) :: rest => if str_eqb k s then r else jstable_loads rest s
  end.

(* ---- cases ---- *)
Inductive c02case :=
| Stream (ser : serializer) (dir : direction)
         (ms : list msg)            (* what ONE sender sent, in order: emits and ACK replies *)
         (jt : jstable) (mt : mtable)
         (wire : list pv)           (* the engine.io MESSAGE payloads it produced, in order *)
         (obs : list rx_event)      (* what the peer's handlers / callbacks received, in order *)
| CallRes (r : pv) (obs : pv)       (* handler returned r; call() on the other side returned obs *)
| CbArgs (r : pv) (obs : list pv)   (* handler returned r; the emitter's callback was invoked with obs *)
| Unmodified (orig after : pv).     (* a payload object before its first send / after all sends of it:
                                       emit (and the ACK path) must not modify the application's value *)

Definition frames_eqb (a b : Res (list pv)) : bool := res_eqb (list_eqb pv_eqb) a b.
Definition rxres_eqb (a b : Res (option rpacket * list rx_event)) : bool :=
  res_eqb (fun x y => match fst x, fst y with None, None => true | Some _, Some _ => true | _, _ => false end
                      && list_eqb rx_event_eqb (snd x) (snd y)) a b.

(* bit 1: the model, run on the sent values, produces the frames seen on the wire (msgpack:
   the blob whose decoded dictionary equals the model's _to_dict), and the model's reassembly
   loop run on those frames delivers what the real receiver delivered *)
Definition c02_corr (c : c02case) : bool :=
  match c with
  | Stream ser dir ms jt mt wire obs =>
      frames_eqb (all_frames (table_mdumps mt) dir ser ms) (Ok wire) &&
      rxres_eqb (rx_run (jstable_loads jt) (table_mloads mt) dir ser None wire) (Ok (None, obs))
  | CallRes r obs => true
  | CbArgs r obs => true
  | Unmodified orig after => true
  end.
(* bit 2: the property, from the SENT values only *)
Definition c02_prop (c : c02case) : bool :=
  match c with
  | Stream ser dir ms jt mt wire obs => list_eqb rx_event_eqb obs (map msg_call ms)
  | CallRes r obs => pv_eqb obs (call_result (pack r))
  | CbArgs r obs => list_eqb pv_eqb obs (pack r)
  | Unmodified orig after => pv_eqb after orig
  end.

Definition c02_eval (c : c02case) : nat :=
  ((if c02_corr c then 0 else 1) + (if c02_prop c then 0 else 2))%nat.

(* shown by --replay *)
Definition c02_explain (c : c02case) :=
  match c with
  | Stream ser dir ms jt mt wire obs =>
      (all_frames (table_mdumps mt) dir ser ms,
       rx_run (jstable_loads jt) (table_mloads mt) dir ser None wire,
       map msg_call ms)
  | CallRes r obs => (Ok [], Ok (None, []), [AckCall [] None [call_result (pack r)]])
  | CbArgs r obs => (Ok [], Ok (None, []), [AckCall [] None (pack r)])
  | Unmodified orig after => (Ok [], Ok (None, []), [AckCall [] None [orig]])
  end.

(* ---- soundness of the property checker ---- *)
Lemma rx_event_eqb_eq a b : rx_event_eqb a b = true <-> a = b.
Proof.
  destruct a as [n1 e1 a1 i1|n1 i1 a1], b as [n2 e2 a2 i2|n2 i2 a2]; cbn [rx_event_eqb];
    try (split; discriminate).
  - rewrite !andb_true_iff, str_eqb_eq, pv_eqb_eq, (list_eqb_eq _ pv_eqb_eq).
    split.
    + intros [[[-> ->] ->] H]. f_equal. destruct i1, i2; cbn in H; try discriminate; try reflexivity.
      apply Z.eqb_eq in H. congruence.
    + intro H. inversion H; subst. repeat split. destruct i2; cbn; [apply Z.eqb_refl|reflexivity].
  - rewrite !andb_true_iff, str_eqb_eq, (list_eqb_eq _ pv_eqb_eq).
    split.
    + intros [[-> H] ->]. f_equal. destruct i1, i2; cbn in H; try discriminate; try reflexivity.
      apply Z.eqb_eq in H. congruence.
    + intro H. inversion H; subst. repeat split. destruct i2; cbn; [apply Z.eqb_refl|reflexivity].
Qed.

Theorem c02_prop_sound c : c02_prop c = true ->
  match c with
  | Stream ser dir ms jt mt wire obs => obs = map msg_call ms
  | CallRes r obs => obs = call_result (pack r)
  | CbArgs r obs => obs = pack r
  | Unmodified orig after => after = orig
  end.
Proof.
  destruct c as [ser dir ms jt mt wire obs|r obs|r obs|orig after]; cbn [c02_prop]; intro H.
  - apply (list_eqb_eq _ rx_event_eqb_eq). exact H.
  - apply pv_eqb_eq. exact H.
  - apply (list_eqb_eq _ pv_eqb_eq). exact H.
  - apply pv_eqb_eq. exact H.
Qed.
