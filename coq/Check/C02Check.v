(* C02 - the property's domain, the case type of the loopback tie and the boolean checkers
   evaluated on what the REAL Client <-> Server pair did. *)
From VT Require Export Codec.Packet Codec.SpecCodec Check.C01Check Codec.MsgPack E2E.Pipe E2E.AckTable.
Open Scope N_scope.

(* ---- the quantifier of C02 ---- *)
(* a namespace a client can be connected to: "/..." without ',' (the wire separator) and
   without '?' (the decoder strips a query string) *)
Definition wf_nsname (ns : str) : bool :=
  match ns with
  | 47 :: r => negb (existsb (N.eqb 44) r) && negb (existsb (N.eqb 63) r)
  | _ => false
  end.
(* what the application passes to emit / returns from a handler: a JSON-compatible tree with
   bytes leaves (C01Check.wf_data: string keys, distinct, not the reserved "_placeholder", finite
   floats, ints of <= 100 digits), or a tuple of such trees (tuples only at top level), or None *)
Definition wf_payload (data : pv) : bool :=
  match data with
  | PTuple l => forallb wf_data l
  | d => wf_data d
  end.

Definition msg_wf (m : msg) : bool :=
  match m with
  | MEmit ev data ns id => wf_payload data && wf_nsname ns && wf_id id
  | MAck r ns id => wf_payload r && wf_nsname ns && wf_id (Some id)
  end.
(* the data field of the packet the sender builds *)
Definition msg_payload (m : msg) : pv :=
  match m with
  | MEmit ev data _ _ => PList (PStr ev :: pack data)
  | MAck r _ _ => PList (pack r)
  end.
Definition msg_type (m : msg) : Z := match m with MEmit _ _ _ _ => EVENT | MAck _ _ _ => ACK end.
Definition msg_ns (m : msg) : str := match m with MEmit _ _ ns _ => ns | MAck _ ns _ => ns end.
Definition msg_id (m : msg) : option Z := match m with MEmit _ _ _ id => id | MAck _ _ id => Some id end.
(* the packet as the msgpack serializer sees it (never promoted to a binary type) *)
Definition msg_packet (m : msg) : packet :=
  mkPacket (PInt (msg_type m)) (Some (msg_ns m)) (msg_id m) (msg_payload m).
(* the decoder refuses an attachment count of more than 10 digits ("too many attachments") *)
Definition msg_small (m : msg) : Prop :=
  N.of_nat (List.length (leaves (msg_payload m))) < 10000000000.
(* json.loads inverts json.dumps on the one JSON text of this message (placeholders in place
   of the byte strings): the oracle premise of C01_roundtrip_pointwise_partial *)
Definition msg_json_ok (loads : str -> Res pv) (m : msg) : Prop :=
  forall s, json_dumps (subst (msg_payload m) 0) = Ok s -> loads s = Ok (subst (msg_payload m) 0).
(* msgpack round-trips the one dictionary of this message *)
Definition msg_msgpack_ok (mdumps : pv -> Res str) (mloads : str -> Res pv) (m : msg) : Prop :=
  msgpack_rt mdumps mloads (to_dict (msg_packet m)).

(* the msgpack library's own domain, for the universal form of its hypothesis *)
Definition mp_payload (data : pv) : bool :=
  match data with
  | PTuple l => forallb msgpackable l
  | d => msgpackable d
  end.
Definition msg_mp_wf (m : msg) : bool :=
  match m with
  | MEmit ev data ns id =>
      forallb scalar_cp ev && mp_payload data && forallb scalar_cp ns &&
      match id with Some i => int64ish i | None => true end
  | MAck r ns id => mp_payload r && forallb scalar_cp ns && int64ish id
  end.

(* ---- oracle tables recorded from the real libraries ---- *)
Definition mtable := list (pv * str).        (* (msgpack.loads(blob), blob) for every blob on the wire *)
Fixpoint table_mdumps (tbl : mtable) (v : pv) : Res str :=
  match tbl with
  | [] => Err OracleMiss
  | (k, b) :: r => if pv_eqb k v then Ok b else table_mdumps r v
  end.
Fixpoint table_mloads (tbl : mtable) (b : str) : Res pv :=
  match tbl with
  | [] => Err OracleMiss
  | (k, b') :: r => if str_eqb b' b then Ok k else table_mloads r b
  end.
Definition jstable := list (str * Res pv).   (* every json.loads call of the receiver *)
Fixpoint jstable_loads (tbl : jstable) (s : str) : Res pv :=
  match tbl with
  | [] => Err OracleMiss
  | (k, r) :: rest => if str_eqb k s then r else jstable_loads rest s
  end.

(* ---- the observed timeline of one sender (E2E/AckTable.v) ---- *)
Inductive aobs :=
| OReg (key : str) (w : who) (id : Z)
    (* _generate_ack_id was called for the callback w and returned id *)
| OAck (w : option who) (key : str) (id : option Z) (args : list pv)
       (fired : list (who * option (list pv)))
    (* the ACK with which the peer replied to the EVENT of registration w (FIFO: the n-th ACK a
       sender receives is the n-th ACK its peer sent) reached _handle_ack as (key, id, args);
       `fired` = the callbacks seen invoked while it was handled, with their arguments (the
       closure of a call() is seen through its event only: no arguments) *)
| OEnd (op : N) (res : Res pv).
    (* the call() of operation op returned / raised *)

(* ---- cases ---- *)
Inductive c02case :=
| Stream (ser : serializer) (dir : direction)
         (ms : list msg)            (* what ONE sender sent, in order: emits and ACK replies *)
         (jt : jstable) (mt : mtable)
         (wire : list pv)           (* the engine.io MESSAGE payloads it produced, in order *)
         (obs : list rx_event)      (* what the peer's handlers / callbacks received, in order *)
| CallRes (r : pv) (obs : pv)       (* handler returned r; call() on the other side returned obs *)
| CbArgs (r : pv) (obs : list pv)   (* handler returned r; the emitter's callback was invoked with obs *)
| Unmodified (orig after : pv)      (* a payload object before its first send / after all sends of it:
                                       emit (and the ACK path) must not modify the application's value *)
| Acks (rets : list (N * pv))       (* operation -> what the handler invocation for its EVENT returned *)
       (evs : list aobs).           (* everything that happened at ONE sender's registry, in order:
                                       registrations, ACKs arriving (in time or late), call() endings *)

Definition frames_eqb (a b : Res (list pv)) : bool := res_eqb (list_eqb pv_eqb) a b.
Definition rxres_eqb (a b : Res (option rpacket * list rx_event)) : bool :=
  res_eqb (fun x y => match fst x, fst y with None, None => true | Some _, Some _ => true | _, _ => false end
                      && list_eqb rx_event_eqb (snd x) (snd y)) a b.

(* ---- acknowledgement timelines ---- *)
Fixpoint all2 {A B} (f : A -> B -> bool) (la : list A) (lb : list B) : bool :=
  match la, lb with
  | [], [] => true
  | a :: ra, b :: rb => f a b && all2 f ra rb
  | _, _ => false
  end.
Definition fired_eqb (obs : list (who * option (list pv))) (f : option (who * list pv)) : bool :=
  match obs, f with
  | [], None => true
  | [(w, a)], Some (w', a') =>
      who_eqb w w' && match a with Some x => list_eqb pv_eqb x a' | None => true end
  | _, _ => false
  end.
(* what the APPLICATION sees of an ACK: the callbacks it passed to emit().  The closure of a
   call() is internal: whether and with what it was invoked shows in how that call() ends *)
Definition user_fired (l : list (who * option (list pv))) : list (who * option (list pv)) :=
  filter (fun x => match fst x with WUser _ => true | WCall _ => false end) l.
Definition user_out (f : option (who * list pv)) : option (who * list pv) :=
  match f with Some (WCall _, _) => None | x => x end.
(* one observed event against what a machine of AckTable.v says.  internals = true (bit 1, the real
   registry): also the ids drawn and the closures of call()s; false (bit 2, the ideal registry):
   only what the application sees *)
Definition obs_agree (internals : bool) (o : aobs) (out : aout) : bool :=
  match o, out with
  | OReg _ _ id, OutId i => if internals then Z.eqb id (Z.of_N i) else true
  | OAck _ _ _ _ fired, OutFired f =>
      if internals then fired_eqb fired f else fired_eqb (user_fired fired) (user_out f)
  | OEnd _ res, OutRes r => res_eqb pv_eqb res r
  | _, _ => false
  end.
(* the timeline as the real registry sees it: ACK packets with the (key, id) they carry *)
Definition obs_wire (o : aobs) : aev :=
  match o with
  | OReg key w _ => AReg key w
  | OAck _ key id args _ => AAckWire key id args
  | OEnd op _ => AEnd op
  end.
(* the timeline as the ideal registry sees it, from the SENT values only: the ACK replying to
   registration w carries `pack r` for the r its own handler invocation returned *)
Definition ret_args (rets : list (N * pv)) (w : who) : list pv :=
  match dget N.eqb rets (who_op w) with Some r => pack r | None => [PObj 0] end.
Definition obs_ideal (rets : list (N * pv)) (o : aobs) : aev :=
  match o with
  | OReg key w _ => AReg key w
  | OAck (Some w) _ _ _ _ => AAckOf w (ret_args rets w)
  | OAck None key id args _ => AAckWire key id args      (* replies to nothing: must invoke nothing *)
  | OEnd op _ => AEnd op
  end.
Definition ack_args_ok (rets : list (N * pv)) (o : aobs) : bool :=
  match o with
  | OAck (Some w) _ _ args _ => list_eqb pv_eqb args (ret_args rets w)
  | _ => true
  end.
(* every registration is followed by the ACK that replies to it (the scenario ends with
   everything delivered): with the ideal registry this makes "at most once" "exactly once" *)
Definition acked (evs : list aobs) (w : who) : bool :=
  existsb (fun o => match o with OAck (Some w') _ _ _ _ => who_eqb w w' | _ => false end) evs.
Fixpoint regs_acked (evs : list aobs) : bool :=
  match evs with
  | [] => true
  | OReg _ w _ :: r => acked r w && regs_acked r
  | _ :: r => regs_acked r
  end.
(* an operation registers one callback *)
Fixpoint regs_distinct (evs : list aobs) : bool :=
  match evs with
  | [] => true
  | OReg _ w _ :: r =>
      negb (existsb (fun o => match o with OReg _ w' _ => who_eqb w w' | _ => false end) r) && regs_distinct r
  | _ :: r => regs_distinct r
  end.
Definition acks_corr (evs : list aobs) : bool :=
  all2 (obs_agree true) evs (a_run a_init (map obs_wire evs)).
Definition acks_prop (rets : list (N * pv)) (evs : list aobs) : bool :=
  all2 (obs_agree false) evs (i_run i_init (map (obs_ideal rets) evs)) &&
  forallb (ack_args_ok rets) evs && regs_acked evs && regs_distinct evs.

(* bit 1: the model, run on the sent values, produces the frames seen on the wire (msgpack:
   the blob whose decoded dictionary equals the model's _to_dict), and the model's reassembly
   loop run on those frames delivers what the real receiver delivered *)
Definition c02_corr (c : c02case) : bool :=
  match c with
  | Stream ser dir ms jt mt wire obs =>
      frames_eqb (all_frames (table_mdumps mt) dir ser ms) (Ok wire) &&
      rxres_eqb (rx_run (jstable_loads jt) (table_mloads mt) dir ser None wire) (Ok (None, obs))
  | CallRes r obs => true
  | CbArgs r obs => true
  | Unmodified orig after => true
  | Acks rets evs => acks_corr evs
  end.
(* bit 2: the property, from the SENT values only *)
Definition c02_prop (c : c02case) : bool :=
  match c with
  | Stream ser dir ms jt mt wire obs => list_eqb rx_event_eqb obs (map msg_call ms)
  | CallRes r obs => pv_eqb obs (call_result (pack r))
  | CbArgs r obs => list_eqb pv_eqb obs (pack r)
  | Unmodified orig after => pv_eqb after orig
  | Acks rets evs => acks_prop rets evs
  end.

Definition c02_eval (c : c02case) : nat :=
  ((if c02_corr c then 0 else 1) + (if c02_prop c then 0 else 2))%nat.

(* shown by --replay *)
Definition c02_explain (c : c02case) :=
  match c with
  | Stream ser dir ms jt mt wire obs =>
      (all_frames (table_mdumps mt) dir ser ms,
       rx_run (jstable_loads jt) (table_mloads mt) dir ser None wire,
       map msg_call ms)
  | CallRes r obs => (Ok [], Ok (None, []), [AckCall [] None [call_result (pack r)]])
  | CbArgs r obs => (Ok [], Ok (None, []), [AckCall [] None (pack r)])
  | Unmodified orig after => (Ok [], Ok (None, []), [AckCall [] None [orig]])
  | Acks rets evs => (Ok [], Ok (None, []), [])
  end.
(* shown by --replay for a timeline: what the real registry and the ideal one say, event by event *)
Definition c02_explain_acks (c : c02case) :=
  match c with
  | Acks rets evs => (a_run a_init (map obs_wire evs), i_run i_init (map (obs_ideal rets) evs))
  | _ => ([], [])
  end.

(* ---- soundness of the property checker ---- *)
Lemma rx_event_eqb_eq a b : rx_event_eqb a b = true <-> a = b.
Proof.
  destruct a as [n1 e1 a1 i1|n1 i1 a1], b as [n2 e2 a2 i2|n2 i2 a2]; cbn [rx_event_eqb];
    try (split; discriminate).
  - rewrite !andb_true_iff, str_eqb_eq, pv_eqb_eq, (list_eqb_eq _ pv_eqb_eq).
    split.
    + intros [[[-> ->] ->] H]. f_equal. destruct i1, i2; cbn in H; try discriminate; try reflexivity.
      apply Z.eqb_eq in H. congruence.
    + intro H. inversion H; subst. repeat split. destruct i2; cbn; [apply Z.eqb_refl|reflexivity].
  - rewrite !andb_true_iff, str_eqb_eq, (list_eqb_eq _ pv_eqb_eq).
    split.
    + intros [[-> H] ->]. f_equal. destruct i1, i2; cbn in H; try discriminate; try reflexivity.
      apply Z.eqb_eq in H. congruence.
    + intro H. inversion H; subst. repeat split. destruct i2; cbn; [apply Z.eqb_refl|reflexivity].
Qed.

(* what an observed event shows of the ideal registry's verdict *)
Definition obs_sees (o : aobs) (out : aout) : Prop :=
  match o, out with
  | OReg _ _ _, OutId _ => True
  | OAck _ _ _ _ fired, OutFired f =>
      match user_out f with
      | None => user_fired fired = []
      | Some (w, args) => exists a, user_fired fired = [(w, a)] /\ (a = None \/ a = Some args)
      end
  | OEnd _ res, OutRes r => res = r
  | _, _ => False
  end.
Lemma res_pv_eqb_eq (a b : Res pv) : res_eqb pv_eqb a b = true -> a = b.
Proof.
  destruct a as [x|x], b as [y|y]; cbn [res_eqb]; try discriminate; intro H.
  - apply pv_eqb_eq in H. congruence.
  - apply exn_eqb_eq in H. congruence.
Qed.
Lemma who_eqb_true a b : who_eqb a b = true -> a = b.
Proof.
  destruct a, b; cbn [who_eqb]; try discriminate; intro H; apply N.eqb_eq in H; congruence.
Qed.
Lemma obs_agree_sees o out : obs_agree false o out = true -> obs_sees o out.
Proof.
  destruct o as [key w id|w key id args fired|op res], out as [i|f|r]; cbn [obs_agree obs_sees];
    try discriminate; try (intros; exact I).
  - destruct (user_out f) as [[w' a']|]; destruct (user_fired fired) as [|[w0 a0] [|x r]];
      cbn [fired_eqb]; try discriminate; try reflexivity.
    intro H. apply andb_true_iff in H. destruct H as [H1 H2]. apply who_eqb_true in H1. subst w0.
    exists a0. split; [reflexivity|]. destruct a0 as [x|]; [|left; reflexivity].
    right. apply (list_eqb_eq _ pv_eqb_eq) in H2. congruence.
  - apply res_pv_eqb_eq.
Qed.
Lemma all2_Forall2 {A B} (f : A -> B -> bool) (P : A -> B -> Prop) :
  (forall a b, f a b = true -> P a b) -> forall la lb, all2 f la lb = true -> Forall2 P la lb.
Proof.
  intros Hf la. induction la as [|a ra IH]; intros [|b rb]; cbn [all2]; try discriminate; intro H.
  - constructor.
  - apply andb_true_iff in H. destruct H as [H1 H2]. constructor; [apply Hf; exact H1|apply IH; exact H2].
Qed.

Theorem c02_prop_sound c : c02_prop c = true ->
  match c with
  | Stream ser dir ms jt mt wire obs => obs = map msg_call ms
  | CallRes r obs => obs = call_result (pack r)
  | CbArgs r obs => obs = pack r
  | Unmodified orig after => after = orig
  | Acks rets evs =>
      (* event by event the sender saw what the ideal registry says, computed from the handlers'
         return values: which callback an ACK invoked and with what, how each call() ended *)
      Forall2 obs_sees evs (i_run i_init (map (obs_ideal rets) evs)) /\
      Forall (fun o => match o with OAck (Some w) _ _ args _ => args = ret_args rets w | _ => True end) evs
  end.
Proof.
  destruct c as [ser dir ms jt mt wire obs|r obs|r obs|orig after|rets evs]; cbn [c02_prop]; intro H.
  - apply (list_eqb_eq _ rx_event_eqb_eq). exact H.
  - apply pv_eqb_eq. exact H.
  - apply (list_eqb_eq _ pv_eqb_eq). exact H.
  - apply pv_eqb_eq. exact H.
  - unfold acks_prop in H. rewrite !andb_true_iff in H. destruct H as [[[H1 H2] _] _]. split.
    + exact (all2_Forall2 _ _ obs_agree_sees _ _ H1).
    + apply Forall_forall. intros o Hin. rewrite forallb_forall in H2. specialize (H2 o Hin).
      destruct o as [key w id|[w|] key id args fired|op res]; try exact I.
      cbn [ack_args_ok] in H2. apply (list_eqb_eq _ pv_eqb_eq) in H2. exact H2.
Qed.
