(* Small specification-side helpers shared by the C04/C05/C06/C11/C12/C16 checkers. *)
From VT Require Export Check.SrvCheck.
Open Scope N_scope.

(* the handler responsible for (event, namespace), per the documented precedence *)
Definition responsible (c : cfg) (ev : pv) (ns : str) (args : list pv) : option (option N * list pv) :=
  match get_event_handler c ev ns args with
  | Some (h, a) => Some (Some h, a)
  | None =>
      match get_namespace_handler c ns args with
      | Some (methods, a) =>
          match ev with
          | PStr s => Some (aget str_eqb methods s, a)     (* class-based namespace without on_<event>: handled, no call *)
          | _ => Some (None, a)
          end
      | None => None
      end
  end.
Definition ev_connect := PStr (s2l "connect").
Definition ev_disconnect := PStr (s2l "disconnect").
Definition hid_for (c : cfg) (ev : pv) (ns : str) : option N :=
  match responsible c ev ns [] with Some (Some h, _) => Some h | _ => None end.
Definition outcome_of (c : cfg) (h : N) : option outcome :=
  match aget N.eqb (behav c) h with Some b => Some (h_outcome b) | None => None end.
Definition has_actions (c : cfg) : bool :=
  existsb (fun hb => match h_actions (snd hb) with [] => false | _ => true end) (behav c).

(* what kind of packet the model's decoder sees in an engine.io message *)
Definition classify (c : cfg) (s : srv) (eio : str) (payload : pv) (tbl : jtable) : option (Res rpacket) :=
  match aget str_eqb (binpkt s) eio with
  | Some _ => None                                   (* an attachment for a pending binary packet *)
  | None => Some (decode_any c (table_loads tbl) payload)
  end.

Definition calls_of (l : list eff) : list (N * list pv) :=
  flat_map (fun e => match e with Call h a => [(h, a)] | _ => [] end) l.
Definition cbcalls_of (l : list eff) : list (N * list pv) :=
  flat_map (fun e => match e with CbCall h a => [(h, a)] | _ => [] end) l.

(* sids living on a transport, over all namespaces *)
Definition sids_of_eio (m : mgr) (eio : str) : list str :=
  flat_map (fun nr => match aget room_eqb (snd nr) PNone with
                      | Some b => match bd_inv b eio with Some s => [s] | None => [] end
                      | None => [] end) (rooms m).
Definition all_sids (m : mgr) : list (str * str * str) :=      (* (ns, sid, eio) *)
  flat_map (fun nr => match aget room_eqb (snd nr) PNone with
                      | Some b => map (fun se => (fst nr, fst se, snd se)) b
                      | None => [] end) (rooms m).

(* frames an ACK / EVENT with these fields must consist of *)
Definition frames_of (c : cfg) (t : Z) (data : pv) (ns : str) (id : option Z) : Res (list pv) :=
  p <- ctor (uses_binary c) t data (Some ns) id None ;; encode_pieces c p.
