(* C13 - case type and the boolean property checker, evaluated on what the REAL classes
   did.  Depends on the specification only (not on generated text), so the property can
   still be evaluated on the implementation when translation or proofs break. *)
From VT Require Export Routing.Embed Routing.Trigger.
Open Scope N_scope.

Inductive side := SServer | SClient.
Definition reserved_of (s : side) : list str :=
  match s with SServer => server_reserved | SClient => client_reserved end.

(* one routing experiment on a real class: registries as read back from the instance,
   the method names the class-based namespaces define, the incoming event, and the
   observed calls (or the exception that escaped _trigger_event) *)
Record rcase := RCase {
  rc_side : side; rc_reg : reg; rc_nsreg : nsreg; rc_methods : list str;
  rc_ev : str; rc_ns : str; rc_args : list pv;
  rc_obs : Res (list call) }.

Definition pvs_eqb := list_eqb pv_eqb.
Definition call_eqb (a b : call) : bool :=
  match a, b with
  | FunRan h x, FunRan h' y => N.eqb h h' && pvs_eqb x y
  | NsTriggered c e x, NsTriggered c' e' y => N.eqb c c' && str_eqb e e' && pvs_eqb x y
  | MethodRan c m x, MethodRan c' m' y => N.eqb c c' && str_eqb m m' && pvs_eqb x y
  | _, _ => false
  end.
Definition obs_eqb (a b : Res (list call)) : bool := res_eqb (list_eqb call_eqb) a b.

Lemma pvs_eqb_eq x y : pvs_eqb x y = true <-> x = y.
Proof. apply list_eqb_eq. exact pv_eqb_eq. Qed.
Lemma call_eqb_eq a b : call_eqb a b = true <-> a = b.
Proof.
  destruct a, b; cbn [call_eqb]; split; intro H; try discriminate.
  all: repeat rewrite andb_true_iff in *.
  - destruct H as [H1 H2]. apply N.eqb_eq in H1. apply pvs_eqb_eq in H2. congruence.
  - inversion H; subst. rewrite N.eqb_refl. split; [reflexivity|apply pvs_eqb_eq; reflexivity].
  - destruct H as [[H1 H2] H3]. apply N.eqb_eq in H1. apply str_eqb_eq in H2. apply pvs_eqb_eq in H3. congruence.
  - inversion H; subst. rewrite N.eqb_refl, str_eqb_refl. repeat split. apply pvs_eqb_eq; reflexivity.
  - destruct H as [[H1 H2] H3]. apply N.eqb_eq in H1. apply str_eqb_eq in H2. apply pvs_eqb_eq in H3. congruence.
  - inversion H; subst. rewrite N.eqb_refl, str_eqb_refl. repeat split. apply pvs_eqb_eq; reflexivity.
Qed.
Lemma obs_eqb_eq a b : obs_eqb a b = true <-> a = b.
Proof.
  destruct a as [x|e], b as [y|e']; cbn [obs_eqb res_eqb]; split; intro H; try discriminate.
  - f_equal. apply (list_eqb_eq call_eqb call_eqb_eq). exact H.
  - inversion H; subst. apply (list_eqb_eq call_eqb call_eqb_eq). reflexivity.
  - f_equal. apply exn_eqb_eq. exact H.
  - inversion H; subst. apply exn_eqb_eq. reflexivity.
Qed.

(* the calls the documented rules prescribe for a case *)
Definition spec_calls (c : rcase) : list call :=
  calls_of_outcome (rc_methods c)
    (resolve (reserved_of (rc_side c)) (rc_reg c) (rc_nsreg c) (rc_ev c) (rc_ns c) (rc_args c)).

(* C13 on one observation: exactly the prescribed target ran, with the prescribed arguments *)
Definition P_C13 (c : rcase) : Prop := rc_obs c = Ok (spec_calls c).
Definition chk_C13 (c : rcase) : bool := obs_eqb (rc_obs c) (Ok (spec_calls c)).
Lemma chk_C13_sound c : chk_C13 c = true -> P_C13 c.
Proof. apply obs_eqb_eq. Qed.
Lemma chk_C13_complete c : P_C13 c -> chk_C13 c = true.
Proof. apply obs_eqb_eq. Qed.
(* at most one target: a prescribed run is one function call, or one trigger_event
   (followed by its own on_<event> method when defined), or nothing *)
Lemma spec_calls_one_target c :
  match spec_calls c with
  | [] | [FunRan _ _] | [NsTriggered _ _ _] => True
  | [NsTriggered k e a; MethodRan k' m a'] => k' = k /\ m = method_name e /\ a' = a
  | _ => False
  end.
Proof.
  unfold spec_calls, calls_of_outcome, namespace_dispatch.
  destruct (resolve _ _ _ _ _ _); try exact I.
  destruct (memb _ _); [repeat split|exact I].
Qed.

(* spec-only evaluation: 0 = fine, 2 = the implementation's observation violates C13 *)
Definition eval_spec (c : rcase) : nat := if chk_C13 c then 0%nat else 2%nat.

(* classification of a case (which level the rules select), for signatures *)
Definition case_level (c : rcase) : option nat :=
  level (reserved_of (rc_side c)) (rc_reg c) (rc_nsreg c) (rc_ev c) (rc_ns c).
Definition case_skips (c : rcase) : bool :=
  skips_catchall_namespace (reserved_of (rc_side c)) (rc_reg c) (rc_ev c) (rc_ns c).
