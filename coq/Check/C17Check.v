(* Case type and evaluation for C17: what the real namespace classes did, compared with what
   the generated description + bind_call predict, and judged by the boolean postcondition
   (Forward.post_okb, sound by ForwardSound.post_okb_sound). *)
From VT Require Export Base.PyVal Forward.Forward Forward.ForwardSound Forward.Life.

(* what the recording server/client object saw during one call of a helper *)
Inductive obs :=
| ObsCall (m : name)                      (* the method that was called (exactly one call) *)
          (raw : call pv)                 (* positional / keyword arguments as received *)
          (bound : list (name * pv))      (* its parameters after CPython bound the call *)
          (ret_same : bool)               (* the helper returned the method's result object *)
| ObsRaise (e : exn)                      (* the helper raised *)
| ObsOther (ncalls : nat).                (* no call, or more than one, was received *)

(* what was seen at one operation of the life of a namespace object (Forward/Life.v) *)
Inductive lobs :=
| LONone                                  (* attach / handler entered / handler left *)
| LOKey (key : option pv)                 (* after register_namespace: the key of namespace_handlers
                                             that holds the object, when there is exactly one *)
| LOCall (o : obs).                       (* a helper call *)

Inductive c17case :=
| Fwd (h : helper) (u : method) (self_ns : pv) (c : call pv) (o : obs)
| Life (k : nsclass) (cc : call pv) (ops : list lop) (os : list lobs)
| SigOf (generated observed : signature) (gen_async obs_async : bool)
| BindCase (sig : signature) (c : call pv) (o : Res (list (name * pv))).

Definition env_eqb (a b : list (name * pv)) : bool :=
  list_eqb (fun x y => str_eqb (fst x) (fst y) && pv_eqb (snd x) (snd y)) a b.
Definition call_eqb (a b : call pv) : bool :=
  list_eqb pv_eqb (c_pos a) (c_pos b) && env_eqb (c_kw a) (c_kw b).
Definition sig_eqb (a b : signature) : bool :=
  list_eqb (fun x y => str_eqb (fst x) (fst y) && opt_eqb pv_eqb (snd x) (snd y)) a b.

(* the model's run of one helper call *)
Definition model_run (h : helper) (u : method) (self_ns : pv) (c : call pv)
  : Res (name * call pv * list (name * pv)) :=
  env <- bind_call pid (h_sig h) c ;;
  c' <- run_body pid por self_ns env (h_body h) ;;
  env' <- bind_call pid (m_sig u) c' ;;
  Ok (match h_body h with Return b => snd (callee b) | Unsupported => [] end, c', env').

Definition corr_res (r : Res (name * call pv * list (name * pv))) (o : obs) : bool :=
  match r, o with
  | Ok (m, c', env'), ObsCall m' raw bound _ => str_eqb m m' && call_eqb c' raw && env_eqb env' bound
  | Err e, ObsRaise e' => exn_eqb e e'
  | _, _ => false
  end.
Definition corr_okb (h : helper) (u : method) (self_ns : pv) (c : call pv) (o : obs) : bool :=
  corr_res (model_run h u self_ns c) o.

(* property verdict on the observation alone (the generated body is not consulted):
   0 = fine; otherwise 2 + reason bits
     4   the result was not passed back unchanged
     8   namespace is not `caller's if truthy else the registration namespace`
     16  an explicitly given argument did not reach the same-named parameter unchanged
     32  the helper raised, or the object received no call / several calls
     64  a parameter of the underlying method that the helper does not expose was altered
     128 a parameter was bound twice
     256 another method than the same-named one was called *)
Definition prop_code (h : helper) (u : method) (self_ns : pv) (c : call pv) (o : obs) : nat :=
  match bind_call pid (h_sig h) c with
  | Err _ => 0                      (* the caller's own call is invalid: outside the claim *)
  | Ok env =>
      let r := match o with
               | ObsCall m raw bound ret =>
                   (if ret then 0 else 4) +
                   (if post_nsb (m_sig u) self_ns env bound then 0 else 8) +
                   (if post_sharedb (h_sig h) (m_sig u) c bound then 0 else 16) +
                   (if post_unexposedb (h_sig h) (m_sig u) bound then 0 else 64) +
                   (if post_nodupb bound then 0 else 128) +
                   (if str_eqb m (h_name h) && str_eqb m (m_name u) then 0 else 256)
               | ObsRaise _ => 32
               | ObsOther _ => 32
               end in
      match r with O => O | _ => 2 + r end
  end%nat.

(* ---- the life of one namespace object ----
   Correspondence (bit 1), operation by operation: what Life.life_run predicts from the generated
   class description against what was seen.  Property (bit 2), on the observations alone and with
   the namespace the object was CREATED for (Life.created_ns of the constructor call) as the own
   namespace, whatever was dispatched before: the object is filed under that namespace
   (512 otherwise) and every helper call satisfies prop_code with it. *)
Definition life_op_corr (r : lres) (o : lobs) : bool :=
  match r, o with
  | RNone, LONone => true
  | RKey (Ok v), LOKey (Some v') => pv_eqb v v'
  | RCall x, LOCall o' => corr_res x o'
  | _, _ => false
  end.
Definition life_op_prop (reg : pv) (op : lop) (o : lobs) : nat :=
  match op, o with
  | LRegister, LOKey key => if opt_eqb pv_eqb key (Some reg) then 0 else 2 + 512
  | LHelper h u c, LOCall o' => prop_code h u reg c o'
  | _, _ => 0
  end%nat.
Definition life_model (k : nsclass) (cc : call pv) (ops : list lop) : list lres :=
  match init_state k cc with
  | Ok st0 => life_run k st0 ops
  | Err e => map (fun _ => RCall (Err e)) ops       (* no prediction: every operation disagrees *)
  end.
Fixpoint life_codes (reg : pv) (ops : list lop) (rs : list lres) (os : list lobs) : list nat :=
  match ops, rs, os with
  | [], _, [] => []
  | op :: ops', r :: rs', o :: os' =>
      ((if life_op_corr r o then 0 else 1) + life_op_prop reg op o)%nat :: life_codes reg ops' rs' os'
  | _, _, _ => [1%nat]                              (* lengths differ *)
  end.
(* the first operation that violates the property, else the first one on which model and
   implementation disagree: its code + 1024 * (its position + 1); 0 when all are fine *)
Fixpoint first_with (p : nat -> bool) (i : nat) (l : list nat) : option (nat * nat) :=
  match l with
  | [] => None
  | c :: r => if p c then Some (i, c) else first_with p (S i) r
  end.
Definition has_prop_bit (c : nat) : bool := Nat.leb 2 c.
Definition life_eval (k : nsclass) (cc : call pv) (ops : list lop) (os : list lobs) : nat :=
  let codes := life_codes (created_ns cc) ops (life_model k cc ops) os in
  match first_with has_prop_bit O codes with
  | Some (i, c) => c + 1024 * S i
  | None => match first_with (fun c => negb (Nat.eqb c 0)) O codes with
            | Some (i, c) => c + 1024 * S i
            | None => 0
            end
  end%nat.

Definition c17_eval (k : c17case) : nat :=
  match k with
  | Fwd h u self_ns c o =>
      ((if corr_okb h u self_ns c o then 0 else 1) + prop_code h u self_ns c o)%nat
  | Life k cc ops os => life_eval k cc ops os
  | SigOf g o ga oa => if sig_eqb g o && Bool.eqb ga oa then 0%nat else 1%nat
  | BindCase sig c o => if res_eqb env_eqb (bind_call pid sig c) o then 0%nat else 1%nat
  end.

(* prop_code = 0 on a valid call with exactly one received call means the Coq postcondition *)
Lemma prop_code_sound h u self_ns c env m raw bound ret :
  bind_call pid (h_sig h) c = Ok env ->
  prop_code h u self_ns c (ObsCall m raw bound ret) = 0%nat ->
  ret = true /\ m = m_name u /\ post_ok (h_sig h) (m_sig u) c self_ns env bound.
Proof.
  intros Hb. unfold prop_code. rewrite Hb.
  destruct ret; [|simpl; discriminate].
  destruct (post_nsb (m_sig u) self_ns env bound) eqn:E1; [|simpl; discriminate].
  destruct (post_sharedb (h_sig h) (m_sig u) c bound) eqn:E2; [|simpl; discriminate].
  destruct (post_unexposedb (h_sig h) (m_sig u) bound) eqn:E5; [|simpl; discriminate].
  destruct (post_nodupb bound) eqn:E4; [|simpl; discriminate].
  destruct (str_eqb m (h_name h) && str_eqb m (m_name u)) eqn:E3; [|simpl; discriminate].
  intros _. apply andb_true_iff in E3 as [_ E3].
  apply str_eqb_eq in E3.
  split; [reflexivity|split; [exact E3|]].
  apply post_okb_sound. unfold post_okb. rewrite E1, E2, E4, E5. reflexivity.
Qed.

(* the same for a helper call inside a life: code 0 at that operation means the postcondition
   with the namespace the object was created for *)
Lemma life_op_prop_sound cc h u c env m raw bound ret :
  bind_call pid (h_sig h) c = Ok env ->
  life_op_prop (created_ns cc) (LHelper h u c) (LOCall (ObsCall m raw bound ret)) = 0%nat ->
  ret = true /\ m = m_name u /\ post_ok (h_sig h) (m_sig u) c (created_ns cc) env bound.
Proof. intros Hb H. exact (prop_code_sound h u (created_ns cc) c env m raw bound ret Hb H). Qed.

(* diagnosis for replays: model's prediction and the parameters that differ *)
Definition shared_bad (h : helper) (u : method) (c : call pv) (bound : list (name * pv))
  : list (name * option pv * option pv) :=
  flat_map (fun pd =>
              let p := fst pd in
              if str_eqb p ns_name || negb (memb p (sig_names (m_sig u))) then []
              else match explicit (h_sig h) (c_pos c) (c_kw c) p with
                   | Some v => if opt_eqb pv_eqb (lookup p bound) (Some v) then []
                               else [(p, Some v, lookup p bound)]
                   | None => []
                   end) (h_sig h).
Definition c17_explain (k : c17case) :=
  match k with
  | Fwd h u self_ns c o =>
      (model_run h u self_ns c,
       match o with ObsCall _ _ bound _ => shared_bad h u c bound | _ => [] end,
       match bind_call pid (h_sig h) c with Ok env => Some (expected_ns self_ns env) | _ => None end)
  | Life _ _ _ _ => (Err OtherError, [], None)
  | SigOf g _ _ _ => (Err OtherError, [], None)
  | BindCase sig c _ => (env <- bind_call pid sig c ;; Ok ([], mkCall [] [], env), [], None)
  end.

(* diagnosis of a failed proof: failing argument subsets as parameter positions *)
Fixpoint index_of (p : name) (l : list name) : nat :=
  match l with [] => O | q :: r => if str_eqb q p then O else S (index_of p r) end.
Definition bad_idx (h : helper) (u : method) : bool * list (list nat) :=
  (static_okb h u,
   map (fun s => map (fun p => index_of p (sig_names (h_sig h))) s) (forwards_bad h u)).

(* diagnosis of a life: the namespace the object was created for, the code of every operation and
   what the model predicts for it *)
Definition life_explain (k : nsclass) (cc : call pv) (ops : list lop) (os : list lobs) :=
  (created_ns cc, life_codes (created_ns cc) ops (life_model k cc ops) os, life_model k cc ops).
(* diagnosis of a failed proof about a class *)
Definition class_diag (k : nsclass) :=
  (k_plain k, ctor_sig_okb (k_ctor_sig k), ctor_okb (k_ctor k) false,
   (no_ns_write (k_attach k), no_ns_write (k_register k), no_ns_write (k_dispatch k)),
   match k_key k with KSelfNamespace => true | KUnsupported => false end).
