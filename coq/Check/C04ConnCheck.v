(* C04, asyncio part, CONNECT IN PROGRESS beside the terminating causes: case type for one
   scheduled run of the real AsyncServer (drivers/sched_conn.py), correspondence with the model
   of Conc/ConnConc.v on the same scenario and schedule (bit 1), and the property evaluated on
   what the implementation did (bit 2).

   The demands on the sessions that were established before the interleaving (namespace A) are
   LITERALLY those of Check/C20Check.v: [prop_bits m0 causes R logA final alldone] with the same
   initial manager m0 and the same terminating causes; the connect task only contributes labels
   that this checker either ignores or (LRaise) forbids ([xbits_zero_old]).  On top of that:
   the session the CONNECT creates is judged like an established one from the moment it is
   registered (state m1): disconnect handler at most once, with a reason naming a cause aimed at
   it, exactly once and no residue if a cause was aimed at it, untouched otherwise (accepted
   request) / no residue at all (refused request); the connect handler runs exactly once per
   request that was admitted and never for a duplicate; the client is answered exactly once. *)
From Coq Require Import Lia.
From VT Require Export Conc.ConnConc Check.C20Check.
Local Open Scope nat_scope.

Inductive xcase :=
| XCase (su : list setup) (ac : bool) (R : list str) (causes : list cause) (conns : list conn)
        (sched : list nat) (tr : list (list xlbl)) (final : dump) (alldone : bool).

Definition xlbl_eqb (a b : xlbl) : bool :=
  match a, b with
  | XL x, XL y => lbl_eqb x y
  | XConnect e n r, XConnect e' n' r' => str_eqb e e' && str_eqb n n' && ostr_eqb r r'
  | XEnvGet e p, XEnvGet e' p' => str_eqb e e' && Bool.eqb p p'
  | XCHandler s n, XCHandler s' n' => str_eqb s s' && str_eqb n n'
  | _, _ => false
  end.

Definition xmodel_init (k : xcase) : xcfg :=
  match k with
  | XCase su _ _ causes conns _ _ _ _ => let '(m, env) := initial su in xinit m env causes conns
  end.
Definition xmodel_run (k : xcase) : xcfg :=
  match k with XCase _ ac R _ _ sched _ _ _ => xrun ac R (xmodel_init k) sched end.
Definition xmodel_trace (k : xcase) : list (list xlbl) :=
  match k with XCase _ ac R _ _ sched _ _ _ => xtrace ac R (xmodel_init k) sched end.

(* ---- correspondence ---- *)
Definition xagree (k : xcase) : bool :=
  match k with
  | XCase _ _ _ _ _ _ tr final alldone =>
      let x := xmodel_run k in
      list_eqb (list_eqb xlbl_eqb) (xmodel_trace k) tr &&
      dump_eqb (dump_of (x_cfg x)) final && Bool.eqb (xall_done x) alldone
  end.

(* ---- the property on the observation ---- *)
(* the manager once every request has been registered, and which requests were admitted
   (manager.connect answered with a session id) *)
Fixpoint register (m : mgr) (conns : list conn) : mgr * list (conn * bool) :=
  match conns with
  | [] => (m, [])
  | k :: r =>
      let '(m', a) := mgr_connect m (k_eio k) (k_ns k) (k_sid k) in
      let '(m'', l) := register m' r in
      (m'', (k, match a with Some _ => true | None => false end) :: l)
  end.

Definition is_new (reg : list (conn * bool)) (ns sid : str) : bool :=
  existsb (fun ka => snd ka && str_eqb (k_ns (fst ka)) ns && str_eqb (k_sid (fst ka)) sid) reg.

Definition count_send (eio frame : str) (log : list lbl) : nat :=
  List.length (filter (fun x => match x with
                                | LSend (Some e) f => str_eqb e eio && str_eqb f frame
                                | _ => false end) log).

(* The one exception that is not held against the code (decision of the lead, notes/C04.md):
   with always_connect a refusal calls manager.pre_disconnect for the session it has just created;
   when that session's namespace table has disappeared meanwhile (the transport was lost, or the
   session was disconnected, while the connect handler was suspended) the KeyError of
   pre_disconnect leaves _handle_connect (engine.io logs it) and no DISCONNECT is sent.  Observed as
   LMark sid ns (Err KeyError); LDisc sid ns; LRaise KeyError for a NEW session: that LRaise is
   removed before the no-exception clause is evaluated.  Handler counts and residue are judged as
   everywhere else. *)
Fixpoint strip_refusal_raise (reg : list (conn * bool)) (l : list lbl) : list lbl :=
  match l with
  | [] => []
  | x :: r =>
      match x, r with
      | LMark s n (Err KeyError), LDisc s' n' :: LRaise KeyError :: r' =>
          if is_new reg n s && str_eqb s s' && str_eqb n n'
          then x :: LDisc s' n' :: strip_refusal_raise reg r'
          else x :: strip_refusal_raise reg r
      | _, _ => x :: strip_refusal_raise reg r
      end
  end.
Definition mark_failed (sid ns : str) (log : list lbl) : bool :=
  existsb (fun x => match x with
                    | LMark s n (Err KeyError) => str_eqb s sid && str_eqb n ns
                    | _ => false end) log.

Section XClauses.
  Variables (m0 m1 : mgr) (reg : list (conn * bool)) (ac : bool) (causes : list cause) (R : list str).
  Variables (xlog : list xlbl) (final : dump) (alldone : bool).

  Definition log : list lbl := proj xlog.
  (* what C20Check's clauses are evaluated on: the disconnect-handler invocations of the new
     sessions are judged by the clauses below *)
  Definition logA : list lbl :=
    filter (fun x => match x with LHandler s n _ => negb (is_new reg n s) | _ => true end)
           (strip_refusal_raise reg log).

  Definition tgt (k : conn) : bool := existsb (fun c => targetsb m1 c (k_sid k) (k_ns k)) causes.
  Definition no_residue (k : conn) : bool :=
    match in_rooms (d_rooms final) (k_ns k) (k_sid k) with [] => true | _ => false end &&
    negb (in_pending (d_pending final) (k_ns k) (k_sid k)) && negb (memb (k_sid k) (d_cbs final)).
  Definition still_connected (k : conn) : bool :=
    let rs := in_rooms (d_rooms final) (k_ns k) (k_sid k) in
    existsb (pv_eqb PNone) rs && existsb (pv_eqb (PStr (k_sid k))) rs &&
    negb (in_pending (d_pending final) (k_ns k) (k_sid k)).
  Definition forall_new (f : conn -> bool) : bool :=
    forallb (fun ka => negb (snd ka) || f (fst ka)) reg.

  (* 4 *)
  Definition x_at_most_once : bool :=
    cl_at_most_once m0 logA && forall_new (fun k => hcount (k_sid k) (k_ns k) log <=? 1).
  (* 8 *)
  Definition x_at_least_once : bool :=
    cl_at_least_once m0 causes logA alldone &&
    (negb alldone ||
     forall_new (fun k => negb (k_accept k && tgt k) || (1 <=? hcount (k_sid k) (k_ns k) log))).
  (* 16 *)
  Definition x_no_raise : bool := cl_no_raise R logA.
  (* 32 *)
  Definition x_no_trace : bool :=
    cl_no_trace m0 causes final alldone &&
    (negb alldone || forall_new (fun k => (k_accept k && negb (tgt k)) || no_residue k)).
  (* 64 *)
  Definition x_others : bool :=
    cl_others m0 causes logA final &&
    forall_new (fun k => negb (k_accept k) || tgt k ||
                         ((hcount (k_sid k) (k_ns k) log =? 0) && (negb alldone || still_connected k))).
  (* 128 *)
  Definition x_reason : bool :=
    cl_reason m0 causes logA &&
    forallb (fun x => match x with
                      | LHandler s n r =>
                          negb (is_new reg n s) ||
                          existsb (fun c => targetsb m1 c s n && str_eqb (reason_of c) r) causes
                      | _ => true end) log.
  (* 1024: the connect handler runs exactly once per admitted request, never otherwise *)
  Definition x_connect_handler : bool :=
    forallb (fun ka : conn * bool => let k := fst ka in
                       let n := chcount (k_sid k) (k_ns k) xlog in
                       if snd ka then (n <=? 1) && (negb alldone || (n =? 1)) else n =? 0) reg.
  (* 2048: once everything has finished the client has been answered exactly once *)
  Definition x_answer : bool :=
    negb alldone ||
    forallb (fun ka : conn * bool => let k := fst ka in
                       let ok := count_send (k_eio k) (ok_frame (k_ns k) (k_sid k)) log in
                       let er := count_send (k_eio k) (err_frame (k_ns k)) log in
                       let di := count_send (k_eio k) (dis_frame (k_ns k)) log in
                       let du := count_send (k_eio k) (dup_frame (k_ns k)) log in
                       if snd ka then
                         if k_accept k then (ok =? 1) && (er =? 0) && (di =? 0) && (du =? 0)
                         else if ac then (ok =? 1) && (er =? 0) && (du =? 0) &&
                                         (di =? (if mark_failed (k_sid k) (k_ns k) log then 0 else 1))
                         else (ok =? 0) && (er =? 1) && (di =? 0) && (du =? 0)
                       else (ok =? 0) && (du =? 1)) reg.

  Definition xprop_bits : nat :=
    (if x_at_most_once then 0 else 4) + (if x_at_least_once then 0 else 8) +
    (if x_no_raise then 0 else 16) + (if x_no_trace then 0 else 32) +
    (if x_others then 0 else 64) + (if x_reason then 0 else 128) +
    (if x_connect_handler then 0 else 1024) + (if x_answer then 0 else 2048).
End XClauses.

Definition xcase_bits (k : xcase) : nat :=
  match k with
  | XCase su ac R causes conns sched tr final alldone =>
      let m0 := fst (initial su) in
      let '(m1, reg) := register m0 conns in
      xprop_bits m0 m1 reg ac causes R (List.concat tr) final alldone
  end.

(* 0 = fine; bit 1 = model and implementation disagree; bit 2 = the implementation's own
   observation violates the property: 4 disconnect handler more than once, 8 never, 16 exception
   escaped, 32 trace left, 64 bystander affected, 128 bad reason, 1024 connect handler not exactly
   once, 2048 client not answered exactly once; with bit 2 also 256 = a double-check window was
   open, 512 = pre_disconnect raised KeyError *)
Definition c04conn_eval (k : xcase) : nat :=
  (if xagree k then 0 else 1) +
  match xcase_bits k with
  | 0 => 0
  | b => 2 + b +
         match k with XCase _ _ _ _ _ sched tr _ _ =>
           (if double_check_seen sched (map proj tr) then 256 else 0) +
           (if keyerror_seen (proj (List.concat tr)) then 512 else 0) end
  end.

Definition c04conn_explain (k : xcase) :=
  (xmodel_trace k, dump_of (x_cfg (xmodel_run k)), xall_done (xmodel_run k), xcase_bits k).

(* ---- soundness of the bit encoding ---- *)
Lemma ite_zero (b : bool) (k : nat) : (if b then 0 else k) = 0 -> k <> 0 -> b = true.
Proof. destruct b; [reflexivity|]. intros H K. contradiction. Qed.

Lemma xbits_zero_clauses m0 m1 reg ac causes R xlog final alldone :
  xprop_bits m0 m1 reg ac causes R xlog final alldone = 0 ->
  x_at_most_once m0 reg xlog = true /\ x_at_least_once m0 m1 reg causes xlog alldone = true /\
  x_no_raise reg R xlog = true /\ x_no_trace m0 m1 reg causes final alldone = true /\
  x_others m0 m1 reg causes xlog final alldone = true /\ x_reason m0 m1 reg causes xlog = true /\
  x_connect_handler reg xlog alldone = true /\ x_answer reg ac xlog alldone = true.
Proof.
  unfold xprop_bits. intro H.
  apply Nat.eq_add_0 in H as [H H8]. apply Nat.eq_add_0 in H as [H H7].
  apply Nat.eq_add_0 in H as [H H6]. apply Nat.eq_add_0 in H as [H H5].
  apply Nat.eq_add_0 in H as [H H4]. apply Nat.eq_add_0 in H as [H H3].
  apply Nat.eq_add_0 in H as [H1 H2].
  repeat split; eapply ite_zero; try eassumption; discriminate.
Qed.

(* ---- the demands on the established sessions are those of C20Check, unchanged: the labels a
   connect task adds are invisible to C20Check's clauses, except an escaping exception ---- *)
Lemma xbits_zero_old m0 m1 reg ac causes R xlog final alldone :
  xprop_bits m0 m1 reg ac causes R xlog final alldone = 0 ->
  prop_bits m0 causes R (logA reg xlog) final alldone = 0.
Proof.
  intro H. apply xbits_zero_clauses in H as (H1 & H2 & H3 & H4 & H5 & H6 & _ & _).
  unfold x_at_most_once in H1. unfold x_at_least_once in H2. unfold x_no_raise in H3.
  unfold x_no_trace in H4. unfold x_others in H5. unfold x_reason in H6.
  apply andb_true_iff in H1 as [H1 _]. apply andb_true_iff in H2 as [H2 _].
  apply andb_true_iff in H4 as [H4 _]. apply andb_true_iff in H5 as [H5 _].
  apply andb_true_iff in H6 as [H6 _].
  unfold prop_bits. rewrite H1, H2, H3, H4, H5, H6. reflexivity.
Qed.
