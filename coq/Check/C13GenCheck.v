(* C13 - evaluation of cases against the GENERATED functions: correspondence between the
   model (generated lookups under the hand model of _trigger_event) and the real classes,
   translator validation, and the Gen-versus-Spec search over the abstract domain. *)
From VT Require Export Check.C13Check Routing.GenTrigger.
Open Scope N_scope.

Definition trigger_of (s : side) := match s with SServer => server_trigger | SClient => client_trigger end.

(* the model's run of a case *)
Definition model_calls (c : rcase) : Res (list call) :=
  a <- trigger_of (rc_side c) (mk_self (rc_reg c) (rc_nsreg c))
         (PStr (rc_ev c)) (PStr (rc_ns c)) (PTuple (rc_args c)) ;;
  match calls_of_action (rc_methods c) a with Some l => Ok l | None => Err TypeError end.

(* bit 1: model and implementation disagree; bit 2: implementation violates C13 *)
Definition eval_full (c : rcase) : nat :=
  ((if obs_eqb (model_calls c) (rc_obs c) then 0 else 1) + eval_spec c)%nat.

(* ---- translator validation: generated definition versus the real Python function on
   the same (possibly ill-typed) inputs ---- *)
Inductive tvcase :=
| TVEvent (s : side) (self event namespace args : pv) (expected : Res pv)
| TVNamespace (s : side) (self namespace args : pv) (expected : Res pv).
Definition tv_run (c : tvcase) : Res pv :=
  match c with
  | TVEvent SServer self e n a _ => BaseServer__get_event_handler self e n a
  | TVEvent SClient self e n a _ => BaseClient__get_event_handler self e n a
  | TVNamespace SServer self n a _ => BaseServer__get_namespace_handler self n a
  | TVNamespace SClient self n a _ => BaseClient__get_namespace_handler self n a
  end.
Definition tv_expected (c : tvcase) : Res pv :=
  match c with TVEvent _ _ _ _ _ x | TVNamespace _ _ _ _ x => x end.
Definition eval_tv (c : tvcase) : nat :=
  if res_eqb pv_eqb (tv_run c) (tv_expected c) then 0%nat else 1%nat.

(* ---- directed search: generated function versus specification on a typed input ---- *)
Inductive gscase :=
| GSEvent (s : side) (r : reg) (n : nsreg) (ev ns : str) (args : list pv)
| GSNamespace (s : side) (r : reg) (n : nsreg) (ns : str) (args : list pv)
| GSTrigger (s : side) (r : reg) (n : nsreg) (ev ns : str) (args : list pv).
Definition action_eqb (a b : action) : bool :=
  match a, b with
  | ACall h x, ACall h' y => pv_eqb h h' && pv_eqb x y
  | ATrigger c e x, ATrigger c' e' y => pv_eqb c c' && pv_eqb e e' && pv_eqb x y
  | ANotHandled, ANotHandled => true
  | _, _ => false
  end.
Definition eval_gs (c : gscase) : nat :=
  match c with
  | GSEvent s r n ev ns args =>
      let g := match s with SServer => BaseServer__get_event_handler | SClient => BaseClient__get_event_handler end in
      if res_eqb pv_eqb (g (mk_self r n) (PStr ev) (PStr ns) (PTuple args))
                        (Ok (emb_result (resolve_event (reserved_of s) r ev ns args))) then 0 else 1
  | GSNamespace s r n ns args =>
      let g := match s with SServer => BaseServer__get_namespace_handler | SClient => BaseClient__get_namespace_handler end in
      if res_eqb pv_eqb (g (mk_self r n) (PStr ns) (PTuple args))
                        (Ok (emb_result (resolve_namespace n ns args))) then 0 else 1
  | GSTrigger s r n ev ns args =>
      if res_eqb action_eqb (trigger_of s (mk_self r n) (PStr ev) (PStr ns) (PTuple args))
                            (Ok (emb_action (resolve (reserved_of s) r n ev ns args))) then 0 else 1
  end%nat.
