(* C05: one handler invocation, one matching ACK to the sender only. *)
From VT Require Export Check.SrvSpecs.
Open Scope N_scope.

(* the EVENT this engine.io message carries or completes, if any *)
Definition event_of (c : cfg) (s : srv) (eio : str) (payload : pv) (tbl : jtable)
  : option (option str * option Z * pv) :=
  match aget str_eqb (binpkt s) eio with
  | Some r => match add_attachment r payload with
              | Ok (r', true) => if type_is (rp r') BINARY_EVENT
                                 then Some (pns (rp r'), pid (rp r'), pdata (rp r')) else None
              | _ => None end
  | None => match decode_any c (table_loads tbl) payload with
            | Ok r => if type_is (rp r) EVENT
                      then Some (pns (rp r), pid (rp r), pdata (rp r)) else None
            | Err _ => None end
  end.

Definition arity_ok (c : cfg) (h : N) (n : nat) : bool :=
  match aget N.eqb (behav c) h with
  | Some b => match h_arity b with Some k => Nat.eqb k n | None => true end
  | None => false
  end.

Definition calls_eqb (a b : list (N * list pv)) : bool :=
  list_eqb (pair_eqb N.eqb (list_eqb pv_eqb)) a b.

Definition c05_step (c : cfg) (s : srv) (o : op) (obs : list eff) : bool :=
  match o with
  | EioMessage eio payload tbl =>
      if negb (existsb (str_eqb eio) (live s)) || has_actions c then true else
      match event_of c s eio payload tbl with
      | None => true
      | Some (pn, id, data) =>
          let ns := ns_or_default pn in
          match split_event data with
          | Err _ => calls_eqb (calls_of obs) []
          | Ok (ev, args) =>
              if reserved ev || is_unhashable ev then true else
              let osid := sid_from_eio (mg s) eio ns in
              match (if is_connected (mg s) osid ns then osid else None) with
              | None => match obs with [] => true | _ => false end   (* not connected: nothing invoked, nothing answered *)
              | Some sid =>
                  match responsible c ev ns (PStr sid :: args) with
                  | None => match obs with [] => true | _ => false end  (* nobody responsible: dropped, not acknowledged *)
                  | Some (oh, a) =>
                      let ran := match oh with Some h => arity_ok c h (List.length a) | None => true end in
                      let result := match oh with
                                    | Some h => match outcome_of c h with Some (Returns v) => Some v | _ => None end
                                    | None => match ev with PStr _ => Some PNone | _ => if truthy ev then None else Some PNone end
                                    end in
                      calls_eqb (calls_of obs)
                                (match oh with Some h => if ran then [(h, a)] else [] | None => [] end) &&
                      forallb (str_eqb eio) (out_eios obs) &&
                      match id, (if ran then result else None) with
                      | Some i, Some v =>
                          match frames_of c ACK (PList (pack v)) ns (Some i) with
                          | Ok fr => list_eqb pv_eqb (outs_of eio obs) fr
                          | Err _ => true
                          end
                      | _, _ => match outs_of eio obs with [] => true | _ => false end
                      end
                  end
              end
          end
      end
  | _ => true
  end.

Definition c05_eval (h : hcase) : nat :=
  bits (corr_ok h) (all_steps (c05_step (h_cfg h)) (h_cfg h) srv_init (h_ops h) (h_obs h)).
