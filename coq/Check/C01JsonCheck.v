(* Tie of the concrete parser Codec/JsonParse.v (used by C01_roundtrip / C01_roundtrip_concrete) to the
   real json.loads: on the JSON texts the implementation's own encoder produced, the parser must return
   what engineio.json.loads returned. *)
From VT Require Export Base.PyVal Codec.JsonParse.
Definition jl_eval (x : str * Res pv) : nat :=
  if res_eqb pv_eqb (json_loads (fst x)) (snd x) then 0%nat else 1%nat.
