(* C03: recipients of every emit and rooms() listings, checked on what the implementation did. *)
From VT Require Export Check.SrvCheck Manager.RoomsSpec.
Open Scope N_scope.

Definition in_domain_target (t : pv) : bool :=
  match t with
  | PNone => true
  | PStr (_ :: _) => true
  | PInt z => negb (Z.eqb z 0)
  | PList ((_ :: _) as l) | PTuple ((_ :: _) as l) =>
      forallb (fun r => match r with PStr (_ :: _) => true | PInt z => negb (Z.eqb z 0) | _ => false end) l
  | _ => false
  end.

(* the frames every recipient must get for this emit (no callback) *)
Definition emit_pieces (c : cfg) (event data : pv) (ns : str) : Res (list pv) :=
  p <- ctor (uses_binary c) EVENT (PList (event :: pack data)) (Some ns) None None ;;
  encode_pieces c p.

Definition count_str (x : str) (l : list str) : nat := List.length (filter (str_eqb x) l).

(* what the implementation did for one operation, judged against the specification
   evaluated on the model state before the operation *)
Definition c03_step (c : cfg) (s : srv) (o : op) (obs : list eff) : bool :=
  match o with
  | ApiEmit event data to room skip ns None =>
      let n := ns_or_default ns in
      let target := first_truthy to room in
      if negb (in_domain_target target) then true else
      match emit_pieces c event data n with
      | Err _ => true                  (* payload outside the JSON domain: the call raises *)
      | Ok pieces =>
          let expected := filter (fun e => existsb (str_eqb e) (live s))
                                 (map snd (spec_recipients (mg s) n target skip)) in
          (* every addressed member gets exactly the frames, once; nobody else gets anything *)
          forallb (fun e => list_eqb pv_eqb (outs_of e obs) pieces) expected &&
          forallb (fun e => existsb (str_eqb e) expected) (out_eios obs) &&
          forallb (fun e => Nat.eqb (count_str e expected) 1) expected
      end
  | ApiRooms sid ns =>
      (* rooms(sid) = the rooms whose member list contains sid *)
      let n := ns_or_default ns in
      match obs with
      | [Ret (PList l)] =>
          forallb (fun r => in_room (mg s) n r sid && negb (pv_eqb r PNone)) l &&
          forallb (fun rb => pv_eqb (fst rb) PNone || negb (in_room (mg s) n (fst rb) sid)
                             || existsb (pv_eqb (fst rb)) l)
                  (match ns_rooms (mg s) n with Some rm => rm | None => [] end)
      | _ => false
      end
  | _ => true
  end.

Definition c03_eval (h : hcase) : nat :=
  bits (corr_ok h) (all_steps (c03_step (h_cfg h)) (h_cfg h) srv_init (h_ops h) (h_obs h)).
Definition c03_explain (h : hcase) :=
  (first_diff (h_cfg h) srv_init (h_ops h) (h_obs h) 0,
   dump_of (snd (corr_steps (h_cfg h) srv_init (h_ops h) (h_obs h)))).
