(* C11: no residual server state once a client's transport has ended.  Evaluated on the
   IMPLEMENTATION's state dump. *)
From VT Require Export Check.SrvSpecs.
Open Scope N_scope.

Definition dump_members (d : sdump) : list (str * str) :=        (* (sid, eio) over all rooms *)
  flat_map (fun nr => flat_map (fun rb => snd rb) (snd nr)) (d_rooms d).
Definition is_live (d : sdump) (eio : str) : bool := existsb (str_eqb eio) (d_live d).
Definition live_sid (d : sdump) (sid : str) : bool :=
  existsb (fun se => str_eqb (fst se) sid && is_live d (snd se)) (dump_members d).

(* nothing in the dump is held on behalf of a transport that no longer exists *)
Definition no_residue (d : sdump) : bool :=
  forallb (fun se => is_live d (snd se)) (dump_members d) &&
  forallb (fun nl => forallb (live_sid d) (snd nl)) (d_pending d) &&
  forallb (fun x => live_sid d (fst (fst x))) (d_cbs d) &&
  forallb (is_live d) (d_environ d) &&
  forallb (is_live d) (d_binpkt d) &&
  forallb (fun x => is_live d (fst x)) (d_sessions d).

(* no empty containers are left behind either; with nobody connected the dump is the initial one *)
Definition is_fresh (d : sdump) : bool :=
  match d_rooms d, d_pending d, d_cbs d, d_environ d, d_binpkt d, d_sessions d with
  | [], [], [], [], [], [] => true
  | _, _, _, _, _, _ => false
  end.

Definition c11_final (d : sdump) : bool :=
  no_residue d && (match d_live d with [] => is_fresh d | _ => true end).

(* which kind of residue (for the finding signature) *)
Definition c11_kinds (d : sdump) : list nat :=
  (if forallb (fun se => is_live d (snd se)) (dump_members d) then [] else [1%nat]) ++
  (if forallb (fun nl => forallb (live_sid d) (snd nl)) (d_pending d) then [] else [2%nat]) ++
  (if forallb (fun x => live_sid d (fst (fst x))) (d_cbs d) then [] else [3%nat]) ++
  (if forallb (is_live d) (d_environ d) then [] else [4%nat]) ++
  (if forallb (is_live d) (d_binpkt d) then [] else [5%nat]) ++
  (if forallb (fun x => is_live d (fst x)) (d_sessions d) then [] else [6%nat]) ++
  (match d_live d with [] => if is_fresh d then [] else [7%nat] | _ => [] end).

Definition c11_eval (h : hcase) : nat := bits (corr_ok h) (c11_final (h_final h)).

(* Histories in which handler tasks overlap with the following operations (async_handlers=True,
   harness/drivers/async_tasks.py).  The sequential model has no operation for them; only the state
   dumps taken when the server is quiescent (no task runnable; the last one is the final state) are
   observed, and each of them must satisfy the final-state clause c11_final. *)
(* q_tasks: per quiescent point, the number of FINISHED handler tasks of departed clients that are still alive
   after a garbage collection (wherever the reference is kept, e.g. async_server.task_reference_holder): a
   finished task keeps its exception, traceback, frames, the sid and the payload of its client. *)
Record qcase := mkQ { q_dumps : list sdump; q_tasks : list nat }.
Definition no_retained_tasks (q : qcase) : bool := forallb (Nat.eqb 0) (q_tasks q).
Definition c11q_ok (q : qcase) : bool := forallb c11_final (q_dumps q) && no_retained_tasks q.
Definition kinds_mask (ks : list nat) : nat := fold_right (fun k acc => Nat.pow 2 k + acc)%nat 0%nat (nodup Nat.eq_dec ks).
(* 0 = fine; otherwise bit 2 (property) and, from bit 3 on, the kinds of residue over all dumps
   (c11_kinds 1..7, and 8 = retained finished handler tasks) *)
Definition c11q_eval (q : qcase) : nat :=
  if c11q_ok q then 0%nat
  else (2 + 2 * kinds_mask (flat_map c11_kinds (filter (fun d => negb (c11_final d)) (q_dumps q)) ++
                            (if no_retained_tasks q then [] else [8%nat])))%nat.
