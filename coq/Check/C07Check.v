(* C07 - case type and evaluators for the tie between Cluster/PubSub.v and the real
   PubSubManager / AsyncPubSubManager cluster (harness/props/c07.py).
   c07_eval : bit 1 = model and implementation disagree, bit 2 = the observations violate the property. *)
From VT Require Export Cluster.PubSub.
Open Scope N_scope.

(* ---- boolean equalities ---- *)
Definition pkt_eqb (a b : pkt) : bool :=
  match a, b with
  | PktEvent n d i, PktEvent n' d' i' => str_eqb n n' && list_eqb pv_eqb d d' && opt_eqb N.eqb i i'
  | PktConnect n s, PktConnect n' s' => str_eqb n n' && str_eqb s s'
  | PktConnectError n, PktConnectError n' => str_eqb n n'
  | PktDisconnect n, PktDisconnect n' => str_eqb n n'
  | _, _ => false
  end.
Definition cbt_eqb (a b : str * str * N) : bool :=
  let '(r, n, i) := a in let '(r', n', i') := b in str_eqb r r' && str_eqb n n' && N.eqb i i'.
Definition msg_eqb (a b : msg) : bool :=
  match a, b with
  | MEmit e d n r s c h, MEmit e' d' n' r' s' c' h' =>
      pv_eqb e e' && pv_eqb d d' && str_eqb n n' && pv_eqb r r' && pv_eqb s s' && opt_eqb cbt_eqb c c' && Nat.eqb h h'
  | MCallback h s n i a, MCallback h' s' n' i' a' =>
      Nat.eqb h h' && str_eqb s s' && str_eqb n n' && N.eqb i i' && list_eqb pv_eqb a a'
  | MDisconnect s n h, MDisconnect s' n' h' => str_eqb s s' && str_eqb n n' && Nat.eqb h h'
  | MEnterRoom s r n h, MEnterRoom s' r' n' h' => str_eqb s s' && pv_eqb r r' && str_eqb n n' && Nat.eqb h h'
  | MLeaveRoom s r n h, MLeaveRoom s' r' n' h' => str_eqb s s' && pv_eqb r r' && str_eqb n n' && Nat.eqb h h'
  | MCloseRoom r n h, MCloseRoom r' n' h' => pv_eqb r r' && str_eqb n n' && Nat.eqb h h'
  | _, _ => false
  end.
Definition eff_eqb (a b : eff) : bool :=
  match a, b with
  | Deliver h e p, Deliver h' e' p' => Nat.eqb h h' && str_eqb e e' && pkt_eqb p p'
  | Callback h c a, Callback h' c' a' => Nat.eqb h h' && N.eqb c c' && list_eqb pv_eqb a a'
  | Published m, Published m' => msg_eqb m m'
  | Raised h e, Raised h' e' => Nat.eqb h h' && exn_eqb e e'
  | Logged h e, Logged h' e' => Nat.eqb h h' && exn_eqb e e'
  | Consumed h i, Consumed h' i' => Nat.eqb h h' && Nat.eqb i i'
  | _, _ => false
  end.

(* ---- dumps of the real managers ---- *)
Inductive dcb := DApp (n : N) | DPart (origin : nat) (room ns : str) (id : N).
Definition dcb_eqb (a b : dcb) : bool :=
  match a, b with
  | DApp n, DApp n' => N.eqb n n'
  | DPart o r n i, DPart o' r' n' i' => Nat.eqb o o' && str_eqb r r' && str_eqb n n' && N.eqb i i'
  | _, _ => false
  end.
Record dump := mkDump {
  d_rooms : list (str * list (pv * list (str * str)));
  d_pending : list (str * list str);
  d_cbs : list (str * option N * list (N * dcb));
  d_cur : nat
}.
Definition pair_eqb {A B} (f : A -> A -> bool) (g : B -> B -> bool) (x y : A * B) : bool :=
  f (fst x) (fst y) && g (snd x) (snd y).
Definition dump_eqb (a b : dump) : bool :=
  list_eqb (pair_eqb str_eqb (list_eqb (pair_eqb pv_eqb (list_eqb (pair_eqb str_eqb str_eqb))))) (d_rooms a) (d_rooms b) &&
  list_eqb (pair_eqb str_eqb (list_eqb str_eqb)) (d_pending a) (d_pending b) &&
  list_eqb (pair_eqb (pair_eqb str_eqb (opt_eqb N.eqb)) (list_eqb (pair_eqb N.eqb dcb_eqb))) (d_cbs a) (d_cbs b) &&
  Nat.eqb (d_cur a) (d_cur b).

Definition dcb_of (h : hst) (v : N) : dcb :=
  if N.even v then DApp (N.div2 v)
  else match nth_error (h_parts h) (N.to_nat (N.div2 v)) with
       | Some (o, r, n, i) => DPart o r n i
       | None => DApp 888888
       end.
Definition dump_of_st (h : hst) (cur : nat) : dump :=
  mkDump (rooms (h_mgr h)) (pending (h_mgr h))
         (map (fun ks => (fst ks, cb_counter (snd ks), map (fun iv => (fst iv, dcb_of h (snd iv))) (cb_entries (snd ks))))
              (callbacks (h_mgr h)))
         cur.
Definition dump_of (h : host) : dump := dump_of_st (h_st h) (h_cur h).

(* ---- the case ---- *)
Definition flat := list (str * pv * str * str).          (* (namespace, room, sid, eio) *)
Record case := mkCase {
  k_wos : list bool;
  k_imm : bool;                                           (* immediate consumption: the harness drained after every op *)
  k_strict : bool;                                        (* history inside the property's domain: evaluate bit 2 *)
  k_steps : list (op * list eff * list (nat * flat));     (* op, observed effects, membership dumps taken before the op *)
  k_finals : list dump;
  k_single : list (list eff);                             (* the real single server on the same ops *)
  k_single_final : dump
}.
Definition k_ops (c : case) : list op := map (fun s => fst (fst s)) (k_steps c).
Definition k_obs (c : case) : list (list eff) := map (fun s => snd (fst s)) (k_steps c).

(* ---- bit 1: correspondence ---- *)
Definition corr (c : case) : bool :=
  let '(cl, effs) := (if k_imm c then run_imm else run) (cluster_init (k_wos c)) (k_ops c) in
  let '(sg, seffs) := run_single single_init (k_ops c) in
  list_eqb (list_eqb eff_eqb) effs (k_obs c) &&
  list_eqb dump_eqb (map dump_of (c_hosts cl)) (k_finals c) &&
  list_eqb (list_eqb eff_eqb) seffs (k_single c) &&
  dump_eqb (dump_of_st (s_host sg) 0) (k_single_final c).

(* first step on which the model's effects differ (replay aid) *)
Fixpoint first_diff_from (i : nat) (a b : list (list eff)) : option (nat * list eff * list eff) :=
  match a, b with
  | [], [] => None
  | x :: a', y :: b' => if list_eqb eff_eqb x y then first_diff_from (S i) a' b' else Some (i, x, y)
  | x :: _, [] => Some (i, x, [])
  | [], y :: _ => Some (i, [], y)
  end.
Definition first_diff (c : case) :=
  let '(cl, effs) := (if k_imm c then run_imm else run) (cluster_init (k_wos c)) (k_ops c) in
  first_diff_from 0 effs (k_obs c).

(* ---- bit 2: the property, on the OBSERVATIONS ---- *)
Definition dl := (str * pkt)%type.
Definition dl_eqb (a b : dl) : bool := str_eqb (fst a) (fst b) && pkt_eqb (snd a) (snd b).
Fixpoint remove1 {A} (f : A -> A -> bool) (x : A) (l : list A) : option (list A) :=
  match l with
  | [] => None
  | y :: r => if f x y then Some r else match remove1 f x r with Some r' => Some (y :: r') | None => None end
  end.
(* equality of multisets *)
Fixpoint bag_eqb {A} (f : A -> A -> bool) (a b : list A) : bool :=
  match a with
  | [] => match b with [] => true | _ => false end
  | x :: a' => match remove1 f x b with Some b' => bag_eqb f a' b' | None => false end
  end.
Fixpoint nodupb {A} (f : A -> A -> bool) (l : list A) : bool :=
  match l with [] => true | x :: r => negb (existsb (f x) r) && nodupb f r end.

Definition cbs_plain (es : list eff) : list (N * list pv) := map (fun x => (snd (fst x), snd x)) (callbacks_of es).
Definition cb_eqb (a b : N * list pv) : bool := N.eqb (fst a) (fst b) && list_eqb pv_eqb (snd a) (snd b).

(* which host issued the emit that carries callback cb *)
Fixpoint issuer (ops : list op) (cb : N) : option nat :=
  match ops with
  | [] => None
  | Emit h _ _ _ _ _ (Some c) :: r => if N.eqb c cb then Some h else issuer r cb
  | _ :: r => issuer r cb
  end.
(* every callback invocation happens on the issuing host, each callback at most once,
   with arguments some client acknowledged *)
Definition ack_args (ops : list op) : list (list pv) :=
  flat_map (fun o => match o with ClientAck _ _ _ a => [a] | _ => [] end) ops.
Definition callbacks_ok (ops : list op) (obs : list (list eff)) : bool :=
  let all := callbacks_of (List.concat obs) in
  forallb (fun x => let '(h, cb, a) := x in
                    opt_eqb Nat.eqb (issuer ops cb) (Some h) && existsb (list_eqb pv_eqb a) (ack_args ops)) all &&
  nodupb N.eqb (map (fun x => snd (fst x)) all).

Definition flat_of_dump (d : dump) : flat :=
  flat_map (fun nr => flat_map (fun rb => map (fun se => (fst nr, fst rb, fst se, snd se)) (snd rb)) (snd nr)) (d_rooms d).
Definition flat_eqb (a b : str * pv * str * str) : bool :=
  let '(n, r, s, e) := a in let '(n', r', s', e') := b in str_eqb n n' && pv_eqb r r' && str_eqb s s' && str_eqb e e'.

(* immediate consumption: step by step the same deliveries (as multisets, ack ids hidden) and the same
   callback invocations as the real single server; at the end the same membership *)
Definition imm_deliveries_ok (c : case) : bool :=
  (fix go (a b : list (list eff)) : bool :=
     match a, b with
     | [], [] => true
     | x :: a', y :: b' => bag_eqb dl_eqb (deliveries x) (deliveries y) && go a' b'
     | _, _ => false
     end) (k_obs c) (k_single c).
Definition imm_callbacks_ok (c : case) : bool :=
  (fix go (a b : list (list eff)) : bool :=
     match a, b with
     | [], [] => true
     | x :: a', y :: b' => list_eqb cb_eqb (cbs_plain x) (cbs_plain y) && go a' b'
     | _, _ => false
     end) (k_obs c) (k_single c) &&
  callbacks_ok (k_ops c) (k_obs c).
Definition imm_membership_ok (c : case) : bool :=
  bag_eqb flat_eqb (flat_map flat_of_dump (k_finals c)) (flat_of_dump (k_single_final c)).
Definition prop_imm (c : case) : bool :=
  imm_deliveries_ok c && imm_callbacks_ok c && imm_membership_ok c.

(* -- delayed consumption -- *)
Definition is_membership_msg (m : msg) : bool :=
  match m with MEmit _ _ _ _ _ _ _ | MCallback _ _ _ _ _ => false | _ => true end.
Definition is_membership_op (o : op) : bool :=
  match o with Connect _ _ _ | EnterRoom _ _ _ _ | LeaveRoom _ _ _ _ | CloseRoom _ _ _ | Disconnect _ _ _ => true
             | _ => false end.
(* the channel index a Consume step took, as reported by the harness *)
Definition took (es : list eff) : option (nat * nat) :=
  match es with Consumed k i :: _ => Some (k, i) | _ => None end.
Definition quiet_effs (es : list eff) : bool :=
  forallb (fun e => match e with Consumed _ _ => true | _ => false end) es.

(* clients addressed by (ns, room, skip) according to a membership dump *)
Definition addressed_in (fl : flat) (ns : str) (room skip : pv) : list str :=
  flat_map (fun x => let '(n, r, s, e) := x in
                     if str_eqb n ns && existsb (py_eq r) (addressed room) && negb (skipped (skip_list skip) s)
                     then [e] else []) fl.
Fixpoint dedup (l : list str) : list str :=
  match l with [] => [] | x :: r => if existsb (str_eqb x) r then dedup r else x :: dedup r end.

(* eligibility of the deliveries made by host k while applying an emit message, given k's table before *)
Definition eligible (k : nat) (fl : flat) (m : msg) (es : list eff) : bool :=
  match m with
  | MEmit ev data ns room skip cb _ =>
      forallb (fun e => match e with
                        | Deliver k' eio (PktEvent ns' d id) =>
                            Nat.eqb k' k && str_eqb ns' ns && list_eqb pv_eqb d (ev :: pack data) &&
                            existsb (str_eqb eio) (addressed_in fl ns room skip) &&
                            (match cb, id with None, None | Some _, Some _ => true | _, _ => false end)
                        | Deliver _ _ _ => false
                        | _ => true end) es &&
      nodupb str_eqb (map fst (delivered es))
  | _ => true
  end.

Definition pre_of (pre : list (nat * flat)) (k : nat) : flat :=
  match find (fun x => Nat.eqb (fst x) k) pre with Some x => snd x | None => [] end.

Definition set_nth {A} (l : list A) (k : nat) (x : A) : list A := upd l k x.

(* deliveries attributed to channel message i by the steps after its publication, or None when a membership
   operation intervenes before every listening host has consumed it (raced) *)
Fixpoint collect (i : nat) (wos : list bool) (curs : list nat)
                 (steps : list (op * list eff * list (nat * flat))) : option (list dl) :=
  if forallb (fun wc => fst wc || Nat.ltb i (snd wc)) (combine wos curs) then Some [] else
  match steps with
  | [] => None
  | (o, es, _) :: r =>
      if is_membership_op o then None else
      match o, took es with
      | Consume _, Some (k, j) =>
          match collect i wos (upd curs k (S j)) r with
          | Some d => Some ((if Nat.eqb j i then delivered es else []) ++ d)
          | None => None
          end
      | _, _ => collect i wos curs r
      end
  end.

Definition unread_quiet (chan : list msg) (wos : list bool) (curs : list nat) : bool :=
  forallb (fun wc => fst wc || negb (existsb is_membership_msg (skipn (snd wc) chan))) (combine wos curs).

Fixpoint prop_delayed_from (wos : list bool) (chan : list msg) (curs : list nat)
                           (steps : list (op * list eff * list (nat * flat))) : bool :=
  match steps with
  | [] => true
  | (o, es, pre) :: r =>
      let chan' := chan ++ published es in
      match o with
      | Consume k =>
          match took es with
          | None => quiet_effs es && prop_delayed_from wos chan' curs r
          | Some (k', j) =>
              Nat.eqb k' k && Nat.eqb j (nth k curs 0%nat) &&                 (* in order, never re-read *)
              match nth_error chan j with
              | None => false
              | Some m =>
                  (if negb (is_callback_msg m) && Nat.eqb (msg_host m) k
                   then quiet_effs es                                         (* own echo: nothing happens *)
                   else match m with
                        | MEmit _ _ _ _ _ _ _ => eligible k (pre_of pre k) m es
                        | MCallback h _ _ _ _ => Nat.eqb h k || quiet_effs es (* foreign callback: nothing *)
                        | _ => true
                        end) &&
                  prop_delayed_from wos chan' (upd curs k (S j)) r
              end
          end
      | Emit k ev data ns room skip cb =>
          let local := filter (fun e => match e with Deliver _ _ _ => true | _ => false end) es in
          let ns' := ns_or_default ns in
          eligible k (pre_of pre k) (MEmit ev data ns' room skip (match cb with Some _ => Some ([], [], 0) | None => None end) k) local &&
          (match published es with
           | [MEmit _ _ _ _ _ _ _] =>
               let i := List.length chan in
               if unread_quiet chan wos curs then
                 match collect i wos curs r with
                 | Some d =>
                     (* unraced: exactly the clients a single server holding every table would address, once each *)
                     bag_eqb str_eqb (map fst (delivered local ++ d))
                             (dedup (addressed_in (flat_map snd pre) ns' room skip))
                 | None => true
                 end
               else true
           | _ => true
           end) &&
          prop_delayed_from wos chan' curs r
      | _ => prop_delayed_from wos chan' curs r
      end
  end.
Definition delayed_steps_ok (c : case) : bool :=
  prop_delayed_from (k_wos c) [] (map (fun _ => 0%nat) (k_wos c)) (k_steps c).
Definition prop_delayed (c : case) : bool :=
  delayed_steps_ok c && callbacks_ok (k_ops c) (k_obs c).

(* 1 = model and implementation disagree; 2 = the observations violate the property, with the failing part:
   4 = deliveries (immediate: not the single server's; delayed: echo / eligibility / at-most-once / exactness),
   8 = callback invocations, 16 = final membership *)
Definition c07_eval (c : case) : nat :=
  ((if corr c then 0 else 1) +
   (if negb (k_strict c) then 0
    else if k_imm c then
      (if prop_imm c then 0 else 2) + (if imm_deliveries_ok c then 0 else 4) +
      (if imm_callbacks_ok c then 0 else 8) + (if imm_membership_ok c then 0 else 16)
    else
      (if prop_delayed c then 0 else 2) + (if delayed_steps_ok c then 0 else 4) +
      (if callbacks_ok (k_ops c) (k_obs c) then 0 else 8)))%nat.
