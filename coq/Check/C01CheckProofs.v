(* C01: round trip through the real decoder model, interop with the spec-derived codec,
   soundness of the boolean checkers of C01Check.v. Proofs only. *)
From VT Require Import Base.PyStrProofs Codec.JsonProofs Codec.JsonParse Codec.JsonInj Codec.PacketProofs Codec.SpecProofs.
From VT Require Import Codec.Packet Codec.SpecCodec Check.C01Check.
From Coq Require Import Lia ZifyBool ZifyN.
Open Scope N_scope.

(* ---------- what json.loads is assumed to invert ---------- *)
(* wf_data without bytes leaves and without the reserved-key restriction (the text the
   encoder hands to json.dumps contains the placeholder dicts) *)
(* float tokens must have float shape (float_tok), strings must be str_ok (code points below
   U+110000, no high surrogate directly followed by a low surrogate): both from Codec/JsonParse.v;
   without them json_dumps is not injective and no json.loads can invert it *)
Fixpoint jsonable (v : pv) : bool :=
  match v with
  | PNone | PBool _ => true
  | PStr s => str_ok s
  | PInt z => Nat.leb (List.length (str_of_Z z)) 100
  | PFloat t => float_tok t
  | PList l => (fix go (l : list pv) : bool := match l with [] => true | x :: r => jsonable x && go r end) l
  | PDict kv => keys_distinct (map fst kv) && forallb pkey (map fst kv) &&
                (fix go (kv : list (pv * pv)) : bool :=
                   match kv with [] => true | (_, x) :: r => jsonable x && go r end) kv
  | PBytes _ | PTuple _ | PObj _ => false
  end.
(* lexical side condition on the payload: every float token is a float literal, every string
   (values and dict keys) is str_ok *)
Definition key_lex (k : pv) : bool := match k with PStr s => str_ok s | _ => true end.
Fixpoint lex_ok (v : pv) : bool :=
  match v with
  | PFloat t => float_tok t
  | PStr s => str_ok s
  | PList l => (fix go (l : list pv) : bool := match l with [] => true | x :: r => lex_ok x && go r end) l
  | PDict kv => forallb key_lex (map fst kv) &&
                (fix go (kv : list (pv * pv)) : bool :=
                   match kv with [] => true | (_, x) :: r => lex_ok x && go r end) kv
  | _ => true
  end.
Definition lex_list : list pv -> bool :=
  fix go (l : list pv) : bool := match l with [] => true | x :: r => lex_ok x && go r end.
Definition lex_dict : list (pv * pv) -> bool :=
  fix go (kv : list (pv * pv)) : bool := match kv with [] => true | (_, x) :: r => lex_ok x && go r end.
Lemma lex_PList l : lex_ok (PList l) = lex_list l.  Proof. reflexivity. Qed.
Lemma lex_PDict kv : lex_ok (PDict kv) = forallb key_lex (map fst kv) && lex_dict kv.  Proof. reflexivity. Qed.
Definition jsonable_list : list pv -> bool :=
  fix go (l : list pv) : bool := match l with [] => true | x :: r => jsonable x && go r end.
Definition jsonable_dict : list (pv * pv) -> bool :=
  fix go (kv : list (pv * pv)) : bool := match kv with [] => true | (_, x) :: r => jsonable x && go r end.
Definition wf_list : list pv -> bool :=
  fix go (l : list pv) : bool := match l with [] => true | x :: r => wf_data x && go r end.
Definition wf_dict : list (pv * pv) -> bool :=
  fix go (kv : list (pv * pv)) : bool := match kv with [] => true | (_, x) :: r => wf_data x && go r end.
Lemma jsonable_PList l : jsonable (PList l) = jsonable_list l.  Proof. reflexivity. Qed.
Lemma jsonable_PDict kv : jsonable (PDict kv) =
  keys_distinct (map fst kv) && forallb pkey (map fst kv) && jsonable_dict kv.
Proof. reflexivity. Qed.
Lemma wf_PList l : wf_data (PList l) = wf_list l.  Proof. reflexivity. Qed.
Lemma wf_PDict kv : wf_data (PDict kv) =
  keys_distinct (map fst kv) && forallb key_ok (map fst kv) && wf_dict kv.
Proof. reflexivity. Qed.

Lemma key_ok_pkey l : forallb key_ok l = true -> forallb key_lex l = true -> forallb pkey l = true.
Proof.
  induction l as [|k l IH]; [reflexivity|]. cbn [forallb]. intros H1 H2.
  apply andb_true_iff in H1 as [H1 H1']. apply andb_true_iff in H2 as [H2 H2'].
  rewrite (IH H1' H2'). destruct k; try discriminate H1. cbn [pkey key_lex] in *. rewrite H2. reflexivity.
Qed.
Lemma key_ok_no_ph k : key_ok k = true -> negb (py_eq k k_placeholder) = true.
Proof. destruct k; cbn [key_ok]; try discriminate. intro H. exact H. Qed.

Lemma forallb_impl {A} (f g : A -> bool) l :
  (forall x, f x = true -> g x = true) -> forallb f l = true -> forallb g l = true.
Proof. intros H. rewrite !forallb_forall. auto. Qed.

Lemma map_fst_subst_dict kv : forall n, map fst (subst_dict kv n) = map fst kv.
Proof.
  induction kv as [|[k x] kv IH]; intro n; [reflexivity|].
  cbn [subst_dict map fst]. fold subst_dict. rewrite IH. reflexivity.
Qed.

Lemma wf_ph_free : forall v, wf_data v = true -> ph_free v = true.
Proof.
  induction v as [| | | | | |l IH|l IH|kv IH|o] using pv_ind'; intro H; try reflexivity.
  - rewrite wf_PList in H. rewrite ph_free_PList.
    induction IH as [|x l Hx Hl IHl]; [reflexivity|].
    cbn [wf_list] in H. fold wf_list in H. apply andb_true_iff in H as [H1 H2].
    cbn [ph_free_list]. fold ph_free_list. rewrite (Hx H1), (IHl H2). reflexivity.
  - rewrite wf_PDict in H. rewrite ph_free_PDict.
    apply andb_true_iff in H as [H H3]. apply andb_true_iff in H as [_ H2].
    apply andb_true_iff; split.
    + unfold no_ph_key. revert H2. apply forallb_impl, key_ok_no_ph.
    + clear H2. induction IH as [|[k x] kv [_ Hx] Hl IHl]; [reflexivity|]. cbn [snd] in Hx.
      cbn [wf_dict] in H3. fold wf_dict in H3. apply andb_true_iff in H3 as [H1 H2].
      cbn [ph_free_dict]. fold ph_free_dict. rewrite (Hx H1), (IHl H2). reflexivity.
Qed.

Lemma placeholder_jsonable n : N.of_nat n < 10000000000 -> jsonable (placeholder n) = true.
Proof.
  intro H. unfold placeholder. rewrite jsonable_PDict.
  cbn [map fst jsonable_dict jsonable]. rewrite !andb_true_r.
  apply andb_true_iff; split; [reflexivity|].
  rewrite str_of_Z_nonneg by lia. apply Nat.leb_le.
  assert (Hl : (List.length (str_of_N (Z.to_N (Z.of_nat n))) <= 10)%nat).
  { apply str_of_N_len. cbn [pow10]. lia. }
  lia.
Qed.

Lemma wf_jsonable_subst : forall v, wf_data v = true -> lex_ok v = true -> forall n,
  N.of_nat n + N.of_nat (List.length (leaves v)) <= 10000000000 -> jsonable (subst v n) = true.
Proof.
  induction v as [| | | | | |l IH|l IH|kv IH|o] using pv_ind'; intros H Hf n Hn;
    try reflexivity; try exact H; try exact Hf; try discriminate.
  - cbn [subst]. apply placeholder_jsonable. cbn [leaves List.length] in Hn. lia.
  - rewrite wf_PList in H. rewrite lex_PList in Hf. rewrite subst_PList, jsonable_PList. rewrite leaves_PList in Hn.
    revert n Hn. induction IH as [|x l Hx Hl IHl]; intros n Hn; [reflexivity|].
    cbn [wf_list] in H. fold wf_list in H. apply andb_true_iff in H as [H1 H2].
    cbn [lex_list] in Hf. fold lex_list in Hf. apply andb_true_iff in Hf as [Hf1 Hf2].
    cbn [leaves_list] in Hn. fold leaves_list in Hn. rewrite app_length in Hn.
    cbn [subst_list jsonable_list]. fold subst_list jsonable_list.
    rewrite (Hx H1 Hf1) by lia. rewrite (IHl H2 Hf2) by lia. reflexivity.
  - rewrite wf_PDict in H. rewrite lex_PDict in Hf. rewrite subst_PDict, jsonable_PDict. rewrite leaves_PDict in Hn.
    apply andb_true_iff in H as [H H3]. apply andb_true_iff in H as [Hd Hk].
    apply andb_true_iff in Hf as [Hfk Hf].
    rewrite map_fst_subst_dict, Hd. rewrite (key_ok_pkey _ Hk Hfk). cbn [andb].
    clear Hd Hk Hfk. revert n Hn. induction IH as [|[k x] kv [_ Hx] Hl IHl]; intros n Hn; [reflexivity|].
    cbn [snd] in Hx. cbn [wf_dict] in H3. fold wf_dict in H3. apply andb_true_iff in H3 as [H1 H2].
    cbn [lex_dict] in Hf. fold lex_dict in Hf. apply andb_true_iff in Hf as [Hf1 Hf2].
    cbn [leaves_dict] in Hn. fold leaves_dict in Hn. rewrite app_length in Hn.
    cbn [subst_dict jsonable_dict]. fold subst_dict jsonable_dict.
    rewrite (Hx H1 Hf1) by lia. rewrite (IHl H2 Hf2) by lia. reflexivity.
Qed.

Lemma nobytes_leaves : forall v, has_bytes v = false -> leaves v = [].
Proof.
  induction v as [| | | | | |l IH|l IH|kv IH|o] using pv_ind'; intro H; try reflexivity; try discriminate.
  - rewrite has_bytes_PList in H. rewrite leaves_PList.
    induction IH as [|x l Hx Hl IHl]; [reflexivity|].
    cbn [has_bytes_list] in H. fold has_bytes_list in H. apply orb_false_iff in H as [H1 H2].
    cbn [leaves_list]. fold leaves_list. rewrite (Hx H1), (IHl H2). reflexivity.
  - rewrite has_bytes_PDict in H. rewrite leaves_PDict.
    induction IH as [|[k x] kv [_ Hx] Hl IHl]; [reflexivity|]. cbn [snd] in Hx.
    cbn [has_bytes_dict] in H. fold has_bytes_dict in H. apply orb_false_iff in H as [H1 H2].
    cbn [leaves_dict]. fold leaves_dict. rewrite (Hx H1), (IHl H2). reflexivity.
Qed.

Lemma bytes_leaves : forall v, has_bytes v = true -> leaves v <> [].
Proof.
  induction v as [| | | | | |l IH|l IH|kv IH|o] using pv_ind'; intro H; try discriminate.
  - rewrite has_bytes_PList in H. rewrite leaves_PList.
    induction IH as [|x l Hx Hl IHl]; [discriminate|].
    cbn [has_bytes_list] in H. fold has_bytes_list in H.
    cbn [leaves_list]. fold leaves_list. intro E. apply app_eq_nil in E as [E1 E2].
    apply orb_true_iff in H as [H|H]; [exact (Hx H E1)|exact (IHl H E2)].
  - rewrite has_bytes_PDict in H. rewrite leaves_PDict.
    induction IH as [|[k x] kv [_ Hx] Hl IHl]; [discriminate|]. cbn [snd] in Hx.
    cbn [has_bytes_dict] in H. fold has_bytes_dict in H.
    cbn [leaves_dict]. fold leaves_dict. intro E. apply app_eq_nil in E as [E1 E2].
    apply orb_true_iff in H as [H|H]; [exact (Hx H E1)|exact (IHl H E2)].
Qed.

Lemma noleaves_subst : forall v, leaves v = [] -> forall n, subst v n = v.
Proof.
  induction v as [| | | | | |l IH|l IH|kv IH|o] using pv_ind'; intros H n; try reflexivity; try discriminate.
  - rewrite leaves_PList in H. rewrite subst_PList. f_equal.
    revert n. induction IH as [|x l Hx Hl IHl]; intro n; [reflexivity|].
    cbn [leaves_list] in H. fold leaves_list in H. apply app_eq_nil in H as [H1 H2].
    cbn [subst_list]. fold subst_list. rewrite (Hx H1), H1, (IHl H2). reflexivity.
  - rewrite leaves_PDict in H. rewrite subst_PDict. f_equal.
    revert n. induction IH as [|[k x] kv [_ Hx] Hl IHl]; intro n; [reflexivity|]. cbn [snd] in Hx.
    cbn [leaves_dict] in H. fold leaves_dict in H. apply app_eq_nil in H as [H1 H2].
    cbn [subst_dict]. fold subst_dict. rewrite (Hx H1), H1, (IHl H2). reflexivity.
Qed.

(* ---------- shape of the frames the encoder writes ---------- *)
Lemma str_of_Z_digit t : (0 <= t <= 9)%Z -> str_of_Z t = [48 + Z.to_N t].
Proof. intro H. rewrite str_of_Z_nonneg by lia. apply str_of_N_small. lia. Qed.

Definition dumps_opt (d : pv) : Res str := match d with PNone => Ok [] | d => json_dumps d end.

Lemma encode_nonbin t ns id data f atts : (0 <= t <= 4)%Z ->
  encode (mkPacket (PInt t) ns id data) = Ok (f, atts) ->
  exists js, dumps_opt data = Ok js /\
             f = (48 + Z.to_N t) :: nsp_of ns ++ ids_of id ++ js /\ atts = None.
Proof.
  intros Ht H. unfold encode in H. cbn [ptype pns pid pdata] in H.
  assert (E : ((t =? BINARY_EVENT)%Z || (t =? BINARY_ACK)%Z) = false) by (unfold BINARY_EVENT, BINARY_ACK; lia).
  rewrite E in H.
  match type of H with (bind ?X _ = _) => destruct X as [js|e] eqn:Ejs end; cbn [bind] in H; [|discriminate].
  exists js. split; [exact Ejs|]. inversion H; subst. rewrite str_of_Z_digit by lia.
  split; reflexivity.
Qed.

Lemma encode_bin t ns id data f atts : (t = 5 \/ t = 6)%Z ->
  encode (mkPacket (PInt t) ns id data) = Ok (f, atts) ->
  exists js, dumps_opt (subst data 0) = Ok js /\
             f = (48 + Z.to_N t) :: (str_of_N (N.of_nat (List.length (leaves data))) ++ [45])
                   ++ nsp_of ns ++ ids_of id ++ js /\
             atts = Some (leaves data).
Proof.
  intros Ht H. unfold encode in H. cbn [ptype pns pid pdata] in H.
  assert (E : ((t =? BINARY_EVENT)%Z || (t =? BINARY_ACK)%Z) = true) by (unfold BINARY_EVENT, BINARY_ACK; lia).
  rewrite E, decon_nil in H.
  match type of H with (bind ?X _ = _) => destruct X as [js|e] eqn:Ejs end; cbn [bind] in H; [|discriminate].
  exists js. split; [exact Ejs|]. inversion H; subst. rewrite str_of_Z_digit by lia.
  split; reflexivity.
Qed.

(* ---------- handing the attachments back ---------- *)
Lemma last_only_SS k : last_only (S (S k)) = false :: last_only (S k).
Proof. reflexivity. Qed.

Lemma add_all_complete : forall rest pre r, rest <> [] -> ratts r = pre ->
  rcount r = N.of_nat (List.length pre + List.length rest) ->
  add_all r rest =
  (d <- recon (pdata (rp r)) (pre ++ rest) ;;
   Ok (mkR (mkPacket (ptype (rp r)) (pns (rp r)) (pid (rp r)) d) (rcount r) (pre ++ rest),
       last_only (List.length rest))).
Proof.
  induction rest as [|a rest IH]; intros pre r Hne Hp Hc; [contradiction|].
  cbn [add_all]. unfold add_attachment. rewrite Hp.
  assert (E1 : N.leb (rcount r) (N.of_nat (List.length pre)) = false) by (cbn [List.length] in Hc; lia).
  rewrite E1. rewrite app_length. cbn [List.length].
  destruct rest as [|b rest'].
  - assert (E2 : N.eqb (rcount r) (N.of_nat (List.length pre + 1)) = true) by (cbn [List.length] in Hc; lia).
    rewrite E2. destruct (recon (pdata (rp r)) (pre ++ [a])); reflexivity.
  - assert (E2 : N.eqb (rcount r) (N.of_nat (List.length pre + 1)) = false) by (cbn [List.length] in Hc; lia).
    rewrite E2. cbn [bind].
    rewrite (IH (pre ++ [a])); [|discriminate|reflexivity|].
    + cbn [rp rcount]. rewrite <- app_assoc. cbn [app].
      destruct (recon (pdata (rp r)) (pre ++ a :: b :: rest')); reflexivity.
    + cbn [rcount]. rewrite Hc, app_length. cbn [List.length]. f_equal. lia.
Qed.

(* ---------- the Prop-level reading of the boolean checkers ---------- *)
Definition RT_spec (t : Z) (data : pv) (ns : option str) (id : option Z) (binary : option bool)
           (atts : list pv) (obs : dec_obs) : Prop :=
  match obs with
  | Ok (q, n, flags) =>
      ptype q = PInt (promoted t data binary) /\         (* same type after promotion *)
      norm_ns (pns q) = norm_ns ns /\                     (* namespace up to ?query, None == "/" *)
      pid q = id /\ pdata q = data /\                     (* same id, same payload *)
      n = N.of_nat (List.length atts) /\                  (* declared attachment count *)
      flags = last_only (List.length atts) /\             (* completion exactly on the last one *)
      atts = map PBytes (leaves data)                     (* attachments = bytes leaves, depth first *)
  | Err _ => False
  end.

Definition ENC_spec (t : Z) (data : pv) (ns : option str) (id : option Z)
           (obs : Res (str * option (list str))) : Prop :=
  if has_bytes data && negb ((t =? 2)%Z || (t =? 3)%Z)
  then obs = Err ValueError
  else obs = spec_encode (mkPacket (PInt (promoted t data None)) ns id data).

Lemma opt_eqb_eq {A} (f : A -> A -> bool) :
  (forall x y, f x y = true <-> x = y) -> forall a b, opt_eqb f a b = true <-> a = b.
Proof.
  intros Hf [x|] [y|]; cbn [opt_eqb]; split; intro H; try reflexivity; try discriminate.
  - apply Hf in H. congruence.
  - inversion H; subst. apply Hf. reflexivity.
Qed.
Lemma bool_eqb_eq x y : Bool.eqb x y = true <-> x = y.
Proof. apply Bool.eqb_true_iff. Qed.

Theorem rt_ok_iff t data ns id binary atts obs : wf_input t data ns id = true ->
  (rt_ok t data ns id binary atts obs = true <-> RT_spec t data ns id binary atts obs).
Proof.
  intro Hwf. unfold rt_ok, RT_spec. rewrite Hwf. cbn [negb].
  destruct obs as [[[q n] flags]|e]; [|split; [discriminate|contradiction]].
  rewrite !andb_true_iff.
  rewrite pv_eqb_eq, str_eqb_eq, (opt_eqb_eq Z.eqb Z.eqb_eq), pv_eqb_eq, N.eqb_eq,
    (list_eqb_eq Bool.eqb bool_eqb_eq), (list_eqb_eq pv_eqb pv_eqb_eq).
  tauto.
Qed.

Corollary rt_ok_sound t data ns id binary atts obs : wf_input t data ns id = true ->
  rt_ok t data ns id binary atts obs = true -> RT_spec t data ns id binary atts obs.
Proof. intros Hwf H. apply (rt_ok_iff _ _ _ _ _ _ _ Hwf), H. Qed.

Lemma enc_eqb_eq a b : enc_eqb a b = true <-> a = b.
Proof.
  unfold enc_eqb. destruct a as [[f1 a1]|e1], b as [[f2 a2]|e2]; cbn [res_eqb fst snd];
    try (split; [discriminate|discriminate]).
  - rewrite andb_true_iff, str_eqb_eq, (opt_eqb_eq _ (list_eqb_eq str_eqb str_eqb_eq)).
    split; [intros [-> ->]; reflexivity|intro H; inversion H; auto].
  - rewrite exn_eqb_eq. split; [intros ->; reflexivity|intro H; inversion H; auto].
Qed.

Theorem enc_ok_iff t data ns id obs : wf_input t data ns id = true ->
  (enc_ok t data ns id None obs = true <-> ENC_spec t data ns id obs).
Proof.
  intro Hwf. unfold enc_ok, ENC_spec. rewrite Hwf. cbn [negb].
  destruct (has_bytes data && negb ((t =? 2)%Z || (t =? 3)%Z)); apply enc_eqb_eq.
Qed.

Corollary enc_ok_sound t data ns id obs : wf_input t data ns id = true ->
  enc_ok t data ns id None obs = true -> ENC_spec t data ns id obs.
Proof. intros Hwf H. apply (enc_ok_iff _ _ _ _ _ Hwf), H. Qed.

(* the model itself always passes the conformance checker (all inputs, wf or not) *)
Theorem model_enc_ok t data ns id : enc_ok t data ns id None (model_enc t data ns id None) = true.
Proof.
  unfold enc_ok. destruct (wf_input t data ns id) eqn:Hwf; [|reflexivity]. cbn [negb].
  unfold model_enc, ctor, promoted. cbn [andb]. unfold EVENT, ACK.
  destruct (has_bytes data); cbn [andb].
  - destruct (Z.eqb_spec t 2) as [->|H2]; cbn [orb negb bind].
    + rewrite conformance. apply enc_eqb_eq. reflexivity.
    + destruct (Z.eqb_spec t 3) as [->|H3]; cbn [orb negb bind].
      * rewrite conformance. apply enc_eqb_eq. reflexivity.
      * reflexivity.
  - cbn [bind]. rewrite conformance. apply enc_eqb_eq. reflexivity.
Qed.

(* ---------- the property's well-formedness gives the scanner's side conditions ---------- *)
Lemma wf_ns_ok ns : wf_ns ns = true -> ns_ok ns.
Proof.
  destruct ns as [[|c r]|]; cbn [wf_ns ns_ok]; intro H; try discriminate; [|exact I].
  assert (Hc : c = 47).
  { destruct c as [|p]; [discriminate|].
    repeat (destruct p as [p|p|]; try discriminate H). reflexivity. }
  subst c. exists r. split; [reflexivity|]. apply negb_true_iff in H. exact H.
Qed.

Lemma wf_id_ok id : wf_id id = true -> id_ok id.
Proof.
  destruct id as [i|]; cbn [wf_id id_ok]; [|trivial]. intro H.
  apply andb_true_iff in H as [H1 H2]. apply Nat.leb_le in H2. split; [lia|exact H2].
Qed.

Lemma strip_query_idem s : strip_query (strip_query s) = strip_query s.
Proof.
  unfold strip_query. destruct (find 63 s) as [q|] eqn:E.
  - rewrite (find_firstn_none _ _ _ E). reflexivity.
  - rewrite E. reflexivity.
Qed.

Lemma norm_ns_dec ns : norm_ns (ns_dec ns) = norm_ns ns.
Proof.
  destruct ns as [s|]; [|reflexivity]. cbn [ns_dec].
  destruct (str_eqb s [47]) eqn:E.
  - apply str_eqb_eq in E. subst s. reflexivity.
  - change (norm_ns (Some (strip_query s))) with (strip_query (strip_query s)).
    change (norm_ns (Some s)) with (strip_query s). apply strip_query_idem.
Qed.

Lemma is_number_not d : is_number d = false -> not_number d.
Proof. destruct d; cbn; congruence || trivial. Qed.

Lemma dumps_opt_js_ok d js : is_number d = false -> dumps_opt d = Ok js -> js_ok js.
Proof.
  intros Hn H. destruct d; try (right; apply (json_dumps_first _ _ H); exact I); try discriminate.
  left. cbn in H. congruence.
Qed.

Lemma loads_js loads d js : is_number d = false -> dumps_opt d = Ok js ->
  (forall s, json_dumps d = Ok s -> loads s = Ok d) ->
  (match js with [] => Ok PNone | _ => loads js end) = Ok d.
Proof.
  intros Hn H Hl. destruct d; cbn [is_number] in Hn; try discriminate Hn;
    try (cbn in H; discriminate H);
    try (destruct (json_dumps_first _ _ H I) as (x' & b' & -> & _); apply Hl; exact H).
  cbn in H. inversion H; subst. reflexivity.
Qed.

Definition atts_of (o : option (list str)) : list str := match o with Some l => l | None => [] end.

(* what the round trip delivers for a frame f and attachments atts *)
Definition RT_concl (loads : str -> Res pv) t data ns id (f : str) (atts : list str) : Prop :=
  exists r r' flags,
    decode loads (PStr f) = Ok r /\
    rcount r = N.of_nat (List.length atts) /\
    add_all r (map PBytes atts) = Ok (r', flags) /\
    flags = last_only (List.length atts) /\
    rt_ok t data ns id None (map PBytes atts) (Ok (rp r', rcount r, flags)) = true.

(* Round trip with the JSON oracle assumed correct on the ONE text the encoder produced *)
Theorem roundtrip_pointwise loads t data ns id p f atts :
  wf_input t data ns id = true ->
  ctor true t data ns id None = Ok p ->
  encode p = Ok (f, atts) ->
  N.of_nat (List.length (atts_of atts)) < 10000000000 ->
  (forall s, json_dumps (subst data 0) = Ok s -> loads s = Ok (subst data 0)) ->
  RT_concl loads t data ns id f (atts_of atts).
Proof.
  intros Hwf Hc He Hcnt Hloads. pose proof Hwf as Hwf0. unfold wf_input in Hwf.
  repeat rewrite andb_true_iff in Hwf.
  destruct Hwf as [[[[[[[H0 H4] Hns] Hid] Hd] Hnum] Hl] Hev].
  apply negb_true_iff in Hnum. apply wf_ns_ok in Hns. apply wf_id_ok in Hid.
  unfold ctor in Hc. cbn [andb] in Hc.
  destruct (has_bytes data) eqn:Hb.
  - (* binary: t is EVENT or ACK, promoted to 5 / 6 *)
    assert (Ht : (t = 2 \/ t = 3)%Z).
    { unfold EVENT, ACK in Hc. destruct (Z.eqb_spec t 2); [tauto|].
      destruct (Z.eqb_spec t 3); [tauto|discriminate]. }
    assert (Hlist : is_list data = true) by (destruct Ht as [-> | ->]; exact Hl).
    assert (Hp : p = mkPacket (PInt (t + 3)) ns id data).
    { destruct Ht as [-> | ->]; cbn in Hc; inversion Hc; reflexivity. }
    subst p. apply encode_bin in He; [|lia]. destruct He as (js & Ejs & -> & ->). cbn [atts_of] in *.
    assert (Hsn : is_number (subst data 0) = false) by (destruct data; try discriminate; reflexivity).
    pose proof (dumps_opt_js_ok _ _ Hsn Ejs) as Hjs.
    pose proof (loads_js loads _ _ Hsn Ejs Hloads) as Hlj.
    pose proof (bytes_leaves _ Hb) as Hne.
    eexists _, _, _. split; [|split; [|split; [|split]]].
    + unfold decode. cbn [truthy negb].
      apply decode_str_bin; [lia|exact Hcnt|exact Hns|exact Hid|exact Hjs|exact Hlj].
    + reflexivity.
    + rewrite (add_all_complete _ []); [|destruct (leaves data); [contradiction|discriminate]|reflexivity|].
      * cbn [rp pdata app].
        pose proof (recon_subst data (wf_ph_free _ Hd) [] []) as R.
        cbn [List.length app] in R. rewrite app_nil_r in R. rewrite R. cbn [bind]. reflexivity.
      * cbn [rcount List.length]. rewrite map_length. reflexivity.
    + rewrite map_length. reflexivity.
    + apply (rt_ok_iff _ _ _ _ _ _ _ Hwf0). unfold RT_spec. cbn [rp rcount ptype pns pid pdata].
      rewrite map_length. repeat split.
      * unfold promoted. rewrite Hb. f_equal. lia.
      * apply norm_ns_dec.
  - (* not binary *)
    inversion Hc; subst p. apply encode_nonbin in He; [|lia]. destruct He as (js & Ejs & -> & ->).
    cbn [atts_of] in *.
    pose proof (nobytes_leaves _ Hb) as Hlv. rewrite (noleaves_subst _ Hlv) in Hloads.
    pose proof (dumps_opt_js_ok _ _ Hnum Ejs) as Hjs.
    pose proof (loads_js loads _ _ Hnum Ejs Hloads) as Hlj.
    eexists _, _, _. split; [|split; [|split; [|split]]].
    + unfold decode. cbn [truthy negb].
      apply decode_str_nonbin; [lia|exact Hns|exact Hid|exact Hjs|exact Hlj].
    + reflexivity.
    + reflexivity.
    + reflexivity.
    + apply (rt_ok_iff _ _ _ _ _ _ _ Hwf0). unfold RT_spec. cbn [rp rcount ptype pns pid pdata map List.length].
      rewrite Hlv. repeat split.
      * unfold promoted. rewrite Hb. f_equal. lia.
      * apply norm_ns_dec.
Qed.

(* the specification-derived decoder accepts the same frame and reads the same fields
   (namespace verbatim, payload still carrying the placeholders, attachment count) *)
Theorem interop_spec_decode_pointwise loads t data ns id p f atts :
  wf_input t data ns id = true ->
  ctor true t data ns id None = Ok p ->
  encode p = Ok (f, atts) ->
  (forall s, json_dumps (subst data 0) = Ok s -> loads s = Ok (subst data 0)) ->
  spec_decode loads f =
  Ok (mkSpec (promoted t data None) (sns_of ns) id (subst data 0) (N.of_nat (List.length (atts_of atts)))).
Proof.
  intros Hwf Hc He Hloads. unfold wf_input in Hwf.
  repeat rewrite andb_true_iff in Hwf.
  destruct Hwf as [[[[[[[H0 H4] Hns] Hid] Hd] Hnum] Hl] Hev].
  apply negb_true_iff in Hnum. apply wf_ns_ok in Hns. apply wf_id_ok in Hid.
  unfold ctor in Hc. cbn [andb] in Hc. unfold promoted.
  destruct (has_bytes data) eqn:Hb.
  - assert (Ht : (t = 2 \/ t = 3)%Z).
    { unfold EVENT, ACK in Hc. destruct (Z.eqb_spec t 2); [tauto|].
      destruct (Z.eqb_spec t 3); [tauto|discriminate]. }
    assert (Hlist : is_list data = true) by (destruct Ht as [-> | ->]; exact Hl).
    assert (Hp : p = mkPacket (PInt (t + 3)) ns id data).
    { destruct Ht as [-> | ->]; cbn in Hc; inversion Hc; reflexivity. }
    subst p. apply encode_bin in He; [|lia]. destruct He as (js & Ejs & -> & ->). cbn [atts_of].
    assert (Hsn : is_number (subst data 0) = false) by (destruct data; try discriminate; reflexivity).
    pose proof (dumps_opt_js_ok _ _ Hsn Ejs) as Hjs.
    pose proof (loads_js loads _ _ Hsn Ejs Hloads) as Hlj.
    rewrite (spec_decode_bin loads (Z.to_N (t + 3)) _ ns id js (subst data 0)); [|lia|exact Hns|exact Hid|exact Hjs|exact Hlj].
    rewrite Z2N.id by lia. reflexivity.
  - inversion Hc; subst p. apply encode_nonbin in He; [|lia]. destruct He as (js & Ejs & -> & ->).
    cbn [atts_of List.length N.of_nat].
    pose proof (nobytes_leaves _ Hb) as Hlv. rewrite (noleaves_subst _ Hlv) in *.
    pose proof (dumps_opt_js_ok _ _ Hnum Ejs) as Hjs.
    pose proof (loads_js loads _ _ Hnum Ejs Hloads) as Hlj.
    rewrite (spec_decode_nonbin loads (Z.to_N t) ns id js data); [|lia|exact Hns|exact Hid|exact Hjs|exact Hlj].
    rewrite Z2N.id by lia. reflexivity.
Qed.

(* frames of the specification-derived encoder are read back by the real decoder *)
Theorem interop_spec_encode_pointwise loads t data ns id p f atts :
  wf_input t data ns id = true ->
  ctor true t data ns id None = Ok p ->
  spec_encode p = Ok (f, atts) ->
  N.of_nat (List.length (atts_of atts)) < 10000000000 ->
  (forall s, json_dumps (subst data 0) = Ok s -> loads s = Ok (subst data 0)) ->
  RT_concl loads t data ns id f (atts_of atts).
Proof. rewrite <- conformance. apply roundtrip_pointwise. Qed.

(* the same with json.loads as an oracle that inverts the printer on its whole domain *)
Section RoundTrip.
  Variable loads : str -> Res pv.
  Hypothesis loads_dumps : forall v s, jsonable v = true -> json_dumps v = Ok s -> loads s = Ok v.

  Lemma oracle_pointwise t data ns id p f atts :
    wf_input t data ns id = true -> lex_ok data = true ->
    ctor true t data ns id None = Ok p ->
    encode p = Ok (f, atts) ->
    N.of_nat (List.length (atts_of atts)) < 10000000000 ->
    forall s, json_dumps (subst data 0) = Ok s -> loads s = Ok (subst data 0).
  Proof.
    intros Hwf Hfl Hc He Hcnt s Hs. apply loads_dumps; [|exact Hs].
    assert (Hd : wf_data data = true).
    { unfold wf_input in Hwf. repeat rewrite andb_true_iff in Hwf. tauto. }
    apply wf_jsonable_subst; [exact Hd|exact Hfl|].
    (* the attachment list is leaves data (binary) or data has no leaves *)
    unfold ctor in Hc. cbn [andb] in Hc. destruct (has_bytes data) eqn:Hb.
    - assert (Hp : exists t', (t' = 5 \/ t' = 6)%Z /\ p = mkPacket (PInt t') ns id data).
      { unfold EVENT, ACK in Hc. destruct (t =? 2)%Z; [exists 5%Z; split; [lia|inversion Hc; reflexivity]|].
        destruct (t =? 3)%Z; [exists 6%Z; split; [lia|inversion Hc; reflexivity]|discriminate]. }
      destruct Hp as (t' & Ht' & ->). apply encode_bin in He; [|exact Ht'].
      destruct He as (js & _ & _ & ->). cbn [atts_of] in Hcnt. cbn [N.of_nat]. lia.
    - rewrite (nobytes_leaves _ Hb). cbn. lia.
  Qed.

  Theorem roundtrip_partial t data ns id p f atts :
    wf_input t data ns id = true -> lex_ok data = true ->
    ctor true t data ns id None = Ok p ->
    encode p = Ok (f, atts) ->
    N.of_nat (List.length (atts_of atts)) < 10000000000 ->
    RT_concl loads t data ns id f (atts_of atts).
  Proof.
    intros Hwf Hfl Hc He Hcnt. apply (roundtrip_pointwise loads t data ns id p f atts Hwf Hc He Hcnt).
    exact (oracle_pointwise t data ns id p f atts Hwf Hfl Hc He Hcnt).
  Qed.

  Theorem interop_spec_decode t data ns id p f atts :
    wf_input t data ns id = true -> lex_ok data = true ->
    ctor true t data ns id None = Ok p ->
    encode p = Ok (f, atts) ->
    N.of_nat (List.length (atts_of atts)) < 10000000000 ->
    spec_decode loads f =
    Ok (mkSpec (promoted t data None) (sns_of ns) id (subst data 0) (N.of_nat (List.length (atts_of atts)))).
  Proof.
    intros Hwf Hfl Hc He Hcnt. apply (interop_spec_decode_pointwise loads t data ns id p f atts Hwf Hc He).
    exact (oracle_pointwise t data ns id p f atts Hwf Hfl Hc He Hcnt).
  Qed.

  Theorem interop_spec_encode t data ns id p f atts :
    wf_input t data ns id = true -> lex_ok data = true ->
    ctor true t data ns id None = Ok p ->
    spec_encode p = Ok (f, atts) ->
    N.of_nat (List.length (atts_of atts)) < 10000000000 ->
    RT_concl loads t data ns id f (atts_of atts).
  Proof. rewrite <- conformance. apply roundtrip_partial. Qed.
End RoundTrip.

(* ---------- the stated domain boundary: a top-level number cannot be carried ---------- *)
Theorem number_payload_refuted : forall loads,
  exists p, ctor true CONNECT_ERROR (PInt 5) None None None = Ok p /\
            encode p = Ok (s2l "45", None) /\
            decode_str loads (s2l "45") = Ok (mkR (mkPacket (PInt 4) None (Some 5%Z) PNone) 0 []) /\
            spec_decode loads (s2l "45") = Ok (mkSpec 4 (s2l "/") (Some 5%Z) PNone 0).
Proof. intro loads. eexists. repeat split; vm_compute; reflexivity. Qed.

(* ---------- the encoder never fails on the property's domain ---------- *)
Lemma json_dumps_subst_total : forall v, wf_data v = true -> forall n,
  exists s, json_dumps (subst v n) = Ok s.
Proof.
  induction v as [| |z| | | |l IH|l IH|kv IH|o] using pv_ind'; intros H n; try discriminate;
    try (eexists; reflexivity).
  - destruct b; eexists; reflexivity.
  - rewrite wf_PList in H. rewrite subst_PList, json_dumps_PList.
    assert (Hl : forall first, exists s, dumps_list (subst_list l n) first = Ok s).
    { revert n. induction IH as [|x l Hx Hl IHl]; intros n first; [eexists; reflexivity|].
      cbn [wf_list] in H. fold wf_list in H. apply andb_true_iff in H as [H1 H2].
      cbn [subst_list dumps_list]. fold subst_list dumps_list.
      destruct (Hx H1 n) as [sx ->]. destruct (IHl H2 (n + List.length (leaves x))%nat false) as [sr ->].
      eexists; reflexivity. }
    destruct (Hl true) as [s ->]. eexists; reflexivity.
  - rewrite wf_PDict in H. rewrite subst_PDict, json_dumps_PDict.
    apply andb_true_iff in H as [H H3]. apply andb_true_iff in H as [_ Hk].
    assert (Hl : forall first, exists s, dumps_dict (subst_dict kv n) first = Ok s).
    { revert n. induction IH as [|[k x] kv [_ Hx] Hl IHl]; intros n first; [eexists; reflexivity|].
      cbn [snd] in Hx. cbn [wf_dict] in H3. fold wf_dict in H3. apply andb_true_iff in H3 as [H1 H2].
      cbn [map fst forallb] in Hk. apply andb_true_iff in Hk as [Hk1 Hk2].
      cbn [subst_dict dumps_dict]. fold subst_dict dumps_dict.
      destruct k; try discriminate Hk1. cbn [json_key bind].
      destruct (Hx H1 n) as [sx ->]. destruct (IHl Hk2 H2 (n + List.length (leaves x))%nat false) as [sr ->].
      eexists; reflexivity. }
    destruct (Hl true) as [s ->]. eexists; reflexivity.
Qed.

Lemma dumps_opt_total v n : wf_data v = true -> exists s, dumps_opt (subst v n) = Ok s.
Proof.
  intro H. destruct (json_dumps_subst_total v H n) as [s Hs]. unfold dumps_opt.
  destruct (subst v n); try (exists s; exact Hs). eexists; reflexivity.
Qed.

(* constructor and encoder succeed on the whole domain; the attachments are the bytes leaves *)
Theorem encode_total t data ns id : wf_input t data ns id = true ->
  (has_bytes data = true -> (t = 2 \/ t = 3)%Z) ->
  exists p f atts, ctor true t data ns id None = Ok p /\ encode p = Ok (f, atts) /\
                   atts_of atts = leaves data.
Proof.
  intros Hwf Hbin. assert (Hd : wf_data data = true).
  { unfold wf_input in Hwf. repeat rewrite andb_true_iff in Hwf. tauto. }
  destruct (dumps_opt_total data 0 Hd) as [js Hjs].
  unfold ctor. cbn [andb].
  destruct (has_bytes data) eqn:Hb.
  - assert (Hc : exists t', (t' = 5 \/ t' = 6)%Z /\
                 (if (t =? EVENT)%Z then Ok (mkPacket (PInt BINARY_EVENT) ns id data)
                  else if (t =? ACK)%Z then Ok (mkPacket (PInt BINARY_ACK) ns id data)
                  else Err ValueError) = Ok (mkPacket (PInt t') ns id data)).
    { destruct (Hbin eq_refl) as [-> | ->]; [exists 5%Z|exists 6%Z]; split; try lia; reflexivity. }
    destruct Hc as (t' & Ht' & ->). eexists _, _, _. split; [reflexivity|].
    unfold encode. cbn [ptype pns pid pdata].
    assert (E : ((t' =? BINARY_EVENT)%Z || (t' =? BINARY_ACK)%Z) = true) by (unfold BINARY_EVENT, BINARY_ACK; lia).
    rewrite E, decon_nil.
    match goal with |- context [bind ?X _] => change X with (dumps_opt (subst data 0)) end.
    rewrite Hjs. cbn [bind]. split; reflexivity.
  - assert (E : ((t =? BINARY_EVENT)%Z || (t =? BINARY_ACK)%Z) = false).
    { unfold wf_input in Hwf. repeat rewrite andb_true_iff in Hwf. unfold BINARY_EVENT, BINARY_ACK. lia. }
    rewrite (noleaves_subst _ (nobytes_leaves _ Hb)) in Hjs.
    eexists _, _, _. split; [reflexivity|].
    unfold encode. cbn [ptype pns pid pdata]. rewrite E.
    match goal with |- context [bind ?X _] => change X with (dumps_opt data) end.
    rewrite Hjs. cbn [bind].
    split; [reflexivity|]. rewrite (nobytes_leaves _ Hb). reflexivity.
Qed.

(* the round trip with no hypothesis about the encoder's success: on the whole domain the
   constructor and the encoder succeed, and what they produce decodes back *)
Theorem roundtrip_total_pointwise loads t data ns id :
  wf_input t data ns id = true ->
  (has_bytes data = true -> (t = 2 \/ t = 3)%Z) ->
  N.of_nat (List.length (leaves data)) < 10000000000 ->
  (forall s, json_dumps (subst data 0) = Ok s -> loads s = Ok (subst data 0)) ->
  exists p f atts, ctor true t data ns id None = Ok p /\ encode p = Ok (f, atts) /\
                   atts_of atts = leaves data /\
                   RT_concl loads t data ns id f (leaves data).
Proof.
  intros Hwf Hbin Hcnt Hl. destruct (encode_total t data ns id Hwf Hbin) as (p & f & atts & Hc & He & Ha).
  exists p, f, atts. repeat split; try assumption. rewrite <- Ha.
  apply (roundtrip_pointwise loads t data ns id p f atts Hwf Hc He); [rewrite Ha; exact Hcnt|exact Hl].
Qed.

(* ---------- non-vacuity: a concrete packet satisfying every hypothesis ---------- *)
(* EVENT in namespace "/chat-1?x=1" (with a query string), id 12, nested payload with two bytes
   leaves, a dict, a negative int, a float and null *)
Definition ex_data : pv :=
  PList [PStr (s2l "ev"); PBytes [1; 2];
         PDict [(PStr (s2l "k"), PList [PInt (-3); PBytes [255]]); (PStr (s2l "f"), PFloat (s2l "1.5"))];
         PNone].
Definition ex_ns : option str := Some (s2l "/chat-1?x=1").
Definition ex_id : option Z := Some 12%Z.
Definition ex_p : packet := mkPacket (PInt 5) ex_ns ex_id ex_data.
Definition ex_f : str :=
  s2l "52-/chat-1?x=1,12[""ev"",{""_placeholder"":true,""num"":0},{""k"":[-3,{""_placeholder"":true,""num"":1}],""f"":1.5},null]".
Definition ex_atts : list str := [[1; 2]; [255]].
(* a one-entry table for json.loads *)
Definition ex_loads : str -> Res pv :=
  table_loads [(skipn 17 ex_f, Ok (subst ex_data 0))].

Example ex_hypotheses :
  wf_input 2 ex_data ex_ns ex_id = true /\ lex_ok ex_data = true /\
  ctor true 2 ex_data ex_ns ex_id None = Ok ex_p /\
  encode ex_p = Ok (ex_f, Some ex_atts) /\
  N.of_nat (List.length (atts_of (Some ex_atts))) < 10000000000 /\
  (forall s, json_dumps (subst ex_data 0) = Ok s -> ex_loads s = Ok (subst ex_data 0)).
Proof.
  repeat split; try (vm_compute; reflexivity).
  intros s H. vm_compute in H. inversion H; subst. vm_compute. reflexivity.
Qed.

(* the conclusions of the round trip and of both interop theorems, evaluated *)
Example ex_roundtrip :
  (r <- decode ex_loads (PStr ex_f) ;;
   '(r', flags) <- add_all r (map PBytes ex_atts) ;;
   Ok (rp r', rcount r, flags,
       rt_ok 2 ex_data ex_ns ex_id None (map PBytes ex_atts) (Ok (rp r', rcount r, flags))))
  = Ok (mkPacket (PInt 5) (Some (s2l "/chat-1")) (Some 12%Z) ex_data, 2, [false; true], true).
Proof. vm_compute. reflexivity. Qed.

Example ex_roundtrip_thm : RT_concl ex_loads 2 ex_data ex_ns ex_id ex_f ex_atts.
Proof.
  destruct ex_hypotheses as (H1 & _ & H2 & H3 & H4 & H5).
  exact (roundtrip_pointwise ex_loads 2 ex_data ex_ns ex_id ex_p ex_f (Some ex_atts) H1 H2 H3 H4 H5).
Qed.

Example ex_conformance : spec_encode ex_p = Ok (ex_f, Some ex_atts).
Proof. vm_compute. reflexivity. Qed.

Example ex_spec_decode :
  spec_decode ex_loads ex_f = Ok (mkSpec 5 (s2l "/chat-1?x=1") (Some 12%Z) (subst ex_data 0) 2).
Proof. vm_compute. reflexivity. Qed.

Example ex_recon :
  wf_data ex_data = true /\
  recon (fst (decon ex_data [])) (map PBytes (snd (decon ex_data []))) = Ok ex_data.
Proof. split; vm_compute; reflexivity. Qed.

Example ex_binary_only : has_bytes ex_data = true /\ ctor true 4 ex_data ex_ns ex_id None = Err ValueError.
Proof. split; vm_compute; reflexivity. Qed.

(* a non-binary packet: default namespace, id with leading structure "10" + JSON text starting with '[' *)
Example ex_nonbinary :
  let d := PList [PStr (s2l "a-1,/2"); PInt 7] in
  let loads := table_loads [(s2l "[""a-1,/2"",7]", Ok d)] in
  wf_input 3 d (Some (s2l "/")) (Some 10%Z) = true /\
  (p <- ctor true 3 d (Some (s2l "/")) (Some 10%Z) None ;; encode p) = Ok (s2l "310[""a-1,/2"",7]", None) /\
  decode loads (PStr (s2l "310[""a-1,/2"",7]")) = Ok (mkR (mkPacket (PInt 3) None (Some 10%Z) d) 0 []).
Proof. repeat split; vm_compute; reflexivity. Qed.

(* checker soundness is not vacuous: the observation of the example passes rt_ok / enc_ok *)
Example ex_rt_spec :
  RT_spec 2 ex_data ex_ns ex_id None (map PBytes ex_atts)
          (Ok (mkPacket (PInt 5) (Some (s2l "/chat-1")) (Some 12%Z) ex_data, 2, [false; true])).
Proof. apply rt_ok_sound; vm_compute; reflexivity. Qed.
Example ex_enc_spec : ENC_spec 2 ex_data ex_ns ex_id (Ok (ex_f, Some ex_atts)).
Proof. apply enc_ok_sound; vm_compute; reflexivity. Qed.

(* binary reconstruction on the property's domain *)
Theorem recon_decon_wf v : wf_data v = true ->
  recon (fst (decon v [])) (map PBytes (snd (decon v []))) = Ok v.
Proof. intro H. apply recon_decon, wf_ph_free, H. Qed.

(* ---------- the JSON oracle discharged: json.loads := the concrete parser ---------- *)
Lemma jsonable_parseable : forall v, jsonable v = true -> parseable v = true.
Proof.
  induction v as [| | | | | |l IH|l IH|kv IH|o] using pv_ind'; intro H; try exact H; try reflexivity.
  - rewrite jsonable_PList in H. rewrite parseable_PList.
    induction IH as [|x l Hx Hl IHl]; [reflexivity|].
    cbn [jsonable_list] in H. fold jsonable_list in H. apply andb_true_iff in H as [H1 H2].
    cbn [parseable_list]. fold parseable_list. rewrite (Hx H1), (IHl H2). reflexivity.
  - rewrite jsonable_PDict in H. rewrite parseable_PDict.
    apply andb_true_iff in H as [H H3]. apply andb_true_iff in H as [_ Hk]. rewrite Hk. cbn [andb].
    clear Hk. induction IH as [|[k x] kv [_ Hx] Hl IHl]; [reflexivity|]. cbn [snd] in Hx.
    cbn [jsonable_dict] in H3. fold jsonable_dict in H3. apply andb_true_iff in H3 as [H1 H2].
    cbn [parseable_dict]. fold parseable_dict. rewrite (Hx H1), (IHl H2). reflexivity.
Qed.

Theorem loads_dumps_jsonable v s : jsonable v = true -> json_dumps v = Ok s -> json_loads s = Ok v.
Proof. intros H. apply loads_dumps, jsonable_parseable, H. Qed.

Theorem json_dumps_injective_jsonable v1 v2 s :
  jsonable v1 = true -> jsonable v2 = true ->
  json_dumps v1 = Ok s -> json_dumps v2 = Ok s -> v1 = v2.
Proof. intros H1 H2. apply json_dumps_injective; apply jsonable_parseable; assumption. Qed.

Theorem loads_exists_jsonable :
  exists loads : str -> Res pv,
    forall v s, jsonable v = true -> json_dumps v = Ok s -> loads s = Ok v.
Proof. exists json_loads. exact loads_dumps_jsonable. Qed.

Theorem roundtrip_concrete t data ns id p f atts :
  wf_input t data ns id = true -> lex_ok data = true ->
  ctor true t data ns id None = Ok p ->
  encode p = Ok (f, atts) ->
  N.of_nat (List.length (atts_of atts)) < 10000000000 ->
  RT_concl json_loads t data ns id f (atts_of atts).
Proof. exact (roundtrip_partial json_loads loads_dumps_jsonable t data ns id p f atts). Qed.

Theorem roundtrip_total_concrete t data ns id :
  wf_input t data ns id = true -> lex_ok data = true ->
  (has_bytes data = true -> (t = 2 \/ t = 3)%Z) ->
  N.of_nat (List.length (leaves data)) < 10000000000 ->
  exists p f atts, ctor true t data ns id None = Ok p /\ encode p = Ok (f, atts) /\
                   atts_of atts = leaves data /\
                   RT_concl json_loads t data ns id f (leaves data).
Proof.
  intros Hwf Hlex Hbin Hcnt. destruct (encode_total t data ns id Hwf Hbin) as (p & f & atts & Hc & He & Ha).
  exists p, f, atts. repeat split; try assumption. rewrite <- Ha.
  apply (roundtrip_concrete t data ns id p f atts Hwf Hlex Hc He). rewrite Ha. exact Hcnt.
Qed.

Theorem interop_spec_decode_concrete t data ns id p f atts :
  wf_input t data ns id = true -> lex_ok data = true ->
  ctor true t data ns id None = Ok p ->
  encode p = Ok (f, atts) ->
  N.of_nat (List.length (atts_of atts)) < 10000000000 ->
  spec_decode json_loads f =
  Ok (mkSpec (promoted t data None) (sns_of ns) id (subst data 0) (N.of_nat (List.length (atts_of atts)))).
Proof. exact (interop_spec_decode json_loads loads_dumps_jsonable t data ns id p f atts). Qed.

Theorem interop_spec_encode_concrete t data ns id p f atts :
  wf_input t data ns id = true -> lex_ok data = true ->
  ctor true t data ns id None = Ok p ->
  spec_encode p = Ok (f, atts) ->
  N.of_nat (List.length (atts_of atts)) < 10000000000 ->
  RT_concl json_loads t data ns id f (atts_of atts).
Proof. exact (interop_spec_encode json_loads loads_dumps_jsonable t data ns id p f atts). Qed.

(* the example packet through the concrete parser, strings with control, non-BMP and lone
   surrogate characters included *)
Example ex_concrete :
  let d := PList [PStr (s2l "ev"); PStr [10; 34; 92; 233; 128512; 55357; 65; 56832]; PBytes [7];
                  PDict [(PStr [8364], PList [PInt (-30); PFloat (s2l "-1.5e-07"); PBool false; PNone])]] in
  wf_input 2 d ex_ns ex_id = true /\ lex_ok d = true /\
  (p <- ctor true 2 d ex_ns ex_id None ;;
   '(f, atts) <- encode p ;;
   r <- decode json_loads (PStr f) ;;
   '(r', flags) <- add_all r (map PBytes (atts_of atts)) ;;
   Ok (rt_ok 2 d ex_ns ex_id None (map PBytes (atts_of atts)) (Ok (rp r', rcount r, flags)))) = Ok true.
Proof. repeat split; vm_compute; reflexivity. Qed.

Example ex_concrete_thm : RT_concl json_loads 2 ex_data ex_ns ex_id ex_f ex_atts.
Proof.
  destruct ex_hypotheses as (H1 & H0 & H2 & H3 & H4 & _).
  exact (roundtrip_concrete 2 ex_data ex_ns ex_id ex_p ex_f (Some ex_atts) H1 H0 H2 H3 H4).
Qed.
