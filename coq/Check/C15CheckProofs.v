(* C15 - the boolean checkers of C15Check.v: what they mean, and that every run of the model
   passes them (the property theorems in executable form). *)
From VT Require Import Listener.Listener Listener.RedisRetry Listener.ListenerProofs Check.C15Check.
From Coq Require Import Lia.
Open Scope N_scope.

(* ---- reflexivity of the structural equalities ---- *)
Lemma list_eqb_refl {A} (f : A -> A -> bool) : (forall x, f x x = true) -> forall l, list_eqb f l l = true.
Proof. intros H. induction l as [|x l IH]; [reflexivity|]. cbn. rewrite H, IH. reflexivity. Qed.
Lemma exn_eqb_refl e : exn_eqb e e = true.
Proof. apply exn_eqb_eq. reflexivity. Qed.
Lemma opname_eqb_refl o : opname_eqb o o = true.
Proof. destruct o; reflexivity. Qed.
Lemma eff_eqb_refl e : eff_eqb e e = true.
Proof.
  destruct e; cbn; rewrite ?exn_eqb_refl, ?opname_eqb_refl, ?pv_eqb_refl, ?N.eqb_refl, ?Bool.eqb_reflx,
    ?(list_eqb_refl pv_eqb pv_eqb_refl); reflexivity.
Qed.
Lemma slot_eqb_refl c : slot_eqb c c = true.
Proof. destruct c; cbn; rewrite ?Z.eqb_refl, ?N.eqb_refl, ?pv_eqb_refl; reflexivity. Qed.
Lemma pair_eqb_refl {A B} (f : A -> A -> bool) (g : B -> B -> bool) :
  (forall x, f x x = true) -> (forall y, g y y = true) -> forall p, pair_eqb f g p p = true.
Proof. intros Hf Hg [x y]. unfold pair_eqb. cbn. rewrite Hf, Hg. reflexivity. Qed.
Lemma mgr_eqb_refl m : mgr_eqb m m = true.
Proof.
  unfold mgr_eqb. apply andb_true_iff. split.
  - apply list_eqb_refl. apply pair_eqb_refl; [apply pv_eqb_refl|].
    apply list_eqb_refl. apply pair_eqb_refl; [apply pv_eqb_refl|].
    apply list_eqb_refl. apply pair_eqb_refl; apply pv_eqb_refl.
  - apply list_eqb_refl. apply pair_eqb_refl; [apply pv_eqb_refl|].
    apply list_eqb_refl. apply pair_eqb_refl; [apply pv_eqb_refl|apply slot_eqb_refl].
Qed.
Lemma effs_eqb_refl l : effs_eqb l l = true.
Proof. apply list_eqb_refl. apply eff_eqb_refl. Qed.
Lemma segs_eqb_refl l : segs_eqb l l = true.
Proof. apply list_eqb_refl. apply effs_eqb_refl. Qed.

(* ---- chk_ignored: meaning, and the model passes ---- *)
Lemma chk_ignored_sound own items segs :
  chk_ignored own items segs = true ->
  forall t it seg, In ((t, it), seg) (combine items segs) ->
  foreign_callback own it = true \/ own_echo own it = true -> seg = [].
Proof.
  unfold chk_ignored. rewrite forallb_forall. intros H t it seg Hin Hc.
  specialize (H _ Hin). cbn [fst snd] in H.
  assert (E : foreign_callback own it || own_echo own it = true).
  { destruct Hc as [Hc|Hc]; rewrite Hc; [reflexivity|apply orb_true_r]. }
  rewrite E in H. destruct seg; [reflexivity|discriminate H].
Qed.

Lemma ignored_step own a s it :
  foreign_callback own it || own_echo own it = true -> step own a s it = (s, []).
Proof.
  intros H. destruct it as [m pk js fs | e | sid id args fs]; try discriminate H.
  unfold foreign_callback, own_echo in H.
  destruct (decode m pk js) as [| | | | | | | |kv|] eqn:D; try discriminate H.
  destruct (aget (PStr k_method) kv) as [meth|] eqn:Hm; try discriminate H.
  destruct (py_eq meth (PStr k_callback)) eqn:C1; cbn [andb negb orb] in H.
  - rewrite orb_false_r in H. apply negb_true_iff in H.
    eapply foreign_callback_ignored; eassumption.
  - eapply own_echo_ignored; eassumption.
Qed.

Theorem chk_ignored_model own a : forall items s,
  chk_ignored own items (snd (run own a s (map snd items))) = true.
Proof.
  induction items as [|[t it] rest IH]; intros s; [reflexivity|].
  cbn [map snd]. rewrite run_cons. cbn [snd]. unfold chk_ignored in *. cbn [combine forallb fst snd].
  rewrite IH. rewrite andb_true_r.
  destruct (foreign_callback own it || own_echo own it) eqn:E; [|reflexivity].
  rewrite (ignored_step own a s it E). reflexivity.
Qed.

(* ---- chk_inert: the model passes whenever the tags are justified ---- *)
Lemma filter_bad_cons (t : tag) (it : item) rest :
  filter (fun p : tag * item => negb (is_bad (fst p))) ((t, it) :: rest) =
  if is_bad t then filter (fun p => negb (is_bad (fst p))) rest
  else (t, it) :: filter (fun p => negb (is_bad (fst p))) rest.
Proof. cbn. destruct (is_bad t); reflexivity. Qed.

Lemma inert_differential own a : forall items s,
  tags_justified own a s items = true ->
  let A := run own a s (map snd items) in
  let B := run own a s (map snd (filter (fun p => negb (is_bad (fst p))) items)) in
  fst A = fst B /\
  forallb (fun p => if is_bad (fst (fst p)) then is_nil (filter observable (snd p)) else true)
          (combine items (snd A)) = true /\
  map (fun p => filter observable (snd p))
      (filter (fun p : tag * item * list eff => negb (is_bad (fst (fst p)))) (combine items (snd A))) =
  map (filter observable) (snd B).
Proof.
  induction items as [|[t it] rest IH]; intros s HJ; [repeat split|].
  cbn [tags_justified] in HJ. apply andb_true_iff in HJ. destruct HJ as [HJ1 HJ2].
  cbn zeta. rewrite filter_bad_cons.
  destruct (is_bad t) eqn:Bt; cbn [negb andb] in *.
  - destruct (classify own s it) as [c|] eqn:Cl; [|discriminate HJ1].
    destruct (inert_step own a s it c Cl) as (E1 & E2).
    cbn [map snd]. rewrite run_cons. cbn [fst snd combine forallb filter]. rewrite Bt. cbn [negb].
    rewrite E1 in *. rewrite E2. cbn [is_nil andb].
    specialize (IH s HJ2). cbn zeta in IH. exact IH.
  - cbn [map snd]. rewrite !run_cons. cbn [fst snd combine forallb filter map]. rewrite Bt. cbn [negb map fst snd].
    specialize (IH (fst (step own a s it)) HJ2). cbn zeta in IH.
    destruct IH as (I1 & I2 & I3). repeat split; [exact I1|exact I2|]. rewrite I3. reflexivity.
Qed.

Theorem chk_inert_model own a s items :
  tags_justified own a s items = true ->
  let A := run own a s (map snd items) in
  let B := run own a s (map snd (filter (fun p => negb (is_bad (fst p))) items)) in
  chk_inert items (snd A) (snd B) (fst A) (fst B) = true.
Proof.
  intros HJ A B. destruct (inert_differential own a items s HJ) as (E1 & E2 & E3).
  fold A B in E1, E2, E3. unfold chk_inert. rewrite E2, E3, E1.
  rewrite segs_eqb_refl, mgr_eqb_refl. reflexivity.
Qed.

(* chk_inert accepted => the two runs agree on the final state (as compared structurally) and the
   tagged segments show nothing observable *)
Lemma chk_inert_sound items segsA segsB finA finB :
  chk_inert items segsA segsB finA finB = true ->
  mgr_eqb finA finB = true /\
  forall t it seg, In ((t, it), seg) (combine items segsA) -> is_bad t = true -> filter observable seg = [].
Proof.
  unfold chk_inert. intros H. apply andb_true_iff in H. destruct H as [H H3].
  apply andb_true_iff in H. destruct H as [H1 H2]. split; [exact H3|].
  rewrite forallb_forall in H1. intros t it seg Hin Hb. specialize (H1 _ Hin). cbn [fst snd] in H1.
  rewrite Hb in H1. destruct (filter observable seg); [reflexivity|discriminate H1].
Qed.

(* the model's own correspondence check is reflexive: a model run is what the case evaluation
   compares the implementation with *)
Theorem lst_corr_model own a s its :
  no_cancel own a s its = true ->
  lst_corr a own s its ([EListen] :: snd (run own a s its) ++ [[ELogErr]]) (fst (run own a s its)) = true.
Proof.
  intros Hnc. unfold lst_corr. rewrite (thread_total own a s its Hnc). destruct (run own a s its) as [s2 segs]. cbn [fst snd].
  rewrite !mgr_eqb_refl, segs_eqb_refl. cbn [andb].
  replace (List.concat ([EListen] :: segs ++ [[ELogErr]])) with (EListen :: List.concat segs ++ [ELogErr]).
  - rewrite effs_eqb_refl. reflexivity.
  - cbn [List.concat app]. rewrite concat_app. reflexivity.
Qed.

(* ---- Redis checkers: the model passes ---- *)
Theorem redis_listen_checker_model ch script :
  redis_only ch script = true ->
  match script with
  | LRedisError :: _ => true
  | _ => backoff_ok 1%Z (listen_run ch script) && ends_with_end (listen_run ch script)
  end = true.
Proof.
  intros H. pose proof (redis_listen_backoff ch script H) as G.
  destruct script as [|[| | | |] rest]; try reflexivity; destruct G as [G1 G2]; rewrite G1, G2; reflexivity.
Qed.

Theorem redis_publish_checker_model script :
  no_other script = true ->
  pub_no_raise (pub_run script) && Nat.leb (count_publish (pub_run script)) 1 = true.
Proof.
  intros H. destruct (redis_publish_retry script H) as (H1 & H2 & _).
  rewrite H1. apply Nat.leb_le in H2. rewrite H2. reflexivity.
Qed.

(* the premise of chk_inert_model holds on a scenario with tagged messages in a non-trivial state *)
Example chk_inert_premises :
  let items := [(TBad, IMsg (Examples.cbmsg Examples.A (PInt 9%Z)) None None [Some RuntimeError]);
                (TNone, IMsg (Examples.cbmsg Examples.A (PInt 1%Z)) None None []);
                (TBad, IMsg (PBytes [1]) (Some (PStr (s2l "a method"))) None [])] in
  tags_justified Examples.A false Examples.s0 items = true.
Proof. vm_compute. reflexivity. Qed.
