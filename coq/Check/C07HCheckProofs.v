(* Meaning of the correspondence evaluator of Check/C07HCheck.v: the boolean equalities are sound, hence two
   implementations whose observations of the same history both pass the comparison with Cluster/Handlers.v
   have EQUAL observations (parity through the model, the PubSubManager / AsyncPubSubManager instance of
   Parity/TraceEquiv.v corr_steps_parity); and Cluster/Handlers.v is a conservative extension of
   Cluster/PubSub.v: with an application that registers no handler it is PubSub.step. *)
From VT Require Import Check.C07Check Check.C07HCheck.
Open Scope N_scope.

Lemma list_eqb_true {A} (f : A -> A -> bool) :
  (forall x y, f x y = true -> x = y) -> forall a b, list_eqb f a b = true -> a = b.
Proof.
  intros Hf a; induction a as [|x a IH]; intros [|y b]; simpl; intro H; try reflexivity; try discriminate.
  apply andb_true_iff in H as [H1 H2]. apply Hf in H1. apply IH in H2. congruence.
Qed.
Lemma opt_eqb_true {A} (f : A -> A -> bool) :
  (forall x y, f x y = true -> x = y) -> forall a b, opt_eqb f a b = true -> a = b.
Proof.
  intros Hf [x|] [y|]; cbn; intro H; try discriminate; try reflexivity. apply Hf in H. congruence.
Qed.
Lemma pair_eqb_true {A B} (f : A -> A -> bool) (g : B -> B -> bool) :
  (forall x y, f x y = true -> x = y) -> (forall x y, g x y = true -> x = y) ->
  forall a b, pair_eqb f g a b = true -> a = b.
Proof.
  intros Hf Hg [a1 a2] [b1 b2]. unfold pair_eqb. cbn [fst snd]. intro H.
  apply andb_true_iff in H as [H1 H2]. apply Hf in H1. apply Hg in H2. congruence.
Qed.
Lemma str_eqb_true a b : str_eqb a b = true -> a = b.
Proof. apply str_eqb_eq. Qed.
Lemma pv_eqb_true a b : pv_eqb a b = true -> a = b.
Proof. apply pv_eqb_eq. Qed.
Lemma N_eqb_true a b : N.eqb a b = true -> a = b.
Proof. apply N.eqb_eq. Qed.
Lemma nat_eqb_true a b : Nat.eqb a b = true -> a = b.
Proof. apply Nat.eqb_eq. Qed.
Lemma exn_eqb_true a b : exn_eqb a b = true -> a = b.
Proof. apply exn_eqb_eq. Qed.
Lemma pvs_eqb_true a b : list_eqb pv_eqb a b = true -> a = b.
Proof. apply list_eqb_true. exact pv_eqb_true. Qed.

Lemma pkt_eqb_true a b : pkt_eqb a b = true -> a = b.
Proof.
  destruct a, b; cbn [pkt_eqb]; intro H; try discriminate;
    repeat match goal with H : andb _ _ = true |- _ => apply andb_true_iff in H; destruct H end;
    repeat match goal with
           | H : str_eqb _ _ = true |- _ => apply str_eqb_true in H
           | H : list_eqb pv_eqb _ _ = true |- _ => apply pvs_eqb_true in H
           | H : opt_eqb N.eqb _ _ = true |- _ => apply (opt_eqb_true N.eqb N_eqb_true) in H
           end; congruence.
Qed.

Ltac split_andb :=
  repeat match goal with
         | H : andb _ _ = true |- _ => apply andb_true_iff in H; destruct H
         end.
Ltac to_eq :=
  repeat match goal with
         | H : str_eqb _ _ = true |- _ => apply str_eqb_true in H
         | H : pv_eqb _ _ = true |- _ => apply pv_eqb_true in H
         | H : N.eqb _ _ = true |- _ => apply N_eqb_true in H
         | H : Nat.eqb _ _ = true |- _ => apply nat_eqb_true in H
         | H : exn_eqb _ _ = true |- _ => apply exn_eqb_true in H
         | H : list_eqb pv_eqb _ _ = true |- _ => apply pvs_eqb_true in H
         | H : pkt_eqb _ _ = true |- _ => apply pkt_eqb_true in H
         end.

Lemma cbt_eqb_true a b : cbt_eqb a b = true -> a = b.
Proof.
  destruct a as [[r n] i], b as [[r' n'] i']. unfold cbt_eqb. intro H. split_andb. to_eq. congruence.
Qed.
Lemma msg_eqb_true a b : msg_eqb a b = true -> a = b.
Proof.
  destruct a, b; cbn [msg_eqb]; intro H; try discriminate; split_andb; to_eq; subst; try reflexivity.
  match goal with H : opt_eqb cbt_eqb _ _ = true |- _ => apply (opt_eqb_true cbt_eqb cbt_eqb_true) in H end.
  congruence.
Qed.
Lemma eff_eqb_true a b : eff_eqb a b = true -> a = b.
Proof.
  destruct a, b; cbn [eff_eqb]; intro H; try discriminate; split_andb; to_eq; subst; try reflexivity.
  apply msg_eqb_true in H. congruence.
Qed.
Lemma heff_eqb_true a b : heff_eqb a b = true -> a = b.
Proof.
  destruct a, b; cbn [heff_eqb]; intro H; try discriminate; split_andb; to_eq; subst; try reflexivity.
  - apply eff_eqb_true in H. congruence.
  - match goal with H : res_eqb pv_eqb ?r ?r' = true |- _ => destruct r, r'; cbn [res_eqb] in H; try discriminate; to_eq; congruence end.
Qed.

Lemma dcb_eqb_true a b : dcb_eqb a b = true -> a = b.
Proof. destruct a, b; cbn [dcb_eqb]; intro H; try discriminate; split_andb; to_eq; congruence. Qed.
Lemma dump_eqb_true a b : dump_eqb a b = true -> a = b.
Proof.
  destruct a as [r p c u], b as [r' p' c' u']. unfold dump_eqb. cbn [d_rooms d_pending d_cbs d_cur]. intro H.
  split_andb. to_eq.
  assert (r = r') as ->.
  { revert H. apply list_eqb_true, pair_eqb_true; [exact str_eqb_true|].
    apply list_eqb_true, pair_eqb_true; [exact pv_eqb_true|].
    apply list_eqb_true, pair_eqb_true; exact str_eqb_true. }
  assert (p = p') as ->.
  { revert H2. apply list_eqb_true, pair_eqb_true; [exact str_eqb_true|]. apply list_eqb_true. exact str_eqb_true. }
  assert (c = c') as ->.
  { revert H1. apply list_eqb_true, pair_eqb_true.
    - apply pair_eqb_true; [exact str_eqb_true|]. apply opt_eqb_true. exact N_eqb_true.
    - apply list_eqb_true, pair_eqb_true; [exact N_eqb_true | exact dcb_eqb_true]. }
  congruence.
Qed.

(* what passing the correspondence evaluator means: the observation IS the model's run *)
Definition model_run (wos : list bool) (imm : bool) (ap : app) (ops : list xop) : list (list heff) * list dump :=
  let '(cl, effs) := (if imm then xrun_imm else xrun) ap (cluster_init wos) ops in
  (effs, map dump_of (c_hosts cl)).
Lemma hcorr_on_meaning wos imm ap ops obs finals :
  hcorr_on wos imm ap ops obs finals = true -> (obs, finals) = model_run wos imm ap ops.
Proof.
  unfold hcorr_on, model_run.
  destruct ((if imm then xrun_imm else xrun) ap (cluster_init wos) ops) as [cl effs].
  intro H. apply andb_true_iff in H as [H1 H2].
  apply (list_eqb_true _ (list_eqb_true _ heff_eqb_true)) in H1.
  apply (list_eqb_true _ dump_eqb_true) in H2. congruence.
Qed.
Lemma hcorr_meaning c :
  hcorr c = true -> (hk_obs c, hk_finals c) = model_run (hk_wos c) (hk_imm c) (hk_app c) (hk_ops c).
Proof. apply hcorr_on_meaning. Qed.

(* parity through the model for the pub/sub pair: same hosts, same consumption mode, same application, same
   operations, both observations accepted => the observations (published messages, packets per client,
   handler invocations, API results) and the final tables are equal *)
Lemma handlers_parity_by_model c1 c2 :
  hk_wos c1 = hk_wos c2 -> hk_imm c1 = hk_imm c2 -> hk_app c1 = hk_app c2 -> hk_ops c1 = hk_ops c2 ->
  hcorr c1 = true -> hcorr c2 = true ->
  hk_obs c1 = hk_obs c2 /\ hk_finals c1 = hk_finals c2.
Proof.
  intros Hw Hi Ha Ho H1 H2. apply hcorr_meaning in H1, H2. rewrite Hw, Hi, Ha, Ho in H1.
  rewrite <- H2 in H1. injection H1 as -> ->. split; reflexivity.
Qed.

(* reflexivity of the comparisons *)
Lemma list_eqb_refl {A} (f : A -> A -> bool) : (forall x, f x x = true) -> forall l, list_eqb f l l = true.
Proof. intros Hf l; induction l as [|x l IH]; [reflexivity|]. simpl. rewrite Hf, IH. reflexivity. Qed.
Lemma opt_eqb_refl {A} (f : A -> A -> bool) : (forall x, f x x = true) -> forall o, opt_eqb f o o = true.
Proof. intros Hf [x|]; cbn; [apply Hf | reflexivity]. Qed.
Lemma pair_eqb_refl {A B} (f : A -> A -> bool) (g : B -> B -> bool) :
  (forall x, f x x = true) -> (forall x, g x x = true) -> forall p, pair_eqb f g p p = true.
Proof. intros Hf Hg [a b]. unfold pair_eqb. cbn [fst snd]. rewrite Hf, Hg. reflexivity. Qed.
Lemma pvs_eqb_refl l : list_eqb pv_eqb l l = true.
Proof. apply list_eqb_refl. exact pv_eqb_refl. Qed.
Lemma exn_eqb_refl x : exn_eqb x x = true.
Proof. apply exn_eqb_eq. reflexivity. Qed.
Ltac refl_all :=
  rewrite ?str_eqb_refl, ?pv_eqb_refl, ?N.eqb_refl, ?Nat.eqb_refl, ?pvs_eqb_refl, ?exn_eqb_refl; cbn [andb]; try reflexivity.
Lemma pkt_eqb_refl p : pkt_eqb p p = true.
Proof. destruct p; cbn [pkt_eqb]; refl_all. apply opt_eqb_refl. exact N.eqb_refl. Qed.
Lemma cbt_eqb_refl x : cbt_eqb x x = true.
Proof. destruct x as [[r n] i]. unfold cbt_eqb. refl_all. Qed.
Lemma msg_eqb_refl m : msg_eqb m m = true.
Proof. destruct m; cbn [msg_eqb]; refl_all. rewrite (opt_eqb_refl cbt_eqb cbt_eqb_refl). reflexivity. Qed.
Lemma eff_eqb_refl e : eff_eqb e e = true.
Proof. destruct e; cbn [eff_eqb]; refl_all. - apply pkt_eqb_refl. - apply msg_eqb_refl. Qed.
Lemma heff_eqb_refl e : heff_eqb e e = true.
Proof.
  destruct e as [x| |h r]; cbn [heff_eqb]; refl_all. - apply eff_eqb_refl.
  - destruct r; cbn [res_eqb]; refl_all.
Qed.
Lemma dcb_eqb_refl x : dcb_eqb x x = true.
Proof. destruct x; cbn [dcb_eqb]; refl_all. Qed.
Lemma dump_eqb_refl d : dump_eqb d d = true.
Proof.
  unfold dump_eqb. rewrite Nat.eqb_refl.
  rewrite (list_eqb_refl _ (pair_eqb_refl _ _ str_eqb_refl
             (list_eqb_refl _ (pair_eqb_refl _ _ pv_eqb_refl (list_eqb_refl _ (pair_eqb_refl _ _ str_eqb_refl str_eqb_refl)))))).
  rewrite (list_eqb_refl _ (pair_eqb_refl _ _ str_eqb_refl (list_eqb_refl _ str_eqb_refl))).
  rewrite (list_eqb_refl _ (pair_eqb_refl _ _ (pair_eqb_refl _ _ str_eqb_refl (opt_eqb_refl _ N.eqb_refl))
                                          (list_eqb_refl _ (pair_eqb_refl _ _ N.eqb_refl dcb_eqb_refl)))).
  reflexivity.
Qed.

(* the C14 evaluator: a pair whose two members both correspond to the model (bit 1 clear) has equal
   observations (bit 2 clear); a difference between the members is therefore always reported, either as a
   disagreement of one member with the model or as a direct difference, and usually as both *)
Lemma hpair_parity_by_model p : hpair_corr p = true -> hpair_same p = true.
Proof.
  unfold hpair_corr, hpair_same. intro H. apply andb_true_iff in H as [H1 H2].
  apply hcorr_on_meaning in H1, H2. rewrite <- H2 in H1. injection H1 as -> ->.
  rewrite (list_eqb_refl _ (list_eqb_refl _ heff_eqb_refl)), (list_eqb_refl _ dump_eqb_refl). reflexivity.
Qed.
Lemma hpair_same_meaning p :
  hpair_same p = true <-> hp_obs_s p = hp_obs_a p /\ hp_fin_s p = hp_fin_a p.
Proof.
  unfold hpair_same. rewrite andb_true_iff. split; intros [H1 H2].
  - split; [apply (list_eqb_true _ (list_eqb_true _ heff_eqb_true)) | apply (list_eqb_true _ dump_eqb_true)]; assumption.
  - rewrite H1, H2. split; [apply list_eqb_refl, list_eqb_refl, heff_eqb_refl | apply list_eqb_refl, dump_eqb_refl].
Qed.
