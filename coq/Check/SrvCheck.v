(* Shared machinery for the server-side properties: observation equality, state dumps,
   history evaluation (correspondence bit), and iteration of per-step property checkers. *)
From VT Require Export Server.Server.
Open Scope N_scope.

Definition eff_eqb (a b : eff) : bool :=
  match a, b with
  | Out e p, Out e' p' => str_eqb e e' && pv_eqb p p'
  | Call h a, Call h' a' => N.eqb h h' && list_eqb pv_eqb a a'
  | CbCall h a, CbCall h' a' => N.eqb h h' && list_eqb pv_eqb a a'
  | Ret v, Ret v' => pv_eqb v v'
  | Raised e, Raised e' => exn_eqb e e'
  | _, _ => false
  end.
Definition is_out (e : eff) : bool := match e with Out _ _ => true | _ => false end.
Definition outs_of (eio : str) (l : list eff) : list pv :=
  flat_map (fun e => match e with Out e' p => if str_eqb e' eio then [p] else [] | _ => [] end) l.
Definition out_eios (l : list eff) : list str :=
  flat_map (fun e => match e with Out e' _ => [e'] | _ => [] end) l.
Definition non_outs (l : list eff) : list eff := filter (fun e => negb (is_out e)) l.

(* per-peer packet sequences equal, handler / callback / result sequence equal *)
Definition effs_eqb (a b : list eff) : bool :=
  list_eqb eff_eqb (non_outs a) (non_outs b) &&
  forallb (fun e => list_eqb pv_eqb (outs_of e a) (outs_of e b)) (out_eios a ++ out_eios b).

Record sdump := mkDump {
  d_rooms : list (str * list (pv * list (str * str)));
  d_pending : list (str * list str);
  d_cbs : list (str * option N * list N);
  d_environ : list str;
  d_binpkt : list str;
  d_sessions : list (str * list (str * pv));
  d_live : list str
}.
Definition dump_of (s : srv) : sdump :=
  mkDump (rooms (mg s)) (pending (mg s))
         (map (fun x => (fst x, cb_counter (snd x), map fst (cb_entries (snd x)))) (callbacks (mg s)))
         (map fst (environ s)) (map fst (binpkt s))
         (filter (fun x => match snd x with [] => false | _ => true end) (sessions s)) (live s).

Definition pair_eqb {A B} (fa : A -> A -> bool) (fb : B -> B -> bool) (x y : A * B) : bool :=
  fa (fst x) (fst y) && fb (snd x) (snd y).
Definition dump_eqb (a b : sdump) : bool :=
  list_eqb (pair_eqb str_eqb (list_eqb (pair_eqb pv_eqb (list_eqb (pair_eqb str_eqb str_eqb))))) (d_rooms a) (d_rooms b) &&
  list_eqb (pair_eqb str_eqb (list_eqb str_eqb)) (d_pending a) (d_pending b) &&
  list_eqb (pair_eqb (pair_eqb str_eqb (opt_eqb N.eqb)) (list_eqb N.eqb)) (d_cbs a) (d_cbs b) &&
  list_eqb str_eqb (d_environ a) (d_environ b) &&
  list_eqb str_eqb (d_binpkt a) (d_binpkt b) &&
  (* the session store is keyed by transport: compared as a finite map, order-insensitive *)
  Nat.eqb (List.length (d_sessions a)) (List.length (d_sessions b)) &&
  forallb (fun x => match aget str_eqb (d_sessions b) (fst x) with
                    | Some l => list_eqb (pair_eqb str_eqb pv_eqb) (snd x) l
                    | None => false end) (d_sessions a) &&
  list_eqb str_eqb (d_live a) (d_live b).

(* one history on the implementation: per-operation observed effects and the final dump *)
Record hcase := mkH { h_cfg : cfg; h_ops : list op; h_obs : list (list eff); h_final : sdump }.

(* correspondence: the model's run produces the same observations and the same final state *)
Fixpoint corr_steps (c : cfg) (s : srv) (ops : list op) (obs : list (list eff)) : bool * srv :=
  match ops, obs with
  | [], [] => (true, s)
  | o :: r, e :: es => let '(s1, me) := step c s o in
                       let '(b, sf) := corr_steps c s1 r es in (effs_eqb me e && b, sf)
  | _, _ => (false, s)
  end.
Definition corr_ok (h : hcase) : bool :=
  let '(b, sf) := corr_steps (h_cfg h) srv_init (h_ops h) (h_obs h) in
  b && dump_eqb (dump_of sf) (h_final h).

(* index of the first operation on which model and implementation differ (for replays) *)
Fixpoint first_diff (c : cfg) (s : srv) (ops : list op) (obs : list (list eff)) (i : nat) : option nat :=
  match ops, obs with
  | o :: r, e :: es => let '(s1, me) := step c s o in
                       if effs_eqb me e then first_diff c s1 r es (S i) else Some i
  | [], [] => None
  | _, _ => Some i
  end.

(* a per-step property checker sees the model state before the operation, the operation and
   what the IMPLEMENTATION did; it is folded over the history along the model's states *)
Fixpoint all_steps (chk : srv -> op -> list eff -> bool) (c : cfg) (s : srv)
         (ops : list op) (obs : list (list eff)) : bool :=
  match ops, obs with
  | o :: r, e :: es => chk s o e && all_steps chk c (fst (step c s o)) r es
  | _, _ => true
  end.

Definition bits (corr prop : bool) : nat :=
  ((if corr then 0 else 1) + (if prop then 0 else 2))%nat.
