(* Case type and boolean checkers evaluated on what the implementation produced (C01). *)
From VT Require Export Codec.Packet Codec.SpecCodec.
Open Scope N_scope.

Definition jtable := list (str * Res pv).
Fixpoint table_loads (tbl : jtable) (s : str) : Res pv :=
  match tbl with
  | [] => Err OracleMiss
  | (k, r) :: rest => if str_eqb k s then r else table_loads rest s
  end.

Definition dec_obs := Res (packet * N * list bool).

Inductive c01case :=
| Enc (t : Z) (data : pv) (ns : option str) (id : option Z) (binary : option bool)
      (obs : Res (str * option (list str)))
| RT (t : Z) (data : pv) (ns : option str) (id : option Z) (binary : option bool)
     (frame : pv) (atts : list pv) (tbl : jtable) (obs : dec_obs)
| Dec (payload : pv) (tbl : jtable) (atts : list pv) (obs : dec_obs).

(* ---- the model's runs ---- *)
Definition model_enc t data ns id binary : Res (str * option (list str)) :=
  p <- ctor true t data ns id binary ;; encode p.
Definition model_dec (tbl : jtable) (payload : pv) (atts : list pv) : dec_obs :=
  r <- decode (table_loads tbl) payload ;;
  '(r', flags) <- add_all r atts ;;
  Ok (rp r', rcount r, flags).

Definition enc_eqb (a b : Res (str * option (list str))) : bool :=
  res_eqb (fun x y => str_eqb (fst x) (fst y) && opt_eqb (list_eqb str_eqb) (snd x) (snd y)) a b.
Definition dec_eqb (a b : dec_obs) : bool :=
  res_eqb (fun x y => packet_eqb (fst (fst x)) (fst (fst y)) && N.eqb (snd (fst x)) (snd (fst y))
                      && list_eqb Bool.eqb (snd x) (snd y)) a b.

(* ---- well-formedness (the property's quantifier) ---- *)
Definition key_ok (k : pv) : bool :=
  match k with PStr s => negb (str_eqb s (s2l "_placeholder")) | _ => false end.
Fixpoint keys_distinct (ks : list pv) : bool :=
  match ks with [] => true | k :: r => negb (existsb (pv_eqb k) r) && keys_distinct r end.
(* JSON-able tree with bytes leaves, string keys, distinct, no reserved key, ints of <= 100 chars *)
Fixpoint wf_data (v : pv) : bool :=
  match v with
  | PNone | PBool _ | PStr _ | PBytes _ => true
  | PInt z => Nat.leb (List.length (str_of_Z z)) 100
  | PFloat t => negb (str_eqb t (s2l "nan") || str_eqb t (s2l "inf") || str_eqb t (s2l "-inf"))
  | PList l => (fix go (l : list pv) : bool := match l with [] => true | x :: r => wf_data x && go r end) l
  | PDict kv => keys_distinct (map fst kv) && forallb key_ok (map fst kv) &&
                (fix go (kv : list (pv * pv)) : bool :=
                   match kv with [] => true | (_, x) :: r => wf_data x && go r end) kv
  | PTuple _ | PObj _ => false
  end.
Definition is_number (v : pv) : bool := match v with PInt _ | PFloat _ => true | _ => false end.
Definition is_list (v : pv) : bool := match v with PList _ => true | _ => false end.
Definition wf_ns (ns : option str) : bool :=
  match ns with
  | None => true
  | Some (47 :: r) => negb (existsb (N.eqb 44) r)
  | Some _ => false
  end.
Definition wf_id (id : option Z) : bool :=
  match id with None => true | Some i => (0 <=? i)%Z && Nat.leb (List.length (str_of_Z i)) 100 end.
Definition wf_input (t : Z) (data : pv) (ns : option str) (id : option Z) : bool :=
  (0 <=? t)%Z && (t <=? 4)%Z && wf_ns ns && wf_id id && wf_data data && negb (is_number data) &&
  (if (t =? 2)%Z || (t =? 3)%Z then is_list data else true) &&
  (if (t =? 2)%Z then match data with PList (PStr _ :: _) => true | _ => false end else true).

(* ---- what C01 demands of an observation ---- *)
Definition norm_ns (ns : option str) : str :=
  match ns with
  | None => s2l "/"
  | Some s => match find 63 s with Some q => firstn q s | None => s end
  end.
Definition promoted (t : Z) (data : pv) (binary : option bool) : Z :=
  if match binary with Some b => b | None => has_bytes data end then (t + 3)%Z else t.
Fixpoint last_only (n : nat) : list bool :=
  match n with O => [] | S O => [true] | S k => false :: last_only k end.

(* conformance: the frames are the ones the specification-derived encoder prescribes;
   byte payloads only for EVENT / ACK *)
Definition enc_ok t data ns id (binary : option bool) (obs : Res (str * option (list str))) : bool :=
  if negb (wf_input t data ns id) then true else
  match binary with
  | None =>
      if has_bytes data && negb ((t =? 2)%Z || (t =? 3)%Z) then enc_eqb obs (Err ValueError)
      else enc_eqb obs (spec_encode (mkPacket (PInt (promoted t data None)) ns id data))
  | Some _ => true
  end.

(* round trip: same type (after promotion), namespace, id, payload; completion exactly on the last attachment *)
Definition rt_ok t data ns id (binary : option bool) (atts : list pv) (obs : dec_obs) : bool :=
  if negb (wf_input t data ns id) then true else
  match obs with
  | Ok (q, n, flags) =>
      pv_eqb (ptype q) (PInt (promoted t data binary)) &&
      str_eqb (norm_ns (pns q)) (norm_ns ns) &&
      opt_eqb Z.eqb (pid q) id &&
      (* zero declared attachments (binary forced on byte-free data): payload still carries no bytes *)
      pv_eqb (pdata q) data &&
      N.eqb n (N.of_nat (List.length atts)) &&
      list_eqb Bool.eqb flags (last_only (List.length atts)) &&
      list_eqb pv_eqb atts (map PBytes (leaves data))
  | Err _ => false
  end.

Definition bits (corr prop : bool) : nat :=
  ((if corr then 0 else 1) + (if prop then 0 else 2))%nat.

Definition c01_eval (c : c01case) : nat :=
  match c with
  | Enc t data ns id binary obs =>
      bits (enc_eqb (model_enc t data ns id binary) obs) (enc_ok t data ns id binary obs)
  | RT t data ns id binary frame atts tbl obs =>
      bits (dec_eqb (model_dec tbl frame atts) obs) (rt_ok t data ns id binary atts obs)
  | Dec payload tbl atts obs =>
      bits (dec_eqb (model_dec tbl payload atts) obs) true
  end.

(* shown by --replay: what the model computes for the case *)
Definition c01_explain (c : c01case) :=
  match c with
  | Enc t data ns id binary obs => (Some (model_enc t data ns id binary), None, Some obs, None)
  | RT t data ns id binary frame atts tbl obs => (None, Some (model_dec tbl frame atts), None, Some obs)
  | Dec payload tbl atts obs => (None, Some (model_dec tbl payload atts), None, Some obs)
  end.
