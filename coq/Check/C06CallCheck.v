(* C06, call(): the value returned by Server.call() / AsyncServer.call() for an acknowledgement with the
   given arguments is `call_result args` (None / the single value / the tuple); no acknowledgement in
   time raises TimeoutError.  `call_result` and C06_call_result are in Manager/AckProofs.v. *)
From VT Require Export Base.PyVal Manager.AckProofs.
Definition call_case := (option (list pv) * Res pv)%type.      (* acknowledged arguments (None = no ACK), observed outcome *)
Definition c06_call_eval (x : call_case) : nat :=
  match fst x with
  | Some args => if res_eqb pv_eqb (Ok (call_result args)) (snd x) then 0%nat else 2%nat
  | None => if res_eqb pv_eqb (Err TimeoutError) (snd x) then 0%nat else 2%nat
  end.

(* ---- overlapping call()s / emits with a callback (model and specification in Manager/AckOverlap.v) ----
   One case = the clients, a schedule of events, and per event what the real server did: the effects
   and the callback table afterwards; plus the operations still unfinished at the end.
   c06_overlap_eval = bit 1 (model and implementation disagree) + bit 2 (the observation violates the
   specification `sstep`) + 4 * (index from 1 of the first event violating the specification). *)
From VT Require Export Manager.AckOverlap.
From VT Require Import Check.SrvCheck.
Record ov_case := mkOv { ov_clients : list str; ov_evs : list oev;
                         ov_obs : list (list oeff * cb_dump); ov_left : list N }.
Definition cb_dump_eqb (a b : cb_dump) : bool :=
  list_eqb (pair_eqb (pair_eqb str_eqb (opt_eqb N.eqb)) (list_eqb N.eqb)) a b.
Fixpoint ov_corr (st : ostate) (evs : list oev) (obs : list (list oeff * cb_dump)) : bool * ostate :=
  match evs, obs with
  | [], [] => (true, st)
  | e :: r, (fx, d) :: os =>
      let '(st1, mfx) := ostep st e in
      let '(b, sf) := ov_corr st1 r os in
      (fx_eqb mfx fx && cb_dump_eqb (dump_cbs (o_mg st1)) d && b, sf)
  | _, _ => (false, st)
  end.
Definition c06_overlap_eval (c : ov_case) : nat :=
  let '(b, sf) := ov_corr (oinit (ov_clients c)) (ov_evs c) (ov_obs c) in
  let corr := b && list_eqb N.eqb (left_of (o_tasks sf)) (ov_left c) in
  let bad := srun (sinit (ov_clients c)) (ov_evs c) (map fst (ov_obs c)) 0 in
  ((if corr then 0 else 1) + (match bad with O => 0 | _ => 2 end) + 4 * bad)%nat.
