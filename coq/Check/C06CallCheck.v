(* C06, call(): the value returned by Server.call() / AsyncServer.call() for an acknowledgement with the
   given arguments is `call_result args` (None / the single value / the tuple); no acknowledgement in
   time raises TimeoutError.  `call_result` and C06_call_result are in Manager/AckProofs.v. *)
From VT Require Export Base.PyVal Manager.AckProofs.
Definition call_case := (option (list pv) * Res pv)%type.      (* acknowledged arguments (None = no ACK), observed outcome *)
Definition c06_call_eval (x : call_case) : nat :=
  match fst x with
  | Some args => if res_eqb pv_eqb (Ok (call_result args)) (snd x) then 0%nat else 2%nat
  | None => if res_eqb pv_eqb (Err TimeoutError) (snd x) then 0%nat else 2%nat
  end.
