(* C18: case types and boolean checkers for what the harness observes on the REAL
   InstrumentedServer / InstrumentedAsyncServer.  Depends on the hand-written specification
   only (Admin/AdminSpec.v, Admin/Wrappers.v), never on generated text, so the property bit can
   be evaluated even when the translator fails closed.  The correspondence bit against the
   generated functions is added in Admin/AdminGenCheck.v. *)
From VT Require Export Check.SrvCheck Admin.AdminSpec Admin.Wrappers.
Open Scope N_scope.

(* one packet the connecting transport received on the admin namespace, other than events *)
Inductive answer := AConnect (data : pv) | AConnectError (data : pv) | ADisconnect (data : pv).

Inductive c18case :=
(* admin_connect called directly: class, configuration, payload, what CALLING the predicate gives, whether
   it is a coroutine function, [Some r] when the call's value is a coroutine object whose awaited result
   is r (the value is then [coroutine_object]), and the observed result *)
| TV (is_async : bool) (cfg : acfg) (a : pv) (call : Res pv) (iscoro : bool) (awaited : option (Res pv))
     (observed : Res pv)
(* instrument(): events registered on the admin namespace (in order), are the four application-path
   wrappers installed *)
| IV (is_async : bool) (cfg : acfg) (events : list str) (patched : bool)
(* a CONNECT packet on the admin namespace through the real connect path *)
| CN (is_async always : bool) (cfg : acfg) (data : pv) (call : Res pv) (iscoro : bool)
     (awaited : option (Res pv)) (answers : list answer) (member : bool)
(* an admin client sends a modifying request; did anything happen to application clients / state *)
| RO (cfg : acfg) (ev : str) (happened : bool)
(* side by side: admin transports, admin namespace, per-operation effects of the plain run, of the
   instrumented run (same operations), of the extra admin operations, and the two final dumps *)
| TR (A : list str) (adm : str) (plain instr admin_ops : list (list eff)) (dplain dinstr : sdump)
(* packets delivered on the admin namespace to a transport whose authentication is still pending *)
| LK (n : nat).

Definition case_oracle (call : Res pv) (iscoro : bool) (awaited : option (Res pv)) : oracle :=
  mkOracle (fun _ _ => call) (fun _ => iscoro)
           (fun v => match awaited with Some _ => pv_eqb v coroutine_object | None => false end)
           (fun _ => match awaited with Some r => r | None => Err TypeError end)
           (fun _ _ => Ok PNone).
Definition class_pred (is_async : bool) (o : oracle) : pv -> pv -> Res pv :=
  if is_async then pred_async o else pred_sync o.

(* ---- TV ---- *)
Definition tv_spec (is_async : bool) (cfg : acfg) (a : pv) (call : Res pv) (iscoro : bool)
           (awaited : option (Res pv)) : Res pv :=
  auth_outcome (class_pred is_async (case_oracle call iscoro awaited)) (a_auth cfg) a.
Definition tv_spec_ok is_async cfg a call iscoro awaited (observed : Res pv) : bool :=
  res_eqb pv_eqb (tv_spec is_async cfg a call iscoro awaited) observed.

(* ---- IV ---- *)
Definition iv_spec_events (cfg : acfg) : list (option str) := map on_event (spec_registrations cfg).
Definition iv_spec_ok (cfg : acfg) (events : list str) (patched : bool) : bool :=
  list_eqb (opt_eqb str_eqb) (iv_spec_events cfg) (map Some events) &&
  Bool.eqb patched (is_development cfg).

(* ---- CN ---- *)
(* what admin_connect receives: server.py passes a falsy payload as None *)
Definition effective_auth (data : pv) : pv := if truthy data then data else PNone.
Definition refusal_payload : pv := error_args [PStr (s2l "authentication failed")].
Definition is_sid_dict (d : pv) : bool :=
  match d with PDict [(PStr k, PStr _)] => str_eqb k (s2l "sid") | _ => false end.
Definition answers_accept (answers : list answer) : bool :=
  match answers with [AConnect d] => is_sid_dict d | _ => false end.
Definition answers_refuse (payload : pv) (always : bool) (answers : list answer) : bool :=
  if always
  then match answers with [AConnect d; ADisconnect e] => is_sid_dict d && pv_eqb e payload | _ => false end
  else match answers with [AConnectError e] => pv_eqb e payload | _ => false end.
(* the property: accepted iff the decision says so; otherwise refused and no membership *)
Definition cn_prop_ok (always : bool) (decision : Res pv) (answers : list answer) (member : bool) : bool :=
  match decision with
  | Ok _ => answers_accept answers && member
  | Err _ => negb member && negb (answers_accept answers)
  end.
(* what the server model does with the decision (Server.handle_connect): an exception other than
   ConnectionRefusedError escapes, nothing is answered, the membership stays *)
Definition cn_model_ok (payload : pv) (always : bool) (decision : Res pv) (answers : list answer) (member : bool) : bool :=
  match decision with
  | Ok _ => answers_accept answers && member
  | Err ConnectionRefused => answers_refuse payload always answers && negb member
  | Err _ => (if always then match answers with [AConnect d] => is_sid_dict d | _ => false end
              else match answers with [] => true | _ => false end) && member
  end.
Definition cn_decision is_async cfg data call iscoro awaited : Res pv :=
  tv_spec is_async cfg (effective_auth data) call iscoro awaited.

(* ---- RO ---- *)
Definition ro_prop_ok (cfg : acfg) (happened : bool) : bool := writable cfg || negb happened.
Definition ro_model_ok (cfg : acfg) (happened : bool) : bool := Bool.eqb happened (writable cfg).

(* ---- TR ---- *)
Definition is_admin_eio (A : list str) (e : str) : bool := existsb (str_eqb e) A.
Definition proj_dump (A : list str) (adm : str) (d : sdump) : sdump :=
  mkDump (filter (fun x => negb (str_eqb (fst x) adm)) (d_rooms d))
         (filter (fun x => negb (str_eqb (fst x) adm)) (d_pending d))
         (d_cbs d)
         (filter (fun e => negb (is_admin_eio A e)) (d_environ d))
         (filter (fun e => negb (is_admin_eio A e)) (d_binpkt d))
         (filter (fun x => negb (is_admin_eio A (fst x))) (d_sessions d))
         (filter (fun e => negb (is_admin_eio A e)) (d_live d)).
Definition tr_ok (A : list str) (adm : str) (plain instr admin_ops : list (list eff)) (dplain dinstr : sdump) : bool :=
  list_eqb effs_eqb (map (proj A) instr) plain &&
  forallb (fun l => match proj A l with [] => true | _ => false end) admin_ops &&
  dump_eqb (proj_dump A adm dinstr) dplain.
(* index of the first operation whose projected effects differ (for replays) *)
Fixpoint tr_first_diff (A : list str) (plain instr : list (list eff)) (i : nat) : option nat :=
  match plain, instr with
  | p :: ps, x :: xs => if effs_eqb (proj A x) p then tr_first_diff A ps xs (S i) else Some i
  | [], [] => None
  | _, _ => Some i
  end.

(* ---- evaluation: bit 2 = the implementation's observation violates the property;
        bit 1 here only for observations that contradict the hand-written server-side model ---- *)
Definition c18_eval_spec (k : c18case) : nat :=
  match k with
  | TV is_async cfg a call iscoro awaited observed =>
      bits true (tv_spec_ok is_async cfg a call iscoro awaited observed)
  | IV is_async cfg events patched => bits true (iv_spec_ok cfg events patched)
  | CN is_async always cfg data call iscoro awaited answers member =>
      let d := cn_decision is_async cfg data call iscoro awaited in
      bits (cn_model_ok refusal_payload always d answers member) (cn_prop_ok always d answers member)
  | RO cfg ev happened => bits (ro_model_ok cfg happened) (ro_prop_ok cfg happened)
  | TR A adm plain instr admin_ops dplain dinstr => bits true (tr_ok A adm plain instr admin_ops dplain dinstr)
  | LK n => bits true (Nat.eqb n 0)
  end.

(* ---- the checkers mean what they say ---- *)
Lemma res_pv_eqb_eq (a b : Res pv) : res_eqb pv_eqb a b = true -> a = b.
Proof.
  destruct a as [x|x], b as [y|y]; cbn [res_eqb]; intro H; try discriminate.
  - apply pv_eqb_eq in H. congruence.
  - apply exn_eqb_eq in H. congruence.
Qed.

Lemma tv_spec_ok_sound is_async cfg a call iscoro awaited observed :
  tv_spec_ok is_async cfg a call iscoro awaited observed = true ->
  observed = auth_outcome (class_pred is_async (case_oracle call iscoro awaited)) (a_auth cfg) a.
Proof. intro H. symmetry. apply res_pv_eqb_eq. exact H. Qed.

Lemma cn_prop_ok_sound always d answers member :
  cn_prop_ok always d answers member = true ->
  (member = true -> exists v, d = Ok v) /\ (answers_accept answers = true -> exists v, d = Ok v).
Proof.
  unfold cn_prop_ok. destruct d as [v|e].
  - intros _. split; eauto.
  - intro H. apply andb_true_iff in H as [H1 H2].
    split; intro H; rewrite H in *; discriminate.
Qed.

Lemma list_eqb_Forall2 {T} (f : T -> T -> bool) a b :
  list_eqb f a b = true -> Forall2 (fun x y => f x y = true) a b.
Proof.
  revert b. induction a as [|x a IH]; intros [|y b] H; try discriminate; constructor.
  - apply andb_true_iff in H. tauto.
  - apply IH. apply andb_true_iff in H. tauto.
Qed.

(* operation by operation, the instrumented run projected on the application transports shows the
   same per-transport packet sequences, handler calls and API results as the plain run; the admin
   operations show nothing; the final states agree outside the admin namespace / transports *)
Lemma tr_ok_sound A adm plain instr admin_ops dplain dinstr :
  tr_ok A adm plain instr admin_ops dplain dinstr = true ->
  Forall2 (fun x p => effs_eqb (proj A x) p = true) instr plain /\
  Forall (fun l => proj A l = []) admin_ops /\
  dump_eqb (proj_dump A adm dinstr) dplain = true.
Proof.
  unfold tr_ok. intro H. apply andb_true_iff in H as [H H3]. apply andb_true_iff in H as [H1 H2].
  split; [|split; [|exact H3]].
  - apply list_eqb_Forall2 in H1. clear -H1. revert plain H1.
    induction instr as [|x xs IH]; intros plain H; inversion H; subst; constructor; auto.
  - apply Forall_forall. intros l Hl. rewrite forallb_forall in H2. specialize (H2 l Hl).
    destruct (proj A l); [reflexivity|discriminate].
Qed.

Lemma ro_prop_ok_sound cfg happened :
  ro_prop_ok cfg happened = true -> writable cfg = false -> happened = false.
Proof. unfold ro_prop_ok. intros H W. rewrite W in H. destruct happened; [discriminate|reflexivity]. Qed.
