(* C16: user sessions are private to one client connection (session id) and namespace.
   The specification store is keyed by (session id, namespace): since session ids are never
   reused, "what this client saved on this namespace, {} if nothing" is exactly the claim. *)
From VT Require Export Check.SrvSpecs.
Open Scope N_scope.

Definition skey := (str * str)%type.
Definition skey_eqb (a b : skey) : bool := str_eqb (fst a) (fst b) && str_eqb (snd a) (snd b).
Definition store := list (skey * pv).
Definition s_get (st : store) (sid ns : str) : pv :=
  match aget skey_eqb st (sid, ns) with Some v => v | None => PDict [] end.

Definition connected_on (s : srv) (sid ns : str) : bool :=
  match eio_from_sid (mg s) sid ns with Some e => existsb (str_eqb e) (live s) | None => false end.

(* the namespace on which [sid] lives (before or after the step) *)
Definition ns_of_sid (s s' : srv) (sid : str) : option str :=
  match filter (fun x => str_eqb (snd (fst x)) sid) (all_sids (mg s) ++ all_sids (mg s')) with
  | x :: _ => Some (fst (fst x))
  | [] => None
  end.
Definition sid_in_args (s s' : srv) (args : list pv) : option (str * str) :=
  match flat_map (fun a => match a with
                           | PStr x => match ns_of_sid s s' x with Some n => [(x, n)] | None => [] end
                           | _ => [] end) args with
  | x :: _ => Some x
  | [] => None
  end.

(* sessions read inside handlers (the scripted `get` action shows up as a Ret effect after the Call) *)
Fixpoint handler_reads_ok (s s' : srv) (st : store) (cur : option (str * str)) (obs : list eff) : bool :=
  match obs with
  | [] => true
  | Call _ args :: r => handler_reads_ok s s' st (sid_in_args s s' args) r
  | Ret v :: r => match cur with
                  | Some (sid, ns) => pv_eqb v (s_get st sid ns)
                  | None => true end && handler_reads_ok s s' st cur r
  | _ :: r => handler_reads_ok s s' st cur r
  end.

Definition no_raise (obs : list eff) : bool :=
  forallb (fun e => match e with Raised _ => false | _ => true end) obs.

Fixpoint c16_fold (c : cfg) (s : srv) (st : store) (ops : list op) (obs : list (list eff)) : bool :=
  match ops, obs with
  | o :: r, e :: es =>
      let s' := fst (step c s o) in
      let '(ok, st') :=
        match o with
        | ApiSaveSession sid v ns =>
            let n := ns_or_default ns in
            if connected_on s sid n then (no_raise e, aset skey_eqb st (sid, n) v)
            else (negb (no_raise e), st)
        | ApiSessionSet sid ns k v =>
            let n := ns_or_default ns in
            if connected_on s sid n then (no_raise e, aset skey_eqb st (sid, n) (dict_set (s_get st sid n) k v))
            else (negb (no_raise e), st)
        | ApiGetSession sid ns =>
            let n := ns_or_default ns in
            if connected_on s sid n
            then (match e with [Ret v] => pv_eqb v (s_get st sid n) | _ => false end, st)
            else (negb (no_raise e), st)
        | EioMessage _ _ _ | EioClose _ _ | ApiDisconnect _ _ =>
            (* handlers that only read: what they see is what this client saved *)
            (if existsb (fun hb => existsb (fun a => match a with ASave _ => true | _ => false end)
                                           (h_actions (snd hb))) (behav c)
             then true else handler_reads_ok s s' st None e, st)
        | _ => (true, st)
        end in
      ok && c16_fold c s' st' r es
  | _, _ => true
  end.

Definition c16_eval (h : hcase) : nat :=
  bits (corr_ok h) (c16_fold (h_cfg h) srv_init [] (h_ops h) (h_obs h)).
