(* C12 on histories that include the re-entrant broadcast of Server/EmitNested.v: while
   server.emit (no callback) is writing its packets, a packet of the offender (its DISCONNECT /
   CONNECT of the namespace, a malformed frame, the loss of its transport) is processed from
   inside the send to one of the recipients.  The observation of such an operation comes in three
   segments: the sends before the nested operation, what the nested operation did, the sends after.

   bit 1: the model's nstep3 produces the same three segments (and the same final state);
   bit 2: specification on the IMPLEMENTATION's observation:
     - the recipients were decided before the first send: every transport other than the
       offender's that carries a member of the addressed room(s) at the time of the emit (not
       skipped, alive) receives the packet's frames exactly once, nobody else receives anything,
       the offender's own transport at most once;
     - the broadcast raises nothing and does nothing but send;
     - the nested packet is judged by c12_step like every other packet of the offender. *)
From VT Require Export Check.C12Check Server.EmitNested.
Open Scope N_scope.

Record ncase := mkN { n_cfg : cfg; n_ops : list nop; n_obs : list seg; n_final : sdump }.

Definition seg_eqb (a b : seg) : bool :=
  effs_eqb (fst (fst a)) (fst (fst b)) && effs_eqb (snd (fst a)) (snd (fst b)) && effs_eqb (snd a) (snd b).

Fixpoint ncorr_steps (c : cfg) (s : srv) (ops : list nop) (obs : list seg) : bool * srv :=
  match ops, obs with
  | [], [] => (true, s)
  | o :: r, e :: es => let '(s1, me) := nstep3 c s o in
                       let '(b, sf) := ncorr_steps c s1 r es in (seg_eqb me e && b, sf)
  | _, _ => (false, s)
  end.
Definition ncorr_ok (h : ncase) : bool :=
  let '(b, sf) := ncorr_steps (n_cfg h) srv_init (n_ops h) (n_obs h) in
  b && dump_eqb (dump_of sf) (n_final h).
Fixpoint nfirst_diff (c : cfg) (s : srv) (ops : list nop) (obs : list seg) (i : nat) : option nat :=
  match ops, obs with
  | o :: r, e :: es => let '(s1, me) := nstep3 c s o in
                       if seg_eqb me e then nfirst_diff c s1 r es (S i) else Some i
  | [], [] => None
  | _, _ => Some i
  end.

Definition op_eio (o : op) : option str :=
  match o with EioConnect e _ | EioMessage e _ _ | EioClose e _ => Some e | _ => None end.
Definition sends_to (e : str) (l : list (str * pv)) : list pv :=
  flat_map (fun x : str * pv => if str_eqb (fst x) e then [snd x] else []) l.
Fixpoint is_prefix (a b : list pv) : bool :=
  match a, b with
  | [], _ => true
  | x :: a', y :: b' => pv_eqb x y && is_prefix a' b'
  | _ :: _, [] => false
  end.

Definition c12_nested_step (c : cfg) (s : srv) (ev data to room skip : pv) (ns : option str)
           (inner : op) (o : seg) : bool :=
  let '(pre, ie, post) := o in
  let outer := pre ++ post in
  match emit_sends c s ev data (ns_or_default ns) (first_truthy to room) skip with
  | Err _ => true          (* refused before anything is sent (unencodable data, bad room): nothing interleaves *)
  | Ok l =>
      let is_off e := match op_eio inner with Some x => str_eqb x e | None => false end in
      (* no exception; the broadcast does nothing but send *)
      forallb is_out outer &&
      (* exactly once to every other addressed member, nothing to anybody else *)
      forallb (fun e => is_off e ||
                        list_eqb pv_eqb (outs_of e outer) (if is_live (live s) e then sends_to e l else []))
              (live s ++ out_eios outer ++ map fst l) &&
      (* at most once to the offender *)
      match op_eio inner with Some x => is_prefix (outs_of x outer) (sends_to x l) | None => true end &&
      (* the nested packet: a broadcast without callback leaves the state alone, so [s] is the
         state the packet is processed in *)
      c12_step c s inner ie
  end.

Fixpoint nall_steps (c : cfg) (s : srv) (ops : list nop) (obs : list seg) : bool :=
  match ops, obs with
  | o :: r, e :: es =>
      match o with
      | NPlain o' => c12_step c s o' (fst (fst e))
      | NEmit ev data to room skip ns _ inner => c12_nested_step c s ev data to room skip ns inner e
      end && nall_steps c (fst (nstep3 c s o)) r es
  | _, _ => true
  end.

(* index of the first operation the step checker rejects (classification of a failure / replays) *)
Fixpoint nfirst_bad (c : cfg) (s : srv) (ops : list nop) (obs : list seg) (i : nat) : option nat :=
  match ops, obs with
  | o :: r, e :: es =>
      if match o with
         | NPlain o' => c12_step c s o' (fst (fst e))
         | NEmit ev data to room skip ns _ inner => c12_nested_step c s ev data to room skip ns inner e
         end
      then nfirst_bad c (fst (nstep3 c s o)) r es (S i) else Some i
  | _, _ => None
  end.

Definition c12x_eval (h : ncase) : nat :=
  bits (ncorr_ok h) (nall_steps (n_cfg h) srv_init (n_ops h) (n_obs h)).
