(* C06: server-initiated acknowledgements: unique ids, callback at most once, only for the
   right client and id; unknown / used / foreign ids are ignored without side effect. *)
From VT Require Export Check.SrvSpecs.
Open Scope N_scope.

Definition ack_of (c : cfg) (s : srv) (eio : str) (payload : pv) (tbl : jtable)
  : option (option str * option Z * pv) :=
  match aget str_eqb (binpkt s) eio with
  | Some r => match add_attachment r payload with
              | Ok (r', true) => if type_is (rp r') BINARY_EVENT then None
                                 else Some (pns (rp r'), pid (rp r'), pdata (rp r'))
              | _ => None end
  | None => match decode_any c (table_loads tbl) payload with
            | Ok r => if type_is (rp r) ACK
                      then Some (pns (rp r), pid (rp r), pdata (rp r)) else None
            | Err _ => None end
  end.

Definition outstanding (m : mgr) (sid : option str) (id : option Z) : option N :=
  match sid, id with
  | Some s, Some i =>
      if (i <=? 0)%Z then None else
      match aget str_eqb (callbacks m) s with
      | Some slot => aget N.eqb (cb_entries slot) (Z.to_N i)
      | None => None end
  | _, _ => None
  end.

(* the id carried by an emitted EVENT frame *)
Definition frame_id (piece : pv) : option Z :=
  match piece with
  | PStr f => match decode_str (fun _ => Ok PNone) f with Ok r => pid (rp r) | Err _ => None end
  | _ => None
  end.

Definition c06_step (c : cfg) (s : srv) (o : op) (obs : list eff) : bool :=
  match o with
  | ApiEmit _ _ _ _ _ ns (Some _) =>
      (* every EVENT sent with a callback carries an id not outstanding for that client *)
      let n := ns_or_default ns in
      forallb (fun e => match outs_of e obs with
                        | first :: _ =>
                            match frame_id first with
                            | Some i => match outstanding (mg s) (sid_from_eio (mg s) e n) (Some i) with
                                        | None => (0 <? i)%Z | Some _ => false end
                            | None => false
                            end
                        | [] => true end) (out_eios obs)
  | EioMessage eio payload tbl =>
      if negb (existsb (str_eqb eio) (live s)) then true else
      match ack_of c s eio payload tbl with
      | None => true
      | Some (pn, id, data) =>
          let ns := ns_or_default pn in
          match outstanding (mg s) (sid_from_eio (mg s) eio ns) id with
          | Some cb =>
              match star_args data with
              | Ok args => list_eqb (pair_eqb N.eqb (list_eqb pv_eqb)) (cbcalls_of obs) [(cb, args)]
              | Err _ => match cbcalls_of obs with [] => true | _ => false end
              end
          | None =>
              (* unknown, already used, foreign or never issued id: no effect, no state change *)
              match obs with [] => true | _ => false end &&
              (let nb d := mkDump (d_rooms d) (d_pending d) (d_cbs d) (d_environ d) [] (d_sessions d) (d_live d) in
               dump_eqb (nb (dump_of (fst (step c s o)))) (nb (dump_of s)))
          end
      end
  | _ => true
  end.

(* over the whole history every callback reference is invoked at most once *)
Fixpoint nodup_n (l : list N) : bool :=
  match l with [] => true | x :: r => negb (existsb (N.eqb x) r) && nodup_n r end.
Definition c06_once (obs : list (list eff)) : bool :=
  nodup_n (map fst (cbcalls_of (List.concat obs))).

Definition c06_eval (h : hcase) : nat :=
  bits (corr_ok h)
       (all_steps (c06_step (h_cfg h)) (h_cfg h) srv_init (h_ops h) (h_obs h) && c06_once (h_obs h)).
