(* C04: connection lifecycle: accept / reject answers, connect handler once with the auth
   payload, fresh session ids, disconnect handler exactly once per accepted connection. *)
From VT Require Export Check.SrvSpecs.
Open Scope N_scope.

Definition connect_of (c : cfg) (s : srv) (eio : str) (payload : pv) (tbl : jtable) : option (option str * pv) :=
  match classify c s eio payload tbl with
  | Some (Ok r) => if type_is (rp r) CONNECT then Some (pns (rp r), pdata (rp r)) else None
  | _ => None
  end.

Definition frames_eqb (a : list pv) (r : Res (list pv)) : bool :=
  match r with Ok b => list_eqb pv_eqb a b | Err _ => false end.
Definition app_res (a b : Res (list pv)) : Res (list pv) := x <- a ;; y <- b ;; Ok (x ++ y).
Definition no_calls (obs : list eff) : bool := match calls_of obs with [] => true | _ => false end.
Definition is_member (m : mgr) (sid : str) : bool :=
  existsb (fun x => str_eqb (snd (fst x)) sid) (all_sids m).

(* which of the documented outcomes a connection request must have *)
Definition c04_connect (c : cfg) (s s' : srv) (eio : str) (pn : option str) (data : pv) (obs : list eff) : bool :=
  let ns := ns_or_default pn in
  let dup := match sid_from_eio (mg s) eio ns with Some _ => true | None => false end in
  if negb (served c ns) || dup then
    (* refused without running a handler *)
    no_calls obs &&
    frames_eqb (outs_of eio obs) (frames_of c CONNECT_ERROR (PStr (s2l "Unable to connect")) ns None) &&
    forallb (str_eqb eio) (out_eios obs)
  else
    let sid := sid_name (fresh s) in
    let env := match aget str_eqb (environ s) eio with Some e => e | None => PNone end in
    let accept_frames := frames_of c CONNECT (sid_dict sid) ns None in
    match hid_for c ev_connect ns with
    | None => frames_eqb (outs_of eio obs) accept_frames && no_calls obs && is_member (mg s') sid
    | Some h =>
        match aget N.eqb (behav c) h with
        | None => true
        | Some b =>
            let base := [PStr sid; env] in
            (* the arguments as the responsible target receives them (catch-all targets get the
               namespace prepended); a falsy auth payload is passed as nothing, or as None to a
               handler that takes one more argument *)
            let full l := match responsible c ev_connect ns l with Some (_, a) => a | None => l end in
            let fits l := match h_arity b with Some k => Nat.eqb k (List.length l) | None => true end in
            let args := if truthy data then full (base ++ [data])
                        else if fits (full base) then full base else full (base ++ [PNone]) in
            let in_domain := fits args in
            if negb in_domain then true else
            match h_outcome b with
            | Raises _ => true                                (* outside the property's domain *)
            | out =>
                (* exactly one invocation, with the auth payload (catch-all targets get the
                   namespace prepended: compare the trailing arguments) *)
                match calls_of obs with
                | [(h', a)] => N.eqb h h' && list_eqb pv_eqb a args
                | _ => false
                end &&
                forallb (str_eqb eio) (out_eios obs) &&
                let refusal := match out with
                               | Returns v => if pv_eqb v (PBool false) then Some (error_args []) else None
                               | RaisesRefused ra => Some (error_args ra)
                               | Raises _ => None end in
                match refusal with
                | None => frames_eqb (outs_of eio obs) accept_frames && is_member (mg s') sid
                | Some why =>
                    (* a refusal whose arguments cannot be encoded cannot be announced at all:
                       outside the domain for the answer, still no membership may remain *)
                    (if match frames_of c CONNECT_ERROR why ns None with Err _ => true | Ok _ => false end then true
                     else if always_connect c
                     then frames_eqb (outs_of eio obs) (app_res accept_frames (frames_of c DISCONNECT why ns None))
                     else frames_eqb (outs_of eio obs) (frames_of c CONNECT_ERROR why ns None)) &&
                    negb (is_member (mg s') sid)              (* retains no membership anywhere *)
                end
            end
        end
    end.

(* disconnect-handler invocations in an observation, as (sid, reason) *)
Definition disc_calls (c : cfg) (obs : list eff) : list (N * list pv) :=
  filter (fun ha => existsb (fun nh => match hid_for c ev_disconnect (fst nh) with
                                       | Some h => N.eqb h (fst ha) | None => false end)
                            (handlers c ++ ns_handlers c)) (calls_of obs).
Definition mentions (sid : str) (args : list pv) : bool := existsb (pv_eqb (PStr sid)) args.

(* how often the disconnect handler of a namespace runs when one of its clients goes away
   (None = not constrained): once if it returns and fits (prefix, sid, reason) or the legacy
   (prefix, sid) - catch-all targets get the namespace prepended -, never if it cannot be called
   with either (TypeError before its body), never if nobody is responsible *)
Definition arity_fits (c : cfg) (h : N) (n : nat) : bool :=
  match aget N.eqb (behav c) h with
  | Some b => match h_arity b with Some k => Nat.eqb k n | None => true end
  | None => false
  end.
Definition disc_expected (c : cfg) (ns : str) : option nat :=
  match responsible c ev_disconnect ns [] with
  | Some (Some h, pre) =>
      match outcome_of c h with
      | Some (Returns _) =>
          Some (if arity_fits c h (List.length pre + 2) || arity_fits c h (List.length pre + 1) then 1 else 0)%nat
      | _ => None
      end
  | _ => Some O
  end.

(* any client that stops being connected in this step had its disconnect handler run exactly
   once in this step (when one is responsible), any other not at all *)
Definition c04_once (c : cfg) (s s' : srv) (obs : list eff) : bool :=
  forallb (fun x =>
             let '(ns, sid, _) := x in
             let gone := negb (is_connected (mg s') (Some sid) ns) || negb (is_member (mg s') sid) in
             let n := List.length (filter (fun ha => mentions sid (snd ha)) (disc_calls c obs)) in
             if is_connected (mg s) (Some sid) ns && gone then
               match disc_expected c ns with Some k => Nat.eqb n k | None => true end
             else Nat.eqb n 0)
          (all_sids (mg s)).

Definition c04_step (c : cfg) (s : srv) (o : op) (obs : list eff) : bool :=
  if has_actions c then true else
  let s' := fst (step c s o) in
  match o with
  | EioMessage eio payload tbl =>
      if negb (existsb (str_eqb eio) (live s)) then true else
      match connect_of c s eio payload tbl with
      | Some (pn, data) => c04_connect c s s' eio pn data obs
      | None => true
      end
  | _ => true
  end && c04_once c s s' obs.

(* session ids announced in CONNECT packets are pairwise distinct over the whole history *)
Definition connect_sid (piece : pv) : option pv :=
  match piece with
  | PStr (48 :: _ as f) =>
      match PyStr.find 123 f with          (* the JSON object starts at the first brace *)
      | Some i => Some (PStr (skipn i f))
      | None => None end
  | _ => None
  end.
Fixpoint nodup_pv (l : list pv) : bool :=
  match l with [] => true | x :: r => negb (existsb (pv_eqb x) r) && nodup_pv r end.
Definition c04_fresh (obs : list (list eff)) : bool :=
  nodup_pv (flat_map (fun e => match e with Out _ p => match connect_sid p with Some x => [x] | None => [] end
                                       | _ => [] end) (List.concat obs)).

Definition c04_eval (h : hcase) : nat :=
  bits (corr_ok h)
       (all_steps (c04_step (h_cfg h)) (h_cfg h) srv_init (h_ops h) (h_obs h) && c04_fresh (h_obs h)).
