(* C14: direct comparison of the threaded and the asyncio member of a pair on the same scenario. *)
From VT Require Export Check.SrvCheck Parity.TraceEquiv.
Open Scope N_scope.

Inductive c14case :=
(* Server / AsyncServer on one history: both observation lists and both final dumps *)
| PSrv (c : cfg) (ops_s ops_a : list op) (obs_s obs_a : list (list eff)) (dump_s dump_a : sdump)
(* any other pair: canonical traces as value lists *)
| PGen (kind : N) (trace_s trace_a : list pv).

Definition c14_eval (x : c14case) : nat :=
  match x with
  | PSrv c ops_s ops_a obs_s obs_a ds da =>
      bits (corr_ok (mkH c ops_s obs_s ds) && corr_ok (mkH c ops_a obs_a da))
           (all_eqb obs_s obs_a && dump_eqb ds da)
  | PGen _ a b => bits true (list_eqb pv_eqb a b)
  end.
