(* C12: hostile input from one client cannot touch other clients. *)
From VT Require Export Check.SrvSpecs.
Open Scope N_scope.

(* the part of a dump that belongs to transports other than [eio] *)
Definition others_view (eio : str) (s : srv) :=
  (filter (fun x => negb (str_eqb (snd x) eio)) (all_sids (mg s)),
   filter (fun x => negb (existsb (str_eqb (fst x)) (sids_of_eio (mg s) eio))) (callbacks (mg s)),
   filter (fun x => negb (str_eqb (fst x) eio)) (binpkt s),
   filter (fun x => negb (str_eqb (fst x) eio)) (sessions s),
   filter (fun x => negb (str_eqb (fst x) eio)) (environ s),
   map (fun nr => (fst nr, map (fun rb => (fst rb, filter (fun se => negb (str_eqb (snd se) eio)) (snd rb))) (snd nr)))
       (rooms (mg s))).
Definition rooms_view_eqb (a b : list (str * list (pv * bidict))) : bool :=
  (* same membership of the other clients in every room (empty rooms ignored) *)
  let flat x := flat_map (fun nr => flat_map (fun rb => map (fun se => (fst nr, fst rb, se)) (snd rb)) (snd nr)) x in
  list_eqb (fun p q => str_eqb (fst (fst p)) (fst (fst q)) && pv_eqb (snd (fst p)) (snd (fst q)) &&
                       pair_eqb str_eqb str_eqb (snd p) (snd q)) (flat a) (flat b).
Definition slot_eqb (a b : cbslot) : bool :=
  opt_eqb N.eqb (cb_counter a) (cb_counter b) && list_eqb (pair_eqb N.eqb N.eqb) (cb_entries a) (cb_entries b).
Definition rp_eqb (a b : rpacket) : bool :=
  packet_eqb (rp a) (rp b) && N.eqb (rcount a) (rcount b) && list_eqb pv_eqb (ratts a) (ratts b).
Definition others_unchanged (eio : str) (s s' : srv) : bool :=
  let '(m1, c1, b1, ss1, e1, r1) := others_view eio s in
  let '(m2, c2, b2, ss2, e2, r2) := others_view eio s' in
  list_eqb (pair_eqb (pair_eqb str_eqb str_eqb) str_eqb) m1 m2 &&
  list_eqb (pair_eqb str_eqb slot_eqb) c1 c2 &&
  list_eqb (pair_eqb str_eqb rp_eqb) b1 b2 &&
  list_eqb (pair_eqb str_eqb (list_eqb (pair_eqb str_eqb pv_eqb))) ss1 ss2 &&
  list_eqb (pair_eqb str_eqb pv_eqb) e1 e2 &&
  rooms_view_eqb r1 r2.

Definition mentions_sid (sid : str) (args : list pv) : bool := existsb (pv_eqb (PStr sid)) args.

Definition c12_step (c : cfg) (s : srv) (o : op) (obs : list eff) : bool :=
  match o with
  | EioMessage eio payload tbl =>
      if negb (existsb (str_eqb eio) (live s)) then true else
      let s' := fst (step c s o) in
      let mine := sid_name (fresh s) :: sids_of_eio (mg s) eio ++ sids_of_eio (mg s') eio in
      (* nothing is sent to another transport, unless a handler legitimately invoked for this
         client does it through its scripted actions *)
      (has_actions c || forallb (str_eqb eio) (out_eios obs)) &&
      (* every handler invocation is on behalf of this client *)
      forallb (fun ha => existsb (fun sid => mentions_sid sid (snd ha)) mine) (calls_of obs) &&
      (* callbacks fire only for ids issued to this client *)
      forallb (fun ca => existsb (fun sid => match aget str_eqb (callbacks (mg s)) sid with
                                             | Some slot => existsb (fun e => N.eqb (snd e) (fst ca)) (cb_entries slot)
                                             | None => false end) (sids_of_eio (mg s) eio)) (cbcalls_of obs) &&
      (* the other clients' state is untouched *)
      (has_actions c || others_unchanged eio s s') &&
      (* undecodable input never reaches a handler *)
      match classify c s eio payload tbl with
      | Some (Err _) => match calls_of obs with [] => true | _ => false end
      | _ => true
      end
  | _ => true
  end.

(* resource guards of the decoder: an attachment-count field longer than 10 characters or an
   id longer than 100 digits is rejected; what a frame adds to the state is bounded by its own size *)
Definition c12_eval (h : hcase) : nat :=
  bits (corr_ok h) (all_steps (c12_step (h_cfg h)) (h_cfg h) srv_init (h_ops h) (h_obs h)).
