(* C10 - case type, correspondence test and boolean property checker evaluated on what the
   implementation did (harness/props/c10.py prints one [c10case] per scenario). *)
From Coq Require Import List Bool Arith ZArith QArith Qabs Lia.
From VT Require Import Base.PyVal.
From VT Require Export Reconnect.Reconnect.
Import ListNotations.
Local Open Scope nat_scope.

(* what the harness reads off the real client at the end of a scenario *)
Record obs := mkObs {
  o_connected : bool; o_est : eio_state; o_nss : list ns; o_args : cargs; o_cns : list ns;
  o_rtask : option nat; o_aflag : bool; o_rcl : nat; o_live : list nat;
  o_cbs : list (ns * (nat * list (nat * nat))) }.     (* self.callbacks: ns -> (next id, [(id, callback)]) *)
Definition obs_of (st : state) : obs :=
  mkObs (connected st) (est st) (nss st) (args st) (cns st) (rtask st) (aflag st) (rcl st)
        (map t_id (tasks st)) (cbs st).

Inductive c10case :=
| Case (p : params) (evs : list event) (effs : list (list eff)) (fin : obs).

(* ---- equality of observations ---- *)
Definition est_eqb (a b : eio_state) : bool :=
  match a, b with EDisc, EDisc | EConn, EConn | EDisconnecting, EDisconnecting => true | _, _ => false end.
Definition reason_eqb (a b : reason) : bool :=
  match a, b with RClient, RClient | RServer, RServer | RTransport, RTransport => true | _, _ => false end.
Definition hname_eqb (a b : hname) : bool :=
  match a, b with
  | HConnect, HConnect | HDisconnect, HDisconnect | HConnectError, HConnectError | HFinal, HFinal => true
  | _, _ => false
  end.
Definition callres_eqb (a b : callres) : bool :=
  match a, b with
  | ROk, ROk | RConnectionError, RConnectionError | RValueError, RValueError | ROther, ROther => true
  | _, _ => false
  end.
Definition cargs_eqb (a b : cargs) : bool :=
  Nat.eqb (a_url a) (a_url b) && Nat.eqb (a_headers a) (a_headers b) && Nat.eqb (a_auth a) (a_auth b) &&
  Nat.eqb (a_transports a) (a_transports b) && Nat.eqb (a_path a) (a_path b).
(* the outcome carried by FTaskEnd is ghost (the harness cannot see which exit path was taken) *)
Definition eff_eqb (a b : eff) : bool :=
  match a, b with
  | FRandom, FRandom => true
  | FWait x, FWait y => Qeq_bool x y
  | FEioConnect u h t q, FEioConnect u' h' t' q' =>
      Nat.eqb u u' && Nat.eqb h h' && Nat.eqb t t' && Nat.eqb q q'
  | FSendConnect n x, FSendConnect n' x' => Nat.eqb n n' && Nat.eqb x x'
  | FSendDisconnect n, FSendDisconnect n' => Nat.eqb n n'
  | FEioDisconnect x, FEioDisconnect y => Bool.eqb x y
  | FHandler h n r, FHandler h' n' r' => hname_eqb h h' && Nat.eqb n n' && opt_eqb reason_eqb r r'
  | FSpawn i, FSpawn j => Nat.eqb i j
  | FTaskEnd i _, FTaskEnd j _ => Nat.eqb i j
  | FResult x, FResult y => callres_eqb x y
  | FEmit x, FEmit y => Bool.eqb x y
  | FSendEvent n i, FSendEvent n' i' => Nat.eqb n n' && Nat.eqb i i'
  | FCallback k, FCallback k' => Nat.eqb k k'
  | FLost, FLost => true
  | _, _ => false          (* FOther never equals anything, not even itself *)
  end.
Definition obs_eqb (a b : obs) : bool :=
  Bool.eqb (o_connected a) (o_connected b) && est_eqb (o_est a) (o_est b) &&
  list_eqb Nat.eqb (o_nss a) (o_nss b) && cargs_eqb (o_args a) (o_args b) &&
  list_eqb Nat.eqb (o_cns a) (o_cns b) && opt_eqb Nat.eqb (o_rtask a) (o_rtask b) &&
  Bool.eqb (o_aflag a) (o_aflag b) && Nat.eqb (o_rcl a) (o_rcl b) &&
  list_eqb Nat.eqb (o_live a) (o_live b) &&
  list_eqb (fun x y => Nat.eqb (fst x) (fst y) && Nat.eqb (fst (snd x)) (fst (snd y)) &&
                       list_eqb (fun u v => Nat.eqb (fst u) (fst v) && Nat.eqb (snd u) (snd v))
                                (snd (snd x)) (snd (snd y)))
           (o_cbs a) (o_cbs b).

(* correspondence: the model's run of the scenario equals the observation *)
Definition agree (p : params) (evs : list event) (effs : list (list eff)) (fin : obs) : bool :=
  let '(st, es) := run p evs in
  list_eqb (list_eqb eff_eqb) es effs && obs_eqb (obs_of st) fin.

(* ---- the property evaluated on an observation ---- *)
(* clause numbers: 2 delay, 3 attempts/stop at first success/handlers run again, 4 only accidental,
   5 abort, 6 single effort, 7 same connection parameters, 8 retry after every accidental loss,
   9 a (re)connection starts fresh: ack ids restart at 1, no callback of an earlier connection runs *)
Definition wait_ok (p : params) (k : nat) (w : Q) : bool :=
  Qle_bool (Qabs (w - ideal p k)) (Qabs (rfactor p)).

Record cst := mkC {
  c_live : list nat;      (* efforts started and not ended *)
  c_k : nat;              (* waits seen in the current effort *)
  c_att : nat;            (* transport connection attempts of the current effort *)
  c_args : cargs;         (* arguments of the last application connect() that reached the transport *)
  c_cns : list ns;
  c_bad : list nat;       (* clauses violated so far *)
  c_ids : list (ns * nat);          (* ack ids issued per namespace on the current connection *)
  c_pend : list nat;                (* callbacks registered on the current connection, not yet run *)
  c_ncb : nat }.                    (* emits with a callback that did not raise, so far (names the callbacks) *)
Definition flag (ok : bool) (clause : nat) (c : cst) : cst :=
  if ok then c else mkC (c_live c) (c_k c) (c_att c) (c_args c) (c_cns c) (clause :: c_bad c)
                        (c_ids c) (c_pend c) (c_ncb c).
Definition upd (c : cst) (lv : list nat) (k att : nat) : cst :=
  mkC lv k att (c_args c) (c_cns c) (c_bad c) (c_ids c) (c_pend c) (c_ncb c).
Definition upd_cb (c : cst) (ids : list (ns * nat)) (pend : list nat) : cst :=
  mkC (c_live c) (c_k c) (c_att c) (c_args c) (c_cns c) (c_bad c) ids pend (c_ncb c).
Definition issued (n : ns) (ids : list (ns * nat)) : nat :=
  List.length (filter (fun x => Nat.eqb (fst x) n) ids).
Definition nonempty {A} (l : list A) : bool := match l with [] => false | _ => true end.
Definition is_lost (e : eff) : bool := match e with FLost => true | _ => false end.
Definition is_eio_disc (e : eff) : bool := match e with FEioDisconnect _ => true | _ => false end.
Definition is_task_end (e : eff) : bool := match e with FTaskEnd _ _ => true | _ => false end.
Definition is_final (e : eff) : bool := match e with FHandler HFinal _ _ => true | _ => false end.
Definition is_hconnect (n : ns) (e : eff) : bool :=
  match e with FHandler HConnect m _ => Nat.eqb n m | _ => false end.
Definition attempts_left (p : params) (done : nat) : bool :=      (* may attempt number done+1 be made *)
  (attempts p <=? 0)%Z || (Z.of_nat (S done) <=? attempts p)%Z.

Definition chk_eff (p : params) (ev : event) (c : cst) (e : eff) : cst :=
  match e with
  | FSpawn id =>
      let c := flag (negb (nonempty (c_live c))) 6 c in
      let c := flag ((is_loss ev || is_race ev) && reconnection p) 4 c in
      upd c (c_live c ++ [id]) 0 0
  | FTaskEnd id _ => upd c (filter (fun j => negb (Nat.eqb id j)) (c_live c)) (c_k c) (c_att c)
  | FWait w =>
      let c := flag (wait_ok p (c_k c) w) 2 c in
      let c := flag (nonempty (c_live c)) 3 c in
      let c := flag (negb (is_abort_ev ev)) 5 c in
      upd c (c_live c) (S (c_k c)) (c_att c)
  | FLost => upd_cb c [] []             (* the connection is over: nothing of it may survive *)
  | FSendEvent n id =>
      (* the k-th id issued for n on this connection is k *)
      let c := flag (Nat.eqb id (S (issued n (c_ids c)))) 9 c in
      upd_cb c ((n, id) :: c_ids c) (c_pend c)
  | FEmit true =>
      mkC (c_live c) (c_k c) (c_att c) (c_args c) (c_cns c) (c_bad c) (c_ids c)
          (c_pend c ++ [c_ncb c]) (S (c_ncb c))
  | FCallback k =>
      let c := flag (existsb (Nat.eqb k) (c_pend c)) 9 c in
      upd_cb c (c_ids c) (filter (fun j => negb (Nat.eqb k j)) (c_pend c))
  | FEioConnect u h t q =>
      let c := upd_cb c [] [] in         (* a new transport connection is being made *)
      if is_connect_ev ev then c
      else if is_timeout ev then
        let c := flag (attempts_left p (c_att c)) 3 c in
        let c := flag (nonempty (c_live c)) 3 c in
        let a := c_args c in
        let c := flag (Nat.eqb u (a_url a) && Nat.eqb h (a_headers a) && Nat.eqb t (a_transports a) &&
                       Nat.eqb q (a_path a)) 7 c in
        upd c (c_live c) (c_k c) (S (c_att c))
      else flag (negb (is_abort_ev ev)) 5 (flag false 4 c)
  | FSendConnect n auth =>
      if is_timeout ev then flag (Nat.eqb auth (a_auth (c_args c)) && mem n (c_cns c)) 7 c else c
  | _ => c
  end.

Definition chk_event (p : params) (c : cst) (ev : event) (es : list eff) : cst :=
  let c := match ev with
           | Connect a l _ =>
               if existsb is_eio_connect es
               then mkC (c_live c) (c_k c) (c_att c) a l (c_bad c) (c_ids c) (c_pend c) (c_ncb c) else c
           | _ => c
           end in
  let live_before := c_live c in
  let c := fold_left (chk_eff p ev) es c in
  (* retry: an accidental loss with reconnection enabled leaves an effort in progress *)
  let c := flag (negb (reconnection p && existsb is_lost es) || nonempty (c_live c)) 8 c in
  (* abort: shutdown() outside a connection (no eio.disconnect) / SIGINT ends the effort *)
  let c := flag (negb (is_abort_ev ev && nonempty live_before && negb (existsb is_eio_disc es))
                 || negb (nonempty (c_live c))) 5 c in
  (* success: the effort ended without `__disconnect_final`: every connection namespace saw 'connect' *)
  let c := flag (negb (is_timeout ev && existsb is_task_end es && negb (existsb is_final es))
                 || forallb (fun n => existsb (is_hconnect n) es) (c_cns c)) 3 c in
  c.

Fixpoint chk_events (p : params) (c : cst) (evs : list event) (effs : list (list eff)) : cst :=
  match evs, effs with
  | ev :: evs', es :: effs' => chk_events p (chk_event p c ev es) evs' effs'
  | [], [] => c
  | _, _ => c          (* ragged observation: reported by [agree] *)
  end.

Definition c0 : cst := mkC [] 0 0 (mkArgs 0 0 0 0 0) [] [] [] [] 0.
Definition chk_c10 (p : params) (evs : list event) (effs : list (list eff)) (fin : obs) : list nat :=
  let c := chk_events p c0 evs effs in
  c_bad (flag (Nat.leb (List.length (o_live fin)) 1) 6 c).

Definition bit (l : list nat) (clause : nat) : nat :=
  if existsb (Nat.eqb clause) l then Nat.pow 2 clause else 0.
(* 0 fine; bit 1 (value 1): model and implementation disagree; bit 2 (value 2): the observation
   violates the property; values 4,8,...,512 name the violated clauses 2..9 *)
Definition c10_eval (c : c10case) : nat :=
  match c with
  | Case p evs effs fin =>
      let bad := chk_c10 p evs effs fin in
      (if agree p evs effs fin then 0 else 1) + (if nonempty bad then 2 else 0) +
      bit bad 2 + bit bad 3 + bit bad 4 + bit bad 5 + bit bad 6 + bit bad 7 + bit bad 8 + bit bad 9
  end.

(* for --replay: the model's run next to the observation *)
Definition c10_explain (c : c10case) :=
  match c with
  | Case p evs effs fin => (run p evs, effs, fin, chk_c10 p evs effs fin)
  end.
(* the model's own run judged by the checker (used to cross-check the theorems on every case) *)
Definition c10_model_bad (c : c10case) : list nat :=
  match c with
  | Case p evs _ _ => let '(st, es) := run p evs in chk_c10 p evs es (obs_of st)
  end.

(* ---- soundness of the elementary tests ---- *)
Lemma wait_ok_sound p k w :
  wait_ok p k w = true -> (Qabs (w - ideal p k) <= Qabs (rfactor p))%Q.
Proof. unfold wait_ok. intro H. apply Qle_bool_iff. exact H. Qed.

Lemma attempts_left_sound p done :
  (0 < attempts p)%Z -> attempts_left p done = true -> (Z.of_nat (S done) <= attempts p)%Z.
Proof.
  unfold attempts_left. intros Hpos H. apply orb_true_iff in H as [H|H].
  - apply Z.leb_le in H. lia.
  - apply Z.leb_le in H. exact H.
Qed.

Lemma eff_eqb_wait x y : eff_eqb (FWait x) (FWait y) = true -> (x == y)%Q.
Proof. simpl. apply Qeq_bool_iff. Qed.

Lemma flag_bad_mono ok n c k : In k (c_bad c) -> In k (c_bad (flag ok n c)).
Proof. unfold flag. destruct ok; simpl; auto. Qed.
