(* Model of src/socketio/base_manager.py (+ the bookkeeping parts of manager.py /
   async_manager.py).  State = the attributes the Python mutates: rooms,
   pending_disconnect, callbacks.  Definitions only. *)
From VT Require Export Base.PyVal.
Open Scope N_scope.

(* ---- insertion-ordered association lists (CPython dict order) ---- *)
Section Assoc.
  Context {K V : Type} (eqb : K -> K -> bool).
  Fixpoint aget (l : list (K * V)) (k : K) : option V :=
    match l with [] => None | (k', v) :: r => if eqb k' k then Some v else aget r k end.
  Fixpoint aset (l : list (K * V)) (k : K) (v : V) : list (K * V) :=
    match l with
    | [] => [(k, v)]
    | (k', v') :: r => if eqb k' k then (k', v) :: r else (k', v') :: aset r k v
    end.
  Fixpoint adel (l : list (K * V)) (k : K) : list (K * V) :=
    match l with [] => [] | (k', v) :: r => if eqb k' k then r else (k', v) :: adel r k end.
  Definition ahas (l : list (K * V)) (k : K) : bool :=
    match aget l k with Some _ => true | None => false end.
End Assoc.

(* room names: None (the namespace's "everybody" room) or any hashable scalar;
   dictionary key equality is Python == *)
Definition room_eqb (a b : pv) : bool := py_eq a b.

(* bidict sid -> eio_sid with the default duplication policy
   (key duplication overwrites, value duplication raises) *)
Definition bidict := list (str * str).
Definition bd_get (b : bidict) (sid : str) : option str := aget str_eqb b sid.
Fixpoint bd_inv (b : bidict) (eio : str) : option str :=
  match b with [] => None | (s, e) :: r => if str_eqb e eio then Some s else bd_inv r eio end.
Definition bd_put (b : bidict) (sid eio : str) : option bidict :=   (* None = ValueDuplicationError *)
  match bd_inv b eio with
  | Some s' => if str_eqb s' sid then Some b else None
  | None => Some (aset str_eqb b sid eio)
  end.

Definition roommap := list (pv * bidict).
Record cbslot := mkSlot { cb_counter : option N;          (* callbacks[sid][0]: the itertools.count; None once popped *)
                          cb_entries : list (N * N) }.    (* id -> callback reference *)
Record mgr := mkMgr {
  rooms : list (str * roommap);
  pending : list (str * list str);
  callbacks : list (str * cbslot)
}.
Definition mgr_init : mgr := mkMgr [] [] [].

Definition ns_rooms (m : mgr) (ns : str) : option roommap := aget str_eqb (rooms m) ns.
Definition room_of (m : mgr) (ns : str) (room : pv) : option bidict :=
  match ns_rooms m ns with Some rm => aget room_eqb rm room | None => None end.
Definition set_rooms (m : mgr) (r : list (str * roommap)) : mgr := mkMgr r (pending m) (callbacks m).

Definition get_namespaces (m : mgr) : list str := map fst (rooms m).

(* rooms[namespace][room][sid] = eio_sid, creating the levels as the code does *)
Definition put_member (m : mgr) (ns : str) (room : pv) (sid eio : str) : mgr * bool :=
  let rm := match ns_rooms m ns with Some rm => rm | None => [] end in
  let b := match aget room_eqb rm room with Some b => b | None => [] end in
  let created := set_rooms m (aset str_eqb (rooms m) ns (aset room_eqb rm room b)) in
  match bd_put b sid eio with
  | Some b' => (set_rooms m (aset str_eqb (rooms m) ns (aset room_eqb rm room b')), true)
  | None => (created, false)
  end.

(* BaseManager.connect with the generated sid supplied by the caller *)
Definition mgr_connect (m : mgr) (eio ns sid : str) : mgr * option str :=
  match put_member m ns PNone sid eio with
  | (m1, true) => let '(m2, _) := put_member m1 ns (PStr sid) sid eio in (m2, Some sid)
  | (m1, false) => (m1, None)
  end.

Definition is_pending (m : mgr) (sid ns : str) : bool :=
  match aget str_eqb (pending m) ns with Some l => existsb (str_eqb sid) l | None => false end.

(* is_connected(sid, ns); sid may be None in the caller: modelled by option *)
Definition is_connected (m : mgr) (sid : option str) (ns : str) : bool :=
  match sid with
  | None => false
  | Some s => if is_pending m s ns then false
              else match room_of m ns PNone with
                   | Some b => match bd_get b s with Some _ => true | None => false end
                   | None => false
                   end
  end.

Definition sid_from_eio (m : mgr) (eio ns : str) : option str :=
  match room_of m ns PNone with Some b => bd_inv b eio | None => None end.
Definition eio_from_sid (m : mgr) (sid ns : str) : option str :=
  match room_of m ns PNone with Some b => bd_get b sid | None => None end.

(* pre_disconnect: the append happens before the lookup that may raise KeyError *)
Definition pre_disconnect (m : mgr) (sid ns : str) : mgr * Res (option str) :=
  let l := match aget str_eqb (pending m) ns with Some l => l | None => [] end in
  let m' := mkMgr (rooms m) (aset str_eqb (pending m) ns (l ++ [sid])) (callbacks m) in
  match room_of m ns PNone with
  | Some b => (m', Ok (bd_get b sid))
  | None => (m', Err KeyError)
  end.

(* basic_leave_room *)
Definition leave_room (m : mgr) (sid ns : str) (room : pv) : mgr :=
  match ns_rooms m ns with
  | None => m
  | Some rm =>
      match aget room_eqb rm room with
      | None => m
      | Some b =>
          match bd_get b sid with
          | None => m
          | Some _ =>
              let b' := adel str_eqb b sid in
              let rm' := match b' with [] => adel room_eqb rm room | _ => aset room_eqb rm room b' end in
              match rm' with
              | [] => set_rooms m (adel str_eqb (rooms m) ns)
              | _ => set_rooms m (aset str_eqb (rooms m) ns rm')
              end
          end
      end
  end.

Fixpoint remove_first (l : list str) (x : str) : list str :=
  match l with [] => [] | y :: r => if str_eqb y x then r else y :: remove_first r x end.

(* basic_disconnect: the rooms are left only if the namespace table still exists; the callbacks
   and the to-be-disconnected mark of the client are released in any case *)
Definition disc_release (m1 : mgr) (sid ns : str) : mgr :=
  let m2 := mkMgr (rooms m1) (pending m1) (adel str_eqb (callbacks m1) sid) in
  if is_pending m2 sid ns then
    let l := match aget str_eqb (pending m2) ns with Some l => remove_first l sid | None => [] end in
    mkMgr (rooms m2) (match l with [] => adel str_eqb (pending m2) ns | _ => aset str_eqb (pending m2) ns l end)
          (callbacks m2)
  else m2.
Definition mgr_disconnect (m : mgr) (sid ns : str) : mgr :=
  match ns_rooms m ns with
  | None => disc_release m sid ns
  | Some rm =>
      let names := map fst (filter (fun rb => match bd_get (snd rb) sid with Some _ => true | None => false end) rm) in
      let m1 := fold_left (fun m r => leave_room m sid ns r) names m in
      disc_release m1 sid ns
  end.

(* basic_enter_room(sid, ns, room) with eio_sid=None *)
Definition enter_room (m : mgr) (sid ns : str) (room : pv) : mgr * Res unit :=
  match ns_rooms m ns with
  | None => (m, Err ValueError)
  | Some rm =>
      let b := match aget room_eqb rm room with Some b => b | None => [] end in
      let created := set_rooms m (aset str_eqb (rooms m) ns (aset room_eqb rm room b)) in
      match (match aget room_eqb rm PNone with Some b0 => bd_get b0 sid | None => None end) with
      | None => (m, Err KeyError)           (* rooms[ns][None][sid], before the room is created *)
      | Some eio =>
          match bd_put b sid eio with
          | Some b' => (set_rooms m (aset str_eqb (rooms m) ns (aset room_eqb rm room b')), Ok tt)
          | None => (created, Err OtherError)   (* ValueDuplicationError: unreachable under the invariant *)
          end
      end
  end.

(* get_participants: room is a scalar name or a list / tuple of names *)
Definition merge_members (acc b : bidict) : bidict :=
  fold_left (fun a se => aset str_eqb a (fst se) (snd se)) b acc.
Definition participants (m : mgr) (ns : str) (room : pv) : Res bidict :=
  let look r := match room_of m ns r with Some b => b | None => [] end in
  match room with
  | PList (r0 :: rs) | PTuple (r0 :: rs) => Ok (fold_left (fun a r => merge_members a (look r)) rs (look r0))
  | PList [] | PTuple [] => Err IndexError
  | PBytes _ | PDict _ | PObj _ => Err OtherError     (* outside the modelled domain *)
  | r => Ok (look r)
  end.

Definition close_room (m : mgr) (room : pv) (ns : str) : mgr :=
  match participants m ns room with
  | Ok b => fold_left (fun m se => leave_room m (fst se) ns room) b m
  | Err _ => m
  end.

Definition get_rooms (m : mgr) (sid ns : str) : list pv :=
  match ns_rooms m ns with
  | None => []
  | Some rm => map fst (filter (fun rb => negb (pv_eqb (fst rb) PNone) &&
                                          match bd_get (snd rb) sid with Some _ => true | None => false end) rm)
  end.

(* _generate_ack_id *)
Definition generate_ack_id (m : mgr) (sid : str) (cb : N) : mgr * Res N :=
  let slot := match aget str_eqb (callbacks m) sid with Some s => s | None => mkSlot (Some 1) [] end in
  let m0 := mkMgr (rooms m) (pending m) (aset str_eqb (callbacks m) sid slot) in
  match cb_counter slot with
  | None => (m0, Err KeyError)
  | Some n =>
      let slot' := mkSlot (Some (n + 1)) (aset N.eqb (cb_entries slot) n cb) in
      (mkMgr (rooms m) (pending m) (aset str_eqb (callbacks m) sid slot'), Ok n)
  end.

(* trigger_callback(sid, id, data): which callback is invoked, if any.  Key 0 of the table
   holds the id generator, which is not callable and therefore never a callback. *)
Inductive cbtarget := CbNone | CbRef (n : N).
Definition trigger_callback (m : mgr) (sid : option str) (id : option Z) : mgr * cbtarget :=
  match sid, id with
  | Some s, Some i =>
      match aget str_eqb (callbacks m) s with
      | None => (m, CbNone)
      | Some slot =>
          if (i <=? 0)%Z then (m, CbNone)
          else match aget N.eqb (cb_entries slot) (Z.to_N i) with
               | Some cb => (mkMgr (rooms m) (pending m)
                                   (aset str_eqb (callbacks m) s
                                         (mkSlot (cb_counter slot) (adel N.eqb (cb_entries slot) (Z.to_N i)))),
                             CbRef cb)
               | None => (m, CbNone)
               end
      end
  | _, _ => (m, CbNone)
  end.
