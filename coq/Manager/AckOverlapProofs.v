(* C06, overlapping call()s / emits with a callback: proofs about Manager/AckOverlap.v.
   1. the model `ostep` (manager table + event waits) satisfies the specification `sstep` on EVERY
      schedule (simulation `Sim` between the manager's callback table and the abstract table);
   2. a timeout never touches the table (model and specification);
   3. consequences of the specification for every accepted observation sequence (invariant `SInv`):
      a call() acknowledged while it waits returns the shaped values of ITS acknowledgement, the
      callback of an emit runs with the arguments of ITS acknowledgement, a second acknowledgement of the
      same (client, id) has no effect, a timed-out call() raises TimeoutError. *)
From VT Require Import Manager.Manager Manager.ManagerProofs Check.C06Check Manager.AckProofs Manager.AckOverlap.
From Coq Require Import Lia ZifyBool.
Open Scope N_scope.

(* ================================================================== *)
(* 0. equality of effects                                              *)
(* ================================================================== *)
Lemma opt_Z_eqb_eq (a b : option Z) : opt_eqb Z.eqb a b = true <-> a = b.
Proof.
  destruct a, b; cbn [opt_eqb]; split; intro H; try discriminate; try reflexivity.
  - apply Z.eqb_eq in H. congruence.
  - injection H as ->. apply Z.eqb_refl.
Qed.
Lemma res_pv_eqb_eq (a b : Res pv) : res_eqb pv_eqb a b = true <-> a = b.
Proof.
  destruct a, b; cbn [res_eqb]; split; intro H; try discriminate.
  - apply pv_eqb_eq in H. congruence.
  - injection H as ->. apply pv_eqb_refl.
  - apply exn_eqb_eq in H. congruence.
  - injection H as ->. apply exn_eqb_eq. reflexivity.
Qed.
Lemma oeff_eqb_eq a b : oeff_eqb a b = true <-> a = b.
Proof.
  destruct a, b; cbn [oeff_eqb]; split; intro H; try discriminate; try reflexivity.
  - apply andb_true_iff in H as [H1 H2]. apply str_eqb_eq in H1. apply opt_Z_eqb_eq in H2. congruence.
  - injection H as -> ->. apply andb_true_iff. split; [apply str_eqb_refl|apply opt_Z_eqb_eq; reflexivity].
  - apply andb_true_iff in H as [H1 H2]. apply N.eqb_eq in H1. apply (list_eqb_eq pv_eqb pv_eqb_eq) in H2. congruence.
  - injection H as -> ->. apply andb_true_iff. split; [apply N.eqb_refl|apply (list_eqb_eq pv_eqb pv_eqb_eq); reflexivity].
  - apply andb_true_iff in H as [H1 H2]. apply N.eqb_eq in H1. apply res_pv_eqb_eq in H2. congruence.
  - injection H as -> ->. apply andb_true_iff. split; [apply N.eqb_refl|apply res_pv_eqb_eq; reflexivity].
Qed.
Lemma fx_eqb_eq a b : fx_eqb a b = true <-> a = b.
Proof. apply (list_eqb_eq oeff_eqb oeff_eqb_eq). Qed.
Lemma fx_eqb_refl a : fx_eqb a a = true.
Proof. apply fx_eqb_eq. reflexivity. Qed.

(* ================================================================== *)
(* 1. the abstract table                                               *)
(* ================================================================== *)
Lemma key_test_true s i sid id : str_eqb s sid && N.eqb i id = true <-> s = sid /\ i = id.
Proof. rewrite andb_true_iff, str_eqb_eq, N.eqb_eq. reflexivity. Qed.
Lemma key_test_false s i sid id : (s, i) <> (sid, id) -> str_eqb s sid && N.eqb i id = false.
Proof.
  intro H. destruct (str_eqb s sid && N.eqb i id) eqn:E; [|reflexivity].
  apply key_test_true in E as [-> ->]. congruence.
Qed.
Lemma sfind_cons s i k l sid id :
  sfind ((s, i, k) :: l) sid id = if str_eqb s sid && N.eqb i id then Some k else sfind l sid id.
Proof. reflexivity. Qed.
Lemma sfind_sdel_same l sid id : sfind (sdel l sid id) sid id = None.
Proof.
  induction l as [|[[s i] k] r IH]; [reflexivity|]. unfold sdel in *. cbn [filter fst snd].
  destruct (str_eqb s sid && N.eqb i id) eqn:E; cbn [negb]; [exact IH|].
  rewrite sfind_cons, E. exact IH.
Qed.
Lemma sfind_sdel_other l sid id sid' id' :
  (sid', id') <> (sid, id) -> sfind (sdel l sid id) sid' id' = sfind l sid' id'.
Proof.
  intro Hne. induction l as [|[[s i] k] r IH]; [reflexivity|]. unfold sdel in *. cbn [filter fst snd].
  destruct (str_eqb s sid && N.eqb i id) eqn:E; cbn [negb].
  - apply key_test_true in E as [-> ->]. rewrite sfind_cons, key_test_false by congruence. exact IH.
  - rewrite !sfind_cons, IH. reflexivity.
Qed.
Lemma sfind_sdrop_same l sid id : sfind (sdrop l sid) sid id = None.
Proof.
  induction l as [|[[s i] k] r IH]; [reflexivity|]. unfold sdrop in *. cbn [filter fst snd].
  destruct (str_eqb s sid) eqn:E; cbn [negb]; [exact IH|].
  rewrite sfind_cons, E. cbn [andb]. exact IH.
Qed.
Lemma sfind_sdrop_other l sid sid' id : sid' <> sid -> sfind (sdrop l sid) sid' id = sfind l sid' id.
Proof.
  intro Hne. induction l as [|[[s i] k] r IH]; [reflexivity|]. unfold sdrop in *. cbn [filter fst snd].
  destruct (str_eqb s sid) eqn:E; cbn [negb].
  - apply str_eqb_eq in E as ->. rewrite sfind_cons, str_neq by congruence. cbn [andb]. exact IH.
  - rewrite !sfind_cons, IH. reflexivity.
Qed.
Lemma memb_drop x s l : memb_str x (drop_str s l) = negb (str_eqb x s) && memb_str x l.
Proof.
  unfold memb_str, drop_str. induction l as [|y r IH]; cbn [filter existsb]; [rewrite andb_false_r; reflexivity|].
  destruct (str_eqb y s) eqn:E; cbn [negb existsb]; rewrite IH.
  - apply str_eqb_eq in E as ->. destruct (str_eqb x s); reflexivity.
  - destruct (str_eqb x y) eqn:E2; [|reflexivity].
    apply str_eqb_eq in E2 as ->. rewrite E. reflexivity.
Qed.

(* tasks are a finite map keyed by N *)
Lemma tget_aset (l : list (N * otask)) k k' v :
  aget N.eqb (aset N.eqb l k v) k' = if N.eqb k k' then Some v else aget N.eqb l k'.
Proof. apply (e_aget_aset N.eqb N_eqb_eq'). Qed.

(* ================================================================== *)
(* 2. the manager's table under disconnect                             *)
(* ================================================================== *)
Lemma AckInv_drop m sid : AckInv m -> AckInv (drop_callbacks m sid).
Proof.
  intros [Hn Hs]. split; cbn [drop_callbacks callbacks]; [apply nodup_adel; exact Hn|apply vals_adel; exact Hs].
Qed.
Lemma outstanding_drop m sid sid' oid :
  AckInv m ->
  outstanding (drop_callbacks m sid) (Some sid') oid = if str_eqb sid sid' then None else outstanding m (Some sid') oid.
Proof.
  intros [Hn _]. unfold outstanding, drop_callbacks. cbn [callbacks]. destruct oid as [i|].
  - rewrite (e_aget_adel str_eqb str_eqb_eq) by exact Hn.
    destruct (str_eqb sid sid'); [destruct (i <=? 0)%Z; reflexivity|reflexivity].
  - destruct (str_eqb sid sid'); reflexivity.
Qed.

(* ================================================================== *)
(* 3. the model satisfies the specification on every schedule           *)
(* ================================================================== *)
Definition Sim (o : ostate) (s : sstate) : Prop :=
  AckInv (o_mg o) /\ o_tasks o = s_tasks s /\ o_live o = s_live s /\
  forall sid id, outstanding (o_mg o) (Some sid) (Some (Z.of_N id)) = sfind (s_out s) sid id.

Lemma Sim_init clients : Sim (oinit clients) (sinit clients).
Proof.
  split; [apply AckInv_init|]. split; [reflexivity|]. split; [reflexivity|].
  intros sid id. unfold outstanding. cbn. destruct (Z.of_N id <=? 0)%Z; reflexivity.
Qed.

Lemma expect_refl fx (s' : sstate) : (if fx_eqb fx fx then Some s' else None) = Some s'.
Proof. rewrite fx_eqb_refl. reflexivity. Qed.

(* after trigger_callback fired for (sid, id): the abstract table without that entry *)
Lemma Sim_fired m tasks live out sid id m' k tasks' :
  Sim (mkO m tasks live) (mkS out tasks live) ->
  trigger_callback m (Some sid) (Some (Z.of_N id)) = (m', CbRef k) ->
  Sim (mkO m' tasks' live) (mkS (sdel out sid id) tasks' live).
Proof.
  intros (HI & _ & _ & Heq) T. cbn [o_mg s_out] in *.
  destruct (C06_right_client_thm _ _ _ _ _ HI T) as (_ & _ & _ & _ & Hoth & Hid & _).
  destruct (C06_at_most_once_thm _ _ _ _ _ HI T) as (Hnone & _).
  split; [|split; [reflexivity|split; [reflexivity|]]]; cbn [o_mg s_out].
  - pose proof (trigger_callback_inv m (Some sid) (Some (Z.of_N id)) HI) as H. rewrite T in H. exact H.
  - intros sid0 id0. destruct (str_eqb sid0 sid) eqn:Es.
    + apply str_eqb_eq in Es as ->. destruct (N.eqb id0 id) eqn:Ei.
      * apply N.eqb_eq in Ei as ->. rewrite sfind_sdel_same. exact Hnone.
      * assert (Hne : id0 <> id) by (intro; subst; rewrite N.eqb_refl in Ei; discriminate).
        rewrite sfind_sdel_other by congruence. rewrite Hid by lia. apply Heq.
    + assert (Hne : sid0 <> sid) by (intro; subst; rewrite str_eqb_refl in Es; discriminate).
      rewrite sfind_sdel_other by congruence. rewrite Hoth by exact Hne. apply Heq.
Qed.

Theorem sim_step o s e :
  Sim o s -> exists s', sstep s e (snd (ostep o e)) = Some s' /\ Sim (fst (ostep o e)) s'.
Proof.
  destruct o as [m tasks live], s as [out tasks0 live0].
  intros HS. pose proof HS as (HI & Ht & Hl & Heq). cbn [o_mg o_tasks o_live s_out s_tasks s_live] in *. subst tasks0 live0.
  destruct e as [k kind sid|k|sid id args|k|sid]; cbn [ostep sstep].
  - (* EStart *)
    destruct (ahas N.eqb tasks k || negb (memb_str sid live)) eqn:Eg.
    { cbn [fst snd]. rewrite expect_refl. eauto. }
    destruct (generate_ack_id m sid k) as [m' r] eqn:G.
    destruct (C06_unique_thm _ _ _ _ _ HI G) as (id & -> & _ & Hge & Hnew & Hset & _ & Hoid & Hosid & _ & _).
    cbn [fst snd]. rewrite str_eqb_refl. replace (0 <? Z.of_N id)%Z with true by lia. cbn [andb].
    rewrite N2Z.id. rewrite <- Heq, Hnew. eexists. split; [reflexivity|].
    split; [|split; [reflexivity|split; [reflexivity|]]]; cbn [o_mg s_out].
    + pose proof (generate_ack_id_inv m sid k HI) as H. rewrite G in H. exact H.
    + intros sid0 id0. rewrite sfind_cons. destruct (str_eqb sid sid0) eqn:Es; cbn [andb].
      * apply str_eqb_eq in Es as <-. destruct (N.eqb id id0) eqn:Ei.
        -- apply N.eqb_eq in Ei as <-. exact Hset.
        -- assert (Hne : id <> id0) by (intro; subst; rewrite N.eqb_refl in Ei; discriminate).
           rewrite Hoid by lia. apply Heq.
      * assert (Hne : sid0 <> sid) by (intro; subst; rewrite str_eqb_refl in Es; discriminate).
        rewrite <- Heq. unfold outstanding. rewrite (Hosid _ Hne). reflexivity.
  - (* ESent *)
    destruct (aget N.eqb tasks k) as [t|]; [|cbn [fst snd]; rewrite expect_refl; eauto].
    destruct (sent_task k t) as [[t' fx]|]; cbn [fst snd]; rewrite expect_refl; [|eauto].
    eexists. split; [reflexivity|]. split; [exact HI|]. repeat split. exact Heq.
  - (* EAck *)
    destruct (memb_str sid live) eqn:El.
    + pose proof (C06_fires_iff_thm m (Some sid) (Some (Z.of_N id))) as Hf. rewrite Heq in Hf.
      destruct (trigger_callback m (Some sid) (Some (Z.of_N id))) as [m' c] eqn:T. cbn [snd] in Hf.
      destruct (sfind out sid id) as [k|] eqn:Ef.
      * subst c. destruct (aget N.eqb tasks k) as [t|].
        -- destruct (acked_task k t args) as [t' fx]. cbn [fst snd]. rewrite expect_refl.
           eexists. split; [reflexivity|]. eapply Sim_fired; eauto.
        -- cbn [fst snd]. rewrite expect_refl. eexists. split; [reflexivity|]. eapply Sim_fired; eauto.
      * subst c. cbn [fst snd]. rewrite expect_refl. eexists. split; [reflexivity|].
        rewrite C06_unknown_ignored_thm in T by (rewrite Heq; exact Ef). injection T as <-. exact HS.
    + cbn [trigger_callback fst snd]. rewrite expect_refl. eauto.
  - (* ETimeout *)
    destruct (aget N.eqb tasks k) as [t|]; [|cbn [fst snd]; rewrite expect_refl; eauto].
    destruct (timeout_task k t) as [[t' fx]|]; cbn [fst snd]; rewrite expect_refl; [|eauto].
    eexists. split; [reflexivity|]. split; [exact HI|]. repeat split. exact Heq.
  - (* EDisc *)
    destruct (memb_str sid live) eqn:El; cbn [fst snd]; rewrite expect_refl; [|eauto].
    eexists. split; [reflexivity|]. split; [apply AckInv_drop; exact HI|]. split; [reflexivity|]. split; [reflexivity|].
    cbn [o_mg s_out]. intros sid0 id0. rewrite outstanding_drop by exact HI.
    destruct (str_eqb sid sid0) eqn:Es.
    + apply str_eqb_eq in Es as <-. rewrite sfind_sdrop_same. reflexivity.
    + assert (Hne : sid0 <> sid) by (intro; subst; rewrite str_eqb_refl in Es; discriminate).
      rewrite sfind_sdrop_other by exact Hne. apply Heq.
Qed.

Theorem model_meets_spec_from o s evs i : Sim o s -> srun s evs (snd (orun o evs)) i = 0%nat.
Proof.
  revert o s i. induction evs as [|e r IH]; intros o s i HS; [reflexivity|].
  cbn [orun]. destruct (ostep o e) as [o1 fx] eqn:E1. destruct (orun o1 r) as [o2 fxs] eqn:E2. cbn [snd srun].
  destruct (sim_step o s e HS) as (s' & Hs & HS'). rewrite E1 in Hs, HS'. cbn [fst snd] in Hs, HS'.
  rewrite Hs. specialize (IH o1 s' (S i) HS'). rewrite E2 in IH. exact IH.
Qed.
Theorem C06_overlap_model_meets_spec_thm clients evs :
  srun (sinit clients) evs (snd (orun (oinit clients) evs)) 0 = 0%nat.
Proof. apply model_meets_spec_from, Sim_init. Qed.

(* ================================================================== *)
(* 4. a timeout never touches the table                                 *)
(* ================================================================== *)
Theorem C06_overlap_timeout_keeps_table_thm :
  (forall st k, o_mg (fst (ostep st (ETimeout k))) = o_mg st) /\
  (forall s k obs s', sstep s (ETimeout k) obs = Some s' -> s_out s' = s_out s /\ s_live s' = s_live s).
Proof.
  split.
  - intros [m tasks live] k. cbn [ostep]. destruct (aget N.eqb tasks k) as [t|]; [|reflexivity].
    destruct (timeout_task k t) as [[t' fx]|]; reflexivity.
  - intros [out tasks live] k obs s'. cbn [sstep]. destruct (aget N.eqb tasks k) as [t|].
    + destruct (timeout_task k t) as [[t' fx]|].
      * destruct (fx_eqb fx obs); [|discriminate]. intro H; injection H as <-. split; reflexivity.
      * destruct (fx_eqb [XBad] obs); [|discriminate]. intro H; injection H as <-. split; reflexivity.
    + destruct (fx_eqb [XBad] obs); [|discriminate]. intro H; injection H as <-. split; reflexivity.
Qed.

(* ================================================================== *)
(* 5. what the specification forces on every accepted observation       *)
(* ================================================================== *)
Definition SInv (s : sstate) : Prop :=
  (forall k t, aget N.eqb (s_tasks s) k = Some t -> t_got t = None -> memb_str (t_sid t) (s_live s) = true ->
               sfind (s_out s) (t_sid t) (t_id t) = Some k) /\
  (forall sid id k, sfind (s_out s) sid id = Some k ->
               exists t, aget N.eqb (s_tasks s) k = Some t /\ t_sid t = sid /\ t_id t = id /\ t_got t = None).

Lemma SInv_init clients : SInv (sinit clients).
Proof. split; cbn; intros; discriminate. Qed.

Lemma sent_task_same k t t' fx : sent_task k t = Some (t', fx) ->
  t_sid t' = t_sid t /\ t_id t' = t_id t /\ t_got t' = t_got t.
Proof.
  unfold sent_task. destruct (t_phase t); try discriminate.
  destruct (t_kind t); destruct (t_got t) eqn:Eg; intro H; injection H as <- _; repeat split; exact Eg.
Qed.
Lemma timeout_task_same k t t' fx : timeout_task k t = Some (t', fx) ->
  t_sid t' = t_sid t /\ t_id t' = t_id t /\ t_got t' = t_got t.
Proof.
  unfold timeout_task. destruct (t_kind t); try discriminate. destruct (t_phase t); try discriminate.
  intro H; injection H as <- _; repeat split.
Qed.
Lemma acked_task_got k t args : t_got (fst (acked_task k t args)) = Some args.
Proof. unfold acked_task. destruct (t_kind t); [destruct (t_phase t)|]; reflexivity. Qed.

(* replacing operation k by one with the same client, id and `got` keeps the invariant *)
Lemma SInv_same_task out tasks live k t t' :
  SInv (mkS out tasks live) -> aget N.eqb tasks k = Some t ->
  t_sid t' = t_sid t -> t_id t' = t_id t -> t_got t' = t_got t ->
  SInv (mkS out (aset N.eqb tasks k t') live).
Proof.
  intros [Ha Hb] Hk E1 E2 E3. cbn [s_out s_tasks s_live] in *. split; cbn [s_out s_tasks s_live].
  - intros k0 t0. rewrite tget_aset. destruct (N.eqb k k0) eqn:E.
    + apply N.eqb_eq in E as <-. intro H; injection H as <-. rewrite E1, E2, E3. apply Ha. exact Hk.
    + apply Ha.
  - intros sid id k0 Hf. destruct (Hb _ _ _ Hf) as (t0 & Hg & H1 & H2 & H3). rewrite tget_aset.
    destruct (N.eqb k k0) eqn:E.
    + apply N.eqb_eq in E as <-. rewrite Hk in Hg. injection Hg as <-. exists t'. repeat split; congruence.
    + exists t0. repeat split; assumption.
Qed.

Lemma expect_inv fx obs (s1 s' : sstate) : (if fx_eqb fx obs then Some s1 else None) = Some s' -> obs = fx /\ s' = s1.
Proof.
  destruct (fx_eqb fx obs) eqn:E; [|discriminate]. apply fx_eqb_eq in E. intro H; injection H as <-. auto.
Qed.

Theorem sstep_inv s e obs s' : SInv s -> sstep s e obs = Some s' -> SInv s'.
Proof.
  destruct s as [out tasks live]. intros HS. pose proof HS as [Ha Hb]. cbn [s_out s_tasks s_live] in Ha, Hb.
  destruct e as [k kind sid|k|sid id args|k|sid]; cbn [sstep].
  - (* EStart *)
    destruct (ahas N.eqb tasks k || negb (memb_str sid live)) eqn:Eg.
    { intro H. apply expect_inv in H as [_ ->]. exact HS. }
    destruct obs as [|[sid' [i|]| | |] [|? ?]]; try discriminate.
    destruct (str_eqb sid' sid && (0 <? i)%Z && match sfind out sid (Z.to_N i) with None => true | Some _ => false end) eqn:Ec;
      [|discriminate].
    intro H; injection H as <-.
    apply andb_true_iff in Ec as [Ec Hnone]. destruct (sfind out sid (Z.to_N i)) eqn:Ef; [discriminate|].
    apply orb_false_iff in Eg as [Ek _]. unfold ahas in Ek.
    destruct (aget N.eqb tasks k) eqn:Egk; [discriminate|].
    split; cbn [s_out s_tasks s_live].
    + intros k0 t0. rewrite tget_aset. destruct (N.eqb k k0) eqn:E.
      * apply N.eqb_eq in E as <-. intro H; injection H as <-. cbn [t_sid t_id]. intros _ _.
        rewrite sfind_cons, str_eqb_refl, N.eqb_refl. reflexivity.
      * intros Hg Hgot Hlive. specialize (Ha _ _ Hg Hgot Hlive). rewrite sfind_cons.
        rewrite key_test_false; [exact Ha|]. intro Heq. injection Heq as E1 E2. rewrite <- E1, <- E2 in Ha. congruence.
    + intros sid0 id0 k0. rewrite sfind_cons. destruct (str_eqb sid sid0 && N.eqb (Z.to_N i) id0) eqn:E.
      * apply key_test_true in E as [<- <-]. intro H; injection H as <-. rewrite tget_aset, N.eqb_refl.
        eexists. split; [reflexivity|]. repeat split.
      * intro Hf. destruct (Hb _ _ _ Hf) as (t0 & Hg & H1 & H2 & H3). rewrite tget_aset.
        destruct (N.eqb k k0) eqn:E2; [apply N.eqb_eq in E2 as <-; congruence|].
        exists t0. repeat split; assumption.
  - (* ESent *)
    destruct (aget N.eqb tasks k) as [t|] eqn:Hk; [|intro H; apply expect_inv in H as [_ ->]; exact HS].
    destruct (sent_task k t) as [[t' fx]|] eqn:Est; intro H; apply expect_inv in H as [_ ->]; [|exact HS].
    destruct (sent_task_same _ _ _ _ Est) as (E1 & E2 & E3). eapply SInv_same_task; eauto.
  - (* EAck *)
    destruct (if memb_str sid live then sfind out sid id else None) as [k|] eqn:Ef;
      [|intro H; apply expect_inv in H as [_ ->]; exact HS].
    destruct (memb_str sid live) eqn:El; [|discriminate].
    destruct (Hb _ _ _ Ef) as (t & Hk & Hs & Hi & Hg). rewrite Hk.
    destruct (acked_task k t args) as [t' fx] eqn:Eat. intro H; apply expect_inv in H as [_ ->].
    assert (Hgot : t_got t' = Some args) by (pose proof (acked_task_got k t args) as X; rewrite Eat in X; exact X).
    split; cbn [s_out s_tasks s_live].
    + intros k0 t0. rewrite tget_aset. destruct (N.eqb k k0) eqn:E.
      * intro H; injection H as <-. congruence.
      * intros Hg0 Hgot0 Hlive0. specialize (Ha _ _ Hg0 Hgot0 Hlive0).
        rewrite sfind_sdel_other; [exact Ha|]. intro Heq. injection Heq as E1 E2. rewrite E1, E2, Ef in Ha.
        injection Ha as ->. rewrite N.eqb_refl in E. discriminate.
    + intros sid0 id0 k0 Hf.
      assert (Hne : (sid0, id0) <> (sid, id)).
      { intro Heq. injection Heq as -> ->. rewrite sfind_sdel_same in Hf. discriminate. }
      rewrite sfind_sdel_other in Hf by exact Hne.
      destruct (Hb _ _ _ Hf) as (t0 & Hg0 & H1 & H2 & H3). rewrite tget_aset.
      destruct (N.eqb k k0) eqn:E.
      * apply N.eqb_eq in E as <-. rewrite Hk in Hg0. injection Hg0 as <-. congruence.
      * exists t0. repeat split; assumption.
  - (* ETimeout *)
    destruct (aget N.eqb tasks k) as [t|] eqn:Hk; [|intro H; apply expect_inv in H as [_ ->]; exact HS].
    destruct (timeout_task k t) as [[t' fx]|] eqn:Est; intro H; apply expect_inv in H as [_ ->]; [|exact HS].
    destruct (timeout_task_same _ _ _ _ Est) as (E1 & E2 & E3). eapply SInv_same_task; eauto.
  - (* EDisc *)
    destruct (memb_str sid live) eqn:El; intro H; apply expect_inv in H as [_ ->]; [|exact HS].
    split; cbn [s_out s_tasks s_live].
    + intros k0 t0 Hg0 Hgot0. rewrite memb_drop. intro Hl. apply andb_true_iff in Hl as [Hn Hl].
      rewrite sfind_sdrop_other; [apply Ha; assumption|].
      intro Heq. rewrite Heq, str_eqb_refl in Hn. discriminate.
    + intros sid0 id0 k0 Hf. destruct (str_eqb sid0 sid) eqn:Es.
      * apply str_eqb_eq in Es as ->. rewrite sfind_sdrop_same in Hf. discriminate.
      * rewrite sfind_sdrop_other in Hf by (intro; subst; rewrite str_eqb_refl in Es; discriminate).
        apply Hb. exact Hf.
Qed.

Theorem SInv_reach_from s evs obs s' : SInv s -> sfinal s evs obs = Some s' -> SInv s'.
Proof.
  revert s obs. induction evs as [|e r IH]; intros s [|o os] HS; cbn [sfinal]; try discriminate.
  - intro H; injection H as <-. exact HS.
  - destruct (sstep s e o) as [s1|] eqn:E; [|discriminate]. apply IH. eapply sstep_inv; eauto.
Qed.
Theorem SInv_reach clients evs obs s : sfinal (sinit clients) evs obs = Some s -> SInv s.
Proof. apply SInv_reach_from, SInv_init. Qed.

(* In every state reached by an accepted observation sequence: *)
Section Accepted.
  Variables (clients : list str) (evs : list oev) (obs : list (list oeff)) (s : sstate).
  Hypothesis Hreach : sfinal (sinit clients) evs obs = Some s.

  (* a call() that waits, whose client is connected, and that has not been acknowledged yet:
     the ACK of its id from its client makes it return the shaped values of THAT acknowledgement *)
  Theorem C06_overlap_call_returns_its_ack_thm k t args o s' :
    aget N.eqb (s_tasks s) k = Some t -> t_kind t = KCall -> t_phase t = PWaiting -> t_got t = None ->
    memb_str (t_sid t) (s_live s) = true ->
    sstep s (EAck (t_sid t) (t_id t) args) o = Some s' ->
    o = [XDone k (Ok (call_result args))].
  Proof.
    intros Hk Hkind Hph Hgot Hlive. destruct (SInv_reach _ _ _ _ Hreach) as [Ha _].
    specialize (Ha _ _ Hk Hgot Hlive). destruct s as [out tasks live]. cbn [s_out s_tasks s_live] in *.
    cbn [sstep]. rewrite Hlive, Ha, Hk. unfold acked_task. rewrite Hkind, Hph.
    intro H. apply expect_inv in H as [-> _]. reflexivity.
  Qed.

  (* the same while its send is still in progress: nothing now, and the call() returns those values as
     soon as the send completes *)
  Theorem C06_overlap_call_ack_during_send_thm k t args o s' o2 s2 :
    aget N.eqb (s_tasks s) k = Some t -> t_kind t = KCall -> t_phase t = PSending -> t_got t = None ->
    memb_str (t_sid t) (s_live s) = true ->
    sstep s (EAck (t_sid t) (t_id t) args) o = Some s' ->
    sstep s' (ESent k) o2 = Some s2 ->
    o = [] /\ o2 = [XDone k (Ok (call_result args))].
  Proof.
    intros Hk Hkind Hph Hgot Hlive. destruct (SInv_reach _ _ _ _ Hreach) as [Ha _].
    specialize (Ha _ _ Hk Hgot Hlive). destruct s as [out tasks live]. cbn [s_out s_tasks s_live] in *.
    cbn [sstep]. rewrite Hlive, Ha, Hk. unfold acked_task. rewrite Hkind, Hph.
    intro H. apply expect_inv in H as [-> ->]. cbn [sstep]. rewrite tget_aset, N.eqb_refl.
    unfold sent_task, set_got. cbn [t_phase t_kind t_got]. rewrite Hph, Hkind.
    intro H. apply expect_inv in H as [-> _]. split; reflexivity.
  Qed.

  (* the callback of an emit runs with the arguments of ITS acknowledgement *)
  Theorem C06_overlap_emit_callback_its_ack_thm k t args o s' :
    aget N.eqb (s_tasks s) k = Some t -> t_kind t = KEmit -> t_got t = None ->
    memb_str (t_sid t) (s_live s) = true ->
    sstep s (EAck (t_sid t) (t_id t) args) o = Some s' ->
    o = [XCb k args].
  Proof.
    intros Hk Hkind Hgot Hlive. destruct (SInv_reach _ _ _ _ Hreach) as [Ha _].
    specialize (Ha _ _ Hk Hgot Hlive). destruct s as [out tasks live]. cbn [s_out s_tasks s_live] in *.
    cbn [sstep]. rewrite Hlive, Ha, Hk. unfold acked_task. rewrite Hkind.
    intro H. apply expect_inv in H as [-> _]. reflexivity.
  Qed.


  (* an acknowledgement has an effect only if its (client, id) belongs to an unacknowledged operation of
     that very client, and then the effect concerns that operation only *)
  Theorem C06_overlap_only_own_thm sid id args o s' :
    sstep s (EAck sid id args) o = Some s' -> o <> [] ->
    exists k t, aget N.eqb (s_tasks s) k = Some t /\ t_sid t = sid /\ t_id t = id /\ t_got t = None /\
                (o = [XCb k args] \/ o = [XDone k (Ok (call_result args))]).
  Proof.
    destruct (SInv_reach _ _ _ _ Hreach) as [_ Hb]. destruct s as [out tasks live]. cbn [s_out s_tasks s_live] in *.
    cbn [sstep]. destruct (if memb_str sid live then sfind out sid id else None) as [k|] eqn:Ef.
    - destruct (memb_str sid live); [|discriminate]. destruct (Hb _ _ _ Ef) as (t & Hk & H1 & H2 & H3). rewrite Hk.
      destruct (acked_task k t args) as [t' fx] eqn:Eat. intro H. apply expect_inv in H as [-> _]. intro Hne.
      exists k, t. repeat split; try assumption. unfold acked_task in Eat.
      destruct (t_kind t); [destruct (t_phase t)|]; injection Eat as _ <-; auto; congruence.
    - intro H. apply expect_inv in H as [-> _]. congruence.
  Qed.

End Accepted.

(* whatever an acknowledgement did, the same (client, id) acknowledged again does nothing *)
Theorem C06_overlap_at_most_once_thm (s : sstate) sid id args o s' args2 o2 s2 :
  sstep s (EAck sid id args) o = Some s' -> sstep s' (EAck sid id args2) o2 = Some s2 -> o2 = [].
Proof.
  destruct s as [out tasks live]. cbn [sstep].
  destruct (if memb_str sid live then sfind out sid id else None) as [k|] eqn:Ef.
  - destruct (memb_str sid live) eqn:El; [|discriminate].
    assert (Hnext : forall tasks', sstep (mkS (sdel out sid id) tasks' live) (EAck sid id args2) o2 = Some s2 -> o2 = []).
    { intros tasks'. cbn [sstep]. rewrite El, sfind_sdel_same. intro H. apply expect_inv in H as [-> _]. reflexivity. }
    destruct (aget N.eqb tasks k) as [t|].
    + destruct (acked_task k t args) as [t' fx]. intro H. apply expect_inv in H as [_ ->]. apply Hnext.
    + intro H. apply expect_inv in H as [_ ->]. apply Hnext.
  - intro H. apply expect_inv in H as [_ ->]. cbn [sstep]. rewrite Ef.
    intro H. apply expect_inv in H as [-> _]. reflexivity.
Qed.

(* a call() whose wait runs out of time raises TimeoutError, and nothing else happens *)
Theorem C06_overlap_timeout_raises_thm (s : sstate) k t o s' :
  aget N.eqb (s_tasks s) k = Some t -> t_kind t = KCall -> t_phase t = PWaiting ->
  sstep s (ETimeout k) o = Some s' ->
  o = [XDone k (Err TimeoutError)] /\ s_out s' = s_out s.
Proof.
  intros Hk Hkind Hph. destruct s as [out tasks live]. cbn [s_out s_tasks s_live] in *. cbn [sstep].
  rewrite Hk. unfold timeout_task. rewrite Hkind, Hph. intro H. apply expect_inv in H as [-> ->]. split; reflexivity.
Qed.

(* ================================================================== *)
(* 6. examples (non-vacuity)                                           *)
(* ================================================================== *)
(* two call()s to one client; the first times out, the second is acknowledged afterwards *)
Definition x_evs : list oev :=
  [EStart 0 KCall (s2l "S0"); EStart 1 KCall (s2l "S0"); ESent 0; ESent 1; ETimeout 0;
   EAck (s2l "S0") 2 [PStr (s2l "pong")]; EAck (s2l "S0") 1 [PInt 7]; EAck (s2l "S0") 2 [PInt 8]].
Example C06_overlap_example :
  snd (orun (oinit [s2l "S0"]) x_evs) =
  [[XOut (s2l "S0") (Some 1%Z)]; [XOut (s2l "S0") (Some 2%Z)]; []; []; [XDone 0 (Err TimeoutError)];
   [XDone 1 (Ok (PStr (s2l "pong")))]; []; []] /\
  dump_cbs (o_mg (fst (orun (oinit [s2l "S0"]) x_evs))) = [(s2l "S0", Some 3, [])].
Proof. vm_compute. split; reflexivity. Qed.
(* the state after the timeout satisfies the hypotheses of C06_overlap_call_returns_its_ack_thm for operation 1 *)
Example C06_overlap_hyp_example :
  exists s t, sfinal (sinit [s2l "S0"]) (firstn 5 x_evs) (firstn 5 (snd (orun (oinit [s2l "S0"]) x_evs))) = Some s /\
    aget N.eqb (s_tasks s) 1 = Some t /\ t_kind t = KCall /\ t_phase t = PWaiting /\ t_got t = None /\
    memb_str (t_sid t) (s_live s) = true /\ t_id t = 2.
Proof. vm_compute. eexists. eexists. repeat split. Qed.
(* an observation in which the timeout of operation 0 made the ACK of operation 1 ineffective is rejected *)
Example C06_overlap_rejects_lost_ack :
  srun (sinit [s2l "S0"]) (firstn 6 x_evs)
       [[XOut (s2l "S0") (Some 1%Z)]; [XOut (s2l "S0") (Some 2%Z)]; []; []; [XDone 0 (Err TimeoutError)]; []] 0 = 6%nat.
Proof. vm_compute. reflexivity. Qed.
