(* C06, overlapping server-initiated acknowledged operations (definitions only).

   Several call()s / emits with a callback are in flight at once, to the same or to different
   clients.  One operation k goes through
       EStart k   _generate_ack_id + the EVENT frame handed to the transport (the send is in progress)
       ESent k    the send completes: an emit returns; a call() starts waiting for its event
       ETimeout k the wait of call() k runs out of time
   and the clients produce
       EAck sid id args   an ACK packet with that id arrives from that client
       EDisc sid          the client leaves its namespace.
   A schedule is any list of these events, in any order.

   `ostep` is the MODEL of the code: the table is the manager's (`generate_ack_id`,
   `trigger_callback` of Manager.v, the `del callbacks[sid]` of basic_disconnect); call() is the
   event wait of server.py:256-269 (`t_got` = callback_args, phase PWaiting = blocked in wait()).
   `sstep` is the SPECIFICATION: an abstract table "client, id -> operation" (register / ack /
   disconnect; a timeout does not touch it) that judges an observation, never looking at the
   manager.  AckOverlapProofs.v shows that the model satisfies the specification on every schedule. *)
From VT Require Import Manager.Manager Check.C06Check Manager.AckProofs.
Open Scope N_scope.

Inductive okind := KCall | KEmit.
Inductive ophase := PSending | PWaiting | PDone.
Record otask := mkTask { t_kind : okind; t_sid : str; t_id : N; t_phase : ophase;
                         t_got : option (list pv) }.     (* the arguments its callback was invoked with *)

Inductive oev :=
| EStart (k : N) (kind : okind) (sid : str)
| ESent (k : N)
| EAck (sid : str) (id : N) (args : list pv)
| ETimeout (k : N)
| EDisc (sid : str).

Inductive oeff :=
| XOut (sid : str) (id : option Z)     (* an EVENT frame for that client carrying that id *)
| XCb (k : N) (args : list pv)         (* the application callback of emit k ran with these arguments *)
| XDone (k : N) (r : Res pv)           (* operation k returned / raised *)
| XBad.                                (* the event is not enabled in this state *)

Definition okind_eqb (a b : okind) : bool :=
  match a, b with KCall, KCall | KEmit, KEmit => true | _, _ => false end.
Definition oeff_eqb (a b : oeff) : bool :=
  match a, b with
  | XOut s i, XOut s' i' => str_eqb s s' && opt_eqb Z.eqb i i'
  | XCb k a, XCb k' a' => N.eqb k k' && list_eqb pv_eqb a a'
  | XDone k r, XDone k' r' => N.eqb k k' && res_eqb pv_eqb r r'
  | XBad, XBad => true
  | _, _ => false
  end.

Definition memb_str (s : str) (l : list str) : bool := existsb (str_eqb s) l.
Definition drop_str (s : str) (l : list str) : list str := filter (fun x => negb (str_eqb x s)) l.

Definition set_phase (t : otask) (p : ophase) : otask := mkTask (t_kind t) (t_sid t) (t_id t) p (t_got t).
Definition set_got (t : otask) (a : list pv) : otask := mkTask (t_kind t) (t_sid t) (t_id t) (t_phase t) (Some a).

(* ---- what is common to model and specification: the life of one operation ---- *)
(* the send of operation k completes *)
Definition sent_task (k : N) (t : otask) : option (otask * list oeff) :=
  match t_phase t with
  | PSending =>
      match t_kind t, t_got t with
      | KEmit, _ => Some (set_phase t PDone, [XDone k (Ok PNone)])
      | KCall, Some args => Some (set_phase t PDone, [XDone k (Ok (call_result args))])
      | KCall, None => Some (set_phase t PWaiting, [])
      end
  | _ => None
  end.
(* the callback of operation k is invoked with args *)
Definition acked_task (k : N) (t : otask) (args : list pv) : otask * list oeff :=
  match t_kind t with
  | KEmit => (set_got t args, [XCb k args])
  | KCall => match t_phase t with
             | PWaiting => (set_phase (set_got t args) PDone, [XDone k (Ok (call_result args))])
             | _ => (set_got t args, [])       (* still sending: remembered; timed out: nobody listens *)
             end
  end.
Definition timeout_task (k : N) (t : otask) : option (otask * list oeff) :=
  match t_kind t, t_phase t with
  | KCall, PWaiting => Some (set_phase t PDone, [XDone k (Err TimeoutError)])
  | _, _ => None
  end.

(* ---- the model ---- *)
Record ostate := mkO { o_mg : mgr; o_tasks : list (N * otask); o_live : list str }.
Definition oinit (clients : list str) : ostate := mkO mgr_init [] clients.
Definition drop_callbacks (m : mgr) (sid : str) : mgr :=
  mkMgr (rooms m) (pending m) (adel str_eqb (callbacks m) sid).

Definition ostep (st : ostate) (e : oev) : ostate * list oeff :=
  let '(mkO m tasks live) := st in
  match e with
  | EStart k kind sid =>
      if ahas N.eqb tasks k || negb (memb_str sid live) then (st, [XBad]) else
      match generate_ack_id m sid k with
      | (m', Ok id) => (mkO m' (aset N.eqb tasks k (mkTask kind sid id PSending None)) live,
                        [XOut sid (Some (Z.of_N id))])
      | (m', Err _) => (mkO m' tasks live, [XBad])
      end
  | ESent k =>
      match aget N.eqb tasks k with
      | Some t => match sent_task k t with
                  | Some (t', fx) => (mkO m (aset N.eqb tasks k t') live, fx)
                  | None => (st, [XBad]) end
      | None => (st, [XBad])
      end
  | EAck sid id args =>
      match trigger_callback m (if memb_str sid live then Some sid else None) (Some (Z.of_N id)) with
      | (m', CbRef k) =>
          match aget N.eqb tasks k with
          | Some t => let '(t', fx) := acked_task k t args in (mkO m' (aset N.eqb tasks k t') live, fx)
          | None => (mkO m' tasks live, [XBad])
          end
      | (m', CbNone) => (mkO m' tasks live, [])
      end
  | ETimeout k =>
      match aget N.eqb tasks k with
      | Some t => match timeout_task k t with
                  | Some (t', fx) => (mkO m (aset N.eqb tasks k t') live, fx)
                  | None => (st, [XBad]) end
      | None => (st, [XBad])
      end
  | EDisc sid =>
      if memb_str sid live then (mkO (drop_callbacks m sid) tasks (drop_str sid live), [])
      else (st, [XBad])
  end.

Fixpoint orun (st : ostate) (evs : list oev) : ostate * list (list oeff) :=
  match evs with
  | [] => (st, [])
  | e :: r => let '(st1, fx) := ostep st e in
              let '(st2, fxs) := orun st1 r in (st2, fx :: fxs)
  end.

(* the part of the manager the implementation is compared on: per client, the counter and the ids *)
Definition cb_dump := list (str * option N * list N).
Definition dump_cbs (m : mgr) : cb_dump :=
  map (fun x => (fst x, cb_counter (snd x), map fst (cb_entries (snd x)))) (callbacks m).
Definition left_of (tasks : list (N * otask)) : list N :=
  map fst (filter (fun x => match t_phase (snd x) with PDone => false | _ => true end) tasks).

(* ---- the specification ---- *)
Definition stable := list (str * N * N).           (* client, id, operation *)
Fixpoint sfind (l : stable) (sid : str) (id : N) : option N :=
  match l with
  | [] => None
  | (s, i, k) :: r => if str_eqb s sid && N.eqb i id then Some k else sfind r sid id
  end.
Definition sdel (l : stable) (sid : str) (id : N) : stable :=
  filter (fun x => negb (str_eqb (fst (fst x)) sid && N.eqb (snd (fst x)) id)) l.
Definition sdrop (l : stable) (sid : str) : stable :=
  filter (fun x => negb (str_eqb (fst (fst x)) sid)) l.

Record sstate := mkS { s_out : stable; s_tasks : list (N * otask); s_live : list str }.
Definition sinit (clients : list str) : sstate := mkS [] [] clients.
Definition fx_eqb (a b : list oeff) : bool := list_eqb oeff_eqb a b.

(* None = the observation violates the property *)
Definition sstep (st : sstate) (e : oev) (obs : list oeff) : option sstate :=
  let '(mkS out tasks live) := st in
  let expect (fx : list oeff) (st' : sstate) := if fx_eqb fx obs then Some st' else None in
  match e with
  | EStart k kind sid =>
      if ahas N.eqb tasks k || negb (memb_str sid live) then expect [XBad] st else
      (* exactly one EVENT frame, for that client, with a positive id that is not outstanding for it *)
      match obs with
      | [XOut sid' (Some i)] =>
          if str_eqb sid' sid && (0 <? i)%Z &&
             match sfind out sid (Z.to_N i) with None => true | Some _ => false end
          then Some (mkS ((sid, Z.to_N i, k) :: out)
                         (aset N.eqb tasks k (mkTask kind sid (Z.to_N i) PSending None)) live)
          else None
      | _ => None
      end
  | ESent k =>
      match aget N.eqb tasks k with
      | Some t => match sent_task k t with
                  | Some (t', fx) => expect fx (mkS out (aset N.eqb tasks k t') live)
                  | None => expect [XBad] st end
      | None => expect [XBad] st
      end
  | EAck sid id args =>
      match (if memb_str sid live then sfind out sid id else None) with
      | Some k =>
          (* outstanding for exactly that client: its callback runs now, once, with these arguments *)
          match aget N.eqb tasks k with
          | Some t => let '(t', fx) := acked_task k t args in
                      expect fx (mkS (sdel out sid id) (aset N.eqb tasks k t') live)
          | None => expect [XBad] (mkS (sdel out sid id) tasks live)   (* dead: every entry has its operation (SInv) *)
          end
      | None => expect [] st           (* unknown, used, foreign, never issued: nothing happens *)
      end
  | ETimeout k =>
      match aget N.eqb tasks k with
      | Some t => match timeout_task k t with
                  | Some (t', fx) => expect fx (mkS out (aset N.eqb tasks k t') live)   (* the table is not touched *)
                  | None => expect [XBad] st end
      | None => expect [XBad] st
      end
  | EDisc sid =>
      if memb_str sid live then expect [] (mkS (sdrop out sid) tasks (drop_str sid live))
      else expect [XBad] st
  end.

(* index (from 1) of the first event whose observation violates the specification; 0 = none *)
Fixpoint srun (st : sstate) (evs : list oev) (obs : list (list oeff)) (i : nat) : nat :=
  match evs, obs with
  | [], [] => 0%nat
  | e :: r, o :: os => match sstep st e o with
                       | Some st' => srun st' r os (S i)
                       | None => S i end
  | _, _ => S i
  end.

(* the specification state after an accepted run *)
Fixpoint sfinal (st : sstate) (evs : list oev) (obs : list (list oeff)) : option sstate :=
  match evs, obs with
  | [], [] => Some st
  | e :: r, o :: os => match sstep st e o with Some st' => sfinal st' r os | None => None end
  | _, _ => None
  end.
