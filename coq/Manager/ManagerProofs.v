(* Proofs about the manager model (Manager.v): association-list algebra, the room
   well-formedness invariant WF, its preservation by every manager operation, and the
   membership ("mem") equations of every operation, from which the frame lemmas of C03 are
   derived.  Nothing here changes the model. *)
From VT Require Import Manager.Manager.
From Coq Require Import Lia ZifyBool Permutation.
Open Scope N_scope.

(* ================================================================== *)
(* 1. insertion-ordered association lists                              *)
(* ================================================================== *)

Definition agetd {K V} (eqb : K -> K -> bool) (d : V) (l : list (K * V)) (k : K) : V :=
  match aget eqb l k with Some v => v | None => d end.

(* delete-when-empty update, the pattern of basic_leave_room *)
Definition acol {K W} (eqb : K -> K -> bool) (l : list (K * list W)) (k : K) (v : list W) :=
  match v with [] => adel eqb l k | _ => aset eqb l k v end.

Section AssocDom.
  (* [eqb] decides equality on the domain [P] only (Python == on room names) *)
  Context {K V : Type} (eqb : K -> K -> bool) (P : K -> Prop).
  Hypothesis eqb_spec : forall x y, P x -> P y -> (eqb x y = true <-> x = y).
  Notation keys l := (map fst l).
  Notation vals l := (map snd l).
  Definition keysP (l : list (K * V)) := Forall P (keys l).

  Lemma dom_refl x : P x -> eqb x x = true.
  Proof. intro H. apply eqb_spec; auto. Qed.
  Lemma dom_neq x y : P x -> P y -> x <> y -> eqb x y = false.
  Proof.
    intros Hx Hy N. destruct (eqb x y) eqn:E; [|reflexivity].
    apply eqb_spec in E; auto. contradiction.
  Qed.

  (* --- facts that need no property of eqb --- *)
  Lemma aget_some_in (l : list (K * V)) k v :
    aget eqb l k = Some v -> exists k', In (k', v) l /\ eqb k' k = true.
  Proof.
    induction l as [|[k0 v0] r IH]; cbn [aget]; [discriminate|].
    destruct (eqb k0 k) eqn:E; intro H.
    - inversion H; subst. exists k0. split; [left; reflexivity|exact E].
    - destruct (IH H) as (k' & Hi & He). exists k'. split; [right; exact Hi|exact He].
  Qed.
  Lemma in_aset (l : list (K * V)) k v x : In x (aset eqb l k v) -> In x l \/ snd x = v.
  Proof.
    induction l as [|[k0 v0] r IH]; cbn [aset].
    - intros [H|[]]. subst. right; reflexivity.
    - destruct (eqb k0 k).
      + intros [H|H]; [subst; right; reflexivity|left; right; exact H].
      + intros [H|H]; [left; left; exact H|]. destruct (IH H); [left; right; assumption|right; assumption].
  Qed.
  Lemma in_adel (l : list (K * V)) k x : In x (adel eqb l k) -> In x l.
  Proof.
    induction l as [|[k0 v0] r IH]; cbn [adel]; [intros []|].
    destruct (eqb k0 k); intro H; [right; exact H|].
    destruct H as [H|H]; [left; exact H|right; exact (IH H)].
  Qed.
  Lemma keys_aset_incl (l : list (K * V)) k v k' :
    In k' (keys (aset eqb l k v)) -> k' = k \/ In k' (keys l).
  Proof.
    induction l as [|[k0 v0] r IH]; cbn [aset map fst].
    - intros [H|[]]. left; symmetry; exact H.
    - destruct (eqb k0 k); cbn [map fst].
      + intro H. right. exact H.
      + intros [H|H]; [right; left; exact H|]. destruct (IH H); [left; assumption|right; right; assumption].
  Qed.
  Lemma keys_aset_old (l : list (K * V)) k v k' : In k' (keys l) -> In k' (keys (aset eqb l k v)).
  Proof.
    induction l as [|[k0 v0] r IH]; cbn [aset map fst]; [intros []|].
    destruct (eqb k0 k); cbn [map fst]; intros [H|H]; [left; exact H|right; exact H|left; exact H|right; auto].
  Qed.
  Lemma keys_adel_incl (l : list (K * V)) k k' : In k' (keys (adel eqb l k)) -> In k' (keys l).
  Proof.
    induction l as [|[k0 v0] r IH]; cbn [adel map fst]; [intros []|].
    destruct (eqb k0 k); cbn [map fst]; intro H; [right; exact H|].
    destruct H as [H|H]; [left; exact H|right; exact (IH H)].
  Qed.
  Lemma vals_aset (Q : V -> Prop) (l : list (K * V)) k v :
    Forall Q (vals l) -> Q v -> Forall Q (vals (aset eqb l k v)).
  Proof.
    intros H Hv. apply Forall_forall. intros y Hy. apply in_map_iff in Hy as (x & <- & Hx).
    apply in_aset in Hx as [Hx|Hx]; [|rewrite Hx; exact Hv].
    rewrite Forall_forall in H. apply H. apply in_map. exact Hx.
  Qed.
  Lemma vals_adel (Q : V -> Prop) (l : list (K * V)) k :
    Forall Q (vals l) -> Forall Q (vals (adel eqb l k)).
  Proof.
    intros H. apply Forall_forall. intros y Hy. apply in_map_iff in Hy as (x & <- & Hx).
    apply in_adel in Hx. rewrite Forall_forall in H. apply H. apply in_map. exact Hx.
  Qed.
  Lemma vals_aget (Q : V -> Prop) (l : list (K * V)) k v :
    Forall Q (vals l) -> aget eqb l k = Some v -> Q v.
  Proof.
    intros H E. apply aget_some_in in E as (k' & Hi & _). rewrite Forall_forall in H.
    apply H. change v with (snd (k', v)). apply in_map. exact Hi.
  Qed.
  Lemma vals_agetd (Q : V -> Prop) d (l : list (K * V)) k :
    Forall Q (vals l) -> Q d -> Q (agetd eqb d l k).
  Proof.
    intros H Hd. unfold agetd. destruct (aget eqb l k) eqn:E; [eapply vals_aget; eauto|exact Hd].
  Qed.
  Lemma nodup_adel (l : list (K * V)) k : NoDup (keys l) -> NoDup (keys (adel eqb l k)).
  Proof.
    induction l as [|[k0 v0] r IH]; cbn [adel map fst]; [auto|].
    intro H. inversion H as [|? ? Hn Hr]; subst.
    destruct (eqb k0 k); cbn [map fst]; [exact Hr|].
    constructor; [|exact (IH Hr)]. intro Hi. apply Hn. eapply keys_adel_incl; exact Hi.
  Qed.
  Lemma keysP_adel (l : list (K * V)) k : keysP l -> keysP (adel eqb l k).
  Proof.
    unfold keysP. intro H. apply Forall_forall. intros x Hx. apply keys_adel_incl in Hx.
    rewrite Forall_forall in H. auto.
  Qed.
  Lemma keysP_aset (l : list (K * V)) k v : keysP l -> P k -> keysP (aset eqb l k v).
  Proof.
    unfold keysP. intros H Hk. apply Forall_forall. intros x Hx.
    apply keys_aset_incl in Hx as [->|Hx]; [exact Hk|]. rewrite Forall_forall in H. auto.
  Qed.
  Lemma adel_notin (l : list (K * V)) k : aget eqb l k = None -> adel eqb l k = l.
  Proof.
    induction l as [|[k0 v0] r IH]; cbn [aget adel]; [reflexivity|].
    destruct (eqb k0 k); [discriminate|]. intro H. rewrite (IH H). reflexivity.
  Qed.

  (* --- facts on the domain --- *)
  Lemma aget_none_notin (l : list (K * V)) k :
    P k -> keysP l -> (aget eqb l k = None <-> ~ In k (keys l)).
  Proof.
    intros Hk. induction l as [|[k0 v0] r IH]; cbn [aget map fst]; intro Hl.
    - split; auto.
    - inversion Hl as [|? ? H0 Hr]; subst. cbn [fst] in H0.
      destruct (eqb k0 k) eqn:E.
      + apply eqb_spec in E; auto. split; [discriminate|]. intro N. exfalso. apply N. left; exact E.
      + rewrite (IH Hr). split.
        * intros N [H|H]; [|auto]. subst. rewrite dom_refl in E; [discriminate|auto].
        * intros N H. apply N. right; exact H.
  Qed.
  Lemma aget_in (l : list (K * V)) k v :
    P k -> keysP l -> NoDup (keys l) -> (aget eqb l k = Some v <-> In (k, v) l).
  Proof.
    intros Hk. induction l as [|[k0 v0] r IH]; cbn [aget map fst]; intros Hl Hn.
    - split; [discriminate|intros []].
    - inversion Hl as [|? ? H0 Hr]; subst. cbn [fst] in H0.
      inversion Hn as [|? ? Hni Hnr]; subst.
      destruct (eqb k0 k) eqn:E.
      + apply eqb_spec in E; auto. subst k0. split.
        * intro H. inversion H; subst. left; reflexivity.
        * intros [H|H]; [inversion H; reflexivity|].
          exfalso. apply Hni. change k with (fst (k, v)). apply in_map. exact H.
      + rewrite (IH Hr Hnr). split; [intro H; right; exact H|].
        intros [H|H]; [|exact H]. inversion H; subst. rewrite dom_refl in E; [discriminate|auto].
  Qed.
  Lemma aget_aset (l : list (K * V)) k k' v :
    P k -> P k' -> keysP l ->
    aget eqb (aset eqb l k v) k' = if eqb k k' then Some v else aget eqb l k'.
  Proof.
    intros Hk Hk'. induction l as [|[k0 v0] r IH]; cbn [aget aset]; intro Hl.
    - reflexivity.
    - inversion Hl as [|? ? H0 Hr]; subst. cbn [fst] in H0.
      destruct (eqb k0 k) eqn:E; cbn [aget].
      + apply eqb_spec in E; auto. subst k0. destruct (eqb k k'); reflexivity.
      + rewrite (IH Hr). destruct (eqb k0 k') eqn:E'; [|reflexivity].
        apply eqb_spec in E'; auto. subst k0.
        destruct (eqb k k') eqn:E2; [|reflexivity].
        apply eqb_spec in E2; auto. subst. rewrite dom_refl in E; [discriminate|auto].
  Qed.
  Lemma aget_adel (l : list (K * V)) k k' :
    P k -> P k' -> keysP l -> NoDup (keys l) ->
    aget eqb (adel eqb l k) k' = if eqb k k' then None else aget eqb l k'.
  Proof.
    intros Hk Hk'. induction l as [|[k0 v0] r IH]; cbn [aget adel map fst]; intros Hl Hn.
    - destruct (eqb k k'); reflexivity.
    - inversion Hl as [|? ? H0 Hr]; subst. cbn [fst] in H0.
      inversion Hn as [|? ? Hni Hnr]; subst.
      destruct (eqb k0 k) eqn:E; cbn [aget].
      + apply eqb_spec in E; auto. subst k0. destruct (eqb k k') eqn:E2; [|reflexivity].
        apply eqb_spec in E2; auto. subst k'. apply aget_none_notin; auto.
      + rewrite (IH Hr Hnr). destruct (eqb k0 k') eqn:E'; [|reflexivity].
        apply eqb_spec in E'; auto. subst k0.
        rewrite (dom_neq k k'); auto. intro; subst. rewrite dom_refl in E; [discriminate|auto].
  Qed.
  Lemma nodup_aset (l : list (K * V)) k v :
    P k -> keysP l -> NoDup (keys l) -> NoDup (keys (aset eqb l k v)).
  Proof.
    intros Hk. induction l as [|[k0 v0] r IH]; cbn [aset map fst]; intros Hl Hn.
    - constructor; [intros []|constructor].
    - inversion Hl as [|? ? H0 Hr]; subst. cbn [fst] in H0.
      inversion Hn as [|? ? Hni Hnr]; subst.
      destruct (eqb k0 k) eqn:E; cbn [map fst]; [exact Hn|].
      constructor; [|exact (IH Hr Hnr)]. intro Hi.
      apply keys_aset_incl in Hi as [->|Hi]; [|auto]. rewrite dom_refl in E; [discriminate|auto].
  Qed.
  Lemma agetd_aset d (l : list (K * V)) k k' v :
    P k -> P k' -> keysP l ->
    agetd eqb d (aset eqb l k v) k' = if eqb k k' then v else agetd eqb d l k'.
  Proof. intros. unfold agetd. rewrite aget_aset by assumption. destruct (eqb k k'); reflexivity. Qed.
  Lemma agetd_adel d (l : list (K * V)) k k' :
    P k -> P k' -> keysP l -> NoDup (keys l) ->
    agetd eqb d (adel eqb l k) k' = if eqb k k' then d else agetd eqb d l k'.
  Proof. intros. unfold agetd. rewrite aget_adel by assumption. destruct (eqb k k'); reflexivity. Qed.
  Lemma aget_self_key (l : list (K * V)) k v :
    keysP l -> NoDup (keys l) -> aget eqb l k = Some v ->
    exists k', P k' /\ In (k', v) l /\ aget eqb l k' = Some v.
  Proof.
    intros Hl Hn E. apply aget_some_in in E as (k' & Hi & _).
    assert (Hk' : P k').
    { unfold keysP in Hl. rewrite Forall_forall in Hl. apply Hl.
      change k' with (fst (k', v)). apply in_map. exact Hi. }
    exists k'. split; [exact Hk'|]. split; [exact Hi|]. apply aget_in; auto.
  Qed.
End AssocDom.

Section AssocCol.
  Context {K W : Type} (eqb : K -> K -> bool) (P : K -> Prop).
  Hypothesis eqb_spec : forall x y, P x -> P y -> (eqb x y = true <-> x = y).
  Notation keys l := (map fst l).
  Notation vals l := (map snd l).
  Lemma agetd_acol (l : list (K * list W)) k k' v :
    P k -> P k' -> keysP P l -> NoDup (keys l) ->
    agetd eqb [] (acol eqb l k v) k' = if eqb k k' then v else agetd eqb [] l k'.
  Proof.
    intros. unfold acol. destruct v.
    - apply (agetd_adel eqb P); assumption.
    - apply (agetd_aset eqb P); assumption.
  Qed.
  Lemma nodup_acol (l : list (K * list W)) k v :
    P k -> keysP P l -> NoDup (keys l) -> NoDup (keys (acol eqb l k v)).
  Proof.
    intros. unfold acol. destruct v; [apply nodup_adel; assumption|apply (nodup_aset eqb P); assumption].
  Qed.
  Lemma keysP_acol (l : list (K * list W)) k v : keysP P l -> P k -> keysP P (acol eqb l k v).
  Proof. intros. unfold acol. destruct v; [apply keysP_adel; assumption|apply keysP_aset; assumption]. Qed.
  Lemma vals_acol (Q : list W -> Prop) (l : list (K * list W)) k v :
    Forall Q (vals l) -> Q v -> Forall Q (vals (acol eqb l k v)).
  Proof. intros. unfold acol. destruct v; [apply vals_adel; assumption|apply vals_aset; assumption]. Qed.
End AssocCol.

(* the everywhere-defined domain, for keys with a decidable Leibniz equality *)
Definition anyP {K : Type} (k : K) : Prop := True.
Lemma keys_anyP {K V} (l : list (K * V)) : keysP anyP l.
Proof. unfold keysP. apply Forall_forall. intros; exact I. Qed.

Section AssocEq.
  Context {K V : Type} (eqb : K -> K -> bool).
  Hypothesis eqb_eq : forall x y, eqb x y = true <-> x = y.
  Notation keys l := (map fst l).
  Let spec : forall x y : K, anyP x -> anyP y -> (eqb x y = true <-> x = y) := fun x y _ _ => eqb_eq x y.
  Lemma eq_refl_b x : eqb x x = true. Proof. apply eqb_eq; reflexivity. Qed.
  Lemma eq_neq_b x y : x <> y -> eqb x y = false.
  Proof. intro N. destruct (eqb x y) eqn:E; [apply eqb_eq in E; contradiction|reflexivity]. Qed.
  Lemma e_aget_none_notin (l : list (K * V)) k : aget eqb l k = None <-> ~ In k (keys l).
  Proof. apply (aget_none_notin eqb anyP spec); [exact I|apply keys_anyP]. Qed.
  Lemma e_aget_in (l : list (K * V)) k v : NoDup (keys l) -> (aget eqb l k = Some v <-> In (k, v) l).
  Proof. apply (aget_in eqb anyP spec); [exact I|apply keys_anyP]. Qed.
  Lemma e_aget_aset (l : list (K * V)) k k' v :
    aget eqb (aset eqb l k v) k' = if eqb k k' then Some v else aget eqb l k'.
  Proof. apply (aget_aset eqb anyP spec); [exact I|exact I|apply keys_anyP]. Qed.
  Lemma e_aget_adel (l : list (K * V)) k k' :
    NoDup (keys l) -> aget eqb (adel eqb l k) k' = if eqb k k' then None else aget eqb l k'.
  Proof. apply (aget_adel eqb anyP spec); [exact I|exact I|apply keys_anyP]. Qed.
  Lemma e_nodup_aset (l : list (K * V)) k v : NoDup (keys l) -> NoDup (keys (aset eqb l k v)).
  Proof. apply (nodup_aset eqb anyP spec); [exact I|apply keys_anyP]. Qed.
  Lemma e_agetd_aset d (l : list (K * V)) k k' v :
    agetd eqb d (aset eqb l k v) k' = if eqb k k' then v else agetd eqb d l k'.
  Proof. apply (agetd_aset eqb anyP spec); [exact I|exact I|apply keys_anyP]. Qed.
  Lemma e_agetd_adel d (l : list (K * V)) k k' :
    NoDup (keys l) -> agetd eqb d (adel eqb l k) k' = if eqb k k' then d else agetd eqb d l k'.
  Proof. apply (agetd_adel eqb anyP spec); [exact I|exact I|apply keys_anyP]. Qed.
  Lemma e_aget_some_in (l : list (K * V)) k v : aget eqb l k = Some v -> In (k, v) l.
  Proof. intro H. apply aget_some_in in H as (k' & Hi & E). apply eqb_eq in E. subst. exact Hi. Qed.
End AssocEq.

Section AssocEqCol.
  Context {K W : Type} (eqb : K -> K -> bool).
  Hypothesis eqb_eq : forall x y, eqb x y = true <-> x = y.
  Notation keys l := (map fst l).
  Let spec : forall x y : K, anyP x -> anyP y -> (eqb x y = true <-> x = y) := fun x y _ _ => eqb_eq x y.
  Lemma e_agetd_acol (l : list (K * list W)) k k' v :
    NoDup (keys l) -> agetd eqb [] (acol eqb l k v) k' = if eqb k k' then v else agetd eqb [] l k'.
  Proof. apply (agetd_acol eqb anyP spec); [exact I|exact I|apply keys_anyP]. Qed.
  Lemma e_nodup_acol (l : list (K * list W)) k v : NoDup (keys l) -> NoDup (keys (acol eqb l k v)).
  Proof. apply (nodup_acol eqb anyP spec); [exact I|apply keys_anyP]. Qed.
End AssocEqCol.

Lemma N_eqb_eq' x y : N.eqb x y = true <-> x = y.
Proof. apply N.eqb_eq. Qed.
