(* Proofs about the manager model (Manager.v): association-list algebra, the room
   well-formedness invariant WF, its preservation by every manager operation, and the
   membership ("mem") equations of every operation, from which the frame lemmas of C03 are
   derived.  Nothing here changes the model. *)
From VT Require Import Manager.Manager.
From Coq Require Import Lia ZifyBool Permutation.
Open Scope N_scope.

(* ================================================================== *)
(* 1. insertion-ordered association lists                              *)
(* ================================================================== *)

Definition agetd {K V} (eqb : K -> K -> bool) (d : V) (l : list (K * V)) (k : K) : V :=
  match aget eqb l k with Some v => v | None => d end.

(* delete-when-empty update, the pattern of basic_leave_room *)
Definition acol {K W} (eqb : K -> K -> bool) (l : list (K * list W)) (k : K) (v : list W) :=
  match v with [] => adel eqb l k | _ => aset eqb l k v end.

Section AssocDom.
  (* [eqb] decides equality on the domain [P] only (Python == on room names) *)
  Context {K V : Type} (eqb : K -> K -> bool) (P : K -> Prop).
  Hypothesis eqb_spec : forall x y, P x -> P y -> (eqb x y = true <-> x = y).
  Notation keys l := (map fst l).
  Notation vals l := (map snd l).
  Definition keysP (l : list (K * V)) := Forall P (keys l).

  Lemma dom_refl x : P x -> eqb x x = true.
  Proof. intro H. apply eqb_spec; auto. Qed.
  Lemma dom_neq x y : P x -> P y -> x <> y -> eqb x y = false.
  Proof.
    intros Hx Hy N. destruct (eqb x y) eqn:E; [|reflexivity].
    apply eqb_spec in E; auto. contradiction.
  Qed.

  (* --- facts that need no property of eqb --- *)
  Lemma aget_some_in (l : list (K * V)) k v :
    aget eqb l k = Some v -> exists k', In (k', v) l /\ eqb k' k = true.
  Proof.
    induction l as [|[k0 v0] r IH]; cbn [aget]; [discriminate|].
    destruct (eqb k0 k) eqn:E; intro H.
    - inversion H; subst. exists k0. split; [left; reflexivity|exact E].
    - destruct (IH H) as (k' & Hi & He). exists k'. split; [right; exact Hi|exact He].
  Qed.
  Lemma in_aset (l : list (K * V)) k v x : In x (aset eqb l k v) -> In x l \/ snd x = v.
  Proof.
    induction l as [|[k0 v0] r IH]; cbn [aset].
    - intros [H|[]]. subst. right; reflexivity.
    - destruct (eqb k0 k).
      + intros [H|H]; [subst; right; reflexivity|left; right; exact H].
      + intros [H|H]; [left; left; exact H|]. destruct (IH H); [left; right; assumption|right; assumption].
  Qed.
  Lemma in_adel (l : list (K * V)) k x : In x (adel eqb l k) -> In x l.
  Proof.
    induction l as [|[k0 v0] r IH]; cbn [adel]; [intros []|].
    destruct (eqb k0 k); intro H; [right; exact H|].
    destruct H as [H|H]; [left; exact H|right; exact (IH H)].
  Qed.
  Lemma keys_aset_incl (l : list (K * V)) k v k' :
    In k' (keys (aset eqb l k v)) -> k' = k \/ In k' (keys l).
  Proof.
    induction l as [|[k0 v0] r IH]; cbn [aset map fst].
    - intros [H|[]]. left; symmetry; exact H.
    - destruct (eqb k0 k); cbn [map fst].
      + intro H. right. exact H.
      + intros [H|H]; [right; left; exact H|]. destruct (IH H); [left; assumption|right; right; assumption].
  Qed.
  Lemma keys_aset_old (l : list (K * V)) k v k' : In k' (keys l) -> In k' (keys (aset eqb l k v)).
  Proof.
    induction l as [|[k0 v0] r IH]; cbn [aset map fst]; [intros []|].
    destruct (eqb k0 k); cbn [map fst]; intros [H|H]; [left; exact H|right; exact H|left; exact H|right; auto].
  Qed.
  Lemma keys_adel_incl (l : list (K * V)) k k' : In k' (keys (adel eqb l k)) -> In k' (keys l).
  Proof.
    induction l as [|[k0 v0] r IH]; cbn [adel map fst]; [intros []|].
    destruct (eqb k0 k); cbn [map fst]; intro H; [right; exact H|].
    destruct H as [H|H]; [left; exact H|right; exact (IH H)].
  Qed.
  Lemma vals_aset (Q : V -> Prop) (l : list (K * V)) k v :
    Forall Q (vals l) -> Q v -> Forall Q (vals (aset eqb l k v)).
  Proof.
    intros H Hv. apply Forall_forall. intros y Hy. apply in_map_iff in Hy as (x & <- & Hx).
    apply in_aset in Hx as [Hx|Hx]; [|rewrite Hx; exact Hv].
    rewrite Forall_forall in H. apply H. apply in_map. exact Hx.
  Qed.
  Lemma vals_adel (Q : V -> Prop) (l : list (K * V)) k :
    Forall Q (vals l) -> Forall Q (vals (adel eqb l k)).
  Proof.
    intros H. apply Forall_forall. intros y Hy. apply in_map_iff in Hy as (x & <- & Hx).
    apply in_adel in Hx. rewrite Forall_forall in H. apply H. apply in_map. exact Hx.
  Qed.
  Lemma vals_aget (Q : V -> Prop) (l : list (K * V)) k v :
    Forall Q (vals l) -> aget eqb l k = Some v -> Q v.
  Proof.
    intros H E. apply aget_some_in in E as (k' & Hi & _). rewrite Forall_forall in H.
    apply H. change v with (snd (k', v)). apply in_map. exact Hi.
  Qed.
  Lemma vals_agetd (Q : V -> Prop) d (l : list (K * V)) k :
    Forall Q (vals l) -> Q d -> Q (agetd eqb d l k).
  Proof.
    intros H Hd. unfold agetd. destruct (aget eqb l k) eqn:E; [eapply vals_aget; eauto|exact Hd].
  Qed.
  Lemma nodup_adel (l : list (K * V)) k : NoDup (keys l) -> NoDup (keys (adel eqb l k)).
  Proof.
    induction l as [|[k0 v0] r IH]; cbn [adel map fst]; [auto|].
    intro H. inversion H as [|? ? Hn Hr]; subst.
    destruct (eqb k0 k); cbn [map fst]; [exact Hr|].
    constructor; [|exact (IH Hr)]. intro Hi. apply Hn. eapply keys_adel_incl; exact Hi.
  Qed.
  Lemma keysP_adel (l : list (K * V)) k : keysP l -> keysP (adel eqb l k).
  Proof.
    unfold keysP. intro H. apply Forall_forall. intros x Hx. apply keys_adel_incl in Hx.
    rewrite Forall_forall in H. auto.
  Qed.
  Lemma keysP_aset (l : list (K * V)) k v : keysP l -> P k -> keysP (aset eqb l k v).
  Proof.
    unfold keysP. intros H Hk. apply Forall_forall. intros x Hx.
    apply keys_aset_incl in Hx as [->|Hx]; [exact Hk|]. rewrite Forall_forall in H. auto.
  Qed.
  Lemma adel_notin (l : list (K * V)) k : aget eqb l k = None -> adel eqb l k = l.
  Proof.
    induction l as [|[k0 v0] r IH]; cbn [aget adel]; [reflexivity|].
    destruct (eqb k0 k); [discriminate|]. intro H. rewrite (IH H). reflexivity.
  Qed.

  (* --- facts on the domain --- *)
  Lemma aget_none_notin (l : list (K * V)) k :
    P k -> keysP l -> (aget eqb l k = None <-> ~ In k (keys l)).
  Proof.
    intros Hk. induction l as [|[k0 v0] r IH]; cbn [aget map fst]; intro Hl.
    - split; auto.
    - inversion Hl as [|? ? H0 Hr]; subst. cbn [fst] in H0.
      destruct (eqb k0 k) eqn:E.
      + apply eqb_spec in E; auto. split; [discriminate|]. intro N. exfalso. apply N. left; exact E.
      + rewrite (IH Hr). split.
        * intros N [H|H]; [|auto]. subst. rewrite dom_refl in E; [discriminate|auto].
        * intros N H. apply N. right; exact H.
  Qed.
  Lemma aget_in (l : list (K * V)) k v :
    P k -> keysP l -> NoDup (keys l) -> (aget eqb l k = Some v <-> In (k, v) l).
  Proof.
    intros Hk. induction l as [|[k0 v0] r IH]; cbn [aget map fst]; intros Hl Hn.
    - split; [discriminate|intros []].
    - inversion Hl as [|? ? H0 Hr]; subst. cbn [fst] in H0.
      inversion Hn as [|? ? Hni Hnr]; subst.
      destruct (eqb k0 k) eqn:E.
      + apply eqb_spec in E; auto. subst k0. split.
        * intro H. inversion H; subst. left; reflexivity.
        * intros [H|H]; [inversion H; reflexivity|].
          exfalso. apply Hni. change k with (fst (k, v)). apply in_map. exact H.
      + rewrite (IH Hr Hnr). split; [intro H; right; exact H|].
        intros [H|H]; [|exact H]. inversion H; subst. rewrite dom_refl in E; [discriminate|auto].
  Qed.
  Lemma aget_aset (l : list (K * V)) k k' v :
    P k -> P k' -> keysP l ->
    aget eqb (aset eqb l k v) k' = if eqb k k' then Some v else aget eqb l k'.
  Proof.
    intros Hk Hk'. induction l as [|[k0 v0] r IH]; cbn [aget aset]; intro Hl.
    - reflexivity.
    - inversion Hl as [|? ? H0 Hr]; subst. cbn [fst] in H0.
      destruct (eqb k0 k) eqn:E; cbn [aget].
      + apply eqb_spec in E; auto. subst k0. destruct (eqb k k'); reflexivity.
      + rewrite (IH Hr). destruct (eqb k0 k') eqn:E'; [|reflexivity].
        apply eqb_spec in E'; auto. subst k0.
        destruct (eqb k k') eqn:E2; [|reflexivity].
        apply eqb_spec in E2; auto. subst. rewrite dom_refl in E; [discriminate|auto].
  Qed.
  Lemma aget_adel (l : list (K * V)) k k' :
    P k -> P k' -> keysP l -> NoDup (keys l) ->
    aget eqb (adel eqb l k) k' = if eqb k k' then None else aget eqb l k'.
  Proof.
    intros Hk Hk'. induction l as [|[k0 v0] r IH]; cbn [aget adel map fst]; intros Hl Hn.
    - destruct (eqb k k'); reflexivity.
    - inversion Hl as [|? ? H0 Hr]; subst. cbn [fst] in H0.
      inversion Hn as [|? ? Hni Hnr]; subst.
      destruct (eqb k0 k) eqn:E; cbn [aget].
      + apply eqb_spec in E; auto. subst k0. destruct (eqb k k') eqn:E2; [|reflexivity].
        apply eqb_spec in E2; auto. subst k'. apply aget_none_notin; auto.
      + rewrite (IH Hr Hnr). destruct (eqb k0 k') eqn:E'; [|reflexivity].
        apply eqb_spec in E'; auto. subst k0.
        rewrite (dom_neq k k'); auto. intro; subst. rewrite dom_refl in E; [discriminate|auto].
  Qed.
  Lemma nodup_aset (l : list (K * V)) k v :
    P k -> keysP l -> NoDup (keys l) -> NoDup (keys (aset eqb l k v)).
  Proof.
    intros Hk. induction l as [|[k0 v0] r IH]; cbn [aset map fst]; intros Hl Hn.
    - constructor; [intros []|constructor].
    - inversion Hl as [|? ? H0 Hr]; subst. cbn [fst] in H0.
      inversion Hn as [|? ? Hni Hnr]; subst.
      destruct (eqb k0 k) eqn:E; cbn [map fst]; [exact Hn|].
      constructor; [|exact (IH Hr Hnr)]. intro Hi.
      apply keys_aset_incl in Hi as [->|Hi]; [|auto]. rewrite dom_refl in E; [discriminate|auto].
  Qed.
  Lemma agetd_aset d (l : list (K * V)) k k' v :
    P k -> P k' -> keysP l ->
    agetd eqb d (aset eqb l k v) k' = if eqb k k' then v else agetd eqb d l k'.
  Proof. intros. unfold agetd. rewrite aget_aset by assumption. destruct (eqb k k'); reflexivity. Qed.
  Lemma agetd_adel d (l : list (K * V)) k k' :
    P k -> P k' -> keysP l -> NoDup (keys l) ->
    agetd eqb d (adel eqb l k) k' = if eqb k k' then d else agetd eqb d l k'.
  Proof. intros. unfold agetd. rewrite aget_adel by assumption. destruct (eqb k k'); reflexivity. Qed.
  Lemma aget_self_key (l : list (K * V)) k v :
    keysP l -> NoDup (keys l) -> aget eqb l k = Some v ->
    exists k', P k' /\ In (k', v) l /\ aget eqb l k' = Some v.
  Proof.
    intros Hl Hn E. apply aget_some_in in E as (k' & Hi & _).
    assert (Hk' : P k').
    { unfold keysP in Hl. rewrite Forall_forall in Hl. apply Hl.
      change k' with (fst (k', v)). apply in_map. exact Hi. }
    exists k'. split; [exact Hk'|]. split; [exact Hi|]. apply aget_in; auto.
  Qed.
End AssocDom.

Section AssocCol.
  Context {K W : Type} (eqb : K -> K -> bool) (P : K -> Prop).
  Hypothesis eqb_spec : forall x y, P x -> P y -> (eqb x y = true <-> x = y).
  Notation keys l := (map fst l).
  Notation vals l := (map snd l).
  Lemma agetd_acol (l : list (K * list W)) k k' v :
    P k -> P k' -> keysP P l -> NoDup (keys l) ->
    agetd eqb [] (acol eqb l k v) k' = if eqb k k' then v else agetd eqb [] l k'.
  Proof.
    intros. unfold acol. destruct v.
    - apply (agetd_adel eqb P); assumption.
    - apply (agetd_aset eqb P); assumption.
  Qed.
  Lemma nodup_acol (l : list (K * list W)) k v :
    P k -> keysP P l -> NoDup (keys l) -> NoDup (keys (acol eqb l k v)).
  Proof.
    intros. unfold acol. destruct v; [apply nodup_adel; assumption|apply (nodup_aset eqb P); assumption].
  Qed.
  Lemma keysP_acol (l : list (K * list W)) k v : keysP P l -> P k -> keysP P (acol eqb l k v).
  Proof. intros. unfold acol. destruct v; [apply keysP_adel; assumption|apply keysP_aset; assumption]. Qed.
  Lemma vals_acol (Q : list W -> Prop) (l : list (K * list W)) k v :
    Forall Q (vals l) -> Q v -> Forall Q (vals (acol eqb l k v)).
  Proof. intros. unfold acol. destruct v; [apply vals_adel; assumption|apply vals_aset; assumption]. Qed.
End AssocCol.

(* the everywhere-defined domain, for keys with a decidable Leibniz equality *)
Definition anyP {K : Type} (k : K) : Prop := True.
Lemma keys_anyP {K V} (l : list (K * V)) : keysP anyP l.
Proof. unfold keysP. apply Forall_forall. intros; exact I. Qed.

Section AssocEq.
  Context {K V : Type} (eqb : K -> K -> bool).
  Hypothesis eqb_eq : forall x y, eqb x y = true <-> x = y.
  Notation keys l := (map fst l).
  Let spec : forall x y : K, anyP x -> anyP y -> (eqb x y = true <-> x = y) := fun x y _ _ => eqb_eq x y.
  Lemma eq_refl_b x : eqb x x = true. Proof. apply eqb_eq; reflexivity. Qed.
  Lemma eq_neq_b x y : x <> y -> eqb x y = false.
  Proof. intro N. destruct (eqb x y) eqn:E; [apply eqb_eq in E; contradiction|reflexivity]. Qed.
  Lemma e_aget_none_notin (l : list (K * V)) k : aget eqb l k = None <-> ~ In k (keys l).
  Proof. apply (aget_none_notin eqb anyP spec); [exact I|apply keys_anyP]. Qed.
  Lemma e_aget_in (l : list (K * V)) k v : NoDup (keys l) -> (aget eqb l k = Some v <-> In (k, v) l).
  Proof. apply (aget_in eqb anyP spec); [exact I|apply keys_anyP]. Qed.
  Lemma e_aget_aset (l : list (K * V)) k k' v :
    aget eqb (aset eqb l k v) k' = if eqb k k' then Some v else aget eqb l k'.
  Proof. apply (aget_aset eqb anyP spec); [exact I|exact I|apply keys_anyP]. Qed.
  Lemma e_aget_adel (l : list (K * V)) k k' :
    NoDup (keys l) -> aget eqb (adel eqb l k) k' = if eqb k k' then None else aget eqb l k'.
  Proof. apply (aget_adel eqb anyP spec); [exact I|exact I|apply keys_anyP]. Qed.
  Lemma e_nodup_aset (l : list (K * V)) k v : NoDup (keys l) -> NoDup (keys (aset eqb l k v)).
  Proof. apply (nodup_aset eqb anyP spec); [exact I|apply keys_anyP]. Qed.
  Lemma e_agetd_aset d (l : list (K * V)) k k' v :
    agetd eqb d (aset eqb l k v) k' = if eqb k k' then v else agetd eqb d l k'.
  Proof. apply (agetd_aset eqb anyP spec); [exact I|exact I|apply keys_anyP]. Qed.
  Lemma e_agetd_adel d (l : list (K * V)) k k' :
    NoDup (keys l) -> agetd eqb d (adel eqb l k) k' = if eqb k k' then d else agetd eqb d l k'.
  Proof. apply (agetd_adel eqb anyP spec); [exact I|exact I|apply keys_anyP]. Qed.
  Lemma e_aget_some_in (l : list (K * V)) k v : aget eqb l k = Some v -> In (k, v) l.
  Proof. intro H. apply aget_some_in in H as (k' & Hi & E). apply eqb_eq in E. subst. exact Hi. Qed.
End AssocEq.

Section AssocEqCol.
  Context {K W : Type} (eqb : K -> K -> bool).
  Hypothesis eqb_eq : forall x y, eqb x y = true <-> x = y.
  Notation keys l := (map fst l).
  Let spec : forall x y : K, anyP x -> anyP y -> (eqb x y = true <-> x = y) := fun x y _ _ => eqb_eq x y.
  Lemma e_agetd_acol (l : list (K * list W)) k k' v :
    NoDup (keys l) -> agetd eqb [] (acol eqb l k v) k' = if eqb k k' then v else agetd eqb [] l k'.
  Proof. apply (agetd_acol eqb anyP spec); [exact I|exact I|apply keys_anyP]. Qed.
  Lemma e_nodup_acol (l : list (K * list W)) k v : NoDup (keys l) -> NoDup (keys (acol eqb l k v)).
  Proof. apply (nodup_acol eqb anyP spec); [exact I|apply keys_anyP]. Qed.
End AssocEqCol.

Lemma N_eqb_eq' x y : N.eqb x y = true <-> x = y.
Proof. apply N.eqb_eq. Qed.

(* ================================================================== *)
(* 2. rooms: the domain of names, semantic lookup, the invariant       *)
(* ================================================================== *)

(* room names of the property's domain: None, non-empty strings, non-zero integers
   (hashable, truthy, non-sequence); on them Python == is Leibniz equality *)
Definition room_okb (r : pv) : bool :=
  match r with PNone => true | PStr (_ :: _) => true | PInt z => negb (Z.eqb z 0) | _ => false end.
Definition room_ok (r : pv) : Prop := room_okb r = true.

Lemma room_spec x y : room_ok x -> room_ok y -> (room_eqb x y = true <-> x = y).
Proof.
  unfold room_ok, room_eqb.
  destruct x, y; cbn; try discriminate; intros _ _; split; intro H;
    try discriminate; try reflexivity.
  - apply Z.eqb_eq in H. congruence.
  - inversion H. apply Z.eqb_refl.
  - apply str_eqb_eq in H. congruence.
  - inversion H. apply str_eqb_refl.
Qed.
Lemma room_ok_None : room_ok PNone. Proof. reflexivity. Qed.
Lemma room_ok_sid s : s <> [] -> room_ok (PStr s).
Proof. destruct s; [congruence|reflexivity]. Qed.
Lemma room_refl r : room_ok r -> room_eqb r r = true.
Proof. intro H. apply room_spec; auto. Qed.
Lemma room_neq r r' : room_ok r -> room_ok r' -> r <> r' -> room_eqb r r' = false.
Proof. apply (dom_neq room_eqb room_ok room_spec). Qed.
Lemma str_neq a b : a <> b -> str_eqb a b = false.
Proof. apply (eq_neq_b str_eqb str_eqb_eq). Qed.

(* total lookups: a missing namespace / room is an empty one *)
Definition nsmap (m : mgr) (ns : str) : roommap := agetd (V:=roommap) str_eqb [] (rooms m) ns.
Definition look (m : mgr) (ns : str) (r : pv) : bidict := agetd (V:=bidict) room_eqb [] (nsmap m ns) r.
Definition mem (m : mgr) (ns : str) (r : pv) (sid : str) : option str := bd_get (look m ns r) sid.

Lemma look_room_of m ns r : look m ns r = match room_of m ns r with Some b => b | None => [] end.
Proof.
  unfold look, nsmap, room_of, ns_rooms, agetd.
  destruct (aget str_eqb (rooms m) ns); reflexivity.
Qed.
Lemma mem_ext m m' : rooms m' = rooms m -> mem m' = mem m.
Proof. unfold mem, look, nsmap. intros ->. reflexivity. Qed.

Definition bd_ok (b : bidict) : Prop := NoDup (map fst b).
Definition rm_ok (rm : roommap) : Prop :=
  NoDup (map fst rm) /\ keysP room_ok rm /\ Forall bd_ok (map snd rm).
(* (1) distinct keys at every level, room names in the domain *)
Definition Struct (m : mgr) : Prop :=
  NoDup (map fst (rooms m)) /\ Forall rm_ok (map snd (rooms m)) /\ NoDup (map fst (pending m)).
(* (3) every member of a room is a member of the namespace, with the same transport;
   (2) transports are distinct inside a namespace *)
Definition Sem (m : mgr) : Prop :=
  (forall ns r s e, room_ok r -> mem m ns r s = Some e -> mem m ns PNone s = Some e) /\
  (forall ns s s' e, mem m ns PNone s = Some e -> mem m ns PNone s' = Some e -> s = s').
Definition WF (m : mgr) : Prop := Struct m /\ Sem m.

Lemma rm_ok_nil : rm_ok []. Proof. repeat split; constructor. Qed.
Lemma bd_ok_nil : bd_ok []. Proof. constructor. Qed.
Lemma struct_nsmap m ns : Struct m -> rm_ok (nsmap m ns).
Proof. intros (_ & H & _). unfold nsmap. apply vals_agetd; [exact H|exact rm_ok_nil]. Qed.
Lemma struct_look m ns r : Struct m -> bd_ok (look m ns r).
Proof.
  intro H. destruct (struct_nsmap m ns H) as (_ & _ & Hb). unfold look.
  apply vals_agetd; [exact Hb|exact bd_ok_nil].
Qed.
Lemma rm_ok_aset rm room b : rm_ok rm -> room_ok room -> bd_ok b -> rm_ok (aset room_eqb rm room b).
Proof.
  intros (H1 & H2 & H3) Hr Hb. repeat split.
  - apply (nodup_aset room_eqb room_ok room_spec); assumption.
  - apply keysP_aset; assumption.
  - apply vals_aset; assumption.
Qed.
Lemma rm_ok_acol rm room b : rm_ok rm -> room_ok room -> bd_ok b -> rm_ok (acol room_eqb rm room b).
Proof.
  intros (H1 & H2 & H3) Hr Hb. repeat split.
  - apply (nodup_acol room_eqb room_ok room_spec); assumption.
  - apply keysP_acol; assumption.
  - apply vals_acol; assumption.
Qed.
Lemma struct_set_aset m ns rm : Struct m -> rm_ok rm -> Struct (set_rooms m (aset str_eqb (rooms m) ns rm)).
Proof.
  intros (H1 & H2 & H3) Hr. unfold Struct; cbn [set_rooms rooms pending]. repeat split.
  - apply (e_nodup_aset str_eqb str_eqb_eq); assumption.
  - apply vals_aset; assumption.
  - exact H3.
Qed.
Lemma struct_set_acol m ns rm : Struct m -> rm_ok rm -> Struct (set_rooms m (acol str_eqb (rooms m) ns rm)).
Proof.
  intros (H1 & H2 & H3) Hr. unfold Struct; cbn [set_rooms rooms pending]. repeat split.
  - apply (e_nodup_acol str_eqb str_eqb_eq); assumption.
  - apply vals_acol; assumption.
  - exact H3.
Qed.

Lemma look_aset2 m ns room b' ns' r' :
  Struct m -> room_ok room -> room_ok r' ->
  look (set_rooms m (aset str_eqb (rooms m) ns (aset room_eqb (nsmap m ns) room b'))) ns' r'
  = if str_eqb ns ns' then (if room_eqb room r' then b' else look m ns r') else look m ns' r'.
Proof.
  intros HS Hr Hr'. unfold look at 1. unfold nsmap at 1. cbn [set_rooms rooms].
  rewrite (e_agetd_aset str_eqb str_eqb_eq). destruct (str_eqb ns ns') eqn:E; [|reflexivity].
  rewrite (agetd_aset room_eqb room_ok room_spec); auto.
  apply (struct_nsmap m ns HS).
Qed.
Lemma look_acol2 m ns room b' ns' r' :
  Struct m -> room_ok room -> room_ok r' ->
  look (set_rooms m (acol str_eqb (rooms m) ns (acol room_eqb (nsmap m ns) room b'))) ns' r'
  = if str_eqb ns ns' then (if room_eqb room r' then b' else look m ns r') else look m ns' r'.
Proof.
  intros HS Hr Hr'. unfold look at 1. unfold nsmap at 1. cbn [set_rooms rooms].
  rewrite (e_agetd_acol (W:=pv * bidict) str_eqb str_eqb_eq) by apply HS.
  destruct (str_eqb ns ns') eqn:E; [|reflexivity].
  destruct (struct_nsmap m ns HS) as (H1 & H2 & _).
  rewrite (agetd_acol (W:=str * str) room_eqb room_ok room_spec); auto.
Qed.

Lemma bd_get_aset b sid eio s' :
  bd_get (aset str_eqb b sid eio) s' = if str_eqb sid s' then Some eio else bd_get b s'.
Proof. apply (e_aget_aset str_eqb str_eqb_eq). Qed.
Lemma bd_get_adel b sid s' :
  bd_ok b -> bd_get (adel str_eqb b sid) s' = if str_eqb sid s' then None else bd_get b s'.
Proof. apply (e_aget_adel str_eqb str_eqb_eq). Qed.
Lemma bd_get_in b s e : bd_ok b -> (bd_get b s = Some e <-> In (s, e) b).
Proof. apply (e_aget_in str_eqb str_eqb_eq). Qed.
Lemma bd_inv_some b e s : bd_inv b e = Some s -> In (s, e) b.
Proof.
  induction b as [|[s0 e0] r IH]; cbn [bd_inv]; [discriminate|].
  destruct (str_eqb e0 e) eqn:E; intro H.
  - apply str_eqb_eq in E. inversion H; subst. left; reflexivity.
  - right; auto.
Qed.
Lemma bd_inv_none b e s : bd_inv b e = None -> ~ In (s, e) b.
Proof.
  induction b as [|[s0 e0] r IH]; cbn [bd_inv]; [intros _ []|].
  destruct (str_eqb e0 e) eqn:E; [discriminate|]. intros H [Hi|Hi]; [|exact (IH H Hi)].
  inversion Hi; subst. rewrite str_eqb_refl in E. discriminate.
Qed.

(* the two shapes of change of the membership function *)
Definition ins_eq (m m' : mgr) (ns : str) (room : pv) (sid eio : str) : Prop :=
  forall ns' r' s', room_ok r' ->
    mem m' ns' r' s' = if str_eqb ns ns' && room_eqb room r' && str_eqb sid s' then Some eio
                       else mem m ns' r' s'.
Definition rem_eq (m m' : mgr) (g : str -> pv -> str -> bool) : Prop :=
  forall ns' r' s', room_ok r' -> mem m' ns' r' s' = if g ns' r' s' then None else mem m ns' r' s'.
Definition same_mem (m m' : mgr) : Prop :=
  forall ns' r' s', room_ok r' -> mem m' ns' r' s' = mem m ns' r' s'.

Lemma sem_same m m' : same_mem m m' -> Sem m -> Sem m'.
Proof.
  intros E (H3 & H2). split.
  - intros ns r s e Hr H. rewrite E in * by (auto using room_ok_None). eapply H3; eauto.
  - intros ns s s' e Ha Hb. rewrite E in * by apply room_ok_None. eapply H2; eauto.
Qed.

Lemma sem_insert m m' ns room sid eio :
  room_ok room -> Sem m -> ins_eq m m' ns room sid eio ->
  (room = PNone -> (mem m ns PNone sid = None \/ mem m ns PNone sid = Some eio) /\
                   forall s', mem m ns PNone s' = Some eio -> s' = sid) ->
  (room <> PNone -> mem m ns PNone sid = Some eio) ->
  Sem m'.
Proof.
  intros Hroom (H3 & H2) E HN HR. split.
  - intros ns' r' s' e Hr' H. rewrite E in H by assumption. rewrite E by apply room_ok_None.
    destruct (str_eqb ns ns') eqn:E1; cbn [andb] in *; [apply str_eqb_eq in E1; subst ns'|eauto].
    destruct (str_eqb sid s') eqn:E3; [apply str_eqb_eq in E3; subst s'|rewrite !andb_false_r in *; eauto].
    rewrite !andb_true_r in *.
    destruct (room_eqb room r') eqn:E2.
    + apply room_spec in E2; auto. subst r'. inversion H; subst e.
      destruct (room_eqb room PNone) eqn:E4; [reflexivity|].
      apply HR. intro; subst. rewrite room_refl in E4; [discriminate|assumption].
    + specialize (H3 _ _ _ _ Hr' H).
      destruct (room_eqb room PNone) eqn:E4; [|exact H3].
      apply room_spec in E4; auto using room_ok_None.
      destruct (HN E4) as [[Hn|Hn] _]; congruence.
  - intros ns' s s' e Ha Hb. rewrite E in Ha, Hb by apply room_ok_None.
    destruct (str_eqb ns ns') eqn:E1; cbn [andb] in *; [apply str_eqb_eq in E1; subst ns'|eauto].
    destruct (room_eqb room PNone) eqn:E4; cbn [andb] in *; [|eauto].
    apply room_spec in E4; auto using room_ok_None. destruct (HN E4) as [_ Hu].
    destruct (str_eqb sid s) eqn:Ea; destruct (str_eqb sid s') eqn:Eb.
    + apply str_eqb_eq in Ea, Eb. congruence.
    + apply str_eqb_eq in Ea. inversion Ha; subst. symmetry. auto.
    + apply str_eqb_eq in Eb. inversion Hb; subst. auto.
    + eauto.
Qed.

Lemma sem_remove m m' g :
  Sem m -> rem_eq m m' g ->
  (forall ns r s, room_ok r -> g ns PNone s = true -> g ns r s = true) ->
  Sem m'.
Proof.
  intros (H3 & H2) E Hg. split.
  - intros ns r s e Hr H. rewrite E in H by assumption. rewrite E by apply room_ok_None.
    destruct (g ns r s) eqn:G; [discriminate|].
    destruct (g ns PNone s) eqn:G0; [rewrite (Hg _ _ _ Hr G0) in G; discriminate|eauto].
  - intros ns s s' e Ha Hb. rewrite E in Ha, Hb by apply room_ok_None.
    destruct (g ns PNone s); [discriminate|]. destruct (g ns PNone s'); [discriminate|]. eauto.
Qed.

Lemma WF_init : WF mgr_init.
Proof.
  split; [repeat split; constructor|]. split.
  - intros ns r s e _ H. discriminate H.
  - intros ns s s' e H. discriminate H.
Qed.

Lemma WF_ext m m' :
  rooms m' = rooms m -> NoDup (map fst (pending m')) -> WF m -> WF m'.
Proof.
  intros Er Hp ((H1 & H2 & _) & HS). split.
  - unfold Struct. rewrite Er. auto.
  - unfold Sem. rewrite (mem_ext _ _ Er). exact HS.
Qed.

(* ================================================================== *)
(* 3. the operations: structure, membership equation, invariant        *)
(* ================================================================== *)

Lemma cond3_true ns ns' room r' sid s' :
  room_ok room -> room_ok r' ->
  str_eqb ns ns' && room_eqb room r' && str_eqb sid s' = true -> ns = ns' /\ room = r' /\ sid = s'.
Proof.
  intros Hr Hr' H. apply andb_true_iff in H as [H H3]. apply andb_true_iff in H as [H1 H2].
  apply str_eqb_eq in H1, H3. apply room_spec in H2; auto.
Qed.

(* ---- leave_room ---- *)
Lemma leave_room_main m sid ns room rm b e0 :
  aget str_eqb (rooms m) ns = Some rm -> aget room_eqb rm room = Some b -> bd_get b sid = Some e0 ->
  leave_room m sid ns room =
  set_rooms m (acol str_eqb (rooms m) ns (acol room_eqb rm room (adel str_eqb b sid))).
Proof.
  intros E1 E2 E3. unfold leave_room, ns_rooms. rewrite E1, E2, E3. unfold acol, roommap, bidict in *.
  destruct (adel str_eqb b sid) as [|x b'].
  - destruct (adel room_eqb rm room); reflexivity.
  - destruct (aset room_eqb rm room (x :: b')); reflexivity.
Qed.

Lemma leave_room_spec m sid ns room :
  Struct m -> room_ok room ->
  let m' := leave_room m sid ns room in
  Struct m' /\ pending m' = pending m /\ callbacks m' = callbacks m /\
  rem_eq m m' (fun ns' r' s' => str_eqb ns ns' && room_eqb room r' && str_eqb sid s').
Proof.
  intros HS Hr m'. subst m'.
  assert (Hnoop : mem m ns room sid = None ->
                  rem_eq m m (fun ns' r' s' => str_eqb ns ns' && room_eqb room r' && str_eqb sid s')).
  { intros Hn ns' r' s' Hr'.
    destruct (str_eqb ns ns' && room_eqb room r' && str_eqb sid s') eqn:C; [|reflexivity].
    apply cond3_true in C as (-> & -> & ->); auto. }
  destruct (aget str_eqb (rooms m) ns) as [rm|] eqn:Ens.
  2: { assert (leave_room m sid ns room = m) as -> by (unfold leave_room, ns_rooms; rewrite Ens; reflexivity).
       split; [exact HS|split; [reflexivity|split; [reflexivity|]]]. apply Hnoop. unfold mem, look, nsmap, agetd. rewrite Ens. reflexivity. }
  destruct (aget room_eqb rm room) as [b|] eqn:Er.
  2: { assert (leave_room m sid ns room = m) as -> by (unfold leave_room, ns_rooms; rewrite Ens, Er; reflexivity).
       split; [exact HS|split; [reflexivity|split; [reflexivity|]]]. apply Hnoop. unfold mem, look, nsmap, agetd. rewrite Ens, Er. reflexivity. }
  destruct (bd_get b sid) as [e0|] eqn:Es.
  2: { assert (leave_room m sid ns room = m) as -> by (unfold leave_room, ns_rooms; rewrite Ens, Er, Es; reflexivity).
       split; [exact HS|split; [reflexivity|split; [reflexivity|]]]. apply Hnoop. unfold mem, look, nsmap, agetd. rewrite Ens, Er. exact Es. }
  rewrite (leave_room_main _ _ _ _ _ _ _ Ens Er Es).
  assert (Hrm : rm = nsmap m ns) by (unfold nsmap, agetd; rewrite Ens; reflexivity).
  assert (Hb : b = look m ns room) by (unfold look, agetd; rewrite <- Hrm, Er; reflexivity).
  rewrite Hrm.
  assert (Hbd : bd_ok b) by (rewrite Hb; apply struct_look, HS).
  split; [|split; [reflexivity|split; [reflexivity|]]].
  - apply struct_set_acol; [exact HS|]. apply rm_ok_acol; [apply struct_nsmap; exact HS|exact Hr|].
    unfold bd_ok. apply nodup_adel. exact Hbd.
  - intros ns' r' s' Hr'. unfold mem at 1. rewrite look_acol2 by assumption.
    destruct (str_eqb ns ns') eqn:E1; cbn [andb]; [|reflexivity].
    apply str_eqb_eq in E1. subst ns'.
    destruct (room_eqb room r') eqn:E2; cbn [andb]; [|reflexivity].
    apply room_spec in E2; auto. subst r'.
    rewrite bd_get_adel by exact Hbd. rewrite Hb. reflexivity.
Qed.

(* ---- put_member (the body of basic_enter_room) ---- *)
Lemma put_member_unfold m ns room sid eio :
  put_member m ns room sid eio =
  match bd_put (look m ns room) sid eio with
  | Some b' => (set_rooms m (aset str_eqb (rooms m) ns (aset room_eqb (nsmap m ns) room b')), true)
  | None => (set_rooms m (aset str_eqb (rooms m) ns (aset room_eqb (nsmap m ns) room (look m ns room))), false)
  end.
Proof. reflexivity. Qed.

Lemma put_same m ns room :
  Struct m -> room_ok room ->
  let m' := set_rooms m (aset str_eqb (rooms m) ns (aset room_eqb (nsmap m ns) room (look m ns room))) in
  Struct m' /\ same_mem m m'.
Proof.
  intros HS Hr m'. subst m'. split.
  - apply struct_set_aset; [exact HS|]. apply rm_ok_aset; [apply struct_nsmap, HS|exact Hr|apply struct_look, HS].
  - intros ns' r' s' Hr'. unfold mem at 1. rewrite look_aset2 by assumption.
    destruct (str_eqb ns ns') eqn:E1; [|reflexivity]. apply str_eqb_eq in E1. subst ns'.
    destruct (room_eqb room r') eqn:E2; [|reflexivity]. apply room_spec in E2; auto. subst r'. reflexivity.
Qed.
Lemma put_ins m ns room sid eio :
  Struct m -> room_ok room ->
  let m' := set_rooms m (aset str_eqb (rooms m) ns
                           (aset room_eqb (nsmap m ns) room (aset str_eqb (look m ns room) sid eio))) in
  Struct m' /\ ins_eq m m' ns room sid eio.
Proof.
  intros HS Hr m'. subst m'. split.
  - apply struct_set_aset; [exact HS|]. apply rm_ok_aset; [apply struct_nsmap, HS|exact Hr|].
    unfold bd_ok. apply (e_nodup_aset str_eqb str_eqb_eq). apply struct_look, HS.
  - intros ns' r' s' Hr'. unfold mem at 1. rewrite look_aset2 by assumption.
    destruct (str_eqb ns ns') eqn:E1; cbn [andb]; [|reflexivity]. apply str_eqb_eq in E1. subst ns'.
    destruct (room_eqb room r') eqn:E2; cbn [andb]; [|reflexivity]. apply room_spec in E2; auto. subst r'.
    rewrite bd_get_aset. reflexivity.
Qed.

Lemma put_member_spec m ns room sid eio m' ok :
  Struct m -> room_ok room -> put_member m ns room sid eio = (m', ok) ->
  Struct m' /\ pending m' = pending m /\ callbacks m' = callbacks m /\
  (ok = true -> ins_eq m m' ns room sid eio /\
                (mem m ns room sid = Some eio \/ forall s', mem m ns room s' <> Some eio)) /\
  (ok = false -> same_mem m m' /\ exists s0, s0 <> sid /\ mem m ns room s0 = Some eio).
Proof.
  intros HS Hr. rewrite put_member_unfold. unfold bd_put.
  destruct (bd_inv (look m ns room) eio) as [s0|] eqn:Ei.
  - pose proof (bd_inv_some _ _ _ Ei) as Hin. apply bd_get_in in Hin; [|apply struct_look, HS].
    destruct (put_same m ns room HS Hr) as [H1 H2].
    destruct (str_eqb s0 sid) eqn:E0; intro H; inversion H; subst m' ok; clear H.
    + apply str_eqb_eq in E0. subst s0.
      split; [exact H1|]. split; [reflexivity|]. split; [reflexivity|]. split; [|discriminate].
      intros _. split; [|left; exact Hin].
      intros ns' r' s' Hr'. rewrite H2 by assumption.
      destruct (str_eqb ns ns' && room_eqb room r' && str_eqb sid s') eqn:C; [|reflexivity].
      apply cond3_true in C as (-> & -> & ->); auto.
    + split; [exact H1|]. split; [reflexivity|]. split; [reflexivity|]. split; [discriminate|].
      intros _. split; [exact H2|]. exists s0. split; [|exact Hin].
      intro; subst. rewrite str_eqb_refl in E0. discriminate.
  - destruct (put_ins m ns room sid eio HS Hr) as [H1 H2].
    intro H; inversion H; subst m' ok; clear H.
    split; [exact H1|]. split; [reflexivity|]. split; [reflexivity|]. split; [|discriminate].
    intros _. split; [exact H2|]. right. intros s' Hs'.
    apply bd_get_in in Hs'; [|apply struct_look, HS]. exact (bd_inv_none _ _ _ Ei Hs').
Qed.

(* ---- enter_room ---- *)
Lemma enter_room_unfold m sid ns room :
  enter_room m sid ns room =
  match ns_rooms m ns with
  | None => (m, Err ValueError)
  | Some _ =>
      match mem m ns PNone sid with
      | None => (m, Err KeyError)
      | Some eio => let '(m', ok) := put_member m ns room sid eio in
                    (m', if ok then Ok tt else Err OtherError)
      end
  end.
Proof.
  unfold enter_room, put_member, mem, look, nsmap, agetd, ns_rooms.
  destruct (aget str_eqb (rooms m) ns) as [rm|]; [|reflexivity].
  destruct (aget room_eqb rm PNone) as [b0|]; [|reflexivity].
  destruct (bd_get b0 sid) as [eio|]; [|reflexivity].
  destruct (bd_put _ sid eio); reflexivity.
Qed.

Lemma enter_room_spec m sid ns room m' res :
  WF m -> room_ok room -> enter_room m sid ns room = (m', res) ->
  WF m' /\ pending m' = pending m /\ callbacks m' = callbacks m /\
  match res with
  | Ok _ => exists eio, mem m ns PNone sid = Some eio /\ ins_eq m m' ns room sid eio
  | Err e => m' = m /\ (e = ValueError /\ ns_rooms m ns = None \/
                        e = KeyError /\ ns_rooms m ns <> None /\ mem m ns PNone sid = None)
  end.
Proof.
  intros [HS HM] Hr. rewrite enter_room_unfold.
  destruct (ns_rooms m ns) as [rm|] eqn:Ens.
  2: { intro H; inversion H; subst m' res. split; [split; assumption|].
       split; [reflexivity|]. split; [reflexivity|]. split; [reflexivity|]. left; split; reflexivity. }
  destruct (mem m ns PNone sid) as [eio|] eqn:E0.
  2: { intro H; inversion H; subst m' res. split; [split; assumption|].
       split; [reflexivity|]. split; [reflexivity|]. split; [reflexivity|].
       right. split; [reflexivity|]. split; [discriminate|reflexivity]. }
  destruct (put_member m ns room sid eio) as [m1 ok] eqn:Ep.
  destruct (put_member_spec _ _ _ _ _ _ _ HS Hr Ep) as (HS1 & Hp1 & Hc1 & Ht & Hf).
  intro H; inversion H; subst m' res; clear H.
  destruct ok.
  - destruct (Ht eq_refl) as [Hi Hu].
    split; [|split; [exact Hp1|split; [exact Hc1|exists eio; split; [reflexivity|exact Hi]]]].
    split; [exact HS1|]. eapply sem_insert; eauto.
    + intros ->. split; [right; exact E0|]. intros s' Hs'. destruct HM as [_ H2]. eapply H2; eauto.
  - exfalso. destruct (Hf eq_refl) as [_ (s0 & Hne & Hs0)]. destruct HM as [H3 H2].
    apply Hne. eapply H2; [eapply H3; eauto|exact E0].
Qed.

(* ---- mgr_connect ---- *)
Definition fresh_sid (m : mgr) (sid : str) : Prop := sid <> [] /\ forall ns, mem m ns PNone sid = None.

Lemma mgr_connect_spec m eio ns sid m' r :
  WF m -> fresh_sid m sid -> mgr_connect m eio ns sid = (m', r) ->
  WF m' /\ pending m' = pending m /\ callbacks m' = callbacks m /\
  match r with
  | Some s => s = sid /\ (forall s', mem m ns PNone s' <> Some eio) /\
      forall ns' r' s', room_ok r' ->
        mem m' ns' r' s' = if str_eqb ns ns' && str_eqb sid s' && (room_eqb PNone r' || room_eqb (PStr sid) r')
                           then Some eio else mem m ns' r' s'
  | None => same_mem m m' /\ exists s0, mem m ns PNone s0 = Some eio
  end.
Proof.
  intros [HS HM] [Hne Hfr]. unfold mgr_connect.
  destruct (put_member m ns PNone sid eio) as [m1 ok] eqn:E1.
  destruct (put_member_spec _ _ _ _ _ _ _ HS room_ok_None E1) as (HS1 & Hp1 & Hc1 & Ht & Hf).
  destruct ok.
  - destruct (Ht eq_refl) as [Hi Hu]. destruct Hu as [Hu|Hu]; [rewrite Hfr in Hu; discriminate|].
    assert (HM1 : Sem m1).
    { eapply sem_insert; eauto using room_ok_None.
      - intros _. split; [left; apply Hfr|]. intros s' Hs'. exfalso. eapply Hu; eauto.
      - intro N; congruence. }
    assert (Hsr : room_ok (PStr sid)) by (apply room_ok_sid; exact Hne).
    assert (Hn1 : mem m1 ns PNone sid = Some eio).
    { rewrite Hi by apply room_ok_None. rewrite !str_eqb_refl, room_refl by apply room_ok_None. reflexivity. }
    destruct (put_member m1 ns (PStr sid) sid eio) as [m2 ok2] eqn:E2.
    destruct (put_member_spec _ _ _ _ _ _ _ HS1 Hsr E2) as (HS2 & Hp2 & Hc2 & Ht2 & Hf2).
    intro H; inversion H; subst m' r; clear H.
    destruct ok2.
    + destruct (Ht2 eq_refl) as [Hi2 _].
      split; [split; [exact HS2|]|].
      { eapply sem_insert; eauto. - intro N; discriminate N. }
      split; [congruence|]. split; [congruence|]. split; [reflexivity|]. split; [exact Hu|].
      intros ns' r' s' Hr'. rewrite Hi2, Hi by assumption.
      destruct (str_eqb ns ns'), (str_eqb sid s'), (room_eqb PNone r'), (room_eqb (PStr sid) r'); reflexivity.
    + exfalso. destruct (Hf2 eq_refl) as [_ (s0 & Hne0 & Hs0)]. destruct HM1 as [H3 H2].
      apply Hne0. eapply H2; [eapply H3; eauto|exact Hn1].
  - intro H; inversion H; subst m' r; clear H. destruct (Hf eq_refl) as [Hs (s0 & _ & Hs0)].
    split; [split; [exact HS1|eapply sem_same; eauto]|].
    split; [exact Hp1|]. split; [exact Hc1|]. split; [exact Hs|]. exists s0. exact Hs0.
Qed.

(* ---- leave_room alone ---- *)
Lemma leave_room_wf m sid ns room :
  WF m -> room_ok room -> room <> PNone -> WF (leave_room m sid ns room).
Proof.
  intros [HS HM] Hr Hn. destruct (leave_room_spec m sid ns room HS Hr) as (HS1 & _ & _ & E).
  split; [exact HS1|]. eapply sem_remove; eauto.
  intros ns' r s Hr' G. cbn beta in *.
  destruct (str_eqb ns ns'); cbn [andb] in *; [|discriminate].
  destruct (room_eqb room PNone) eqn:E4; [|discriminate].
  apply room_spec in E4; [contradiction|exact Hr|exact room_ok_None].
Qed.

(* ---- folds of leave_room (basic_close_room, basic_disconnect) ---- *)
Definition leave_pairs (ns : str) (L : list (str * pv)) (m : mgr) : mgr :=
  fold_left (fun m x => leave_room m (fst x) ns (snd x)) L m.
Definition hit (L : list (str * pv)) (r' : pv) (s' : str) : bool :=
  existsb (fun x => str_eqb (fst x) s' && room_eqb (snd x) r') L.

Lemma fold_left_map' {A B C} (f : A -> C -> A) (g : B -> C) l a :
  fold_left f (map g l) a = fold_left (fun a x => f a (g x)) l a.
Proof. revert a; induction l as [|x l IH]; intros a; cbn [map fold_left]; auto. Qed.

Lemma fold_leave_spec ns L : forall m, Struct m -> Forall (fun x => room_ok (snd x)) L ->
  let m' := leave_pairs ns L m in
  Struct m' /\ pending m' = pending m /\ callbacks m' = callbacks m /\
  rem_eq m m' (fun ns' r' s' => str_eqb ns ns' && hit L r' s').
Proof.
  induction L as [|[s r] L IH]; intros m HS HL; unfold leave_pairs; cbn [fold_left fst snd].
  - split; [exact HS|]. split; [reflexivity|]. split; [reflexivity|].
    intros ns' r' s' _. cbn [hit existsb]. rewrite andb_false_r. reflexivity.
  - inversion HL as [|? ? Hr HL']; subst. cbn [snd] in Hr.
    destruct (leave_room_spec m s ns r HS Hr) as (HS1 & Hp1 & Hc1 & E1).
    destruct (IH _ HS1 HL') as (HS2 & Hp2 & Hc2 & E2). unfold leave_pairs in *.
    split; [exact HS2|]. split; [congruence|]. split; [congruence|].
    intros ns' r' s' Hr'. rewrite E2, E1 by assumption. unfold hit; cbn [existsb fst snd].
    fold (hit L r' s').
    destruct (str_eqb ns ns'), (str_eqb s s'), (room_eqb r r'), (hit L r' s'); reflexivity.
Qed.

(* ---- close_room ---- *)
Lemma participants_scalar m ns room : room_ok room -> participants m ns room = Ok (look m ns room).
Proof. intro H. rewrite look_room_of. destruct room; try discriminate H; reflexivity. Qed.

Lemma close_room_unfold m room ns :
  room_ok room ->
  close_room m room ns = leave_pairs ns (map (fun se => (fst se, room)) (look m ns room)) m.
Proof.
  intro H. unfold close_room. rewrite participants_scalar by exact H.
  unfold leave_pairs. rewrite fold_left_map'. reflexivity.
Qed.

Lemma hit_other_room b room r' s' :
  room_eqb room r' = false -> hit (map (fun se : str * str => (fst se, room)) b) r' s' = false.
Proof.
  intro E. induction b as [|x b IH]; [reflexivity|].
  unfold hit in *. cbn [map existsb fst snd]. rewrite E, andb_false_r. exact IH.
Qed.

Lemma close_room_eq m room ns :
  Struct m -> room_ok room ->
  let m' := close_room m room ns in
  Struct m' /\ pending m' = pending m /\ callbacks m' = callbacks m /\
  rem_eq m m' (fun ns' r' _ => str_eqb ns ns' && room_eqb room r').
Proof.
  intros HS Hr m'. subst m'. rewrite close_room_unfold by exact Hr.
  set (L := map (fun se : str * str => (fst se, room)) (look m ns room)).
  assert (HL : Forall (fun x => room_ok (snd x)) L).
  { apply Forall_forall. intros x Hx. apply in_map_iff in Hx as (se & <- & _). exact Hr. }
  destruct (fold_leave_spec ns L m HS HL) as (HS1 & Hp & Hc & E).
  split; [exact HS1|]. split; [exact Hp|]. split; [exact Hc|].
  intros ns' r' s' Hr'. rewrite E by assumption.
  destruct (str_eqb ns ns') eqn:E1; cbn [andb]; [|reflexivity]. apply str_eqb_eq in E1. subst ns'.
  destruct (room_eqb room r') eqn:E2.
  - apply room_spec in E2; auto. subst r'.
    destruct (hit L room s') eqn:Hh; [reflexivity|].
    destruct (mem m ns room s') as [e|] eqn:Em; [|reflexivity]. exfalso.
    assert (hit L room s' = true); [|congruence].
    apply existsb_exists. exists (s', room). split.
    + apply in_map_iff. exists (s', e). split; [reflexivity|].
      apply bd_get_in; [apply struct_look, HS|exact Em].
    + cbn [fst snd]. rewrite str_eqb_refl, room_refl by exact Hr. reflexivity.
  - unfold L. rewrite hit_other_room by exact E2. reflexivity.
Qed.

Lemma close_room_wf m room ns : WF m -> room_ok room -> room <> PNone -> WF (close_room m room ns).
Proof.
  intros [HS HM] Hr Hn. destruct (close_room_eq m room ns HS Hr) as (HS1 & _ & _ & E).
  split; [exact HS1|]. eapply sem_remove; eauto.
  intros ns' r s Hr' G. cbn beta in *.
  destruct (str_eqb ns ns'); cbn [andb] in *; [|discriminate].
  apply room_spec in G; [contradiction|exact Hr|exact room_ok_None].
Qed.

(* ---- mgr_disconnect ---- *)
Definition disc_names (rm : roommap) (sid : str) : list pv :=
  map fst (filter (fun rb => match bd_get (snd rb) sid with Some _ => true | None => false end) rm).

(* the release part of basic_disconnect *)
Lemma disc_release_rooms m sid ns : rooms (disc_release m sid ns) = rooms m.
Proof. unfold disc_release. destruct (is_pending _ sid ns); reflexivity. Qed.
Lemma disc_release_callbacks m sid ns : callbacks (disc_release m sid ns) = adel str_eqb (callbacks m) sid.
Proof. unfold disc_release. destruct (is_pending _ sid ns); reflexivity. Qed.
Lemma disc_release_pending_nodup m sid ns :
  NoDup (map fst (pending m)) -> NoDup (map fst (pending (disc_release m sid ns))).
Proof.
  intro Hp. unfold disc_release. cbn [rooms pending callbacks].
  destruct (is_pending _ sid ns); cbn [rooms pending callbacks]; [|exact Hp].
  destruct (match aget str_eqb (pending m) ns with Some l => remove_first l sid | None => [] end).
  - apply nodup_adel. exact Hp.
  - apply (e_nodup_aset str_eqb str_eqb_eq). exact Hp.
Qed.
Lemma disc_release_wf m sid ns : WF m -> WF (disc_release m sid ns).
Proof.
  intro H. assert (Hp : NoDup (map fst (pending m))) by apply H.
  eapply WF_ext; [apply disc_release_rooms|apply disc_release_pending_nodup; exact Hp|exact H].
Qed.

Lemma mgr_disconnect_parts m sid ns rm :
  ns_rooms m ns = Some rm ->
  let m1 := leave_pairs ns (map (fun r => (sid, r)) (disc_names rm sid)) m in
  rooms (mgr_disconnect m sid ns) = rooms m1 /\
  callbacks (mgr_disconnect m sid ns) = adel str_eqb (callbacks m1) sid /\
  (NoDup (map fst (pending m1)) -> NoDup (map fst (pending (mgr_disconnect m sid ns)))).
Proof.
  intros E m1.
  assert (Hm1 : fold_left (fun m r => leave_room m sid ns r) (disc_names rm sid) m = m1).
  { unfold m1, leave_pairs. rewrite fold_left_map'. reflexivity. }
  unfold mgr_disconnect. rewrite E. unfold disc_names in Hm1. rewrite Hm1. clearbody m1.
  unfold disc_release. cbv zeta. cbn [rooms pending callbacks].
  destruct (is_pending _ sid ns); cbn [rooms pending callbacks].
  - split; [reflexivity|]. split; [reflexivity|]. intro Hp.
    destruct (match aget str_eqb (pending m1) ns with Some l => remove_first l sid | None => [] end).
    + apply nodup_adel. exact Hp.
    + apply (e_nodup_aset str_eqb str_eqb_eq). exact Hp.
  - split; [reflexivity|]. split; [reflexivity|]. auto.
Qed.

Lemma disc_names_ok rm sid : rm_ok rm -> Forall room_ok (disc_names rm sid).
Proof.
  intros (_ & Hk & _). apply Forall_forall. intros r Hr. unfold disc_names in Hr.
  apply in_map_iff in Hr as (rb & <- & Hf). apply filter_In in Hf as [Hi _].
  unfold keysP in Hk. rewrite Forall_forall in Hk. apply Hk. apply in_map. exact Hi.
Qed.
Lemma disc_names_complete m ns sid r e :
  Struct m -> room_ok r -> mem m ns r sid = Some e -> In r (disc_names (nsmap m ns) sid).
Proof.
  intros HS Hr H. destruct (struct_nsmap m ns HS) as (Hn & Hk & _).
  unfold mem, look, agetd in H.
  destruct (aget room_eqb (nsmap m ns) r) as [b|] eqn:Eb; [|discriminate H].
  apply (aget_in room_eqb room_ok room_spec) in Eb; auto.
  unfold disc_names. apply in_map_iff. exists (r, b). split; [reflexivity|].
  apply filter_In. split; [exact Eb|]. cbn [snd]. rewrite H. reflexivity.
Qed.

Lemma mgr_disconnect_spec m sid ns :
  WF m ->
  let m' := mgr_disconnect m sid ns in
  WF m' /\ rem_eq m m' (fun ns' _ s' => str_eqb ns ns' && str_eqb sid s') /\
  (ns_rooms m ns <> None -> callbacks m' = adel str_eqb (callbacks m) sid) /\
  (ns_rooms m ns = None -> m' = disc_release m sid ns).
Proof.
  intros [HS HM] m'. subst m'.
  destruct (ns_rooms m ns) as [rm|] eqn:Ens.
  2: { assert (mgr_disconnect m sid ns = disc_release m sid ns) as -> by (unfold mgr_disconnect; rewrite Ens; reflexivity).
       split; [apply disc_release_wf; split; assumption|]. split; [|split; [congruence|reflexivity]].
       intros ns' r' s' _. rewrite (mem_ext _ _ (disc_release_rooms m sid ns)).
       destruct (str_eqb ns ns' && str_eqb sid s') eqn:C; [|reflexivity].
       apply andb_true_iff in C as [C1 C2]. apply str_eqb_eq in C1, C2. subst.
       unfold mem, look, nsmap, agetd. unfold ns_rooms in Ens. rewrite Ens. reflexivity. }
  assert (Hrm : rm = nsmap m ns) by (unfold nsmap, agetd; unfold ns_rooms in Ens; rewrite Ens; reflexivity).
  destruct (mgr_disconnect_parts m sid ns rm Ens) as (Er & Ec & Ep).
  set (L := map (fun r => (sid, r)) (disc_names rm sid)) in *.
  assert (HL : Forall (fun x => room_ok (snd x)) L).
  { apply Forall_forall. intros x Hx. apply in_map_iff in Hx as (r & <- & Hi). cbn [snd].
    pose proof (disc_names_ok rm sid) as Hok. rewrite Hrm in Hok at 1.
    specialize (Hok (struct_nsmap m ns HS)). rewrite Forall_forall in Hok. auto. }
  destruct (fold_leave_spec ns L m HS HL) as (HS1 & Hp1 & Hc1 & E1).
  assert (E : rem_eq m (mgr_disconnect m sid ns) (fun ns' _ s' => str_eqb ns ns' && str_eqb sid s')).
  { intros ns' r' s' Hr'. rewrite (mem_ext _ _ Er). rewrite E1 by assumption.
    destruct (str_eqb ns ns') eqn:C1; cbn [andb]; [|reflexivity]. apply str_eqb_eq in C1. subst ns'.
    destruct (hit L r' s') eqn:Hh; destruct (str_eqb sid s') eqn:C2; try reflexivity.
    - exfalso. apply existsb_exists in Hh as (x & Hx & Hc). apply in_map_iff in Hx as (r & <- & _).
      cbn [fst snd] in Hc. rewrite C2 in Hc. discriminate.
    - apply str_eqb_eq in C2. subst s'.
      destruct (mem m ns r' sid) as [e|] eqn:Em; [|reflexivity]. exfalso.
      assert (hit L r' sid = true); [|congruence].
      apply existsb_exists. exists (sid, r'). split.
      + apply in_map. rewrite Hrm. eapply disc_names_complete; eauto.
      + cbn [fst snd]. rewrite str_eqb_refl, room_refl by exact Hr'. reflexivity. }
  split; [|split; [exact E|split; [intros _; rewrite Ec, Hc1; reflexivity|discriminate]]].
  split.
  - destruct HS1 as (A & B & C). unfold Struct. rewrite Er. repeat split; auto.
  - eapply sem_remove; eauto.
Qed.

(* ---- operations that do not touch the rooms ---- *)
Lemma pre_disconnect_wf m sid ns : WF m -> WF (fst (pre_disconnect m sid ns)).
Proof.
  intro H. assert (Hp : NoDup (map fst (pending m))) by apply H.
  unfold pre_disconnect. destruct (room_of m ns PNone); cbn [fst];
    (eapply WF_ext; [| |exact H]; cbn [rooms pending]; [reflexivity|]);
    apply (e_nodup_aset str_eqb str_eqb_eq); exact Hp.
Qed.
Lemma generate_ack_id_wf m sid cb : WF m -> WF (fst (generate_ack_id m sid cb)).
Proof.
  intro H. assert (Hp : NoDup (map fst (pending m))) by apply H.
  unfold generate_ack_id.
  destruct (cb_counter _); cbn [fst]; (eapply WF_ext; [| |exact H]; cbn [rooms pending]; [reflexivity|exact Hp]).
Qed.
Lemma trigger_callback_wf m sid id : WF m -> WF (fst (trigger_callback m sid id)).
Proof.
  intro H. assert (Hp : NoDup (map fst (pending m))) by apply H.
  unfold trigger_callback. destruct sid as [s|]; [|exact H]. destruct id as [i|]; [|exact H].
  destruct (aget str_eqb (callbacks m) s) as [slot|]; [|exact H].
  destruct (i <=? 0)%Z; [exact H|].
  destruct (aget N.eqb (cb_entries slot) (Z.to_N i)); [|exact H].
  cbn [fst]. eapply WF_ext; [| |exact H]; cbn [rooms pending]; [reflexivity|exact Hp].
Qed.

(* ================================================================== *)
(* 4. histories: WF after every sequence of manager operations         *)
(* ================================================================== *)
Inductive mop :=
| MConnect (eio ns sid : str)          (* sid = the id drawn from the generator *)
| MEnter (sid ns : str) (room : pv)
| MLeave (sid ns : str) (room : pv)
| MClose (room : pv) (ns : str)
| MDisconnect (sid ns : str)
| MPreDisconnect (sid ns : str)
| MGenAck (sid : str) (cb : N)
| MTrigger (sid : option str) (id : option Z).

Definition mstep (m : mgr) (o : mop) : mgr :=
  match o with
  | MConnect eio ns sid => fst (mgr_connect m eio ns sid)
  | MEnter sid ns room => fst (enter_room m sid ns room)
  | MLeave sid ns room => leave_room m sid ns room
  | MClose room ns => close_room m room ns
  | MDisconnect sid ns => mgr_disconnect m sid ns
  | MPreDisconnect sid ns => fst (pre_disconnect m sid ns)
  | MGenAck sid cb => fst (generate_ack_id m sid cb)
  | MTrigger sid id => fst (trigger_callback m sid id)
  end.

(* application-visible room names: in the domain and not None *)
Definition name_ok (r : pv) : Prop := room_ok r /\ r <> PNone.
Definition op_ok (o : mop) : Prop :=
  match o with
  | MConnect _ _ sid => sid <> []
  | MEnter _ _ r | MLeave _ _ r | MClose r _ => name_ok r
  | _ => True
  end.
Definition connect_sids (ops : list mop) : list str :=
  flat_map (fun o => match o with MConnect _ _ sid => [sid] | _ => [] end) ops.

Lemma rooms_pre_disconnect m sid ns : rooms (fst (pre_disconnect m sid ns)) = rooms m.
Proof. unfold pre_disconnect. destruct (room_of m ns PNone); reflexivity. Qed.
Lemma rooms_generate_ack_id m sid cb : rooms (fst (generate_ack_id m sid cb)) = rooms m.
Proof. unfold generate_ack_id. destruct (cb_counter _); reflexivity. Qed.
Lemma rooms_trigger_callback m sid id : rooms (fst (trigger_callback m sid id)) = rooms m.
Proof.
  unfold trigger_callback. destruct sid as [s|]; [|reflexivity]. destruct id as [i|]; [|reflexivity].
  destruct (aget str_eqb (callbacks m) s) as [slot|]; [|reflexivity].
  destruct (i <=? 0)%Z; [reflexivity|].
  destruct (aget N.eqb (cb_entries slot) (Z.to_N i)); reflexivity.
Qed.

Lemma mstep_inv m o :
  WF m -> op_ok o -> (forall eio ns sid, o = MConnect eio ns sid -> fresh_sid m sid) ->
  WF (mstep m o) /\
  forall ns s e, mem (mstep m o) ns PNone s = Some e ->
    (exists e', mem m ns PNone s = Some e') \/ (exists eio ns0, o = MConnect eio ns0 s).
Proof.
  intros HW Hok Hfr. destruct o; cbn [mstep op_ok] in *.
  - destruct (mgr_connect m eio ns sid) as [m' r] eqn:E.
    destruct (mgr_connect_spec _ _ _ _ _ _ HW (Hfr _ _ _ eq_refl) E) as (HW' & _ & _ & Hr).
    cbn [fst]. split; [exact HW'|]. intros ns' s e H. destruct r as [s0|].
    + destruct Hr as (_ & _ & Heq). rewrite Heq in H by apply room_ok_None.
      destruct (str_eqb ns ns' && str_eqb sid s) eqn:C; cbn [andb] in H.
      * right. apply andb_true_iff in C as [_ C]. apply str_eqb_eq in C. subst. eauto.
      * left; eauto.
    + destruct Hr as [Hs _]. rewrite Hs in H by apply room_ok_None. left; eauto.
  - destruct (enter_room m sid ns room) as [m' res] eqn:E. destruct Hok as [Hr Hn].
    destruct (enter_room_spec _ _ _ _ _ _ HW Hr E) as (HW' & _ & _ & Hres).
    cbn [fst]. split; [exact HW'|]. intros ns' s e H. destruct res.
    + destruct Hres as (eio & H0 & Hi). rewrite Hi in H by apply room_ok_None.
      destruct (str_eqb ns ns' && room_eqb room PNone && str_eqb sid s) eqn:C.
      * apply cond3_true in C as (-> & _ & ->); auto using room_ok_None. left; eauto.
      * left; eauto.
    + destruct Hres as [-> _]. left; eauto.
  - destruct Hok as [Hr Hn]. split; [apply leave_room_wf; assumption|].
    destruct (leave_room_spec m sid ns room (proj1 HW) Hr) as (_ & _ & _ & E).
    intros ns' s e H. rewrite E in H by apply room_ok_None.
    destruct (str_eqb ns ns' && room_eqb room PNone && str_eqb sid s); [discriminate|left; eauto].
  - destruct Hok as [Hr Hn]. split; [apply close_room_wf; assumption|].
    destruct (close_room_eq m room ns (proj1 HW) Hr) as (_ & _ & _ & E).
    intros ns' s e H. rewrite E in H by apply room_ok_None.
    destruct (str_eqb ns ns' && room_eqb room PNone); [discriminate|left; eauto].
  - destruct (mgr_disconnect_spec m sid ns HW) as (HW' & E & _). split; [exact HW'|].
    intros ns' s e H. rewrite E in H by apply room_ok_None.
    destruct (str_eqb ns ns' && str_eqb sid s); [discriminate|left; eauto].
  - split; [apply pre_disconnect_wf; exact HW|]. intros ns' s e H.
    rewrite (mem_ext _ _ (rooms_pre_disconnect m sid ns)) in H. left; eauto.
  - split; [apply generate_ack_id_wf; exact HW|]. intros ns' s e H.
    rewrite (mem_ext _ _ (rooms_generate_ack_id m sid cb)) in H. left; eauto.
  - split; [apply trigger_callback_wf; exact HW|]. intros ns' s e H.
    rewrite (mem_ext _ _ (rooms_trigger_callback m sid id)) in H. left; eauto.
Qed.

Lemma nodup_app_disj {A} (l1 l2 : list A) x : NoDup (l1 ++ l2) -> In x l1 -> ~ In x l2.
Proof.
  induction l1 as [|y l1 IH]; cbn [app]; [intros _ []|].
  intros H [->|Hi] H2; inversion H; subst.
  - apply H3. apply in_or_app. right; exact H2.
  - exact (IH H4 Hi H2).
Qed.

Lemma nodup_app_r {A} (l1 l2 : list A) : NoDup (l1 ++ l2) -> NoDup l2.
Proof. induction l1 as [|y l1 IH]; cbn [app]; [auto|]. intro H; inversion H; auto. Qed.
Lemma nodup_app_l {A} (l1 l2 : list A) : NoDup (l1 ++ l2) -> NoDup l1.
Proof.
  induction l1 as [|y l1 IH]; cbn [app]; [constructor|]. intro H; inversion H; subst.
  constructor; [|auto]. intro Hi. apply H2. apply in_or_app. left; exact Hi.
Qed.

Lemma C03_wf_gen ops : forall m used,
  WF m -> (forall ns s e, mem m ns PNone s = Some e -> In s used) ->
  Forall op_ok ops -> NoDup (connect_sids ops) ->
  (forall s, In s used -> ~ In s (connect_sids ops)) ->
  WF (fold_left mstep ops m).
Proof.
  induction ops as [|a ops IH]; intros m used HW Hk Hok Hnd Hdis; cbn [fold_left]; [exact HW|].
  inversion Hok as [|? ? Ha Hok']; subst.
  assert (Hcs : connect_sids (a :: ops) = connect_sids [a] ++ connect_sids ops).
  { unfold connect_sids. cbn [flat_map]. rewrite app_nil_r. reflexivity. }
  assert (Hfr : forall eio ns sid, a = MConnect eio ns sid -> fresh_sid m sid).
  { intros eio ns sid ->. split; [exact Ha|]. intros ns'.
    destruct (mem m ns' PNone sid) as [e|] eqn:E; [|reflexivity]. exfalso.
    apply (Hdis sid); [eapply Hk; eauto|]. rewrite Hcs. left; reflexivity. }
  destruct (mstep_inv m a HW Ha Hfr) as [HW1 Hk1].
  apply (IH _ (connect_sids [a] ++ used)); auto.
  - intros ns s e H. apply in_or_app. destruct (Hk1 _ _ _ H) as [[e' He']|(eio & ns0 & ->)].
    + right. eapply Hk; eauto.
    + left. left; reflexivity.
  - rewrite Hcs in Hnd. eapply nodup_app_r; eauto.
  - intros s Hs. apply in_app_or in Hs as [Hs|Hs].
    + rewrite Hcs in Hnd. eapply nodup_app_disj; eauto.
    + intro Hc. apply (Hdis s Hs). rewrite Hcs. apply in_or_app. right; exact Hc.
Qed.

(* C03_wf: the invariant holds after every history whose generated sids are pairwise
   distinct and non-empty and whose room names are in the domain *)
Theorem C03_wf_thm ops :
  Forall op_ok ops -> NoDup (connect_sids ops) -> WF (fold_left mstep ops mgr_init).
Proof.
  intros Hok Hnd. apply (C03_wf_gen ops mgr_init []); auto using WF_init.
  intros ns s e H. discriminate H.
Qed.

(* ---- a non-trivial history: two namespaces, three transports, shared rooms, a room
   named like a session id, a leave, a close and a disconnect ---- *)
Definition x_ns1 : str := s2l "/".
Definition x_ns2 : str := s2l "/chat".
Definition x_ops : list mop :=
  [ MConnect (s2l "e1") x_ns1 (s2l "S1"); MConnect (s2l "e2") x_ns1 (s2l "S2");
    MConnect (s2l "e3") x_ns1 (s2l "S3"); MConnect (s2l "e1") x_ns2 (s2l "S4");
    MConnect (s2l "e2") x_ns2 (s2l "S5");
    MEnter (s2l "S1") x_ns1 (PStr (s2l "room")); MEnter (s2l "S2") x_ns1 (PStr (s2l "room"));
    MEnter (s2l "S2") x_ns1 (PInt 7); MEnter (s2l "S3") x_ns1 (PInt 7);
    MEnter (s2l "S3") x_ns1 (PStr (s2l "S1"));         (* a room named like S1's session id *)
    MEnter (s2l "S4") x_ns2 (PStr (s2l "room")); MEnter (s2l "S5") x_ns2 (PStr (s2l "room"));
    MGenAck (s2l "S1") 11; MGenAck (s2l "S1") 12; MGenAck (s2l "S4") 13;
    MTrigger (Some (s2l "S1")) (Some 1%Z) ].
Definition x_mgr : mgr := fold_left mstep x_ops mgr_init.
Definition x_ops2 : list mop :=
  x_ops ++ [ MLeave (s2l "S2") x_ns1 (PStr (s2l "room")); MClose (PInt 7) x_ns1;
             MPreDisconnect (s2l "S5") x_ns2; MDisconnect (s2l "S5") x_ns2 ].

Ltac solve_ops_ok :=
  repeat (apply Forall_cons; [first [exact I | discriminate | (split; [reflexivity|discriminate])]|]);
  apply Forall_nil.
Ltac solve_nodup_str :=
  repeat (apply NoDup_cons; [cbn [In]; intuition discriminate|]); apply NoDup_nil.

Example x_ops_ok : Forall op_ok x_ops2 /\ NoDup (connect_sids x_ops2).
Proof. split; [solve_ops_ok|cbn; solve_nodup_str]. Qed.
Example C03_wf_example : WF x_mgr /\ WF (fold_left mstep x_ops2 mgr_init).
Proof.
  destruct x_ops_ok as [H1 H2]. split; [|apply C03_wf_thm; assumption].
  apply C03_wf_thm.
  - unfold x_ops2 in H1. apply Forall_app in H1. apply H1.
  - unfold x_ops2, connect_sids in H2. rewrite flat_map_app in H2.
    eapply nodup_app_l. exact H2.
Qed.
Example x_mgr_rooms :
  map (fun nr => (fst nr, map (fun rb => (fst rb, map fst (snd rb))) (snd nr))) (rooms x_mgr) =
  [ (x_ns1, [ (PNone, [s2l "S1"; s2l "S2"; s2l "S3"]); (PStr (s2l "S1"), [s2l "S1"; s2l "S3"]);
              (PStr (s2l "S2"), [s2l "S2"]); (PStr (s2l "S3"), [s2l "S3"]);
              (PStr (s2l "room"), [s2l "S1"; s2l "S2"]); (PInt 7, [s2l "S2"; s2l "S3"]) ]);
    (x_ns2, [ (PNone, [s2l "S4"; s2l "S5"]); (PStr (s2l "S4"), [s2l "S4"]);
              (PStr (s2l "S5"), [s2l "S5"]); (PStr (s2l "room"), [s2l "S4"; s2l "S5"]) ]) ].
Proof. vm_compute. reflexivity. Qed.

(* ---- preservation of WF, one statement per operation ---- *)
Lemma mgr_connect_wf m eio ns sid : WF m -> fresh_sid m sid -> WF (fst (mgr_connect m eio ns sid)).
Proof.
  intros HW Hf. destruct (mgr_connect m eio ns sid) as [m' r] eqn:E.
  exact (proj1 (mgr_connect_spec _ _ _ _ _ _ HW Hf E)).
Qed.
Lemma enter_room_wf m sid ns room : WF m -> room_ok room -> WF (fst (enter_room m sid ns room)).
Proof.
  intros HW Hr. destruct (enter_room m sid ns room) as [m' r] eqn:E.
  exact (proj1 (enter_room_spec _ _ _ _ _ _ HW Hr E)).
Qed.
Lemma mgr_disconnect_wf m sid ns : WF m -> WF (mgr_disconnect m sid ns).
Proof. intro HW. exact (proj1 (mgr_disconnect_spec m sid ns HW)). Qed.
(* under WF the ValueDuplicationError branch of basic_enter_room is unreachable *)
Lemma enter_room_no_dup_error m sid ns room :
  WF m -> room_ok room -> snd (enter_room m sid ns room) <> Err OtherError.
Proof.
  intros HW Hr. destruct (enter_room m sid ns room) as [m' r] eqn:E.
  destruct (enter_room_spec _ _ _ _ _ _ HW Hr E) as (_ & _ & _ & H). cbn [snd].
  destruct r as [u|e]; [discriminate|]. destruct H as [_ [[-> _]|[-> _]]]; discriminate.
Qed.
