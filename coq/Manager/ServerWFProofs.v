(* C03: the manager invariant WF holds in every state reachable through the SERVER model
   (Server.step / Server.run), provided the room names used by the application (API
   operations and scripted handler actions) are in the property's domain.  Hence the
   executable theorems C03_exec_* apply to every reachable state without a premise. *)
From VT Require Import Manager.Manager Manager.ManagerProofs Manager.RoomsSpec Check.C03Check
                       Manager.RoomsProofs.
From Coq Require Import Lia ZifyBool.
Open Scope N_scope.

(* ================================================================== *)
(* 1. a preservation judgement for the state/effect/exception monad    *)
(* ================================================================== *)
Definition st {A} (x : srv * list eff * Res A) : srv := fst (fst x).
Definition keeps {A} (J : srv -> Prop) (m : SM A) : Prop := forall s, J s -> J (st (m s)).

Section Keeps.
  Variable J : srv -> Prop.
  Lemma keeps_ret {A} (a : A) : keeps J (ret a).
  Proof. intros s H; exact H. Qed.
  Lemma keeps_raise {A} x : keeps J (@raise srv eff A x).
  Proof. intros s H; exact H. Qed.
  Lemma keeps_lift {A} (r : Res A) : keeps J (lift r).
  Proof. intros s H; exact H. Qed.
  Lemma keeps_tell e : keeps J (tell e).
  Proof. intros s H; exact H. Qed.
  Lemma keeps_getS : keeps J getS.
  Proof. intros s H; exact H. Qed.
  Lemma bind_at {A B} (m : SM A) (k : A -> SM B) s :
    J (st (m s)) -> (forall a, keeps J (k a)) -> J (st (bindM m k s)).
  Proof.
    unfold st, bindM. intros H Hk. destruct (m s) as [[s1 e1] [a|x]]; cbn [fst] in *; [|exact H].
    specialize (Hk a s1 H). unfold st in Hk. destruct (k a s1) as [[s2 e2] r]. exact Hk.
  Qed.
  Lemma keeps_bind {A B} (m : SM A) (k : A -> SM B) :
    keeps J m -> (forall a, keeps J (k a)) -> keeps J (bindM m k).
  Proof. intros Hm Hk s H. apply bind_at; auto. Qed.
  (* the continuation may use that the value read is the current state *)
  Lemma keeps_getS_bind {B} (k : srv -> SM B) :
    (forall s, J s -> J (st (k s s))) -> keeps J (bindM getS k).
  Proof.
    intros Hk s H. specialize (Hk s H). unfold st, bindM, getS in *.
    destruct (k s s) as [[s2 e2] r]. exact Hk.
  Qed.
  Lemma keeps_catch {A} (m : SM A) h :
    keeps J m -> (forall x k, h x = Some k -> keeps J k) -> keeps J (catch m h).
  Proof.
    intros Hm Hh s H. specialize (Hm s H). unfold st, catch in *.
    destruct (m s) as [[s1 e1] [a|x]]; cbn [fst] in *; [exact Hm|].
    destruct (h x) as [k|] eqn:E; [|exact Hm].
    specialize (Hh x k E s1 Hm). unfold st in Hh. destruct (k s1) as [[s2 e2] r]. exact Hh.
  Qed.
  Lemma keeps_contain (m : SM unit) : keeps J m -> keeps J (contain m).
  Proof. intros Hm s H. specialize (Hm s H). unfold st, contain in *. destruct (m s) as [[s1 e1] r]. exact Hm. Qed.
  Lemma keeps_finally {A} (m : SM A) f : keeps J m -> keeps J f -> keeps J (finallyM m f).
  Proof.
    intros Hm Hf s H. specialize (Hm s H). unfold st, finallyM in *.
    destruct (m s) as [[s1 e1] r]; cbn [fst] in *. specialize (Hf s1 Hm). unfold st in Hf.
    destruct (f s1) as [[s2 e2] [u|x]]; exact Hf.
  Qed.
  Lemma keeps_api (m : SM unit) : keeps J m -> keeps J (api m).
  Proof.
    intros Hm s H. specialize (Hm s H). unfold st, api in *.
    destruct (m s) as [[s1 e1] [u|x]]; exact Hm.
  Qed.
  Lemma keeps_forM {A} (l : list A) (f : A -> SM unit) :
    (forall x, In x l -> keeps J (f x)) -> keeps J (forM l f).
  Proof.
    induction l as [|x l IH]; intros Hf; cbn [forM]; [apply keeps_ret|].
    apply keeps_bind; [apply Hf; left; reflexivity|]. intros _. apply IH. intros y Hy. apply Hf. right; exact Hy.
  Qed.
  Lemma keeps_forM_keep {A} (l : list A) (f : A -> SM unit) first :
    (forall x, In x l -> keeps J (f x)) -> keeps J (forM_keep l f first).
  Proof.
    revert first. induction l as [|x l IH]; intros first Hf; cbn [forM_keep]; [apply keeps_ret|].
    intros s H. pose proof (Hf x (or_introl eq_refl) s H) as Hx. unfold st in *.
    destruct (f x s) as [[s1 e1] res]; cbn [fst] in *.
    pose proof (IH (match first, res with None, Err e => Some e | _, _ => first end)
                   (fun y Hy => Hf y (or_intror Hy)) s1 Hx) as Hr. unfold st in Hr.
    destruct (forM_keep l f _ s1) as [[s2 e2] out]. exact Hr.
  Qed.
  Lemma keeps_modify f : (forall s, J s -> J (f s)) -> keeps J (modify f).
  Proof. intros Hf s H. exact (Hf s H). Qed.
End Keeps.

(* ================================================================== *)
(* 2. the server-level invariant                                       *)
(* ================================================================== *)
(* every connected sid was drawn from the counter *)
Definition known (m : mgr) (fr : N) : Prop :=
  forall ns sid e, mem m ns PNone sid = Some e -> exists k, k < fr /\ sid = sid_name k.
Definition SInv (s : srv) : Prop := WF (mg s) /\ known (mg s) (fresh s).
Definition upd_mg (s : srv) (m : mgr) : srv :=
  mkSrv m (environ s) (binpkt s) (sessions s) (live s) (fresh s).

Lemma SInv_init : SInv srv_init.
Proof. split; [exact WF_init|]. intros ns sid e H. discriminate H. Qed.
Lemma SInv_same s s' : mg s' = mg s -> fresh s' = fresh s -> SInv s -> SInv s'.
Proof. unfold SInv. intros -> ->. auto. Qed.

Lemma SInv_mstep s o :
  op_ok o -> (forall eio ns sid, o <> MConnect eio ns sid) -> SInv s -> SInv (upd_mg s (mstep (mg s) o)).
Proof.
  intros Hok Hnc [HW HK]. destruct (mstep_inv (mg s) o HW Hok) as [HW' Hk'].
  { intros eio ns sid E. exfalso. eapply Hnc; eauto. }
  split; cbn [upd_mg mg fresh]; [exact HW'|]. intros ns sid e H.
  destruct (Hk' _ _ _ H) as [[e' He']|(eio & ns0 & E)]; [eapply HK; eauto|exfalso; eapply Hnc; eauto].
Qed.

Lemma SInv_connect s eio ns :
  SInv s ->
  SInv (upd_mg (mkSrv (mg s) (environ s) (binpkt s) (sessions s) (live s) (fresh s + 1))
               (fst (mgr_connect (mg s) eio ns (sid_name (fresh s))))).
Proof.
  intros [HW HK].
  assert (Hfr : fresh_sid (mg s) (sid_name (fresh s))).
  { split; [apply sid_name_nonempty|]. intros ns'.
    destruct (mem (mg s) ns' PNone (sid_name (fresh s))) as [e|] eqn:E; [|reflexivity]. exfalso.
    destruct (HK _ _ _ E) as (k & Hk & Hs). apply sid_name_inj in Hs. lia. }
  destruct (mstep_inv (mg s) (MConnect eio ns (sid_name (fresh s))) HW (sid_name_nonempty _)) as [HW' Hk'].
  { intros eio0 ns0 sid0 E. injection E as _ _ <-. exact Hfr. }
  cbn [mstep] in *. split; cbn [upd_mg mg fresh]; [exact HW'|]. intros ns' sid e H.
  destruct (Hk' _ _ _ H) as [[e' He']|(eio0 & ns0 & E)].
  - destruct (HK _ _ _ He') as (k & Hk & ->). exists k. split; [lia|reflexivity].
  - injection E as _ _ <-. exists (fresh s). split; [lia|reflexivity].
Qed.

Lemma with_mg_run {A} (f : mgr -> mgr * A) s :
  with_mg f s = (upd_mg s (fst (f (mg s))), [], Ok (snd (f (mg s)))).
Proof. unfold with_mg, bindM, getS, putS, ret, upd_mg. destruct (f (mg s)) as [m' a]. reflexivity. Qed.
Lemma keeps_with_mg {A} (J : srv -> Prop) (f : mgr -> mgr * A) :
  (forall s, J s -> J (upd_mg s (fst (f (mg s))))) -> keeps J (with_mg f).
Proof. intros Hf s H. rewrite with_mg_run. exact (Hf s H). Qed.
Lemma keeps_set_mg (J : srv -> Prop) (g : mgr -> mgr) :
  (forall s, J s -> J (upd_mg s (g (mg s)))) -> keeps J (set_mg g).
Proof. intros Hg. unfold set_mg. apply keeps_modify. exact Hg. Qed.

Ltac not_connect := let H := fresh in intros ? ? ? H; discriminate H.

Lemma keeps_enter sid ns room : name_ok room -> keeps SInv (with_mg (fun m => enter_room m sid ns room)).
Proof. intro Hr. apply keeps_with_mg. intros s H. apply (SInv_mstep s (MEnter sid ns room)); [exact Hr|not_connect|exact H]. Qed.
Lemma keeps_leave sid ns room : name_ok room -> keeps SInv (set_mg (fun m => leave_room m sid ns room)).
Proof. intro Hr. apply keeps_set_mg. intros s H. apply (SInv_mstep s (MLeave sid ns room)); [exact Hr|not_connect|exact H]. Qed.
Lemma keeps_close room ns : name_ok room -> keeps SInv (set_mg (fun m => close_room m room ns)).
Proof. intro Hr. apply keeps_set_mg. intros s H. apply (SInv_mstep s (MClose room ns)); [exact Hr|not_connect|exact H]. Qed.
Lemma keeps_disconnect sid ns : keeps SInv (set_mg (fun m => mgr_disconnect m sid ns)).
Proof. apply keeps_set_mg. intros s H. apply (SInv_mstep s (MDisconnect sid ns)); [exact I|not_connect|exact H]. Qed.
Lemma keeps_pre_disconnect sid ns : keeps SInv (with_mg (fun m => pre_disconnect m sid ns)).
Proof. apply keeps_with_mg. intros s H. apply (SInv_mstep s (MPreDisconnect sid ns)); [exact I|not_connect|exact H]. Qed.
Lemma keeps_gen_ack sid cb : keeps SInv (with_mg (fun m => generate_ack_id m sid cb)).
Proof. apply keeps_with_mg. intros s H. apply (SInv_mstep s (MGenAck sid cb)); [exact I|not_connect|exact H]. Qed.
Lemma keeps_trigger_cb osid id : keeps SInv (with_mg (fun m => trigger_callback m osid id)).
Proof. apply keeps_with_mg. intros s H. apply (SInv_mstep s (MTrigger osid id)); [exact I|not_connect|exact H]. Qed.
Lemma keeps_modify_other (f : srv -> srv) :
  (forall s, mg (f s) = mg s) -> (forall s, fresh (f s) = fresh s) -> keeps SInv (modify f).
Proof. intros H1 H2. apply keeps_modify. intros s H. eapply SInv_same; eauto. Qed.

Create HintDb kp.
#[local] Hint Resolve keeps_ret keeps_raise keeps_lift keeps_tell keeps_getS keeps_disconnect
  keeps_pre_disconnect keeps_gen_ack keeps_trigger_cb : kp.

Ltac kstep :=
  match goal with
  | |- keeps _ _ => solve [auto with kp]
  | |- keeps _ (bindM _ _) => apply keeps_bind; [|intro]
  | |- keeps _ (forM _ _) => apply keeps_forM; intros ? ?
  | |- keeps _ (finallyM _ _) => apply keeps_finally
  | |- keeps _ (contain _) => apply keeps_contain
  | |- keeps _ (api _) => apply keeps_api
  | |- keeps _ (if ?b then _ else _) => destruct b
  | |- keeps _ (match ?x with _ => _ end) => destruct x
  end.
Ltac kauto := repeat kstep.

(* ================================================================== *)
(* 3. every function of the server model keeps SInv                    *)
(* ================================================================== *)
Lemma keeps_send_pieces eio pieces : keeps SInv (send_pieces eio pieces).
Proof. unfold send_pieces. kauto. Qed.
#[local] Hint Resolve keeps_send_pieces : kp.
Lemma keeps_send_packet c eio t data ns id : keeps SInv (send_packet c eio t data ns id).
Proof. unfold send_packet. kauto. Qed.
#[local] Hint Resolve keeps_send_packet : kp.
Lemma keeps_mgr_emit c ev data ns room skip cb : keeps SInv (mgr_emit c ev data ns room skip cb).
Proof. unfold mgr_emit. kauto. Qed.
Lemma keeps_api_emit c ev data to room skip ns cb : keeps SInv (api_emit c ev data to room skip ns cb).
Proof. unfold api_emit. apply keeps_mgr_emit. Qed.
#[local] Hint Resolve keeps_mgr_emit keeps_api_emit : kp.

Lemma keeps_set_session eio d : keeps SInv (set_session eio d).
Proof. unfold set_session. apply keeps_modify_other; reflexivity. Qed.
#[local] Hint Resolve keeps_set_session : kp.
Lemma keeps_api_get_session sid ns : keeps SInv (api_get_session sid ns).
Proof. unfold api_get_session. kauto. Qed.
Lemma keeps_api_save_session sid v ns : keeps SInv (api_save_session sid v ns).
Proof. unfold api_save_session. kauto. Qed.
#[local] Hint Resolve keeps_api_get_session keeps_api_save_session : kp.

(* room names used by the application *)
Definition action_rooms_ok (a : action) : Prop :=
  match a with AEnter r | ALeave r => name_ok r | _ => True end.
Definition cfg_rooms_ok (c : cfg) : Prop :=
  forall hid b a, In (hid, b) (behav c) -> In a (h_actions b) -> action_rooms_ok a.
Definition op_rooms_ok (o : op) : Prop :=
  match o with
  | ApiEnterRoom _ r _ | ApiLeaveRoom _ r _ | ApiCloseRoom r _ => name_ok r
  | _ => True
  end.

Lemma keeps_run_action c ns sid a : action_rooms_ok a -> keeps SInv (run_action c ns sid a).
Proof.
  intro Hok. destruct a; cbn [run_action action_rooms_ok] in *.
  - apply keeps_bind; [apply keeps_enter; exact Hok|intro; apply keeps_lift].
  - apply keeps_leave; exact Hok.
  - auto with kp.
  - auto with kp.
  - auto with kp.
  - kauto.
Qed.

Section Handlers.
  Variable c : cfg.
  Hypothesis Hc : cfg_rooms_ok c.
  Lemma keeps_call_handler hid ns sid args : keeps SInv (call_handler c hid ns sid args).
  Proof.
    unfold call_handler. destruct (aget N.eqb (behav c) hid) as [b|] eqn:Hb; [|apply keeps_raise].
    apply (e_aget_some_in N.eqb N_eqb_eq') in Hb.
    destruct (match h_arity b with Some n => negb (Nat.eqb n (List.length args)) | None => false end);
      [apply keeps_raise|].
    apply keeps_bind; [apply keeps_tell|]. intros _.
    apply keeps_bind.
    - apply keeps_forM. intros a Ha. apply keeps_run_action. eapply Hc; eauto.
    - intros _. destruct (h_outcome b); auto with kp.
  Qed.
  Lemma keeps_call_with_retry ev hid ns sid args : keeps SInv (call_with_retry c ev hid ns sid args).
  Proof.
    unfold call_with_retry. apply keeps_catch; [apply keeps_call_handler|].
    intros x k Hx. destruct x; try discriminate Hx. destruct (is_disconnect ev); [|discriminate Hx].
    injection Hx as <-. apply keeps_call_handler.
  Qed.
  Hint Resolve keeps_call_with_retry : kp.
  Lemma keeps_trigger_event ev ns args : keeps SInv (trigger_event c ev ns args).
  Proof. unfold trigger_event. kauto. Qed.
  Hint Resolve keeps_trigger_event : kp.

  Lemma put_with_run {A} s1 (f : mgr -> mgr * A) (s : srv) :
    st ((putS s1 ;;; with_mg f) s) = upd_mg s1 (fst (f (mg s1))).
  Proof. unfold st, bindM, putS. rewrite with_mg_run. reflexivity. Qed.

  Lemma keeps_handle_connect eio pns data : keeps SInv (handle_connect c eio pns data).
  Proof.
    unfold handle_connect. apply keeps_getS_bind. intros s HJ. apply bind_at.
    - destruct (served c (ns_or_default pns)); [|exact HJ].
      rewrite put_with_run. cbn [mg]. apply SInv_connect. exact HJ.
    - intros osid. destruct osid as [sid|]; [|auto with kp].
      apply keeps_bind; [destruct (always_connect c); auto with kp|]. intros _.
      apply keeps_bind; [destruct (aget str_eqb (environ s) eio); auto with kp|]. intros env.
      apply keeps_bind.
      + apply keeps_catch.
        * apply keeps_bind; [|intro; apply keeps_ret].
          destruct (truthy data); [auto with kp|].
          apply keeps_catch; [auto with kp|].
          intros x k Hx. destruct x; try discriminate Hx. injection Hx as <-. auto with kp.
        * intros x k Hx. destruct x; try discriminate Hx. injection Hx as <-. apply keeps_ret.
      + intros [success fail_reason].
        destruct (match success with Some v => pv_eqb v (PBool false) | None => false end).
        * apply keeps_finally; [|auto with kp]. destruct (always_connect c); kauto.
        * destruct (always_connect c); auto with kp.
  Qed.

  Lemma keeps_handle_disconnect eio pns reason : keeps SInv (handle_disconnect c eio pns reason).
  Proof. unfold handle_disconnect. kauto. Qed.
  Lemma keeps_handle_event eio pns id data : keeps SInv (handle_event c eio pns id data).
  Proof. unfold handle_event. kauto. Qed.
  Lemma keeps_handle_ack eio pns id data : keeps SInv (handle_ack c eio pns id data).
  Proof. unfold handle_ack. kauto. Qed.
  Lemma keeps_set_binpkt f : keeps SInv (set_binpkt f).
  Proof. unfold set_binpkt. apply keeps_modify_other; reflexivity. Qed.
  Hint Resolve keeps_handle_connect keeps_handle_disconnect keeps_handle_event keeps_handle_ack
       keeps_set_binpkt : kp.
  Lemma keeps_handle_eio_message loads eio payload : keeps SInv (handle_eio_message c loads eio payload).
  Proof. unfold handle_eio_message. kauto. Qed.
  Lemma keeps_handle_eio_disconnect eio reason : keeps SInv (handle_eio_disconnect c eio reason).
  Proof.
    unfold handle_eio_disconnect. apply keeps_bind; [apply keeps_getS|]. intros s0.
    apply keeps_bind; [apply keeps_forM_keep; intros; auto with kp|]. intros exc.
    apply keeps_bind; [apply keeps_modify_other; reflexivity|]. intros _. destruct exc; auto with kp.
  Qed.
  Lemma keeps_api_disconnect sid pns : keeps SInv (api_disconnect c sid pns).
  Proof. unfold api_disconnect. kauto. Qed.
  Hint Resolve keeps_handle_eio_message keeps_handle_eio_disconnect keeps_api_disconnect : kp.

  Lemma keeps_step_m o : op_rooms_ok o -> keeps SInv (step_m c o).
  Proof.
    intro Hok. destruct o; cbn [step_m op_rooms_ok] in *.
    - apply keeps_modify_other; reflexivity.
    - kauto.
    - apply keeps_bind; [apply keeps_getS|]. intros s0.
      destruct (existsb (str_eqb eio) (live s0)); [|apply keeps_ret].
      apply keeps_bind; [apply keeps_contain; auto with kp|]. intros _.
      apply keeps_modify_other; reflexivity.
    - kauto.
    - apply keeps_api. apply keeps_bind; [apply keeps_enter; exact Hok|intro; apply keeps_lift].
    - apply keeps_api. apply keeps_leave; exact Hok.
    - apply keeps_api. apply keeps_close; exact Hok.
    - kauto.
    - kauto.
    - kauto.
    - kauto.
    - kauto.
  Qed.
End Handlers.

Lemma step_st c s o : fst (step c s o) = st (step_m c o s).
Proof. unfold step, st. destruct (step_m c o s) as [[s' e] r]. reflexivity. Qed.

Theorem step_SInv c s o : cfg_rooms_ok c -> op_rooms_ok o -> SInv s -> SInv (fst (step c s o)).
Proof. intros Hc Ho H. rewrite step_st. apply keeps_step_m; assumption. Qed.

Theorem run_SInv c ops : cfg_rooms_ok c -> Forall op_rooms_ok ops ->
  forall s, SInv s -> SInv (fst (run c s ops)).
Proof.
  intros Hc. induction ops as [|o ops IH]; intros Hok s H; cbn [run]; [exact H|].
  inversion Hok as [|? ? Ho Hok']; subst.
  pose proof (step_SInv c s o Hc Ho H) as H1.
  destruct (step c s o) as [s1 e]; cbn [fst] in H1.
  specialize (IH Hok' s1 H1). destruct (run c s1 ops) as [s2 es]. exact IH.
Qed.

(* WF in every state reachable through the server model *)
Theorem C03_wf_server_run_thm c ops :
  cfg_rooms_ok c -> Forall op_rooms_ok ops -> WF (mg (fst (run c srv_init ops))).
Proof. intros Hc Hok. exact (proj1 (run_SInv c ops Hc Hok srv_init SInv_init)). Qed.

(* hence the model's own run passes the C03 checker in every reachable state *)
Theorem C03_exec_reachable_thm c ops :
  cfg_rooms_ok c -> Forall op_rooms_ok ops ->
  let s := fst (run c srv_init ops) in
  (forall ev data to room skip ns,
     c03_step c s (ApiEmit ev data to room skip ns None)
              (snd (step c s (ApiEmit ev data to room skip ns None))) = true) /\
  (forall sid ns, c03_step c s (ApiRooms sid ns) (snd (step c s (ApiRooms sid ns))) = true).
Proof.
  intros Hc Hok s. pose proof (C03_wf_server_run_thm c ops Hc Hok) as HW. fold s in HW. split.
  - intros. apply C03_exec_emit. exact HW.
  - intros. apply C03_exec_rooms. exact HW.
Qed.

(* ---- non-vacuity: a served configuration whose "join" handler enters a room and emits to
   it, two transports, two namespaces, packets decoded from the wire ---- *)
Definition y_cfg : cfg :=
  mkCfg [(s2l "/", [(s2l "join", 1)])] []
        [(1, mkBehav None [AEnter (PStr (s2l "lobby"));
                           AEmitRoom (s2l "hi") PNone (PStr (s2l "lobby")) true] (Returns PNone))]
        None false true.
Definition y_join : jtable := [(s2l "[""join""]", Ok (PList [PStr (s2l "join")]))].
Definition y_ops : list op :=
  [ EioConnect (s2l "e1") (PDict []); EioConnect (s2l "e2") (PDict []);
    EioMessage (s2l "e1") (PStr (s2l "0")) []; EioMessage (s2l "e2") (PStr (s2l "0")) [];
    EioMessage (s2l "e1") (PStr (s2l "0/chat,")) [];
    EioMessage (s2l "e1") (PStr (s2l "2[""join""]")) y_join;
    EioMessage (s2l "e2") (PStr (s2l "2[""join""]")) y_join;
    ApiEnterRoom (s2l "S1") (PInt 7) None; ApiLeaveRoom (s2l "S0") (PStr (s2l "lobby")) None ].

Example C03_wf_server_run_example :
  cfg_rooms_ok y_cfg /\ Forall op_rooms_ok y_ops /\
  WF (mg (fst (run y_cfg srv_init y_ops))) /\
  map (fun nr => (fst nr, map (fun rb => (fst rb, map fst (snd rb))) (snd nr)))
      (rooms (mg (fst (run y_cfg srv_init y_ops)))) =
  [ (s2l "/", [ (PNone, [s2l "S0"; s2l "S1"]); (PStr (s2l "S0"), [s2l "S0"]);
                (PStr (s2l "S1"), [s2l "S1"]); (PStr (s2l "lobby"), [s2l "S1"]); (PInt 7, [s2l "S1"]) ]);
    (s2l "/chat", [ (PNone, [s2l "S2"]); (PStr (s2l "S2"), [s2l "S2"]) ]) ].
Proof.
  assert (Hc : cfg_rooms_ok y_cfg).
  { intros hid b a [H|[]] Ha. injection H as <- <-. cbn [h_actions] in Ha.
    destruct Ha as [<-|[<-|[]]]; cbn; [split; [reflexivity|discriminate]|exact I]. }
  assert (Ho : Forall op_rooms_ok y_ops).
  { repeat (apply Forall_cons; [first [exact I|split; [reflexivity|discriminate]]|]). apply Forall_nil. }
  split; [exact Hc|]. split; [exact Ho|]. split; [apply C03_wf_server_run_thm; assumption|].
  vm_compute. reflexivity.
Qed.
