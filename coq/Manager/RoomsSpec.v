(* Abstract specification of rooms: who is addressed by an emit. *)
From VT Require Export Server.Server.
Open Scope N_scope.

(* members of a namespace: (sid, transport) pairs, i.e. the "everybody" room *)
Definition members (m : mgr) (ns : str) : list (str * str) :=
  match room_of m ns PNone with Some b => b | None => [] end.
Definition in_room (m : mgr) (ns : str) (room : pv) (sid : str) : bool :=
  match room_of m ns room with
  | Some b => match bd_get b sid with Some _ => true | None => false end
  | None => false
  end.
(* the rooms an emit addresses: a list / tuple of names, or one name (None = broadcast) *)
Definition addressed (target : pv) : list pv :=
  match target with PList l | PTuple l => l | r => [r] end.

(* exactly the connected clients of [ns] that are in at least one addressed room and not skipped *)
Definition spec_recipients (m : mgr) (ns : str) (target : pv) (skip : pv) : list (str * str) :=
  filter (fun se => existsb (fun r => in_room m ns r (fst se)) (addressed target)
                    && negb (skipped (skip_list skip) (fst se)))
         (members m ns).
