(* C06 at the manager level: the per-client ack-id counter and the callback table
   (BaseManager._generate_ack_id, Manager.trigger_callback, basic_disconnect). *)
From VT Require Import Manager.Manager Manager.ManagerProofs Check.C06Check.
From Coq Require Import Lia ZifyBool Sorted.
Open Scope N_scope.

(* ================================================================== *)
(* 1. the invariant                                                    *)
(* ================================================================== *)
Definition slot_ok (sl : cbslot) : Prop :=
  exists n, cb_counter sl = Some n /\ 1 <= n /\ NoDup (map fst (cb_entries sl)) /\
            forall id cb, In (id, cb) (cb_entries sl) -> 1 <= id < n.
Definition AckInv (m : mgr) : Prop :=
  NoDup (map fst (callbacks m)) /\ Forall slot_ok (map snd (callbacks m)).

(* the id the next _generate_ack_id(sid) will return *)
Definition next_id (m : mgr) (sid : str) : N :=
  match aget str_eqb (callbacks m) sid with
  | Some sl => match cb_counter sl with Some n => n | None => 0 end
  | None => 1
  end.

Lemma slot_ok_fresh : slot_ok (mkSlot (Some 1) []).
Proof.
  exists 1. cbn [cb_counter cb_entries]. split; [reflexivity|]. split; [lia|].
  split; [constructor|]. intros id cb [].
Qed.
Lemma AckInv_init : AckInv mgr_init.
Proof. split; constructor. Qed.
Lemma AckInv_ext m m' : callbacks m' = callbacks m -> AckInv m -> AckInv m'.
Proof. unfold AckInv. intros ->. auto. Qed.
Lemma AckInv_slot m sid sl : AckInv m -> aget str_eqb (callbacks m) sid = Some sl -> slot_ok sl.
Proof. intros [_ H] E. eapply vals_aget; eauto. Qed.

Lemma entries_key_in (l : list (N * N)) id : In id (map fst l) -> exists cb, In (id, cb) l.
Proof. intro H. apply in_map_iff in H as ([i c] & <- & Hi). exists c. exact Hi. Qed.

Lemma slot_ok_add sl n cb :
  slot_ok sl -> cb_counter sl = Some n -> slot_ok (mkSlot (Some (n + 1)) (aset N.eqb (cb_entries sl) n cb)).
Proof.
  intros (n0 & Hc & Hn & Hnd & Hb) E. rewrite Hc in E. injection E as ->.
  exists (n + 1). cbn [cb_counter cb_entries]. split; [reflexivity|]. split; [lia|]. split.
  - apply (e_nodup_aset N.eqb N_eqb_eq'). exact Hnd.
  - intros id c Hi.
    assert (Hk : In id (map fst (aset N.eqb (cb_entries sl) n cb))).
    { change id with (fst (id, c)). apply in_map. exact Hi. }
    apply keys_aset_incl in Hk as [->|Hk]; [lia|].
    apply entries_key_in in Hk as [c' Hc']. specialize (Hb _ _ Hc'). lia.
Qed.
Lemma slot_ok_del sl id :
  slot_ok sl -> slot_ok (mkSlot (cb_counter sl) (adel N.eqb (cb_entries sl) id)).
Proof.
  intros (n & Hc & Hn & Hnd & Hb). exists n. cbn [cb_counter cb_entries].
  split; [exact Hc|]. split; [exact Hn|]. split; [apply nodup_adel; exact Hnd|].
  intros i c Hi. apply in_adel in Hi. eauto.
Qed.

(* ---- callbacks are touched only by three operations ---- *)
Lemma leave_room_callbacks m sid ns room : callbacks (leave_room m sid ns room) = callbacks m.
Proof.
  unfold leave_room. destruct (ns_rooms m ns) as [rm|]; [|reflexivity].
  destruct (aget room_eqb rm room) as [b|]; [|reflexivity].
  destruct (bd_get b sid); [|reflexivity].
  destruct (match adel str_eqb b sid with [] => adel room_eqb rm room | _ => _ end); reflexivity.
Qed.
Lemma fold_leave_callbacks {A} (f : A -> str) (g : A -> pv) ns (l : list A) m :
  callbacks (fold_left (fun m x => leave_room m (f x) ns (g x)) l m) = callbacks m.
Proof.
  revert m. induction l as [|x l IH]; intro m; cbn [fold_left]; [reflexivity|].
  rewrite IH. apply leave_room_callbacks.
Qed.
Lemma put_member_callbacks m ns room sid eio : callbacks (fst (put_member m ns room sid eio)) = callbacks m.
Proof. unfold put_member. destruct (bd_put _ sid eio); reflexivity. Qed.
Lemma mgr_connect_callbacks m eio ns sid : callbacks (fst (mgr_connect m eio ns sid)) = callbacks m.
Proof.
  unfold mgr_connect. pose proof (put_member_callbacks m ns PNone sid eio) as H1.
  destruct (put_member m ns PNone sid eio) as [m1 [|]]; cbn [fst] in *; [|exact H1].
  pose proof (put_member_callbacks m1 ns (PStr sid) sid eio) as H2.
  destruct (put_member m1 ns (PStr sid) sid eio) as [m2 ok2]; cbn [fst] in *. congruence.
Qed.
Lemma enter_room_callbacks m sid ns room : callbacks (fst (enter_room m sid ns room)) = callbacks m.
Proof.
  rewrite enter_room_unfold. destruct (ns_rooms m ns); [|reflexivity].
  destruct (mem m ns PNone sid) as [eio|]; [|reflexivity].
  pose proof (put_member_callbacks m ns room sid eio) as H.
  destruct (put_member m ns room sid eio) as [m1 ok]. exact H.
Qed.
Lemma close_room_callbacks m room ns : callbacks (close_room m room ns) = callbacks m.
Proof.
  unfold close_room. destruct (participants m ns room) as [b|]; [|reflexivity].
  apply (fold_leave_callbacks (fun se : str * str => fst se) (fun _ => room)).
Qed.
Lemma pre_disconnect_callbacks m sid ns : callbacks (fst (pre_disconnect m sid ns)) = callbacks m.
Proof. unfold pre_disconnect. destruct (room_of m ns PNone); reflexivity. Qed.
Lemma mgr_disconnect_callbacks m sid ns :
  callbacks (mgr_disconnect m sid ns) = adel str_eqb (callbacks m) sid.
Proof.
  unfold mgr_disconnect. destruct (ns_rooms m ns) as [rm|]; unfold disc_release; cbv zeta;
    destruct (is_pending _ sid ns); cbn [callbacks]; [| |reflexivity|reflexivity];
    rewrite (fold_leave_callbacks (fun _ : pv => sid) (fun r => r)); reflexivity.
Qed.

(* ---- preservation ---- *)
Lemma generate_ack_id_inv m sid cb : AckInv m -> AckInv (fst (generate_ack_id m sid cb)).
Proof.
  intros [Hn Hs]. unfold generate_ack_id.
  set (slot := match aget str_eqb (callbacks m) sid with Some s => s | None => mkSlot (Some 1) [] end).
  assert (Hslot : slot_ok slot).
  { unfold slot. destruct (aget str_eqb (callbacks m) sid) eqn:E; [eapply vals_aget; eauto|apply slot_ok_fresh]. }
  destruct (cb_counter slot) as [n|] eqn:Ec; cbn [fst]; split; cbn [callbacks].
  - apply (e_nodup_aset str_eqb str_eqb_eq). exact Hn.
  - apply vals_aset; [exact Hs|]. apply slot_ok_add; assumption.
  - apply (e_nodup_aset str_eqb str_eqb_eq). exact Hn.
  - apply vals_aset; assumption.
Qed.
Lemma trigger_callback_inv m sid id : AckInv m -> AckInv (fst (trigger_callback m sid id)).
Proof.
  intros H. unfold trigger_callback. destruct sid as [s|]; [|exact H]. destruct id as [i|]; [|exact H].
  destruct (aget str_eqb (callbacks m) s) as [slot|] eqn:E; [|exact H].
  destruct (i <=? 0)%Z; [exact H|].
  destruct (aget N.eqb (cb_entries slot) (Z.to_N i)); [|exact H].
  cbn [fst]. destruct H as [Hn Hs]. split; cbn [callbacks].
  - apply (e_nodup_aset str_eqb str_eqb_eq). exact Hn.
  - apply vals_aset; [exact Hs|]. apply slot_ok_del. eapply vals_aget; eauto.
Qed.
Lemma mgr_disconnect_inv m sid ns : AckInv m -> AckInv (mgr_disconnect m sid ns).
Proof.
  intros [Hn Hs]. unfold AckInv. rewrite mgr_disconnect_callbacks.
  split; [apply nodup_adel; exact Hn|apply vals_adel; exact Hs].
Qed.
Lemma mstep_inv_ack m o : AckInv m -> AckInv (mstep m o).
Proof.
  intro H. destruct o; cbn [mstep].
  - eapply AckInv_ext; [apply mgr_connect_callbacks|exact H].
  - eapply AckInv_ext; [apply enter_room_callbacks|exact H].
  - eapply AckInv_ext; [apply leave_room_callbacks|exact H].
  - eapply AckInv_ext; [apply close_room_callbacks|exact H].
  - apply mgr_disconnect_inv; exact H.
  - eapply AckInv_ext; [apply pre_disconnect_callbacks|exact H].
  - apply generate_ack_id_inv; exact H.
  - apply trigger_callback_inv; exact H.
Qed.
(* the invariant holds after every history, without any assumption on the history *)
Theorem C06_inv_thm ops : AckInv (fold_left mstep ops mgr_init).
Proof.
  assert (G : forall m, AckInv m -> AckInv (fold_left mstep ops m)).
  { induction ops as [|o ops IH]; intros m H; cbn [fold_left]; [exact H|]. apply IH, mstep_inv_ack, H. }
  apply G, AckInv_init.
Qed.

(* ================================================================== *)
(* 2. trigger_callback is determined by [outstanding]                  *)
(* ================================================================== *)
Theorem C06_fires_iff_thm m osid oid :
  snd (trigger_callback m osid oid) =
  match outstanding m osid oid with Some cb => CbRef cb | None => CbNone end.
Proof.
  unfold trigger_callback, outstanding. destruct osid as [s|]; [|reflexivity].
  destruct oid as [i|]; [|reflexivity].
  destruct (aget str_eqb (callbacks m) s) as [slot|]; [|destruct (i <=? 0)%Z; reflexivity].
  destruct (i <=? 0)%Z; [reflexivity|].
  destruct (aget N.eqb (cb_entries slot) (Z.to_N i)); reflexivity.
Qed.

(* C06_unknown_ignored: an acknowledgement that is not outstanding for the resolved client
   (unknown client, no id, id <= 0, never issued, already used, issued to another client)
   invokes nothing and leaves the manager state identical *)
Theorem C06_unknown_ignored_thm m osid oid :
  outstanding m osid oid = None -> trigger_callback m osid oid = (m, CbNone).
Proof.
  unfold trigger_callback, outstanding. destruct osid as [s|]; [|reflexivity].
  destruct oid as [i|]; [|reflexivity].
  destruct (aget str_eqb (callbacks m) s) as [slot|]; [|reflexivity].
  destruct (i <=? 0)%Z; [reflexivity|].
  destruct (aget N.eqb (cb_entries slot) (Z.to_N i)); [discriminate|reflexivity].
Qed.
(* the reasons for not being outstanding *)
Lemma not_outstanding_unknown_sid m sid oid :
  aget str_eqb (callbacks m) sid = None -> outstanding m (Some sid) oid = None.
Proof. intro E. unfold outstanding. destruct oid as [i|]; [|reflexivity]. rewrite E. destruct (i <=? 0)%Z; reflexivity. Qed.
Lemma not_outstanding_nonpositive m osid i : (i <= 0)%Z -> outstanding m osid (Some i) = None.
Proof.
  intro H. unfold outstanding. destruct osid; [|reflexivity].
  destruct (i <=? 0)%Z eqn:E; [reflexivity|lia].
Qed.
Lemma not_outstanding_never_issued m sid i :
  AckInv m -> (Z.of_N (next_id m sid) <= i)%Z -> outstanding m (Some sid) (Some i) = None.
Proof.
  intros HI H. unfold outstanding, next_id in *. destruct (i <=? 0)%Z eqn:E0; [reflexivity|].
  destruct (aget str_eqb (callbacks m) sid) as [sl|] eqn:E; [|reflexivity].
  destruct (AckInv_slot _ _ _ HI E) as (n & Hc & Hn & Hnd & Hb). rewrite Hc in H.
  destruct (aget N.eqb (cb_entries sl) (Z.to_N i)) as [cb|] eqn:Ea; [|reflexivity].
  apply (e_aget_some_in N.eqb N_eqb_eq') in Ea. specialize (Hb _ _ Ea). lia.
Qed.

(* C06_right_client: a callback fires only for the client and id it was registered under;
   nothing else changes *)
Theorem C06_right_client_thm m sid id m' cb :
  AckInv m -> trigger_callback m (Some sid) (Some id) = (m', CbRef cb) ->
  outstanding m (Some sid) (Some id) = Some cb /\
  rooms m' = rooms m /\ pending m' = pending m /\
  (forall sid', sid' <> sid -> aget str_eqb (callbacks m') sid' = aget str_eqb (callbacks m) sid') /\
  (forall sid' oid, sid' <> sid -> outstanding m' (Some sid') oid = outstanding m (Some sid') oid) /\
  (forall id', id' <> id -> outstanding m' (Some sid) (Some id') = outstanding m (Some sid) (Some id')) /\
  next_id m' sid = next_id m sid.
Proof.
  intros HI. unfold trigger_callback, outstanding, next_id.
  destruct (aget str_eqb (callbacks m) sid) as [slot|] eqn:E; [|discriminate].
  destruct (id <=? 0)%Z eqn:E0; [discriminate|].
  destruct (aget N.eqb (cb_entries slot) (Z.to_N id)) as [c|] eqn:Ea; [|discriminate].
  intro H; injection H as <- <-. cbn [rooms pending callbacks].
  destruct (AckInv_slot _ _ _ HI E) as (n & Hc & Hn & Hnd & Hb).
  assert (Hoth : forall sid', sid' <> sid ->
            aget str_eqb (aset str_eqb (callbacks m) sid
               (mkSlot (cb_counter slot) (adel N.eqb (cb_entries slot) (Z.to_N id)))) sid'
            = aget str_eqb (callbacks m) sid').
  { intros sid' Hne. rewrite (e_aget_aset str_eqb str_eqb_eq). rewrite str_neq by congruence. reflexivity. }
  split; [reflexivity|]. split; [reflexivity|]. split; [reflexivity|]. split; [exact Hoth|]. split.
  { intros sid' oid Hne. rewrite Hoth by exact Hne. reflexivity. }
  split.
  - intros id' Hne. rewrite (e_aget_aset str_eqb str_eqb_eq), str_eqb_refl. cbn [cb_entries].
    destruct (id' <=? 0)%Z eqn:E1; [reflexivity|].
    rewrite (e_aget_adel N.eqb N_eqb_eq') by exact Hnd.
    destruct (N.eqb (Z.to_N id) (Z.to_N id')) eqn:E2; [|reflexivity].
    apply N.eqb_eq in E2. lia.
  - rewrite (e_aget_aset str_eqb str_eqb_eq), str_eqb_refl. reflexivity.
Qed.

(* C06_at_most_once: once fired, the entry is gone *)
Theorem C06_at_most_once_thm m sid id m' cb :
  AckInv m -> trigger_callback m (Some sid) (Some id) = (m', CbRef cb) ->
  outstanding m' (Some sid) (Some id) = None /\
  trigger_callback m' (Some sid) (Some id) = (m', CbNone).
Proof.
  intros HI H.
  assert (Ho : outstanding m' (Some sid) (Some id) = None).
  { revert H. unfold trigger_callback, outstanding.
    destruct (aget str_eqb (callbacks m) sid) as [slot|] eqn:E; [|discriminate].
    destruct (id <=? 0)%Z eqn:E0; [discriminate|].
    destruct (aget N.eqb (cb_entries slot) (Z.to_N id)) as [c|] eqn:Ea; [|discriminate].
    intro H; injection H as <- <-. cbn [callbacks].
    destruct (AckInv_slot _ _ _ HI E) as (n & Hc & Hn & Hnd & Hb).
    rewrite (e_aget_aset str_eqb str_eqb_eq), str_eqb_refl. cbn [cb_entries].
    rewrite (e_aget_adel N.eqb N_eqb_eq') by exact Hnd. rewrite N.eqb_refl. reflexivity. }
  split; [exact Ho|apply C06_unknown_ignored_thm; exact Ho].
Qed.

(* C06_dropped_on_disconnect *)
Theorem C06_dropped_on_disconnect_thm m sid ns oid :
  AckInv m -> ns_rooms m ns <> None ->
  let m' := mgr_disconnect m sid ns in
  aget str_eqb (callbacks m') sid = None /\ trigger_callback m' (Some sid) oid = (m', CbNone).
Proof.
  intros [Hn _] Hns m'.
  assert (E : aget str_eqb (callbacks m') sid = None).
  { unfold m'. rewrite mgr_disconnect_callbacks. destruct (ns_rooms m ns); [|congruence].
    rewrite (e_aget_adel str_eqb str_eqb_eq) by exact Hn. rewrite str_eqb_refl. reflexivity. }
  split; [exact E|]. apply C06_unknown_ignored_thm. apply not_outstanding_unknown_sid. exact E.
Qed.

(* ================================================================== *)
(* 3. uniqueness of generated ids                                      *)
(* ================================================================== *)
Theorem C06_unique_thm m sid cb m' r :
  AckInv m -> generate_ack_id m sid cb = (m', r) ->
  exists id, r = Ok id /\ id = next_id m sid /\ 1 <= id /\
    outstanding m (Some sid) (Some (Z.of_N id)) = None /\
    outstanding m' (Some sid) (Some (Z.of_N id)) = Some cb /\
    next_id m' sid = id + 1 /\
    (forall i, i <> Z.of_N id -> outstanding m' (Some sid) (Some i) = outstanding m (Some sid) (Some i)) /\
    (forall sid', sid' <> sid -> aget str_eqb (callbacks m') sid' = aget str_eqb (callbacks m) sid') /\
    rooms m' = rooms m /\ pending m' = pending m.
Proof.
  intros HI. unfold generate_ack_id.
  set (slot := match aget str_eqb (callbacks m) sid with Some s => s | None => mkSlot (Some 1) [] end).
  assert (Hslot : slot_ok slot).
  { unfold slot. destruct (aget str_eqb (callbacks m) sid) eqn:E; [eapply AckInv_slot; eauto|apply slot_ok_fresh]. }
  destruct Hslot as (n & Hc & Hn & Hnd & Hb). rewrite Hc.
  intro H; injection H as <- <-. exists n. cbn [rooms pending callbacks].
  assert (Hnext : n = next_id m sid).
  { unfold next_id. unfold slot in Hc. destruct (aget str_eqb (callbacks m) sid) as [sl|].
    - rewrite Hc. reflexivity.
    - cbn in Hc. congruence. }
  assert (Hent : forall k, aget N.eqb (cb_entries slot) k =
                           match aget str_eqb (callbacks m) sid with
                           | Some sl => aget N.eqb (cb_entries sl) k | None => None end).
  { intro k. unfold slot. destruct (aget str_eqb (callbacks m) sid); reflexivity. }
  assert (Hz : (Z.of_N n <=? 0)%Z = false) by lia.
  split; [reflexivity|]. split; [exact Hnext|]. split; [exact Hn|]. split.
  { unfold outstanding. rewrite Hz, <- Hent, N2Z.id.
    destruct (aget N.eqb (cb_entries slot) n) as [c|] eqn:Ea; [|reflexivity].
    apply (e_aget_some_in N.eqb N_eqb_eq') in Ea. specialize (Hb _ _ Ea). lia. }
  split.
  { unfold outstanding. cbn [callbacks]. rewrite Hz, (e_aget_aset str_eqb str_eqb_eq), str_eqb_refl. cbn [cb_entries].
    rewrite (e_aget_aset N.eqb N_eqb_eq'), N2Z.id, N.eqb_refl. reflexivity. }
  split.
  { unfold next_id. cbn [callbacks]. rewrite (e_aget_aset str_eqb str_eqb_eq), str_eqb_refl. reflexivity. }
  split.
  { intros i Hi. unfold outstanding. cbn [callbacks]. destruct (i <=? 0)%Z eqn:E0; [reflexivity|].
    rewrite (e_aget_aset str_eqb str_eqb_eq), str_eqb_refl. cbn [cb_entries].
    rewrite (e_aget_aset N.eqb N_eqb_eq'), <- Hent.
    destruct (N.eqb n (Z.to_N i)) eqn:E1; [|reflexivity]. apply N.eqb_eq in E1. lia. }
  split; [|split; reflexivity].
  intros sid' Hne. rewrite (e_aget_aset str_eqb str_eqb_eq), str_neq by congruence. reflexivity.
Qed.

(* the ids handed out for one client along any history that does not disconnect it are
   strictly increasing, hence pairwise distinct *)
Fixpoint gen_ids (sid : str) (m : mgr) (ops : list mop) : list N :=
  match ops with
  | [] => []
  | o :: r =>
      (match o with
       | MGenAck s cb => if str_eqb s sid
                         then match snd (generate_ack_id m s cb) with Ok id => [id] | Err _ => [] end
                         else []
       | _ => []
       end) ++ gen_ids sid (mstep m o) r
  end.

Lemma next_id_ext m m' sid : callbacks m' = callbacks m -> next_id m' sid = next_id m sid.
Proof. unfold next_id. intros ->. reflexivity. Qed.

Lemma next_id_mstep m o sid :
  AckInv m -> (forall ns, o <> MDisconnect sid ns) ->
  next_id (mstep m o) sid =
  match o with MGenAck s _ => if str_eqb s sid then next_id m sid + 1 else next_id m sid
          | _ => next_id m sid end.
Proof.
  intros HI Hnd. destruct o; cbn [mstep].
  - apply next_id_ext, mgr_connect_callbacks.
  - apply next_id_ext, enter_room_callbacks.
  - apply next_id_ext, leave_room_callbacks.
  - apply next_id_ext, close_room_callbacks.
  - unfold next_id. rewrite mgr_disconnect_callbacks.
    rewrite (e_aget_adel str_eqb str_eqb_eq) by apply HI.
    rewrite str_neq; [reflexivity|]. intro; subst. eapply Hnd; reflexivity.
  - apply next_id_ext, pre_disconnect_callbacks.
  - destruct (generate_ack_id m sid0 cb) as [m' r] eqn:E.
    destruct (C06_unique_thm _ _ _ _ _ HI E) as (id & -> & Hid & _ & _ & _ & Hnx & _ & Hoth & _).
    cbn [fst]. destruct (str_eqb sid0 sid) eqn:Es.
    + apply str_eqb_eq in Es. subst sid0. rewrite Hnx, Hid. reflexivity.
    + unfold next_id. rewrite Hoth; [reflexivity|]. intro; subst. rewrite str_eqb_refl in Es. discriminate.
  - destruct sid0 as [s|]; [|reflexivity]. destruct id as [i|]; [|reflexivity].
    destruct (trigger_callback m (Some s) (Some i)) as [m' t] eqn:E. cbn [fst].
    destruct t as [|cb].
    + pose proof (C06_fires_iff_thm m (Some s) (Some i)) as Hf. rewrite E in Hf. cbn [snd] in Hf.
      destruct (outstanding m (Some s) (Some i)) eqn:Eo; [discriminate|].
      rewrite (C06_unknown_ignored_thm _ _ _ Eo) in E. injection E as <-. reflexivity.
    + destruct (C06_right_client_thm _ _ _ _ _ HI E) as (_ & _ & _ & Hoth & _ & _ & Hnx).
      destruct (str_eqb s sid) eqn:Es.
      * apply str_eqb_eq in Es. subst s. exact Hnx.
      * unfold next_id. rewrite Hoth; [reflexivity|]. intro; subst. rewrite str_eqb_refl in Es. discriminate.
Qed.

Theorem C06_unique_history_thm sid ops : forall m,
  AckInv m -> (forall ns, ~ In (MDisconnect sid ns) ops) ->
  StronglySorted N.lt (gen_ids sid m ops) /\ Forall (fun id => next_id m sid <= id) (gen_ids sid m ops).
Proof.
  induction ops as [|o ops IH]; intros m HI Hnd; cbn [gen_ids]; [split; constructor|].
  assert (Hnd' : forall ns, ~ In (MDisconnect sid ns) ops) by (intros ns Hi; apply (Hnd ns); right; exact Hi).
  assert (Ho : forall ns, o <> MDisconnect sid ns) by (intros ns ->; apply (Hnd ns); left; reflexivity).
  destruct (IH (mstep m o) (mstep_inv_ack m o HI) Hnd') as [Hs Hf].
  rewrite (next_id_mstep m o sid HI Ho) in Hf.
  assert (Hmono : Forall (fun id => next_id m sid <= id) (gen_ids sid (mstep m o) ops)).
  { eapply Forall_impl; [|exact Hf]. intros id H. destruct o; try exact H.
    destruct (str_eqb sid0 sid); lia. }
  destruct o; try (cbn [app]; split; assumption).
  destruct (str_eqb sid0 sid) eqn:Es; [|cbn [app]; split; assumption].
  destruct (generate_ack_id m sid0 cb) as [m' r] eqn:E.
  destruct (C06_unique_thm _ _ _ _ _ HI E) as (id & -> & Hid & _).
  apply str_eqb_eq in Es. subst sid0. cbn [snd app]. split.
  - constructor; [exact Hs|]. eapply Forall_impl; [|exact Hf]. intros x Hx. cbn beta in Hx. lia.
  - constructor; [lia|exact Hmono].
Qed.
Corollary C06_unique_nodup_thm sid ops m :
  AckInv m -> (forall ns, ~ In (MDisconnect sid ns) ops) -> NoDup (gen_ids sid m ops).
Proof.
  intros HI Hnd. destruct (C06_unique_history_thm sid ops m HI Hnd) as [Hs _].
  induction Hs as [|x l Hs IH Hf]; constructor; [|exact IH].
  intro Hi. rewrite Forall_forall in Hf. specialize (Hf _ Hi). lia.
Qed.

(* ================================================================== *)
(* 4. Server.call: shaping of the result                                *)
(* ================================================================== *)
(* return callback_args[0] if len(callback_args[0]) > 1 else callback_args[0][0]
   if len(callback_args[0]) == 1 else None *)
Definition call_result (args : list pv) : pv :=
  match args with [] => PNone | [x] => x | _ => PTuple args end.
Theorem C06_call_result_thm :
  call_result [] = PNone /\ (forall x, call_result [x] = x) /\
  (forall x y l, call_result (x :: y :: l) = PTuple (x :: y :: l)) /\
  (forall args, call_result args =
     if (1 <? List.length args)%nat then PTuple args
     else if (List.length args =? 1)%nat then hd PNone args else PNone).
Proof.
  repeat split; try reflexivity. intros [|x [|y l]]; reflexivity.
Qed.

(* ================================================================== *)
(* 5. non-vacuity on the concrete state of ManagerProofs (x_mgr: S1 has used id 1 and has id 2
      outstanding, S4 - the same transport on another namespace - has id 1 outstanding)      *)
(* ================================================================== *)
Example C06_inv_example :
  AckInv x_mgr /\
  map (fun x => (fst x, cb_counter (snd x), cb_entries (snd x))) (callbacks x_mgr) =
    [(s2l "S1", Some 3, [(2, 12)]); (s2l "S4", Some 2, [(1, 13)])].
Proof. split; [exact (C06_inv_thm x_ops)|vm_compute; reflexivity]. Qed.

Example C06_unique_example :
  AckInv x_mgr /\ snd (generate_ack_id x_mgr (s2l "S1") 99) = Ok 3 /\
  outstanding x_mgr (Some (s2l "S1")) (Some 3%Z) = None /\
  snd (generate_ack_id x_mgr (s2l "S2") 99) = Ok 1 /\
  gen_ids (s2l "S1") mgr_init (x_ops ++ [MGenAck (s2l "S1") 99]) = [1; 2; 3].
Proof. split; [exact (C06_inv_thm x_ops)|]. repeat split; vm_compute; reflexivity. Qed.

Example C06_at_most_once_example :
  let m1 := fst (trigger_callback x_mgr (Some (s2l "S1")) (Some 2%Z)) in
  AckInv x_mgr /\ trigger_callback x_mgr (Some (s2l "S1")) (Some 2%Z) = (m1, CbRef 12) /\
  trigger_callback m1 (Some (s2l "S1")) (Some 2%Z) = (m1, CbNone) /\
  aget str_eqb (callbacks m1) (s2l "S4") = aget str_eqb (callbacks x_mgr) (s2l "S4").
Proof. split; [exact (C06_inv_thm x_ops)|]. repeat split; vm_compute; reflexivity. Qed.

Example C06_unknown_ignored_example :
  trigger_callback x_mgr (Some (s2l "S4")) (Some 2%Z) = (x_mgr, CbNone) /\   (* outstanding for S1 only *)
  trigger_callback x_mgr (Some (s2l "S1")) (Some 1%Z) = (x_mgr, CbNone) /\   (* already used *)
  trigger_callback x_mgr (Some (s2l "S1")) (Some 0%Z) = (x_mgr, CbNone) /\   (* the generator's key *)
  trigger_callback x_mgr (Some (s2l "S1")) (Some (-2)%Z) = (x_mgr, CbNone) /\
  trigger_callback x_mgr (Some (s2l "S1")) (Some 7%Z) = (x_mgr, CbNone) /\   (* never issued *)
  trigger_callback x_mgr (Some (s2l "S2")) (Some 1%Z) = (x_mgr, CbNone) /\   (* client without table *)
  trigger_callback x_mgr None (Some 1%Z) = (x_mgr, CbNone).                  (* unresolved transport *)
Proof. repeat split; vm_compute; reflexivity. Qed.

Example C06_dropped_example :
  let m1 := mgr_disconnect x_mgr (s2l "S4") x_ns2 in
  AckInv x_mgr /\ ns_rooms x_mgr x_ns2 <> None /\
  outstanding x_mgr (Some (s2l "S4")) (Some 1%Z) = Some 13 /\
  trigger_callback m1 (Some (s2l "S4")) (Some 1%Z) = (m1, CbNone) /\
  outstanding m1 (Some (s2l "S1")) (Some 2%Z) = Some 12.
Proof.
  split; [exact (C06_inv_thm x_ops)|]. split; [vm_compute; discriminate|].
  repeat split; vm_compute; reflexivity.
Qed.

Example C06_call_result_example :
  call_result [] = PNone /\ call_result [PInt 5] = PInt 5 /\
  call_result [PInt 5; PStr (s2l "a")] = PTuple [PInt 5; PStr (s2l "a")] /\
  call_result [PTuple [PInt 1; PInt 2]] = PTuple [PInt 1; PInt 2].
Proof. repeat split; reflexivity. Qed.
