(* C03: recipients of an emit = the abstract specification (RoomsSpec.v), the effects of
   manager.emit, the executable checker on the model's own run, rooms() listings and the
   frame lemmas of every membership operation. *)
From VT Require Import Manager.Manager Manager.ManagerProofs Manager.RoomsSpec Check.C03Check.
From Coq Require Import Lia ZifyBool Permutation.
Open Scope N_scope.

(* ================================================================== *)
(* 1. bridges between RoomsSpec and the lookup view                    *)
(* ================================================================== *)
Lemma members_look m ns : members m ns = look m ns PNone.
Proof. unfold members. rewrite look_room_of. reflexivity. Qed.
Lemma in_room_mem m ns r s :
  in_room m ns r s = match mem m ns r s with Some _ => true | None => false end.
Proof.
  unfold in_room, mem. rewrite look_room_of. destruct (room_of m ns r); reflexivity.
Qed.
Lemma in_room_true m ns r s : in_room m ns r s = true <-> exists e, mem m ns r s = Some e.
Proof.
  rewrite in_room_mem. destruct (mem m ns r s) as [e|]; split; try discriminate; eauto.
  intros [e H]; discriminate H.
Qed.

(* ---- list facts ---- *)
Lemma nodup_map_filter {A B} (f : A -> B) (p : A -> bool) l :
  NoDup (map f l) -> NoDup (map f (filter p l)).
Proof.
  induction l as [|x l IH]; cbn [map filter]; [auto|]. intro H; inversion H; subst.
  destruct (p x); cbn [map]; [|auto]. constructor; [|auto].
  intro Hi. apply H2. apply in_map_iff in Hi as (y & Hy & Hf). apply filter_In in Hf as [Hf _].
  rewrite <- Hy. apply in_map. exact Hf.
Qed.
Lemma nodup_keys_fun (l : bidict) s e e' : NoDup (map fst l) -> In (s, e) l -> In (s, e') l -> e = e'.
Proof.
  intros H H1 H2. apply (bd_get_in l s e H) in H1. apply (bd_get_in l s e' H) in H2. congruence.
Qed.
Lemma nodup_vals (l : bidict) :
  NoDup (map fst l) -> (forall s s' e, In (s, e) l -> In (s', e) l -> s = s') -> NoDup (map snd l).
Proof.
  induction l as [|[s e] l IH]; cbn [map fst snd]; intros Hn Hinj; [constructor|].
  inversion Hn; subst. constructor.
  - intro Hi. apply in_map_iff in Hi as ([s' e'] & He & Hi). cbn [snd] in He. subst e'.
    assert (s = s') by (eapply Hinj; [left; reflexivity|right; exact Hi]). subst s'.
    apply H1. change s with (fst (s, e)). apply in_map. exact Hi.
  - apply IH; [assumption|]. intros a b c Ha Hb. eapply Hinj; right; eauto.
Qed.

(* every member of any room (looked up with any key) is a member of the namespace *)
Lemma look_any m ns r :
  WF m -> look m ns r = [] \/ exists r', room_ok r' /\ look m ns r = look m ns r'.
Proof.
  intros [HS _]. destruct (struct_nsmap m ns HS) as (Hn & Hk & _).
  unfold look at 1 2. unfold agetd.
  destruct (aget room_eqb (nsmap m ns) r) as [b|] eqn:E; [|left; reflexivity].
  right. destruct (aget_self_key room_eqb room_ok room_spec _ _ _ Hk Hn E) as (r' & Hr' & _ & E').
  exists r'. split; [exact Hr'|]. unfold look, agetd. rewrite E'. reflexivity.
Qed.
Lemma look_sub_members m ns r s e :
  WF m -> In (s, e) (look m ns r) -> In (s, e) (members m ns).
Proof.
  intros HW Hi. destruct (look_any m ns r HW) as [E|(r' & Hr' & E)]; rewrite E in Hi; [destruct Hi|].
  destruct HW as [HS [H3 _]]. rewrite members_look.
  apply bd_get_in; [apply struct_look, HS|]. apply (H3 ns r' s e Hr').
  apply bd_get_in; [apply struct_look, HS|exact Hi].
Qed.
Lemma in_room_any m ns r s :
  WF m -> in_room m ns r s = true -> exists r', room_ok r' /\ in_room m ns r' s = true.
Proof.
  intros HW H. rewrite in_room_mem in H. unfold mem in H.
  destruct (look_any m ns r HW) as [E|(r' & Hr' & E)]; rewrite E in H; [discriminate H|].
  exists r'. split; [exact Hr'|]. rewrite in_room_mem. exact H.
Qed.
Lemma members_nodup_keys m ns : WF m -> NoDup (map fst (members m ns)).
Proof. intros [HS _]. rewrite members_look. apply struct_look, HS. Qed.
Lemma members_inj m ns s s' e :
  WF m -> In (s, e) (members m ns) -> In (s', e) (members m ns) -> s = s'.
Proof.
  intros [HS [_ H2]]. rewrite members_look. intros Ha Hb.
  apply bd_get_in in Ha, Hb; try (apply struct_look, HS). eapply H2; eauto.
Qed.

(* ================================================================== *)
(* 2. get_participants                                                 *)
(* ================================================================== *)
Section Merge.
  Variable B : bidict.
  Hypothesis HB : NoDup (map fst B).
  Definition subB (l : bidict) : Prop := forall s e, In (s, e) l -> In (s, e) B.

  Lemma aset_in_B acc s e :
    NoDup (map fst acc) -> subB acc -> In (s, e) B ->
    NoDup (map fst (aset str_eqb acc s e)) /\ subB (aset str_eqb acc s e) /\
    forall x, In x (aset str_eqb acc s e) <-> In x acc \/ x = (s, e).
  Proof.
    intros Hn Hs Hi.
    assert (Hn' : NoDup (map fst (aset str_eqb acc s e))) by (apply (e_nodup_aset str_eqb str_eqb_eq); exact Hn).
    assert (Hiff : forall x, In x (aset str_eqb acc s e) <-> In x acc \/ x = (s, e)).
    { intros [s' e']. rewrite <- (bd_get_in _ s' e' Hn'), <- (bd_get_in _ s' e' Hn), bd_get_aset.
      destruct (str_eqb s s') eqn:E.
      - apply str_eqb_eq in E. subst s'. split.
        + intro H; inversion H; subst. right; reflexivity.
        + intros [H|H]; [|inversion H; reflexivity].
          apply (bd_get_in _ _ _ Hn) in H. f_equal. exact (nodup_keys_fun B s e e' HB Hi (Hs _ _ H)).
      - split; [intro H; left; exact H|]. intros [H|H]; [exact H|].
        inversion H; subst. rewrite str_eqb_refl in E. discriminate. }
    split; [exact Hn'|]. split; [|exact Hiff].
    intros s' e' H. apply Hiff in H as [H|H]; [auto|]. inversion H; subst. exact Hi.
  Qed.

  Lemma merge_spec b : forall acc,
    NoDup (map fst acc) -> subB acc -> subB b ->
    NoDup (map fst (merge_members acc b)) /\ subB (merge_members acc b) /\
    forall x, In x (merge_members acc b) <-> In x acc \/ In x b.
  Proof.
    unfold merge_members. induction b as [|[s e] b IH]; intros acc Hn Hs Hb; cbn [fold_left fst snd].
    - split; [exact Hn|]. split; [exact Hs|]. intro x. split; [auto|intros [H|[]]; exact H].
    - destruct (aset_in_B acc s e Hn Hs (Hb _ _ (or_introl eq_refl))) as (Hn1 & Hs1 & Hi1).
      destruct (IH _ Hn1 Hs1) as (Hn2 & Hs2 & Hi2).
      { intros s' e' H. apply Hb. right; exact H. }
      split; [exact Hn2|]. split; [exact Hs2|]. intro x. rewrite Hi2, Hi1. cbn [In].
      split; intros H; intuition (subst; auto).
  Qed.

  Variable lk : pv -> bidict.
  Hypothesis Hlk : forall r, subB (lk r).
  Lemma merge_rooms_spec rs : forall acc,
    NoDup (map fst acc) -> subB acc ->
    let res := fold_left (fun a r => merge_members a (lk r)) rs acc in
    NoDup (map fst res) /\ subB res /\
    forall x, In x res <-> In x acc \/ exists r, In r rs /\ In x (lk r).
  Proof.
    induction rs as [|r rs IH]; intros acc Hn Hs; cbn [fold_left].
    - split; [exact Hn|]. split; [exact Hs|]. intro x. split; [auto|].
      intros [H|(r & [] & _)]; exact H.
    - destruct (merge_spec (lk r) acc Hn Hs (Hlk r)) as (Hn1 & Hs1 & Hi1).
      destruct (IH _ Hn1 Hs1) as (Hn2 & Hs2 & Hi2).
      split; [exact Hn2|]. split; [exact Hs2|]. intro x. rewrite Hi2, Hi1. split.
      + intros [[H|H]|(r' & Hr' & H)]; [left; exact H|right; exists r; split; [left; reflexivity|exact H]|].
        right; exists r'; split; [right; exact Hr'|exact H].
      + intros [H|(r' & [->|Hr'] & H)]; [left; left; exact H|left; right; exact H|].
        right; exists r'; split; assumption.
  Qed.
End Merge.

(* get_participants: distinct sids, only members of the namespace, exactly the union of the
   addressed rooms *)
Lemma participants_spec m ns target l :
  WF m -> participants m ns target = Ok l ->
  NoDup (map fst l) /\ (forall x, In x l -> In x (members m ns)) /\
  forall x, In x l <-> exists r, In r (addressed target) /\ In x (look m ns r).
Proof.
  intros HW H. pose proof (members_nodup_keys m ns HW) as HB.
  set (lk := fun r => match room_of m ns r with Some b => b | None => [] end).
  assert (Elk : forall r, lk r = look m ns r) by (intro r; unfold lk; rewrite look_room_of; reflexivity).
  assert (Hlk : forall r, subB (members m ns) (lk r)).
  { intros r s e Hi. rewrite Elk in Hi. eapply look_sub_members; eauto. }
  assert (Hscalar : forall r, l = lk r -> addressed target = [r] ->
            NoDup (map fst l) /\ (forall x, In x l -> In x (members m ns)) /\
            forall x, In x l <-> exists r, In r (addressed target) /\ In x (look m ns r)).
  { intros r -> Ea. rewrite Ea. split; [rewrite Elk; apply struct_look, HW|].
    split; [intros [s e]; apply Hlk|]. intro x. rewrite Elk. split.
    - intro Hx. exists r. split; [left; reflexivity|exact Hx].
    - intros (r' & [<-|[]] & Hx). exact Hx. }
  assert (Hmulti : forall r0 rs, l = fold_left (fun a r => merge_members a (lk r)) rs (lk r0) ->
            addressed target = r0 :: rs ->
            NoDup (map fst l) /\ (forall x, In x l -> In x (members m ns)) /\
            forall x, In x l <-> exists r, In r (addressed target) /\ In x (look m ns r)).
  { intros r0 rs -> Ea. rewrite Ea.
    destruct (merge_rooms_spec (members m ns) HB lk Hlk rs (lk r0)) as (Hn & Hs & Hi).
    { rewrite Elk. apply struct_look, HW. } { apply Hlk. }
    split; [exact Hn|]. split; [intros [s e]; apply Hs|]. intro x. rewrite Hi. split.
    - intros [Hx|(r & Hr & Hx)].
      + exists r0. split; [left; reflexivity|rewrite <- Elk; exact Hx].
      + exists r. split; [right; exact Hr|rewrite <- Elk; exact Hx].
    - intros (r & [<-|Hr] & Hx); [left; rewrite Elk; exact Hx|].
      right. exists r. split; [exact Hr|rewrite Elk; exact Hx]. }
  unfold participants in H. fold lk in H.
  destruct target as [| | | | | |tl|tl| |]; try discriminate H;
    try (injection H as <-; eapply Hscalar; reflexivity).
  - destruct tl as [|r0 rs]; [discriminate H|]. injection H as <-. eapply Hmulti; reflexivity.
  - destruct tl as [|r0 rs]; [discriminate H|]. injection H as <-. eapply Hmulti; reflexivity.
Qed.

Lemma participants_total m ns t : in_domain_target t = true -> exists l, participants m ns t = Ok l.
Proof.
  destruct t as [| | | | | |tl|tl| |]; cbn; try discriminate; eauto.
  - destruct tl; [discriminate|eauto].
  - destruct tl; [discriminate|eauto].
Qed.

(* C03_recipients: the recipients of an emit are exactly (as a multiset: a permutation of)
   the connected members of the namespace that are in at least one addressed room and not
   skipped, each once, with pairwise distinct transports, nobody from elsewhere *)
Theorem C03_recipients_thm m ns target skip l :
  WF m -> participants m ns target = Ok l ->
  let rcp := filter (fun se => negb (skipped (skip_list skip) (fst se))) l in
  Permutation rcp (spec_recipients m ns target skip) /\
  NoDup (map fst rcp) /\ NoDup (map snd rcp) /\
  (forall se, In se rcp -> In se (members m ns)).
Proof.
  intros HW H rcp. destruct (participants_spec m ns target l HW H) as (Hn & Hsub & Hiff).
  pose proof (members_nodup_keys m ns HW) as HB.
  assert (Hsub' : forall se, In se rcp -> In se (members m ns)).
  { intros se Hi. apply filter_In in Hi as [Hi _]. auto. }
  assert (Hn1 : NoDup (map fst rcp)) by (apply nodup_map_filter; exact Hn).
  split; [|split; [exact Hn1|split; [|exact Hsub']]].
  - apply NoDup_Permutation.
    + eapply NoDup_map_inv. exact Hn1.
    + unfold spec_recipients. apply NoDup_filter. eapply NoDup_map_inv. exact HB.
    + intros [s e]. unfold rcp, spec_recipients. rewrite !filter_In. cbn [fst]. split.
      * intros [Hi Hsk]. split; [auto|]. apply andb_true_iff. split; [|exact Hsk].
        apply Hiff in Hi as (r & Hr & Hx). apply existsb_exists. exists r. split; [exact Hr|].
        apply in_room_true. exists e. apply bd_get_in; [apply struct_look, HW|exact Hx].
      * intros [Hi Hc]. apply andb_true_iff in Hc as [Hex Hsk]. split; [|exact Hsk].
        apply existsb_exists in Hex as (r & Hr & Hx). apply in_room_true in Hx as [e' Hx].
        apply bd_get_in in Hx; [|apply struct_look, HW].
        assert (e' = e).
        { eapply nodup_keys_fun; [exact HB| |exact Hi]. eapply look_sub_members; eauto. }
        subst e'. apply Hiff. exists r. split; assumption.
  - apply nodup_vals; [exact Hn1|]. intros s s' e Ha Hb.
    eapply members_inj; eauto.
Qed.

(* ================================================================== *)
(* 3. the effects of manager.emit (no callback)                        *)
(* ================================================================== *)
Lemma run_getS {A} (k : srv -> SM A) s : (x <~ getS ;; k x) s = k s s.
Proof. unfold bindM, getS. destruct (k s s) as [[s2 e2] r]. reflexivity. Qed.
Lemma run_lift_ok {A B} (a : A) (k : A -> SM B) s : (x <~ lift (Ok a) ;; k x) s = k a s.
Proof. unfold bindM, lift. destruct (k a s) as [[s2 e2] r]. reflexivity. Qed.
Lemma run_tells eio pieces (s : srv) :
  forM pieces (fun p => tell (Out eio p)) s = (s, map (Out eio) pieces, Ok tt).
Proof.
  induction pieces as [|p ps IH]; cbn [forM map]; [reflexivity|].
  unfold bindM at 1. unfold tell at 1. rewrite IH. reflexivity.
Qed.
Definition is_live (s : srv) (eio : str) : bool := existsb (str_eqb eio) (live s).
Lemma run_send_pieces eio pieces s :
  send_pieces eio pieces s = (s, if is_live s eio then map (Out eio) pieces else [], Ok tt).
Proof.
  unfold send_pieces. rewrite run_getS. unfold is_live.
  destruct (existsb (str_eqb eio) (live s)); [apply run_tells|reflexivity].
Qed.
Lemma run_emit_loop sk pieces parts (s : srv) :
  forM parts (fun se : str * str => if skipped sk (fst se) then ret tt else send_pieces (snd se) pieces) s
  = (s, flat_map (fun se => map (Out (snd se)) pieces)
          (filter (fun se => is_live s (snd se)) (filter (fun se => negb (skipped sk (fst se))) parts)),
     Ok tt).
Proof.
  induction parts as [|se parts IH]; cbn [forM filter flat_map]; [reflexivity|].
  unfold bindM at 1. destruct (skipped sk (fst se)); cbn [negb filter].
  - unfold ret at 1. rewrite IH. reflexivity.
  - rewrite run_send_pieces, IH. destruct (is_live s (snd se)); cbn [filter flat_map]; [|reflexivity].
    reflexivity.
Qed.

Lemma merge_nil rs : fold_left (fun a (_ : pv) => merge_members a []) rs [] = [].
Proof. induction rs as [|r rs IH]; cbn [fold_left merge_members]; auto. Qed.
Lemma participants_no_ns m ns t l : ns_rooms m ns = None -> participants m ns t = Ok l -> l = [].
Proof.
  intros E H. unfold participants, room_of in H. rewrite E in H.
  destruct t as [| | | | | |tl|tl| |]; try discriminate H; try (injection H as <-; reflexivity).
  - destruct tl as [|r0 rs]; [discriminate H|]. injection H as <-. apply merge_nil.
  - destruct tl as [|r0 rs]; [discriminate H|]. injection H as <-. apply merge_nil.
Qed.

(* manager.emit without callback: state unchanged; the effects are, for every non-skipped
   participant whose transport is live, in participant order, exactly the frames in order *)
Theorem mgr_emit_effects c event data ns room skip s pieces l :
  emit_pieces c event data ns = Ok pieces -> participants (mg s) ns room = Ok l ->
  mgr_emit c event data ns room skip None s =
  (s, flat_map (fun se => map (Out (snd se)) pieces)
        (filter (fun se => is_live s (snd se))
                (filter (fun se => negb (skipped (skip_list skip) (fst se))) l)),
   Ok tt).
Proof.
  intros Hp Hl. unfold mgr_emit. rewrite run_getS.
  destruct (ns_rooms (mg s) ns) as [rm|] eqn:Ens.
  - unfold emit_pieces in Hp.
    destruct (ctor (uses_binary c) EVENT (PList (event :: pack data)) (Some ns) None None) as [p|] eqn:Ec;
      [|discriminate Hp]. cbn [bind] in Hp.
    rewrite run_lift_ok, Hp, run_lift_ok, Hl, run_lift_ok. apply run_emit_loop.
  - rewrite (participants_no_ns _ _ _ _ Ens Hl). reflexivity.
Qed.

(* combined with C03_recipients: who gets frames *)
Corollary mgr_emit_recipients c event data ns room skip s pieces l :
  WF (mg s) -> emit_pieces c event data ns = Ok pieces -> participants (mg s) ns room = Ok l ->
  exists rcp,
    Permutation rcp (spec_recipients (mg s) ns room skip) /\ NoDup (map snd rcp) /\
    mgr_emit c event data ns room skip None s =
    (s, flat_map (fun se => map (Out (snd se)) pieces) (filter (fun se => is_live s (snd se)) rcp), Ok tt).
Proof.
  intros HW Hp Hl. destruct (C03_recipients_thm _ _ _ skip _ HW Hl) as (P & _ & Hn & _).
  eexists. split; [exact P|]. split; [exact Hn|]. apply mgr_emit_effects; assumption.
Qed.

(* ================================================================== *)
(* 4. the model's own run passes the checker applied to the implementation *)
(* ================================================================== *)
Lemma outs_of_app e l1 l2 : outs_of e (l1 ++ l2) = outs_of e l1 ++ outs_of e l2.
Proof. unfold outs_of. apply flat_map_app. Qed.
Lemma out_eios_app l1 l2 : out_eios (l1 ++ l2) = out_eios l1 ++ out_eios l2.
Proof. unfold out_eios. apply flat_map_app. Qed.
Lemma outs_of_map_out e e' pieces : outs_of e (map (Out e') pieces) = if str_eqb e' e then pieces else [].
Proof.
  induction pieces as [|p ps IH]; [destruct (str_eqb e' e); reflexivity|].
  cbn [map].
  change (outs_of e (Out e' p :: map (Out e') ps))
    with ((if str_eqb e' e then [p] else []) ++ outs_of e (map (Out e') ps)).
  rewrite IH. destruct (str_eqb e' e); reflexivity.
Qed.
Lemma out_eios_map_out e' pieces x : In x (out_eios (map (Out e') pieces)) -> x = e'.
Proof.
  induction pieces as [|p ps IH]; [intros []|]. cbn [map].
  change (out_eios (Out e' p :: map (Out e') ps)) with (e' :: out_eios (map (Out e') ps)).
  intros [H|H]; [symmetry; exact H|auto].
Qed.
Lemma outs_of_flat e pieces (L : bidict) :
  NoDup (map snd L) ->
  outs_of e (flat_map (fun se => map (Out (snd se)) pieces) L) =
  if existsb (fun se => str_eqb (snd se) e) L then pieces else [].
Proof.
  induction L as [|[s0 e0] L IH]; cbn [flat_map map snd existsb]; intro Hn; [reflexivity|].
  inversion Hn; subst. rewrite outs_of_app, outs_of_map_out, (IH H2).
  destruct (str_eqb e0 e) eqn:E; cbn [orb]; [|reflexivity].
  apply str_eqb_eq in E. subst e0.
  destruct (existsb (fun se => str_eqb (snd se) e) L) eqn:Ex; [|apply app_nil_r].
  exfalso. apply existsb_exists in Ex as ([s1 e1] & Hi & He). cbn [snd] in He.
  apply str_eqb_eq in He. subst e1. apply H1. change e with (snd (s1, e)). apply in_map. exact Hi.
Qed.
Lemma out_eios_flat pieces (L : bidict) x :
  In x (out_eios (flat_map (fun se => map (Out (snd se)) pieces) L)) -> In x (map snd L).
Proof.
  induction L as [|[s0 e0] L IH]; cbn [flat_map map snd]; [intros []|].
  rewrite out_eios_app. intro H. apply in_app_or in H as [H|H].
  - left. symmetry. eapply out_eios_map_out; eauto.
  - right; auto.
Qed.
Lemma count_nodup x l : NoDup l -> In x l -> count_str x l = 1%nat.
Proof.
  unfold count_str. induction l as [|y l IH]; [intros _ []|]. intros Hn Hi. inversion Hn; subst.
  cbn [filter]. destruct (str_eqb x y) eqn:E.
  - apply str_eqb_eq in E. subst y. cbn [List.length]. f_equal.
    assert (filter (str_eqb x) l = []) as ->; [|reflexivity].
    clear IH Hi Hn H2. induction l as [|z l IH]; [reflexivity|]. cbn [filter].
    destruct (str_eqb x z) eqn:E; [apply str_eqb_eq in E; subst; exfalso; apply H1; left; reflexivity|].
    apply IH. intro H. apply H1. right; exact H.
  - destruct Hi as [->|Hi]; [rewrite str_eqb_refl in E; discriminate|]. auto.
Qed.

Lemma pieces_eqb_refl (l : list pv) : list_eqb pv_eqb l l = true.
Proof. apply (list_eqb_eq pv_eqb pv_eqb_eq). reflexivity. Qed.

Lemma c03_emit_check (s : srv) pieces (rcp spec : bidict) :
  Permutation rcp spec -> NoDup (map snd rcp) ->
  let obs := flat_map (fun se => map (Out (snd se)) pieces) (filter (fun se => is_live s (snd se)) rcp) in
  let expected := filter (fun e => existsb (str_eqb e) (live s)) (map snd spec) in
  forallb (fun e => list_eqb pv_eqb (outs_of e obs) pieces) expected &&
  forallb (fun e => existsb (str_eqb e) expected) (out_eios obs) &&
  forallb (fun e => Nat.eqb (count_str e expected) 1) expected = true.
Proof.
  intros P Hn obs expected.
  set (Lv := filter (fun se => is_live s (snd se)) rcp) in *.
  assert (HnL : NoDup (map snd Lv)) by (apply nodup_map_filter; exact Hn).
  assert (Hexp : forall e, In e expected <-> In e (map snd Lv)).
  { intro e. unfold expected, Lv. rewrite filter_In, !in_map_iff. split.
    - intros [(se & <- & Hi) Hl]. exists se. split; [reflexivity|]. apply filter_In. split; [|exact Hl].
      eapply Permutation_in; [symmetry; exact P|exact Hi].
    - intros (se & <- & Hi). apply filter_In in Hi as [Hi Hl]. split; [|exact Hl].
      exists se. split; [reflexivity|]. eapply Permutation_in; eauto. }
  assert (HnE : NoDup expected).
  { unfold expected. apply NoDup_filter. eapply Permutation_NoDup; [|exact Hn].
    apply Permutation_map. exact P. }
  rewrite !andb_true_iff. repeat split; apply forallb_forall; intros e He.
  - unfold obs. rewrite (outs_of_flat e pieces Lv HnL).
    apply Hexp in He. apply in_map_iff in He as (se & <- & Hi).
    assert (existsb (fun se0 : str * str => str_eqb (snd se0) (snd se)) Lv = true) as ->.
    { apply existsb_exists. exists se. split; [exact Hi|apply str_eqb_refl]. }
    apply pieces_eqb_refl.
  - apply out_eios_flat in He. apply Hexp in He. apply existsb_exists. exists e.
    split; [exact He|apply str_eqb_refl].
  - rewrite (count_nodup e expected HnE He). reflexivity.
Qed.

Theorem C03_exec_emit c s ev data to room skip ns :
  WF (mg s) ->
  let o := ApiEmit ev data to room skip ns None in
  c03_step c s o (snd (step c s o)) = true.
Proof.
  intros HW o. subst o. unfold c03_step.
  set (n := ns_or_default ns). set (target := first_truthy to room).
  destruct (in_domain_target target) eqn:Hd; [|reflexivity]. cbn [negb].
  destruct (emit_pieces c ev data n) as [pieces|] eqn:Hp; [|reflexivity].
  destruct (participants_total (mg s) n target Hd) as [l Hl].
  destruct (mgr_emit_recipients c ev data n target skip s pieces l HW Hp Hl) as (rcp & P & Hn & Hrun).
  assert (Hstep : step c s (ApiEmit ev data to room skip ns None) =
                  (s, flat_map (fun se => map (Out (snd se)) pieces)
                        (filter (fun se => is_live s (snd se)) rcp))).
  { unfold step, step_m, api, api_emit. fold n. fold target. rewrite Hrun. reflexivity. }
  rewrite Hstep. cbn [snd]. apply c03_emit_check; assumption.
Qed.

(* ================================================================== *)
(* 5. rooms(sid) listings                                              *)
(* ================================================================== *)
Theorem C03_rooms_listing_thm m sid ns :
  WF m ->
  let l := get_rooms m sid ns in
  NoDup l /\ Forall room_ok l /\
  (forall r, In r l -> r <> PNone /\ in_room m ns r sid = true) /\
  (forall r, room_ok r -> r <> PNone -> in_room m ns r sid = true -> In r l).
Proof.
  intros [HS _] l. subst l. unfold get_rooms. destruct (ns_rooms m ns) as [rm|] eqn:E.
  2: { split; [constructor|]. split; [constructor|]. split; [intros r []|]. intros r _ _ H. exfalso.
       rewrite in_room_mem in H. unfold mem, look, nsmap, agetd in H. unfold ns_rooms in E.
       rewrite E in H. discriminate H. }
  assert (Hrm : nsmap m ns = rm) by (unfold nsmap, agetd; unfold ns_rooms in E; rewrite E; reflexivity).
  destruct (struct_nsmap m ns HS) as (Hn & Hk & _). rewrite Hrm in Hn, Hk.
  assert (Hkey : forall r b, In (r, b) rm -> room_ok r).
  { intros r b Hi. unfold keysP in Hk. rewrite Forall_forall in Hk. apply Hk.
    change r with (fst (r, b)). apply in_map. exact Hi. }
  split; [apply nodup_map_filter; exact Hn|]. split.
  { apply Forall_forall. intros r Hr. apply in_map_iff in Hr as ([r' b] & <- & Hf).
    apply filter_In in Hf as [Hi _]. eapply Hkey; eauto. }
  split.
  - intros r Hr. apply in_map_iff in Hr as ([r' b] & <- & Hf). cbn [fst].
    apply filter_In in Hf as [Hi Hc]. cbn [fst snd] in Hc. apply andb_true_iff in Hc as [Hc1 Hc2].
    split; [intro; subst r'; discriminate Hc1|].
    rewrite in_room_mem. unfold mem, look, agetd. rewrite Hrm.
    assert (aget room_eqb rm r' = Some b) as ->.
    { apply (aget_in room_eqb room_ok room_spec); eauto. }
    destruct (bd_get b sid); [reflexivity|discriminate Hc2].
  - intros r Hr Hne H. rewrite in_room_mem in H. unfold mem, look, agetd in H. rewrite Hrm in H.
    destruct (aget room_eqb rm r) as [b|] eqn:Eb; [|discriminate H].
    apply (aget_in room_eqb room_ok room_spec) in Eb; auto.
    apply in_map_iff. exists (r, b). split; [reflexivity|]. apply filter_In. split; [exact Eb|].
    cbn [fst snd]. apply andb_true_iff. split.
    + destruct (pv_eqb r PNone) eqn:Ep; [apply pv_eqb_eq in Ep; contradiction|reflexivity].
    + destruct (bd_get b sid); [reflexivity|discriminate H].
Qed.

Theorem C03_exec_rooms c s sid ns :
  WF (mg s) ->
  let o := ApiRooms sid ns in
  c03_step c s o (snd (step c s o)) = true.
Proof.
  intros HW o. subst o.
  assert (Hstep : step c s (ApiRooms sid ns) =
                  (s, [Ret (PList (get_rooms (mg s) sid (ns_or_default ns)))])).
  { unfold step, step_m. rewrite run_getS. reflexivity. }
  rewrite Hstep. cbn [snd]. unfold c03_step. set (n := ns_or_default ns).
  destruct (C03_rooms_listing_thm (mg s) sid n HW) as (_ & _ & H3 & H4).
  apply andb_true_iff. split; apply forallb_forall.
  - intros r Hr. destruct (H3 r Hr) as [Hne Hin]. rewrite Hin. cbn [andb].
    destruct (pv_eqb r PNone) eqn:Ep; [apply pv_eqb_eq in Ep; contradiction|reflexivity].
  - intros [k b] Hi. cbn [fst].
    destruct (pv_eqb k PNone) eqn:Ep; [reflexivity|]. cbn [orb].
    destruct (in_room (mg s) n k sid) eqn:Ein; [|reflexivity]. cbn [negb orb].
    apply existsb_exists. exists k. split; [|apply pv_eqb_refl].
    apply H4; auto.
    + change (match ns_rooms (mg s) n with Some rm => rm | None => [] end) with (nsmap (mg s) n) in Hi.
      destruct (struct_nsmap (mg s) n (proj1 HW)) as (_ & Hk & _).
      unfold keysP in Hk. rewrite Forall_forall in Hk. apply Hk.
      change k with (fst (k, b)). apply in_map. exact Hi.
    + intro; subst k. discriminate Ep.
Qed.

(* ================================================================== *)
(* 6. frame lemmas: what each operation changes in the membership       *)
(* ================================================================== *)
Lemma in_room_congr m m' ns r s ns' r' s' :
  mem m' ns' r' s' = mem m ns r s -> in_room m' ns' r' s' = in_room m ns r s.
Proof. intro H. rewrite !in_room_mem, H. reflexivity. Qed.
Lemma cond3_false ns ns' room r' sid s' :
  room_ok room -> room_ok r' -> (ns', r', s') <> (ns, room, sid) ->
  str_eqb ns ns' && room_eqb room r' && str_eqb sid s' = false.
Proof.
  intros Hr Hr' Hne. destruct (str_eqb ns ns' && room_eqb room r' && str_eqb sid s') eqn:C; [|reflexivity].
  apply cond3_true in C as (-> & -> & ->); auto. exfalso. apply Hne. reflexivity.
Qed.

Theorem C03_after_enter_thm m sid ns room m' :
  WF m -> room_ok room -> enter_room m sid ns room = (m', Ok tt) ->
  WF m' /\ in_room m' ns room sid = true /\
  forall ns' r' s', room_ok r' -> (ns', r', s') <> (ns, room, sid) ->
    in_room m' ns' r' s' = in_room m ns' r' s'.
Proof.
  intros HW Hr E. destruct (enter_room_spec _ _ _ _ _ _ HW Hr E) as (HW' & _ & _ & eio & H0 & Hi).
  split; [exact HW'|]. split.
  - rewrite in_room_mem, Hi by exact Hr. rewrite !str_eqb_refl, room_refl by exact Hr. reflexivity.
  - intros ns' r' s' Hr' Hne. apply in_room_congr. rewrite Hi by exact Hr'.
    rewrite cond3_false by assumption. reflexivity.
Qed.
Theorem C03_enter_failed_thm m sid ns room m' e :
  WF m -> room_ok room -> enter_room m sid ns room = (m', Err e) -> m' = m.
Proof. intros HW Hr E. destruct (enter_room_spec _ _ _ _ _ _ HW Hr E) as (_ & _ & _ & H & _). exact H. Qed.

Theorem C03_after_leave_thm m sid ns room :
  WF m -> room_ok room ->
  let m' := leave_room m sid ns room in
  (room <> PNone -> WF m') /\ in_room m' ns room sid = false /\
  forall ns' r' s', room_ok r' -> (ns', r', s') <> (ns, room, sid) ->
    in_room m' ns' r' s' = in_room m ns' r' s'.
Proof.
  intros HW Hr m'. subst m'. destruct (leave_room_spec m sid ns room (proj1 HW) Hr) as (_ & _ & _ & E).
  split; [intro; apply leave_room_wf; assumption|]. split.
  - rewrite in_room_mem, E by exact Hr. rewrite !str_eqb_refl, room_refl by exact Hr. reflexivity.
  - intros ns' r' s' Hr' Hne. apply in_room_congr. rewrite E by exact Hr'.
    rewrite cond3_false by assumption. reflexivity.
Qed.

Theorem C03_after_close_thm m room ns :
  WF m -> room_ok room ->
  let m' := close_room m room ns in
  (room <> PNone -> WF m') /\ (forall s, in_room m' ns room s = false) /\
  forall ns' r' s', room_ok r' -> (ns', r') <> (ns, room) ->
    in_room m' ns' r' s' = in_room m ns' r' s'.
Proof.
  intros HW Hr m'. subst m'. destruct (close_room_eq m room ns (proj1 HW) Hr) as (_ & _ & _ & E).
  split; [intro; apply close_room_wf; assumption|]. split.
  - intro s. rewrite in_room_mem, E by exact Hr. rewrite str_eqb_refl, room_refl by exact Hr. reflexivity.
  - intros ns' r' s' Hr' Hne. apply in_room_congr. rewrite E by exact Hr'.
    destruct (str_eqb ns ns') eqn:E1; cbn [andb]; [|reflexivity].
    destruct (room_eqb room r') eqn:E2; [|reflexivity].
    apply str_eqb_eq in E1. apply room_spec in E2; auto. subst. exfalso. apply Hne. reflexivity.
Qed.

Theorem C03_after_disconnect_thm m sid ns :
  WF m ->
  let m' := mgr_disconnect m sid ns in
  WF m' /\ (forall r, in_room m' ns r sid = false) /\ get_rooms m' sid ns = [] /\
  forall ns' r' s', room_ok r' -> (ns', s') <> (ns, sid) ->
    in_room m' ns' r' s' = in_room m ns' r' s'.
Proof.
  intros HW m'. subst m'. destruct (mgr_disconnect_spec m sid ns HW) as (HW' & E & _).
  assert (Hnone : forall r, in_room (mgr_disconnect m sid ns) ns r sid = false).
  { intro r. destruct (in_room (mgr_disconnect m sid ns) ns r sid) eqn:Ein; [|reflexivity].
    apply in_room_any in Ein as (r' & Hr' & Ein); [|exact HW'].
    rewrite in_room_mem, E in Ein by exact Hr'. rewrite !str_eqb_refl in Ein. discriminate Ein. }
  split; [exact HW'|]. split; [exact Hnone|]. split.
  - destruct (C03_rooms_listing_thm _ sid ns HW') as (_ & _ & H3 & _).
    destruct (get_rooms (mgr_disconnect m sid ns) sid ns) as [|r l]; [reflexivity|].
    destruct (H3 r (or_introl eq_refl)) as [_ H]. rewrite Hnone in H. discriminate H.
  - intros ns' r' s' Hr' Hne. apply in_room_congr. rewrite E by exact Hr'.
    destruct (str_eqb ns ns') eqn:E1; cbn [andb]; [|reflexivity].
    destruct (str_eqb sid s') eqn:E2; [|reflexivity].
    apply str_eqb_eq in E1, E2. subst. exfalso. apply Hne. reflexivity.
Qed.

Lemma singleton_list {A} (x : A) l : NoDup l -> (forall y, In y l <-> y = x) -> l = [x].
Proof.
  intros Hn H. destruct l as [|a l]; [exfalso; apply (proj2 (H x) eq_refl)|].
  assert (a = x) by (apply H; left; reflexivity). subst a. f_equal.
  destruct l as [|b l]; [reflexivity|]. exfalso.
  assert (b = x) by (apply H; right; left; reflexivity). subst b.
  inversion Hn; subst. apply H2. left; reflexivity.
Qed.

Theorem C03_after_connect_thm m eio ns sid m' s0 :
  WF m -> fresh_sid m sid -> mgr_connect m eio ns sid = (m', Some s0) ->
  s0 = sid /\ WF m' /\
  (forall ns' r', room_ok r' ->
     (in_room m' ns' r' sid = true <-> ns' = ns /\ (r' = PNone \/ r' = PStr sid))) /\
  get_rooms m' sid ns = [PStr sid] /\
  forall ns' r' s', room_ok r' -> s' <> sid -> in_room m' ns' r' s' = in_room m ns' r' s'.
Proof.
  intros HW Hf E. destruct (mgr_connect_spec _ _ _ _ _ _ HW Hf E) as (HW' & _ & _ & -> & _ & Heq).
  destruct Hf as [Hne Hfr].
  assert (Hsr : room_ok (PStr sid)) by (apply room_ok_sid; exact Hne).
  assert (Hold : forall ns' r', room_ok r' -> mem m ns' r' sid = None).
  { intros ns' r' Hr'. destruct (mem m ns' r' sid) as [e|] eqn:Em; [|reflexivity].
    destruct HW as [_ [H3 _]]. specialize (Hfr ns'). rewrite (H3 _ _ _ _ Hr' Em) in Hfr. discriminate Hfr. }
  assert (Hiff : forall ns' r', room_ok r' ->
     (in_room m' ns' r' sid = true <-> ns' = ns /\ (r' = PNone \/ r' = PStr sid))).
  { intros ns' r' Hr'. rewrite in_room_mem, Heq, Hold by exact Hr'. rewrite str_eqb_refl, andb_true_r.
    split.
    - destruct (str_eqb ns ns') eqn:E1; cbn [andb]; [|discriminate]. apply str_eqb_eq in E1.
      destruct (room_eqb PNone r') eqn:E2; cbn [orb].
      + apply room_spec in E2; auto using room_ok_None.
      + destruct (room_eqb (PStr sid) r') eqn:E3; [|discriminate].
        apply room_spec in E3; auto.
    - intros [-> [->| ->]]; rewrite str_eqb_refl; cbn [andb].
      + reflexivity.
      + rewrite (room_refl _ Hsr), orb_true_r. reflexivity. }
  split; [reflexivity|]. split; [exact HW'|]. split; [exact Hiff|]. split.
  - destruct (C03_rooms_listing_thm m' sid ns HW') as (Hn & Hok & H3 & H4).
    apply singleton_list; [exact Hn|]. intro r. split.
    + intro Hi. destruct (H3 r Hi) as [Hnn Hin]. rewrite Forall_forall in Hok.
      apply Hiff in Hin as [_ [->| ->]]; auto. contradiction.
    + intros ->. apply H4; auto; [discriminate|]. apply Hiff; auto.
  - intros ns' r' s' Hr' Hs. apply in_room_congr. rewrite Heq by exact Hr'.
    rewrite (str_neq sid s') by congruence. rewrite andb_false_r. reflexivity.
Qed.

(* ================================================================== *)
(* 7. non-vacuity: the theorems' hypotheses hold of a concrete state    *)
(* ================================================================== *)
Definition x_target : pv := PList [PInt 7; PStr (s2l "room"); PStr (s2l "S1")].
Definition x_cfg : cfg := mkCfg [] [] [] None false true.
Definition x_srv : srv := mkSrv x_mgr [] [] [] [s2l "e1"; s2l "e3"; s2l "e2"] 9.
Definition x_emit : op :=
  ApiEmit (PStr (s2l "ev")) (PTuple [PInt 1; PStr (s2l "a")]) x_target PNone (PStr (s2l "S2")) None None.

(* three rooms sharing members, one of them named like S1's sid; S2 skipped: the
   participants order (S2,S3,S1) differs from the namespace order (S1,S2,S3) *)
Example C03_recipients_example :
  WF x_mgr /\
  participants x_mgr x_ns1 x_target =
    Ok [(s2l "S2", s2l "e2"); (s2l "S3", s2l "e3"); (s2l "S1", s2l "e1")] /\
  spec_recipients x_mgr x_ns1 x_target (PStr (s2l "S2")) =
    [(s2l "S1", s2l "e1"); (s2l "S3", s2l "e3")].
Proof. split; [apply C03_wf_example|]. split; vm_compute; reflexivity. Qed.

Example C03_exec_emit_example :
  WF (mg x_srv) /\
  snd (step x_cfg x_srv x_emit) =
    [Out (s2l "e3") (PStr (s2l "2[""ev"",1,""a""]")); Out (s2l "e1") (PStr (s2l "2[""ev"",1,""a""]"))] /\
  c03_step x_cfg x_srv x_emit (snd (step x_cfg x_srv x_emit)) = true.
Proof. split; [apply C03_wf_example|]. split; vm_compute; reflexivity. Qed.

Example C03_rooms_listing_example :
  WF x_mgr /\ get_rooms x_mgr (s2l "S3") x_ns1 = [PStr (s2l "S1"); PStr (s2l "S3"); PInt 7] /\
  c03_step x_cfg x_srv (ApiRooms (s2l "S3") None)
           (snd (step x_cfg x_srv (ApiRooms (s2l "S3") None))) = true.
Proof. split; [apply C03_wf_example|]. split; vm_compute; reflexivity. Qed.

(* after: S2 leaves "room", room 7 is closed, S5 disconnects from /chat *)
Example C03_frames_example :
  let m2 := fold_left mstep x_ops2 mgr_init in
  WF m2 /\
  in_room m2 x_ns1 (PStr (s2l "room")) (s2l "S2") = false /\
  in_room m2 x_ns1 (PStr (s2l "room")) (s2l "S1") = true /\
  in_room m2 x_ns1 (PInt 7) (s2l "S3") = false /\
  get_rooms m2 (s2l "S3") x_ns1 = [PStr (s2l "S1"); PStr (s2l "S3")] /\
  get_rooms m2 (s2l "S5") x_ns2 = [] /\ members m2 x_ns2 = [(s2l "S4", s2l "e1")] /\
  in_room m2 x_ns2 (PStr (s2l "room")) (s2l "S4") = true.
Proof. split; [apply C03_wf_example|]. repeat split; vm_compute; reflexivity. Qed.

(* ================================================================== *)
(* 8. the id generator of the server model ("S<n>" from a counter) satisfies the
      freshness premise of C03_wf                                        *)
(* ================================================================== *)
From VT Require Import Base.PyStrProofs.
Lemma sid_name_inj a b : sid_name a = sid_name b -> a = b.
Proof.
  unfold sid_name. intro H. injection H as H.
  pose proof (py_int_str_of_N a) as Ha. rewrite H, py_int_str_of_N in Ha. congruence.
Qed.
Lemma sid_name_nonempty n : sid_name n <> [].
Proof. discriminate. Qed.
Theorem C03_wf_counter_thm ops ids :
  Forall op_ok ops -> connect_sids ops = map sid_name ids -> NoDup ids ->
  WF (fold_left mstep ops mgr_init).
Proof.
  intros Hok E Hn. apply C03_wf_thm; [exact Hok|]. rewrite E.
  apply FinFun.Injective_map_NoDup; [|exact Hn]. intros a b. apply sid_name_inj.
Qed.
