(* C14: the trace equivalence used to compare the threaded and the asyncio classes (equal
   per-peer packet sequences, equal handler / callback / result sequences) is an equivalence
   relation that the boolean comparison decides exactly; parity of a pair of classes then
   follows by transitivity from "each member corresponds to the same deterministic model". *)
From VT Require Import Check.SrvCheck.
From Coq Require Import Lia.
Open Scope N_scope.

Definition per_peer_equiv (a b : list eff) : Prop :=
  non_outs a = non_outs b /\ forall e, outs_of e a = outs_of e b.

Lemma eff_eqb_refl x : eff_eqb x x = true.
Proof.
  destruct x; simpl.
  - rewrite str_eqb_refl, pv_eqb_refl. reflexivity.
  - rewrite N.eqb_refl. simpl. apply (list_eqb_eq pv_eqb pv_eqb_eq). reflexivity.
  - rewrite N.eqb_refl. simpl. apply (list_eqb_eq pv_eqb pv_eqb_eq). reflexivity.
  - apply pv_eqb_refl.
  - apply exn_eqb_eq. reflexivity.
Qed.
Lemma eff_eqb_eq x y : eff_eqb x y = true <-> x = y.
Proof.
  split; [|intros ->; apply eff_eqb_refl].
  destruct x, y; simpl; intro H; try discriminate.
  - apply andb_true_iff in H as [Ha Hb]. apply str_eqb_eq in Ha. apply pv_eqb_eq in Hb. congruence.
  - apply andb_true_iff in H as [Ha Hb]. apply N.eqb_eq in Ha. apply (list_eqb_eq pv_eqb pv_eqb_eq) in Hb. congruence.
  - apply andb_true_iff in H as [Ha Hb]. apply N.eqb_eq in Ha. apply (list_eqb_eq pv_eqb pv_eqb_eq) in Hb. congruence.
  - apply pv_eqb_eq in H. congruence.
  - apply exn_eqb_eq in H. congruence.
Qed.

Lemma outs_of_not_in e l : ~ In e (out_eios l) -> outs_of e l = [].
Proof.
  induction l as [|x l IH]; simpl; intro H; [reflexivity|].
  destruct x as [e' p| | | |]; simpl in *; try (apply IH; exact H).
  destruct (str_eqb e' e) eqn:E.
  - apply str_eqb_eq in E. subst. exfalso. apply H. left. reflexivity.
  - apply IH. intro Hin. apply H. right. exact Hin.
Qed.

Lemma effs_eqb_spec a b : effs_eqb a b = true <-> per_peer_equiv a b.
Proof.
  unfold effs_eqb, per_peer_equiv. rewrite andb_true_iff, forallb_forall.
  rewrite (list_eqb_eq eff_eqb eff_eqb_eq).
  split; intros [H1 H2]; split; try exact H1.
  - intro e. destruct (in_dec (list_eq_dec N.eq_dec) e (out_eios a ++ out_eios b)) as [Hin|Hnin].
    + apply (list_eqb_eq pv_eqb pv_eqb_eq). apply H2. exact Hin.
    + rewrite !outs_of_not_in; [reflexivity| |]; intro Hc; apply Hnin; apply in_or_app; [right|left]; exact Hc.
  - intros e _. apply (list_eqb_eq pv_eqb pv_eqb_eq). apply H2.
Qed.

Lemma per_peer_refl a : per_peer_equiv a a.
Proof. split; [reflexivity | intro; reflexivity]. Qed.
Lemma per_peer_sym a b : per_peer_equiv a b -> per_peer_equiv b a.
Proof. intros [H1 H2]; split; [symmetry; exact H1 | intro e; symmetry; apply H2]. Qed.
Lemma per_peer_trans a b c : per_peer_equiv a b -> per_peer_equiv b c -> per_peer_equiv a c.
Proof. intros [H1 H2] [H3 H4]; split; [congruence | intro e; rewrite H2; apply H4]. Qed.

(* parity through the model: if the threaded run and the asyncio run each agree with the
   model's observation of the same operation, they agree with each other *)
Lemma parity_by_model (model sync async : list eff) :
  effs_eqb model sync = true -> effs_eqb model async = true -> effs_eqb sync async = true.
Proof.
  rewrite !effs_eqb_spec. intros H1 H2. eapply per_peer_trans; [apply per_peer_sym; exact H1 | exact H2].
Qed.

(* lifted to whole histories *)
Fixpoint all_eqb (a b : list (list eff)) : bool :=
  match a, b with
  | [], [] => true
  | x :: a', y :: b' => effs_eqb x y && all_eqb a' b'
  | _, _ => false
  end.
Lemma corr_steps_parity c s ops o1 o2 :
  fst (corr_steps c s ops o1) = true -> fst (corr_steps c s ops o2) = true -> all_eqb o1 o2 = true.
Proof.
  revert s o1 o2. induction ops as [|o ops IH]; intros s [|e1 o1] [|e2 o2]; simpl; try discriminate; try reflexivity.
  destruct (step c s o) as [s1 me]. 
  destruct (corr_steps c s1 ops o1) as [b1 sf1] eqn:E1.
  destruct (corr_steps c s1 ops o2) as [b2 sf2] eqn:E2. simpl.
  intros H1 H2. apply andb_true_iff in H1 as [Ha Hb]. apply andb_true_iff in H2 as [Hc Hd].
  apply andb_true_iff; split.
  - eapply parity_by_model; eassumption.
  - apply (IH s1). rewrite E1; exact Hb. rewrite E2; exact Hd.
Qed.
