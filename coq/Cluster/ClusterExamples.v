(* Worked instance used beside the C07 theorems: 3 listening hosts + 1 write-only manager,
   4 clients (a on host 0; b, c on host 1; d on host 2), a shared room, a callback to a remote client.
   Everything here is checked by computation or by instantiating the theorems at this reachable state. *)
From VT Require Import Manager.ManagerProofs Cluster.RoomsFacts Manager.AckProofs Check.C06Check.
From VT Require Import Cluster.PubSub Cluster.ClusterLemmas Cluster.ClusterProofs Cluster.CallbackProofs Check.C07Check.
From Coq Require Import Lia Permutation.
Open Scope N_scope.

Definition e (s : string) : str := s2l s.
Definition x_wos : list bool := [false; false; false; true].
Definition x_c0 : cluster := cluster_init x_wos.
Definition x_place (eio : str) : nat :=
  if str_eqb eio (e "a") then 0%nat else if str_eqb eio (e "d") then 2%nat else 1%nat.

(* connects, shared room r (entered through non-owning hosts too), emits through a member host and through
   the write-only manager *)
Definition x_setup : list op :=
  [ Connect 0 (e "a") None; Connect 1 (e "b") None; Connect 1 (e "c") None; Connect 2 (e "d") None;
    EnterRoom 0 (e "S1") None (PStr (e "r")); EnterRoom 0 (e "S0") None (PStr (e "r"));
    EnterRoom 1 (e "S3") None (PStr (e "r"));
    Emit 0 (PStr (e "ev")) (PInt 1) None (PStr (e "r")) (PStr (e "S0")) None;
    Emit 3 (PStr (e "news")) PNone None PNone PNone None ].
(* a callback for client c (host 1) issued on host 0, acknowledged, then a disconnect through host 2 and a
   room closed through host 1 *)
Definition x_more : list op :=
  [ Emit 0 (PStr (e "q")) (PInt 2) None (PStr (e "S2")) PNone (Some 7);
    ClientAck 1 (e "c") 0 [PInt 5];
    Disconnect 2 (e "S1") None;
    CloseRoom 1 None (PStr (e "r")) ].
Definition x_ops : list op := x_setup ++ x_more.

Lemma x_wf : Forall (wf_op x_place x_c0) x_ops.
Proof.
  unfold x_ops, x_setup, x_more. cbn [app].
  repeat (constructor; [split; [cbn; try tauto; try (split; [reflexivity|]; intros; eauto; try discriminate)|
                               split; [eexists; split; [reflexivity|intro; reflexivity || discriminate]|cbn; try reflexivity; exact I]]|]).
  constructor.
Qed.

(* ---- C07_immediate at work ---- *)
Example x_immediate_deliveries :
  list_eqb (fun a b => bag_eqb dl_eqb a b)
           (map deliveries (snd (run_imm x_c0 x_ops))) (map deliveries (snd (run_single single_init x_ops))) = true.
Proof. vm_compute. reflexivity. Qed.

Example x_immediate_nontrivial :
  map (fun es => List.length (deliveries es)) (snd (run_imm x_c0 x_ops)) =
  [1; 1; 1; 1; 0; 0; 0; 2; 4; 1; 0; 1; 0]%nat /\
  callbacks_of (List.concat (snd (run_imm x_c0 x_ops))) = [(0%nat, 7, [PInt 5])].
Proof. vm_compute. split; reflexivity. Qed.

Example x_immediate_applies :
  Forall2 deliveries_agree (snd (run_imm x_c0 x_ops)) (snd (run_single single_init x_ops)).
Proof. apply (immediate_refines x_place x_wos x_ops x_wf). Qed.

(* the state after the setup: related to the single server's *)
Definition x_c : cluster := Eval vm_compute in fst (run_imm x_c0 x_setup).
Definition x_s : single := Eval vm_compute in fst (run_single single_init x_setup).
Lemma x_wf_setup : Forall (wf_op x_place x_c0) x_setup.
Proof.
  pose proof x_wf as H. unfold x_ops in H. apply Forall_app in H. apply H.
Qed.
Lemma x_R : R x_place x_c x_s.
Proof.
  destruct (run_imm_refines x_place x_setup x_c0 x_c0 single_init (R_init x_place x_wos) (same_wos_refl _) x_wf_setup)
    as (_ & H & _). vm_cast_no_check H.
Qed.

(* ---- C07_no_double_on_origin at work: host 0 emits to room r, of which its own client a is a member ---- *)
Definition x_emit : op := Emit 0 (PStr (e "again")) PNone None (PStr (e "r")) PNone None.
Example x_no_double :
  delivered (snd (step x_c x_emit)) = [(e "a", PktEvent (e "/") [PStr (e "again")] None)] /\
  (* host 0 then reads its own message back: nothing but the cursor moves *)
  snd (step (fst (step x_c x_emit)) (Consume 0)) = [Consumed 0 4] /\
  map (fun h => rooms (h_mgr (h_st h))) (c_hosts (fst (step (fst (step x_c x_emit)) (Consume 0)))) =
  map (fun h => rooms (h_mgr (h_st h))) (c_hosts x_c).
Proof. vm_compute. repeat split; reflexivity. Qed.

(* ---- C07_delayed at work: the same emit, consumed in the order host 2, host 0, host 2 (idle), host 1 ---- *)
Definition x_sched : list nat := [2; 0; 2; 1]%nat.
Example x_delayed :
  bag_eqb dl_eqb (deliveries (snd (step x_c x_emit) ++ List.concat (snd (run (fst (step x_c x_emit)) (consumes x_sched)))))
                 (deliveries (snd (single_step x_s x_emit))) = true /\
  applied (fst (step x_c x_emit)) (consumes x_sched) = [(2, 4); (0, 4); (1, 4)]%nat.
Proof. vm_compute. split; reflexivity. Qed.
Example x_delayed_applies :
  NoDup (deliveries (snd (step x_c x_emit) ++ List.concat (snd (run (fst (step x_c x_emit)) (consumes x_sched))))).
Proof.
  refine (proj1 (delayed_exact x_place x_c x_s 0 (PStr (e "again")) PNone None (PStr (e "r")) PNone None x_sched x_R _)).
  split; [split; [reflexivity|intro H; exfalso; apply H; reflexivity]|]. split; [|exact I].
  eexists. split; [reflexivity|discriminate].
Qed.

(* ---- C07_callback_once_on_issuer at work: callback for client c = S2 (host 1) issued on host 0 ---- *)
Definition x_h0 : host := Eval vm_compute in match nth_error (c_hosts x_c) 0 with Some h => h | None => host_init true end.
Definition x_h1 : host := Eval vm_compute in match nth_error (c_hosts x_c) 1 with Some h => h | None => host_init true end.
Definition x_si : hst := Eval vm_compute in h_st x_h0.
Definition x_so : hst := Eval vm_compute in h_st x_h1.
Example x_callback_premises :
  hst_ok x_si /\ hst_ok x_so /\
  mem (h_mgr x_so) (e "/") PNone (e "S2") = Some (e "c") /\
  mem (h_mgr x_so) (e "/") (PStr (e "S2")) (e "S2") = Some (e "c") /\
  (forall s' e', mem (h_mgr x_so) (e "/") (PStr (e "S2")) s' = Some e' -> s' = e "S2") /\
  (forall s', mem (h_mgr x_si) (e "/") (PStr (e "S2")) s' = None).
Proof.
  assert (Hn0 : nth_error (c_hosts x_c) 0 = Some x_h0) by (vm_compute; reflexivity).
  assert (Hn1 : nth_error (c_hosts x_c) 1 = Some x_h1) by (vm_compute; reflexivity).
  split; [exact (proj1 (proj1 (R_hosts _ _ _ x_R 0%nat x_h0 Hn0)))|].
  split; [exact (proj1 (proj1 (R_hosts _ _ _ x_R 1%nat x_h1 Hn1)))|].
  split; [vm_compute; reflexivity|]. split; [vm_compute; reflexivity|]. split.
  - intros s' e'. unfold mem.
    replace (look (h_mgr x_so) (e "/") (PStr (e "S2"))) with [(e "S2", e "c")] by (vm_compute; reflexivity).
    cbn [bd_get aget]. destruct (str_eqb (e "S2") s') eqn:E; [|discriminate]. intros _. apply str_eqb_eq in E. auto.
  - intro s'. unfold mem.
    replace (look (h_mgr x_si) (e "/") (PStr (e "S2"))) with (@nil (str * str)) by (vm_compute; reflexivity).
    reflexivity.
Qed.

(* the theorem applies: the four protocol steps, from this state *)
Example x_callback_applies :
  exists si1 so1 so2 si2,
    api 0 (ps_emit 0 false (PStr (e "q")) (PInt 2) (e "/") (PStr (e "S2")) PNone (Some 7)) x_si =
      (si1, [Published (m_emit 0 x_si (e "S2") (e "/") (PStr (e "q")) (PInt 2))]) /\
    contained 1 (dispatch 1 (m_emit 0 x_si (e "S2") (e "/") (PStr (e "q")) (PInt 2))) x_so =
      (so1, [Deliver 1 (e "c") (PktEvent (e "/") (PStr (e "q") :: pack (PInt 2)) (Some (lid x_so (e "S2"))))]) /\
    h_ack 1 (e "c") (e "/") (lid x_so (e "S2")) [PInt 5] so1 = (so2, [Published (m_ret 0 x_si (e "S2") (e "/") [PInt 5])]) /\
    contained 0 (dispatch 0 (m_ret 0 x_si (e "S2") (e "/") [PInt 5])) si1 = (si2, [Callback 0 7 [PInt 5]]).
Proof.
  destruct x_callback_premises as (H1 & H2 & H3 & H4 & H5 & H6).
  destruct (callback_relay 0%nat 1%nat ltac:(discriminate) x_si x_so (e "S2") (e "c") (e "/") (PStr (e "q")) (PInt 2) 7 [PInt 5]
              H1 H2 ltac:(discriminate) H3 H4 H5 H6) as (si1 & so1 & so2 & si2 & A & B & C & D & _).
  exists si1, so1, so2, si2. auto.
Qed.

Example x_callback_run :
  callbacks_of (List.concat (snd (run x_c
     [ Emit 0 (PStr (e "q")) (PInt 2) None (PStr (e "S2")) PNone (Some 7);
       Consume 1;                              (* host 1 delivers to c, ack id 1 *)
       Consume 2;                              (* host 2 has nobody in that room *)
       ClientAck 1 (e "c") 0 [PInt 5];         (* c acknowledges: host 1 publishes the return message *)
       Consume 1; Consume 2;                   (* nothing on the other hosts *)
       Consume 0;                              (* host 0: its own echo *)
       Consume 0;                              (* host 0: the return message -> callback 7 *)
       ClientAck 1 (e "c") 0 [PInt 5]; Consume 0; Consume 1; Consume 2 ]))) = [(0%nat, 7, [PInt 5])].
Proof. vm_compute. reflexivity. Qed.
