(* The callback relay of the pub/sub managers, step by step at the level of the two hosts involved:
   emit(..., to=sid, callback=cb) on host i for a client that lives on host o <> i. *)
From VT Require Import Manager.ManagerProofs Cluster.RoomsFacts Manager.AckProofs Base.PyStrProofs Check.C06Check.
From VT Require Import Cluster.PubSub Cluster.ClusterLemmas.
From Coq Require Import Lia.
Open Scope N_scope.

(* ---- small computations ---- *)
Lemma cb_app_even c : N.even (cb_app c) = true /\ N.div2 (cb_app c) = c.
Proof. unfold cb_app. destruct c; split; reflexivity. Qed.
Lemma cb_part_odd p : N.even (cb_part p) = false /\ N.to_nat (N.div2 (cb_part p)) = p.
Proof.
  unfold cb_part. split.
  - destruct (N.of_nat p); reflexivity.
  - assert (E : N.div2 (2 * N.of_nat p + 1) = N.of_nat p) by (destruct (N.of_nat p); reflexivity).
    rewrite E. apply Nat2N.id.
Qed.

Lemma mgr_emit_nil k ev data ns room skip cb s :
  parts_of (h_mgr s) ns room = Ok [] -> mgr_emit k ev data ns room skip cb s = (s, [], Ok tt).
Proof.
  intro HP. unfold mgr_emit. rewrite bM_getS. unfold parts_of in HP.
  destruct (ns_rooms (h_mgr s) ns); [|reflexivity]. rewrite HP, bM_lift_ok. reflexivity.
Qed.

Lemma mgr_emit_one k ev data ns room skip c s sid eio m1 id :
  parts_of (h_mgr s) ns room = Ok [(sid, eio)] -> skipped (skip_list skip) sid = false ->
  generate_ack_id (h_mgr s) sid c = (m1, Ok id) ->
  mgr_emit k ev data ns room skip (Some c) s =
  (mkHst m1 (h_parts s), [Deliver k eio (PktEvent ns (ev :: pack data) (Some id))], Ok tt).
Proof.
  intros HP Hsk G. unfold mgr_emit. rewrite bM_getS. unfold parts_of in HP.
  destruct (ns_rooms (h_mgr s) ns); [|discriminate].
  rewrite HP, bM_lift_ok. cbn [filter fst]. rewrite Hsk. cbn [negb forM].
  erewrite bM_ok; [|rewrite emit_one_some; cbn [fst snd]; rewrite G; reflexivity]. reflexivity.
Qed.

Lemma singleton_list' {A} (x : A) l : NoDup l -> (forall y, In y l <-> y = x) -> l = [x].
Proof.
  intros Hn H. destruct l as [|a l]; [exfalso; apply (proj2 (H x) eq_refl)|].
  assert (a = x) by (apply H; left; reflexivity). subst a. f_equal.
  destruct l as [|b l]; [reflexivity|]. exfalso.
  assert (b = x) by (apply H; right; left; reflexivity). subst b.
  inversion Hn as [|? ? Hni _]; subst. apply Hni. left; reflexivity.
Qed.

(* the participants of a client's own room *)
Lemma parts_of_none m ns sid :
  WF m -> sid <> [] -> (forall s', mem m ns (PStr sid) s' = None) -> parts_of m ns (PStr sid) = Ok [].
Proof.
  intros HW Hs Hno. unfold parts_of. destruct (ns_rooms m ns); [|reflexivity].
  rewrite (participants_scalar m ns (PStr sid) (room_ok_sid sid Hs)).
  destruct (look m ns (PStr sid)) as [|[s0 e0] l] eqn:E; [reflexivity|].
  exfalso. specialize (Hno s0). unfold mem in Hno. rewrite E in Hno. cbn in Hno. rewrite str_eqb_refl in Hno. discriminate.
Qed.
Lemma parts_of_alone m ns sid eio :
  WF m -> sid <> [] -> mem m ns (PStr sid) sid = Some eio ->
  (forall s' e', mem m ns (PStr sid) s' = Some e' -> s' = sid) ->
  parts_of m ns (PStr sid) = Ok [(sid, eio)].
Proof.
  intros HW Hs Hm Hal. unfold parts_of.
  destruct (ns_rooms m ns) eqn:En; [|apply ns_rooms_of_mem in Hm; congruence].
  rewrite (participants_scalar m ns (PStr sid) (room_ok_sid sid Hs)). f_equal.
  pose proof (struct_look m ns (PStr sid) (proj1 HW)) as Hb.
  apply singleton_list'.
  - eapply NoDup_map_inv. exact Hb.
  - intros [s' e']. split.
    + intro Hi. apply (bd_get_in _ _ _ Hb) in Hi. pose proof (Hal s' e' Hi) as Hs'. subst s'.
      unfold mem in Hm. rewrite Hm in Hi. injection Hi as <-. reflexivity.
    + intro E. injection E as -> ->. apply (bd_get_in _ _ _ Hb). exact Hm.
Qed.

Lemma bd_inv_find (b : bidict) s e : In (s, e) b -> exists s0, bd_inv b e = Some s0.
Proof.
  induction b as [|[s1 e1] b IH]; intro H; [destruct H|]. cbn [bd_inv].
  destruct (str_eqb e1 e) eqn:E; [eauto|]. destruct H as [H|H]; [|auto].
  injection H as -> ->. rewrite str_eqb_refl in E. discriminate.
Qed.
Lemma sid_from_eio_of_mem m eio ns sid :
  WF m -> mem m ns PNone sid = Some eio -> sid_from_eio m eio ns = Some sid.
Proof.
  intros HW Hm. unfold sid_from_eio. pose proof Hm as Hm'. unfold mem in Hm'. rewrite look_room_of in Hm'.
  destruct (room_of m ns PNone) as [b|] eqn:Eb; [|discriminate].
  assert (Hb : b = look m ns PNone) by (rewrite look_room_of, Eb; reflexivity).
  pose proof (struct_look m ns PNone (proj1 HW)) as Hok. rewrite <- Hb in Hok.
  apply (bd_get_in _ _ _ Hok) in Hm'.
  destruct (bd_inv_find b sid eio Hm') as (s0 & E). rewrite E. f_equal.
  apply bd_inv_some in E. rewrite Hb, <- members_look in E, Hm'.
  eapply members_inj; eassumption.
Qed.

Lemma outstanding_trigger m sid id v :
  outstanding m (Some sid) (Some id) = Some v ->
  exists m', trigger_callback m (Some sid) (Some id) = (m', CbRef v).
Proof.
  intro H. pose proof (C06_fires_iff_thm m (Some sid) (Some id)) as E. rewrite H in E.
  destruct (trigger_callback m (Some sid) (Some id)) as [m' t]. cbn in E. subst t. eauto.
Qed.

Lemma hst_ok_mgr s m' :
  hst_ok s -> rooms m' = rooms (h_mgr s) -> pending m' = pending (h_mgr s) -> AckInv m' ->
  forall p, hst_ok (mkHst m' p).
Proof.
  intros Hok Hr Hp HA p. eapply (hst_ok_same s); [split; cbn; assumption|exact HA|exact Hok].
Qed.

Section Relay.
Variables (i o : nat).
Hypothesis Hio : i <> o.
Variables (si so : hst) (sid eio ns : str) (ev data : pv) (cb : N) (args : list pv).
Hypothesis Hoki : hst_ok si.
Hypothesis Hoko : hst_ok so.
Hypothesis Hsid : sid <> [].
Hypothesis Hclient : mem (h_mgr so) ns PNone sid = Some eio.
Hypothesis Hroom : mem (h_mgr so) ns (PStr sid) sid = Some eio.
Hypothesis Halone : forall s' e', mem (h_mgr so) ns (PStr sid) s' = Some e' -> s' = sid.
Hypothesis Hremote : forall s', mem (h_mgr si) ns (PStr sid) s' = None.

Definition gid : N := next_id (h_mgr si) sid.
Definition lid : N := next_id (h_mgr so) sid.
Definition m_emit : msg := MEmit ev data ns (PStr sid) PNone (Some (sid, ns, gid)) i.
Definition m_ret : msg := MCallback i sid ns gid args.

Theorem callback_relay :
  exists si1 so1 so2 si2,
    (* A: the issuing host registers cb under (sid, gid), has nobody to deliver to, and publishes *)
    api i (ps_emit i false ev data ns (PStr sid) PNone (Some cb)) si = (si1, [Published m_emit]) /\
    (* B: the listener of the owning host delivers the event once, under its own ack id *)
    contained o (dispatch o m_emit) so = (so1, [Deliver o eio (PktEvent ns (ev :: pack data) (Some lid))]) /\
    (* C: the client's ACK makes the owning host publish the return message, addressed to host i *)
    h_ack o eio ns lid args so1 = (so2, [Published m_ret]) /\
    (* D: the listener of the issuing host invokes cb( *args ) *)
    contained i (dispatch i m_ret) si1 = (si2, [Callback i cb args]) /\
    (* E: a repeated ACK and a replayed return message invoke nothing *)
    h_ack o eio ns lid args so2 = (so2, []) /\
    contained i (dispatch i m_ret) si2 = (si2, []) /\
    (* F: on every other host the return message is void, and host i drops the echo of its own emit *)
    (forall k s, k <> i -> contained k (dispatch k m_ret) s = (s, [])) /\
    contained i (dispatch i m_emit) si1 = (si1, []) /\
    hst_ok si1 /\ hst_ok so1 /\ hst_ok si2 /\ hst_ok so2.
Proof.
  pose proof Hoki as (HWi & Hpi & HAi). pose proof Hoko as (HWo & Hpo & HAo).
  (* A *)
  destruct (generate_ack_id (h_mgr si) sid (cb_app cb)) as [mi1 r1] eqn:G1.
  destruct (C06_unique_thm _ _ _ _ _ HAi G1) as (g & -> & Hg & Hg1 & _ & Hout1 & _ & _ & _ & Hr1 & Hp1).
  fold gid in Hg. subst g.
  pose proof (generate_ack_id_inv (h_mgr si) sid (cb_app cb) HAi) as HAi1. rewrite G1 in HAi1. cbn [fst] in HAi1.
  set (pi := h_parts si ++ [(i, sid, ns, gid)]).
  set (si1 := mkHst mi1 pi).
  assert (Hoki1 : hst_ok si1) by (apply (hst_ok_mgr si); assumption).
  assert (HA : api i (ps_emit i false ev data ns (PStr sid) PNone (Some cb)) si = (si1, [Published m_emit])).
  { apply api_ok. unfold ps_emit. cbv beta iota.
    erewrite bM_ok; [|rewrite gen_token_run, G1; reflexivity]. cbv beta. cbn [fst snd app].
    erewrite bM_ok.
    2:{ unfold handle_emit. rewrite bM_getS, bM_putS. cbn [h_mgr h_parts].
        apply mgr_emit_nil. cbn [h_mgr]. apply parts_of_none; [|exact Hsid|].
        - eapply WF_ext; [exact Hr1| |exact HWi]. rewrite Hp1, Hpi. constructor.
        - intro s'. rewrite (mem_ext _ _ Hr1). apply Hremote. }
    reflexivity. }
  (* B *)
  set (po := h_parts so ++ [(i, sid, ns, gid)]).
  destruct (generate_ack_id (h_mgr so) sid (cb_part (List.length (h_parts so)))) as [mo1 r2] eqn:G2.
  destruct (C06_unique_thm _ _ _ _ _ HAo G2) as (l & -> & Hl & Hl1 & _ & Hout2 & _ & _ & _ & Hr2 & Hp2).
  fold lid in Hl. subst l.
  pose proof (generate_ack_id_inv (h_mgr so) sid (cb_part (List.length (h_parts so))) HAo) as HAo1.
  rewrite G2 in HAo1. cbn [fst] in HAo1.
  set (so1 := mkHst mo1 po).
  assert (Hoko1 : hst_ok so1) by (apply (hst_ok_mgr so); assumption).
  assert (HB : contained o (dispatch o m_emit) so = (so1, [Deliver o eio (PktEvent ns (ev :: pack data) (Some lid))])).
  { apply contained_ok. unfold m_emit. cbn [dispatch msg_host].
    destruct (Nat.eqb i o) eqn:E; [apply Nat.eqb_eq in E; contradiction|].
    unfold handle_emit. rewrite bM_getS, bM_putS. unfold so1, po.
    apply (mgr_emit_one o ev data ns (PStr sid) PNone _ (mkHst (h_mgr so) (h_parts so ++ [(i, sid, ns, gid)])) sid eio mo1 lid).
    - cbn [h_mgr]. apply parts_of_alone; assumption.
    - reflexivity.
    - cbn [h_mgr]. exact G2. }
  (* C *)
  destruct (outstanding_trigger mo1 sid (Z.of_N lid) _ Hout2) as (mo2 & T2).
  pose proof (trigger_callback_inv mo1 (Some sid) (Some (Z.of_N lid)) HAo1) as HAo2. rewrite T2 in HAo2. cbn [fst] in HAo2.
  destruct (C06_right_client_thm _ _ _ _ _ HAo1 T2) as (_ & Hr3 & Hp3 & _).
  destruct (C06_at_most_once_thm _ _ _ _ _ HAo1 T2) as (_ & T2').
  set (so2 := mkHst mo2 po).
  assert (Hoko2 : hst_ok so2) by (apply (hst_ok_mgr so); [assumption|congruence|congruence|assumption]).
  assert (Hsf1 : sid_from_eio mo1 eio ns = Some sid).
  { apply sid_from_eio_of_mem; [apply Hoko1|]. rewrite (mem_ext _ _ Hr2). exact Hclient. }
  assert (Hsf2 : sid_from_eio mo2 eio ns = Some sid).
  { apply sid_from_eio_of_mem; [apply Hoko2|]. rewrite (mem_ext mo1 mo2 Hr3), (mem_ext _ _ Hr2). exact Hclient. }
  destruct (cb_part_odd (List.length (h_parts so))) as [Hodd Hidx].
  assert (HC : h_ack o eio ns lid args so1 = (so2, [Published m_ret])).
  { unfold h_ack. apply contained_ok. cbn [so1 h_mgr]. rewrite Hsf1. cbn [fire].
    rewrite (bM_ok _ _ _ _ _ _ (with_hmgr_run _ so1)). cbv beta. cbn [so1 h_mgr h_parts]. rewrite T2. cbn [fst snd app].
    rewrite Hodd. rewrite bM_getS. cbn [h_parts]. rewrite Hidx.
    unfold po. rewrite nth_error_app2 by lia. rewrite Nat.sub_diag. cbn [nth_error].
    destruct (Nat.eqb i o) eqn:E; [apply Nat.eqb_eq in E; contradiction|]. reflexivity. }
  (* D *)
  destruct (outstanding_trigger mi1 sid (Z.of_N gid) _ Hout1) as (mi2 & T1).
  pose proof (trigger_callback_inv mi1 (Some sid) (Some (Z.of_N gid)) HAi1) as HAi2. rewrite T1 in HAi2. cbn [fst] in HAi2.
  destruct (C06_right_client_thm _ _ _ _ _ HAi1 T1) as (_ & Hr4 & Hp4 & _).
  destruct (C06_at_most_once_thm _ _ _ _ _ HAi1 T1) as (_ & T1').
  set (si2 := mkHst mi2 pi).
  assert (Hoki2 : hst_ok si2) by (apply (hst_ok_mgr si); [assumption|congruence|congruence|assumption]).
  destruct (cb_app_even cb) as [Hev Hdiv].
  assert (HD : contained i (dispatch i m_ret) si1 = (si2, [Callback i cb args])).
  { apply contained_ok. unfold m_ret. cbn [dispatch]. rewrite Nat.eqb_refl. cbn [fire].
    rewrite (bM_ok _ _ _ _ _ _ (with_hmgr_run _ si1)). cbv beta. cbn [si1 h_mgr h_parts]. rewrite T1. cbn [fst snd app].
    rewrite Hev, Hdiv. reflexivity. }
  (* E *)
  assert (HE1 : h_ack o eio ns lid args so2 = (so2, [])).
  { unfold h_ack. apply contained_ok. cbn [so2 h_mgr]. rewrite Hsf2. cbn [fire].
    rewrite (bM_ok _ _ _ _ _ _ (with_hmgr_run _ so2)). cbv beta. cbn [so2 h_mgr h_parts]. rewrite T2'. reflexivity. }
  assert (HE2 : contained i (dispatch i m_ret) si2 = (si2, [])).
  { apply contained_ok. unfold m_ret. cbn [dispatch]. rewrite Nat.eqb_refl. cbn [fire].
    rewrite (bM_ok _ _ _ _ _ _ (with_hmgr_run _ si2)). cbv beta. cbn [si2 h_mgr h_parts]. rewrite T1'. reflexivity. }
  exists si1, so1, so2, si2. splits; auto.
  - intros k s Hk. apply contained_ok. unfold m_ret. cbn [dispatch].
    destruct (Nat.eqb i k) eqn:E; [apply Nat.eqb_eq in E; congruence|reflexivity].
  - apply contained_ok. apply dispatch_echo; reflexivity.
Qed.
End Relay.
