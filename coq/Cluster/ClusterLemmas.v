(* Evaluation lemmas for the host-level functions of Cluster/PubSub.v: "pure forms" of the
   monadic transcriptions, and what each of them does to the membership function [mem]. *)
From VT Require Import Manager.ManagerProofs Cluster.RoomsFacts Manager.AckProofs Base.PyStrProofs.
From VT Require Import Cluster.PubSub.
From Coq Require Import Lia Permutation.
Open Scope N_scope.

(* ------------------------------------------------------------------ *)
(* monad                                                              *)
(* ------------------------------------------------------------------ *)
Section MonadLemmas.
  Context {S E : Type}.
  Notation MM := (M S E).
  Lemma bM_ret {A B} (a : A) (k : A -> MM B) s : bindM (ret a) k s = k a s.
  Proof. unfold bindM, ret. destruct (k a s) as [[s2 e2] r]. reflexivity. Qed.
  Lemma bM_raise {A B} x (k : A -> MM B) s : bindM (raise x) k s = (s, [], Err x).
  Proof. reflexivity. Qed.
  Lemma bM_lift_ok {A B} (a : A) (k : A -> MM B) s : bindM (lift (Ok a)) k s = k a s.
  Proof. unfold bindM, lift. destruct (k a s) as [[s2 e2] r]. reflexivity. Qed.
  Lemma bM_lift_err {A B} x (k : A -> MM B) s : bindM (lift (@Err A x)) k s = (s, [], Err x).
  Proof. reflexivity. Qed.
  Lemma bM_getS {B} (k : S -> MM B) s : bindM getS k s = k s s.
  Proof. unfold bindM, getS. destruct (k s s) as [[s2 e2] r]. reflexivity. Qed.
  Lemma bM_putS {B} s' (k : unit -> MM B) s : bindM (putS s') k s = k tt s'.
  Proof. unfold bindM, putS. destruct (k tt s') as [[s2 e2] r]. reflexivity. Qed.
  Lemma bM_modify {B} f (k : unit -> MM B) s : bindM (modify f) k s = k tt (f s).
  Proof. unfold bindM, modify. destruct (k tt (f s)) as [[s2 e2] r]. reflexivity. Qed.
  Lemma bM_tell {B} e (k : unit -> MM B) s :
    bindM (tell e) k s = (fst (fst (k tt s)), e :: snd (fst (k tt s)), snd (k tt s)).
  Proof. unfold bindM, tell. destruct (k tt s) as [[s2 e2] r]. reflexivity. Qed.
  Lemma bM_ok {A B} (m : MM A) (k : A -> MM B) s s1 e1 a :
    m s = (s1, e1, Ok a) ->
    bindM m k s = (fst (fst (k a s1)), e1 ++ snd (fst (k a s1)), snd (k a s1)).
  Proof. intro H. unfold bindM. rewrite H. destruct (k a s1) as [[s2 e2] r]. reflexivity. Qed.
  Lemma bM_err {A B} (m : MM A) (k : A -> MM B) s s1 e1 x :
    m s = (s1, e1, Err x) -> bindM m k s = (s1, e1, Err x).
  Proof. intro H. unfold bindM. rewrite H. reflexivity. Qed.
  Lemma triple_eta' {A} (x : S * list E * Res A) : (fst (fst x), snd (fst x), snd x) = x.
  Proof. destruct x as [[a b] c]. reflexivity. Qed.
  Lemma forM_tell' {A} (g : A -> E) (l : list A) s :
    forM (S:=S) l (fun p => tell (g p)) s = (s, map g l, Ok tt).
  Proof.
    induction l as [|x l IH]; [reflexivity|].
    cbn [forM map]. rewrite bM_tell, IH. reflexivity.
  Qed.
End MonadLemmas.

Ltac splits := repeat match goal with |- _ /\ _ => split end.

(* ------------------------------------------------------------------ *)
(* small facts                                                        *)
(* ------------------------------------------------------------------ *)
Lemma mlook_mem m ns r s : mlook m ns r s = mem m ns r s.
Proof. unfold mlook, mem. rewrite look_room_of. destruct (room_of m ns r); reflexivity. Qed.

Lemma sid_name_inj a b : sid_name a = sid_name b -> a = b.
Proof.
  unfold sid_name. intro H. injection H as H.
  pose proof (py_int_str_of_N a) as Ha. rewrite H in Ha. rewrite py_int_str_of_N in Ha. congruence.
Qed.
Lemma sid_name_nonnil n : sid_name n <> [].
Proof. discriminate. Qed.

Lemma published_app a b : published (a ++ b) = published a ++ published b.
Proof. unfold published. apply flat_map_app. Qed.
Lemma delivered_app a b : delivered (a ++ b) = delivered a ++ delivered b.
Proof. unfold delivered. apply flat_map_app. Qed.
Lemma deliveries_app a b : deliveries (a ++ b) = deliveries a ++ deliveries b.
Proof. unfold deliveries. rewrite delivered_app, map_app. reflexivity. Qed.
Lemma callbacks_of_app a b : callbacks_of (a ++ b) = callbacks_of a ++ callbacks_of b.
Proof. unfold callbacks_of. apply flat_map_app. Qed.

(* list update *)
Lemma nth_upd_eq {A} (l : list A) k x : (k < List.length l)%nat -> nth_error (upd l k x) k = Some x.
Proof.
  revert k. induction l as [|y l IH]; intros [|k] H; cbn in *; try lia; [reflexivity|].
  apply IH. lia.
Qed.
Lemma nth_upd_neq {A} (l : list A) k k' x : k <> k' -> nth_error (upd l k x) k' = nth_error l k'.
Proof.
  revert k k'. induction l as [|y l IH]; intros [|k] [|k'] H; cbn; try reflexivity; try congruence.
  apply IH. congruence.
Qed.
Lemma upd_length {A} (l : list A) k x : List.length (upd l k x) = List.length l.
Proof. revert k. induction l as [|y l IH]; intros [|k]; cbn; auto. Qed.
Lemma nth_some_lt {A} (l : list A) k x : nth_error l k = Some x -> (k < List.length l)%nat.
Proof. intro H. apply nth_error_Some. congruence. Qed.
Lemma upd_same {A} (l : list A) k x : nth_error l k = Some x -> upd l k x = l.
Proof.
  revert k. induction l as [|y l IH]; intros [|k] H; cbn in *; try discriminate.
  - congruence.
  - f_equal. auto.
Qed.
Lemma upd_upd {A} (l : list A) k x y : upd (upd l k x) k y = upd l k y.
Proof. revert k. induction l as [|z l IH]; intros [|k]; cbn; auto. f_equal. auto. Qed.

(* ------------------------------------------------------------------ *)
(* what the handlers leave alone                                      *)
(* ------------------------------------------------------------------ *)
(* the rooms / pending part of a handler state *)
Definition same_rooms (s s' : hst) : Prop :=
  rooms (h_mgr s') = rooms (h_mgr s) /\ pending (h_mgr s') = pending (h_mgr s).
Lemma same_rooms_refl s : same_rooms s s. Proof. split; reflexivity. Qed.
Lemma same_rooms_trans a b c : same_rooms a b -> same_rooms b c -> same_rooms a c.
Proof. intros [H1 H2] [H3 H4]. split; congruence. Qed.

Definition only_deliver (k : nat) (es : list eff) : Prop :=
  Forall (fun e => exists eio p, e = Deliver k eio p) es.
Lemma only_deliver_published k es : only_deliver k es -> published es = [].
Proof.
  induction 1 as [|e es (eio & p & ->) _ IH]; [reflexivity|]. cbn. exact IH.
Qed.
Lemma only_deliver_callbacks k es : only_deliver k es -> callbacks_of es = [].
Proof.
  induction 1 as [|e es (eio & p & ->) _ IH]; [reflexivity|]. cbn. exact IH.
Qed.

(* ------------------------------------------------------------------ *)
(* Manager.emit                                                       *)
(* ------------------------------------------------------------------ *)
Definition nonskip (skip : pv) (se : str * str) : bool := negb (skipped (skip_list skip) (fst se)).

Definition cb_flag (cb : option N) : option N := match cb with Some _ => Some 0 | None => None end.

Lemma with_hmgr_run {A} (f : mgr -> mgr * A) s :
  with_hmgr f s = (mkHst (fst (f (h_mgr s))) (h_parts s), [], Ok (snd (f (h_mgr s)))).
Proof. unfold with_hmgr. rewrite bM_getS. destruct (f (h_mgr s)) as [m' a]. rewrite bM_putS. reflexivity. Qed.
Lemma set_hmgr_run f s : set_hmgr f s = (mkHst (f (h_mgr s)) (h_parts s), [], Ok tt).
Proof. reflexivity. Qed.

Lemma emit_one_some k ns payload c se s :
  emit_one k ns payload (Some c) se s =
  match snd (generate_ack_id (h_mgr s) (fst se) c) with
  | Ok id => (mkHst (fst (generate_ack_id (h_mgr s) (fst se) c)) (h_parts s),
              [Deliver k (snd se) (PktEvent ns payload (Some id))], Ok tt)
  | Err e => (mkHst (fst (generate_ack_id (h_mgr s) (fst se) c)) (h_parts s), [], Err e)
  end.
Proof.
  unfold emit_one. rewrite (bM_ok _ _ _ _ _ _ (with_hmgr_run _ s)).
  destruct (snd (generate_ack_id (h_mgr s) (fst se) c)) as [id|e].
  - rewrite bM_lift_ok. reflexivity.
  - reflexivity.
Qed.

Lemma emit_loop k ns payload cb (l : list (str * str)) : forall s,
  AckInv (h_mgr s) ->
  exists s' es,
    forM l (emit_one k ns payload cb) s = (s', es, Ok tt) /\
    same_rooms s s' /\ h_parts s' = h_parts s /\ AckInv (h_mgr s') /\ only_deliver k es /\
    (cb = None -> s' = s) /\
    deliveries es = map (fun se => (snd se, PktEvent ns payload (cb_flag cb))) l.
Proof.
  induction l as [|se l IH]; intros s HA.
  - exists s, []. cbn. splits; auto using same_rooms_refl. constructor.
  - cbn [forM]. destruct cb as [c|].
    + destruct (generate_ack_id (h_mgr s) (fst se) c) as [m1 r1] eqn:G.
      destruct (C06_unique_thm _ _ _ _ _ HA G) as (id & -> & _ & _ & _ & _ & _ & _ & _ & Hr & Hp).
      pose proof (generate_ack_id_inv (h_mgr s) (fst se) c HA) as HA1. rewrite G in HA1. cbn [fst] in HA1.
      set (s1 := mkHst m1 (h_parts s)).
      destruct (IH s1 HA1) as (s' & es & Hrun & Hsame & Hparts & HA' & Hod & _ & Hdel).
      exists s', (Deliver k (snd se) (PktEvent ns payload (Some id)) :: es).
      split.
      { erewrite bM_ok; [|rewrite emit_one_some, G; reflexivity]. cbv beta. cbn [fst snd]. fold s1. rewrite Hrun. reflexivity. }
      split; [eapply same_rooms_trans; [|exact Hsame]; split; cbn; assumption|].
      split; [rewrite Hparts; reflexivity|].
      split; [exact HA'|].
      split; [constructor; [eexists; eexists; reflexivity|exact Hod]|].
      split; [discriminate|].
      cbn [map]. rewrite <- Hdel. reflexivity.
    + destruct (IH s HA) as (s' & es & Hrun & Hsame & Hparts & HA' & Hod & Hs & Hdel).
      specialize (Hs eq_refl). subst s'.
      exists s, (Deliver k (snd se) (PktEvent ns payload None) :: es).
      split.
      { unfold emit_one at 1. rewrite bM_tell, Hrun. reflexivity. }
      splits; auto using same_rooms_refl.
      * constructor; [eexists; eexists; reflexivity|exact Hod].
      * cbn [map]. rewrite <- Hdel. reflexivity.
Qed.

(* the participants a host computes, a missing namespace giving none *)
Definition parts_of (m : mgr) (ns : str) (room : pv) : Res (list (str * str)) :=
  match ns_rooms m ns with None => Ok [] | Some _ => participants m ns room end.

Lemma mgr_emit_spec k ev data ns room skip cb s parts :
  AckInv (h_mgr s) -> parts_of (h_mgr s) ns room = Ok parts ->
  exists s' es,
    mgr_emit k ev data ns room skip cb s = (s', es, Ok tt) /\
    same_rooms s s' /\ h_parts s' = h_parts s /\ AckInv (h_mgr s') /\ only_deliver k es /\
    (cb = None -> s' = s) /\
    deliveries es = map (fun se => (snd se, PktEvent ns (ev :: pack data) (cb_flag cb))) (filter (nonskip skip) parts).
Proof.
  intros HA HP. unfold mgr_emit. rewrite bM_getS. unfold parts_of in HP.
  destruct (ns_rooms (h_mgr s) ns) as [rm|].
  - rewrite HP, bM_lift_ok. apply emit_loop. exact HA.
  - injection HP as <-. exists s, []. cbn. splits; auto using same_rooms_refl. constructor.
Qed.

Lemma mgr_emit_err k ev data ns room skip cb s e :
  parts_of (h_mgr s) ns room = Err e -> mgr_emit k ev data ns room skip cb s = (s, [], Err e).
Proof.
  intro HP. unfold mgr_emit. rewrite bM_getS. unfold parts_of in HP.
  destruct (ns_rooms (h_mgr s) ns) as [rm|]; [|discriminate].
  rewrite HP. reflexivity.
Qed.

(* _handle_emit *)
Lemma handle_emit_spec k ev data ns room skip cb origin s parts :
  AckInv (h_mgr s) -> parts_of (h_mgr s) ns room = Ok parts ->
  exists s' es,
    handle_emit k ev data ns room skip cb origin s = (s', es, Ok tt) /\
    same_rooms s s' /\ AckInv (h_mgr s') /\ only_deliver k es /\
    (cb = None -> s' = s) /\
    deliveries es = map (fun se => (snd se, PktEvent ns (ev :: pack data)
                                              (match cb with Some _ => Some 0 | None => None end)))
                        (filter (nonskip skip) parts).
Proof.
  intros HA HP. unfold handle_emit. destruct cb as [[[r n] id]|].
  - rewrite bM_getS, bM_putS.
    set (s1 := mkHst (h_mgr s) (h_parts s ++ [(origin, r, n, id)])).
    destruct (mgr_emit_spec k ev data ns room skip (Some (cb_part (List.length (h_parts s)))) s1 parts HA HP)
      as (s' & es & Hrun & Hsame & _ & HA' & Hod & _ & Hdel).
    exists s', es. split; [exact Hrun|]. split; [exact Hsame|]. split; [exact HA'|]. split; [exact Hod|].
    split; [discriminate|exact Hdel].
  - destruct (mgr_emit_spec k ev data ns room skip None s parts HA HP)
      as (s' & es & Hrun & Hsame & _ & HA' & Hod & Hs & Hdel).
    exists s', es. splits; auto using same_rooms_refl; apply Hsame.
Qed.

Lemma handle_emit_err k ev data ns room skip cb origin s e :
  parts_of (h_mgr s) ns room = Err e ->
  exists s', handle_emit k ev data ns room skip cb origin s = (s', [], Err e) /\ h_mgr s' = h_mgr s.
Proof.
  intro HP. unfold handle_emit. destruct cb as [[[r n] id]|].
  - rewrite bM_getS, bM_putS. eexists. split; [apply mgr_emit_err; exact HP|reflexivity].
  - exists s. split; [apply mgr_emit_err; exact HP|reflexivity].
Qed.

(* ------------------------------------------------------------------ *)
(* trigger_callback chains                                            *)
(* ------------------------------------------------------------------ *)
Definition no_deliver (es : list eff) : Prop := delivered es = [].

Lemma fire_frame fuel : forall k sid id args s s' es r,
  AckInv (h_mgr s) -> fire fuel k sid id args s = (s', es, r) ->
  same_rooms s s' /\ AckInv (h_mgr s') /\ delivered es = [] /\ h_parts s' = h_parts s /\
  Forall (fun m => is_callback_msg m = true) (published es).
Proof.
  induction fuel as [|f IH]; intros k sid id args s s' es r HA H; cbn [fire] in H.
  - injection H as <- <- <-. splits; auto using same_rooms_refl. constructor.
  - rewrite (bM_ok _ _ _ _ _ _ (with_hmgr_run _ s)) in H. cbv beta in H.
    destruct (trigger_callback (h_mgr s) sid (Some (Z.of_N id))) as [m1 t] eqn:T.
    cbn [fst snd app] in H. rewrite triple_eta' in H.
    pose proof (trigger_callback_inv (h_mgr s) sid (Some (Z.of_N id)) HA) as HA1. rewrite T in HA1. cbn [fst] in HA1.
    pose proof (rooms_trigger_callback (h_mgr s) sid (Some (Z.of_N id))) as Hr. rewrite T in Hr. cbn [fst] in Hr.
    assert (Hp : pending m1 = pending (h_mgr s)).
    { unfold trigger_callback in T. destruct sid as [sd|]; [|injection T as <- _; reflexivity].
      destruct (aget str_eqb (callbacks (h_mgr s)) sd) as [sl|]; [|injection T as <- _; reflexivity].
      destruct (Z.of_N id <=? 0)%Z; [injection T as <- _; reflexivity|].
      destruct (aget N.eqb (cb_entries sl) (Z.to_N (Z.of_N id))); injection T as <- _; reflexivity. }
    set (s1 := mkHst m1 (h_parts s)) in *.
    assert (Hs1 : same_rooms s s1) by (split; cbn; assumption).
    destruct t as [|v].
    + injection H as <- <- <-. splits; auto using same_rooms_refl; try apply Hs1. constructor.
    + destruct (N.even v).
      * injection H as <- <- <-. splits; auto using same_rooms_refl; try apply Hs1. constructor.
      * rewrite bM_getS in H.
        destruct (nth_error (h_parts s1) (N.to_nat (N.div2 v))) as [[[[origin rr] n] gid]|].
        -- destruct (Nat.eqb origin k).
           ++ destruct (IH _ _ _ _ s1 _ _ _ HA1 H) as (Hsame & HA' & Hd & Hpa & Hpub).
              split; [eapply same_rooms_trans; eassumption|]. splits; auto using same_rooms_refl.
           ++ injection H as <- <- <-. splits; auto using same_rooms_refl; try apply Hs1.
              cbn. constructor; [reflexivity|constructor].
        -- injection H as <- <- <-. splits; auto using same_rooms_refl; try apply Hs1. constructor.
Qed.

(* ------------------------------------------------------------------ *)
(* handler states that are in order                                   *)
(* ------------------------------------------------------------------ *)
Definition hst_ok (s : hst) : Prop :=
  WF (h_mgr s) /\ pending (h_mgr s) = [] /\ AckInv (h_mgr s).

Lemma hst_ok_same s s' : same_rooms s s' -> AckInv (h_mgr s') -> hst_ok s -> hst_ok s'.
Proof.
  intros [Hr Hp] HA (HW & Hpe & _). split; [|split; [congruence|exact HA]].
  eapply WF_ext; [exact Hr| |exact HW]. rewrite Hp, Hpe. constructor.
Qed.
Lemma mem_same s s' : same_rooms s s' -> mem (h_mgr s') = mem (h_mgr s).
Proof. intros [Hr _]. apply mem_ext. exact Hr. Qed.

Lemma is_connected_mem m sid ns :
  pending m = [] ->
  is_connected m (Some sid) ns = match mem m ns PNone sid with Some _ => true | None => false end.
Proof.
  intro Hp. unfold is_connected, is_pending. rewrite Hp. cbn [aget].
  unfold mem. rewrite look_room_of. destruct (room_of m ns PNone); reflexivity.
Qed.

Lemma parts_of_mem_nil m ns room :
  ns_rooms m ns = None -> parts_of m ns room = Ok [].
Proof. unfold parts_of. intros ->. reflexivity. Qed.

(* the membership function: views and the abstract actions on them *)
Definition view := str -> pv -> str -> option str.
Definition veq (V W : view) : Prop := forall ns r sid, room_ok r -> V ns r sid = W ns r sid.
Lemma veq_refl V : veq V V. Proof. intros ns r sid _. reflexivity. Qed.
Lemma veq_trans U V W : veq U V -> veq V W -> veq U W.
Proof. intros H1 H2 ns r sid Hr. rewrite H1, H2; auto. Qed.
Lemma veq_sym U V : veq U V -> veq V U.
Proof. intros H ns r sid Hr. rewrite H; auto. Qed.

Inductive act :=
| AEnter (sid ns : str) (room : pv)
| ALeave (sid ns : str) (room : pv)
| AClose (room : pv) (ns : str)
| ADisc (sid ns : str)
| AEmit (ev data : pv) (ns : str) (room skip : pv) (cb : bool)
| ANop.

Definition vapply (a : act) (V : view) : view := fun ns' r' s' =>
  match a with
  | AEnter sid ns room =>
      match V ns PNone sid with
      | Some e => if str_eqb ns ns' && room_eqb room r' && str_eqb sid s' then Some e else V ns' r' s'
      | None => V ns' r' s'
      end
  | ALeave sid ns room => if str_eqb ns ns' && room_eqb room r' && str_eqb sid s' then None else V ns' r' s'
  | AClose room ns => if str_eqb ns ns' && room_eqb room r' then None else V ns' r' s'
  | ADisc sid ns => if str_eqb ns ns' && str_eqb sid s' then None else V ns' r' s'
  | _ => V ns' r' s'
  end.

Lemma vapply_veq a V W : veq V W -> veq (vapply a V) (vapply a W).
Proof.
  intros H ns r sid Hr. unfold vapply. destruct a; try (rewrite H by assumption; reflexivity).
  rewrite (H ns0 PNone sid0 room_ok_None). rewrite H by assumption. reflexivity.
Qed.

(* emit targets of the property's domain: a room name (None = everybody), or a non-empty list / tuple of names *)
Definition target_ok (t : pv) : bool :=
  match t with
  | PList l | PTuple l => match l with [] => false | _ => forallb room_okb l end
  | r => room_okb r
  end.
Lemma target_ok_addressed t : target_ok t = true -> Forall room_ok (addressed t).
Proof.
  destruct t; cbn [target_ok addressed]; intro H; try (constructor; [exact H|constructor]).
  - apply Forall_forall. intros r Hr. destruct l; [discriminate|]. rewrite forallb_forall in H. apply H. exact Hr.
  - apply Forall_forall. intros r Hr. destruct l; [discriminate|]. rewrite forallb_forall in H. apply H. exact Hr.
Qed.
Lemma target_ok_total m ns t : target_ok t = true -> exists l, participants m ns t = Ok l.
Proof.
  destruct t; cbn; try discriminate; eauto; destruct l; try discriminate; eauto.
Qed.

Definition act_ok (a : act) : Prop :=
  match a with
  | AEnter _ _ r | ALeave _ _ r | AClose r _ => name_ok r
  | AEmit _ _ _ room _ _ => target_ok room = true
  | _ => True
  end.

(* what a manager holding table m hands to its transports for action a *)
Definition emit_dels (ev data : pv) (ns : str) (skip : pv) (cb : bool) (parts : list (str * str)) : list (str * pkt) :=
  map (fun se => (snd se, PktEvent ns (ev :: pack data) (if cb then Some 0 else None))) (filter (nonskip skip) parts).
Definition local_dels (a : act) (m : mgr) : list (str * pkt) :=
  match a with
  | ADisc sid ns => match mem m ns PNone sid with Some e => [(e, PktDisconnect ns)] | None => [] end
  | AEmit ev data ns room skip cb =>
      match parts_of m ns room with Ok parts => emit_dels ev data ns skip cb parts | Err _ => [] end
  | _ => []
  end.

Lemma parts_of_total m ns room : target_ok room = true -> exists l, parts_of m ns room = Ok l.
Proof.
  intro H. unfold parts_of. destruct (ns_rooms m ns); [apply target_ok_total; exact H|eauto].
Qed.

(* ---- the single pieces ---- *)
Definition enter_code (sid ns : str) (room : pv) : HM unit :=
  r <~ with_hmgr (fun m => enter_room m sid ns room) ;; lift r.

Lemma enter_code_spec sid ns room s e :
  hst_ok s -> name_ok room -> mem (h_mgr s) ns PNone sid = Some e ->
  exists s', enter_code sid ns room s = (s', [], Ok tt) /\ hst_ok s' /\
             veq (mem (h_mgr s')) (vapply (AEnter sid ns room) (mem (h_mgr s))).
Proof.
  intros (HW & Hp & HA) [Hr Hn] Hm. unfold enter_code.
  destruct (enter_room (h_mgr s) sid ns room) as [m' res] eqn:E.
  destruct (enter_room_spec _ _ _ _ _ _ HW Hr E) as (HW' & Hp' & Hc' & Hres).
  rewrite (bM_ok _ _ _ _ _ _ (with_hmgr_run _ s)). rewrite E. cbn [fst snd app].
  destruct res as [[]|x].
  - destruct Hres as (eio & Hm' & Hins). rewrite Hm in Hm'. injection Hm' as <-.
    exists (mkHst m' (h_parts s)). split; [reflexivity|]. split.
    + split; [exact HW'|]. split; [cbn; congruence|]. eapply AckInv_ext; [|exact HA]. exact Hc'.
    + intros ns' r' s' Hr'. cbn [h_mgr]. rewrite (Hins ns' r' s' Hr'). unfold vapply. rewrite Hm. reflexivity.
  - destruct Hres as (_ & [(_ & Hx)|(_ & _ & Hx)]).
    + unfold mem in Hm. rewrite look_room_of in Hm. unfold room_of in Hm. rewrite Hx in Hm. discriminate.
    + congruence.
Qed.

Lemma leave_code_spec sid ns room s :
  hst_ok s -> name_ok room ->
  hst_ok (mkHst (leave_room (h_mgr s) sid ns room) (h_parts s)) /\
  veq (mem (leave_room (h_mgr s) sid ns room)) (vapply (ALeave sid ns room) (mem (h_mgr s))).
Proof.
  intros (HW & Hp & HA) [Hr Hn].
  destruct (leave_room_spec (h_mgr s) sid ns room (proj1 HW) Hr) as (_ & Hp' & Hc' & Hrem).
  split.
  - split; [apply leave_room_wf; assumption|]. split; [cbn; congruence|].
    eapply AckInv_ext; [|exact HA]. exact Hc'.
  - intros ns' r' s' Hr'. rewrite (Hrem ns' r' s' Hr'). reflexivity.
Qed.

Lemma close_code_spec room ns s :
  hst_ok s -> name_ok room ->
  hst_ok (mkHst (close_room (h_mgr s) room ns) (h_parts s)) /\
  veq (mem (close_room (h_mgr s) room ns)) (vapply (AClose room ns) (mem (h_mgr s))).
Proof.
  intros (HW & Hp & HA) [Hr Hn].
  destruct (close_room_eq (h_mgr s) room ns (proj1 HW) Hr) as (_ & Hp' & Hc' & Hrem).
  split.
  - split; [apply close_room_wf; assumption|]. split; [cbn; congruence|].
    eapply AckInv_ext; [|exact HA]. exact Hc'.
  - intros ns' r' s' Hr'. rewrite (Hrem ns' r' s' Hr'). reflexivity.
Qed.

Lemma leave_room_pending m sid ns room : pending (leave_room m sid ns room) = pending m.
Proof.
  unfold leave_room. destruct (ns_rooms m ns) as [rm|]; [|reflexivity].
  destruct (aget room_eqb rm room) as [b|]; [|reflexivity].
  destruct (bd_get b sid); [|reflexivity].
  destruct (adel str_eqb b sid) as [|p0 b0]; [destruct (adel room_eqb rm room)|destruct (aset room_eqb rm room (p0 :: b0))];
    reflexivity.
Qed.
Lemma fold_leave_pending ns sid (l : list pv) : forall m,
  pending (fold_left (fun m r => leave_room m sid ns r) l m) = pending m.
Proof. induction l as [|r l IH]; intro m; cbn [fold_left]; [reflexivity|]. rewrite IH. apply leave_room_pending. Qed.

Lemma disconnect_pending m sid ns :
  pending m = [] -> ns_rooms m ns <> None ->
  pending (mgr_disconnect (fst (pre_disconnect m sid ns)) sid ns) = [].
Proof.
  intros Hp Hn.
  (* whichever table pre_disconnect returns (marked, or untouched when the lookup fails first) *)
  assert (A : forall m1, rooms m1 = rooms m -> pending m1 = [(ns, [sid])] \/ pending m1 = [] ->
                         pending (mgr_disconnect m1 sid ns) = []).
  { intros m1 Hr Hc. unfold mgr_disconnect.
    assert (En : ns_rooms m1 ns = ns_rooms m ns) by (unfold ns_rooms; rewrite Hr; reflexivity). rewrite En.
    destruct (ns_rooms m ns) as [rm|]; [|congruence].
    set (m2 := fold_left _ _ m1).
    assert (Hp2 : pending m2 = pending m1) by (unfold m2; apply fold_leave_pending).
    unfold disc_release. unfold is_pending. cbn [pending]. rewrite Hp2. destruct Hc as [Hc|Hc]; rewrite Hc.
    - cbn [aget]. rewrite !str_eqb_refl. cbn [existsb orb remove_first].
      rewrite str_eqb_refl. cbn [adel]. rewrite str_eqb_refl. reflexivity.
    - cbn [aget pending]. reflexivity. }
  unfold pre_disconnect. rewrite Hp. cbn [aget app aset].
  destruct (room_of m ns PNone); cbn [fst]; apply A; try reflexivity; first [left; reflexivity | right; exact Hp].
Qed.

Lemma ns_rooms_of_mem m ns r sid e : mem m ns r sid = Some e -> ns_rooms m ns <> None.
Proof.
  unfold mem. rewrite look_room_of. unfold room_of. destruct (ns_rooms m ns); [discriminate|].
  discriminate.
Qed.

(* Server.disconnect *)
Lemma srv_disconnect_here k sid ns iq s e :
  hst_ok s -> mem (h_mgr s) ns PNone sid = Some e ->
  exists s', srv_disconnect k sid ns iq s = (s', [Deliver k e (PktDisconnect ns)], Ok tt) /\ hst_ok s' /\
             veq (mem (h_mgr s')) (vapply (ADisc sid ns) (mem (h_mgr s))).
Proof.
  intros (HW & Hp & HA) Hm. unfold srv_disconnect. rewrite bM_getS.
  rewrite (is_connected_mem _ _ _ Hp), Hm. rewrite orb_true_r. rewrite bM_ret.
  rewrite (bM_ok _ _ _ _ _ _ (with_hmgr_run _ s)). cbv beta.
  assert (Epre : snd (pre_disconnect (h_mgr s) sid ns) = Ok (Some e)).
  { unfold pre_disconnect. unfold mem in Hm. rewrite look_room_of in Hm.
    destruct (room_of (h_mgr s) ns PNone); [cbn; congruence|discriminate]. }
  rewrite Epre. rewrite bM_lift_ok. rewrite bM_tell. cbn [set_hmgr modify fst snd app].
  set (m0 := fst (pre_disconnect (h_mgr s) sid ns)).
  assert (HW0 : WF m0) by (apply pre_disconnect_wf; exact HW).
  destruct (mgr_disconnect_spec m0 sid ns HW0) as (HW1 & Hrem & Hcb & _).
  assert (Hn : ns_rooms (h_mgr s) ns <> None) by (eapply ns_rooms_of_mem; eauto).
  assert (Hn0 : ns_rooms m0 ns <> None).
  { unfold m0, ns_rooms. rewrite rooms_pre_disconnect. exact Hn. }
  eexists. split; [reflexivity|]. cbn [h_mgr]. split.
  - split; [exact HW1|]. split; [apply disconnect_pending; assumption|].
    apply mgr_disconnect_inv. eapply AckInv_ext; [|exact HA]. apply pre_disconnect_callbacks.
  - intros ns' r' s' Hr'. rewrite (Hrem ns' r' s' Hr'). unfold vapply.
    assert (Em : mem m0 = mem (h_mgr s)) by (apply mem_ext, rooms_pre_disconnect). rewrite Em. reflexivity.
Qed.

Lemma srv_disconnect_away k sid ns iq s :
  hst_ok s -> mem (h_mgr s) ns PNone sid = None ->
  srv_disconnect k sid ns iq s = (s, if iq then [] else [Published (MDisconnect sid ns k)], Ok tt).
Proof.
  intros (HW & Hp & HA) Hm. unfold srv_disconnect. rewrite bM_getS.
  rewrite (is_connected_mem _ _ _ Hp), Hm. rewrite orb_false_r.
  destruct iq; [rewrite bM_ret; reflexivity|].
  cbn. reflexivity.
Qed.

(* ------------------------------------------------------------------ *)
(* views: consistency, no-op cases                                    *)
(* ------------------------------------------------------------------ *)
Definition consistent (V : view) : Prop :=
  forall ns r s e, room_ok r -> V ns r s = Some e -> V ns PNone s = Some e.
Lemma wf_consistent m : WF m -> consistent (mem m).
Proof. intros [_ [H _]]. exact H. Qed.

Lemma cond_split ns ns' (room r' : pv) sid s' :
  room_ok room -> room_ok r' ->
  str_eqb ns ns' && room_eqb room r' && str_eqb sid s' = true -> ns = ns' /\ room = r' /\ sid = s'.
Proof.
  intros Hr Hr' H. apply andb_true_iff in H as [H H3]. apply andb_true_iff in H as [H1 H2].
  apply str_eqb_eq in H1, H3. apply room_spec in H2; auto.
Qed.

Lemma vapply_noop a V :
  consistent V -> act_ok a ->
  match a with
  | AEnter sid ns _ | ALeave sid ns _ | ADisc sid ns => V ns PNone sid = None
  | AClose _ _ => False
  | _ => True
  end -> veq (vapply a V) V.
Proof.
  intros HC Hok H ns' r' s' Hr'. unfold vapply. destruct a; try reflexivity.
  - rewrite H. reflexivity.
  - destruct (str_eqb ns ns' && room_eqb room r' && str_eqb sid s') eqn:E; [|reflexivity].
    destruct Hok as [Hroom _]. apply cond_split in E as (<- & <- & <-); auto.
    destruct (V ns room sid) eqn:E2; [|reflexivity]. apply HC in E2; [congruence|assumption].
  - destruct H.
  - destruct (str_eqb ns ns' && str_eqb sid s') eqn:E; [|reflexivity].
    apply andb_true_iff in E as [E1 E2]. apply str_eqb_eq in E1, E2. subst.
    destruct (V ns' r' s') eqn:E2; [|reflexivity]. apply HC in E2; [congruence|assumption].
Qed.

(* ------------------------------------------------------------------ *)
(* the listener's dispatch                                            *)
(* ------------------------------------------------------------------ *)
Definition act_of (m : msg) : act :=
  match m with
  | MEmit ev data ns room skip cb _ => AEmit ev data ns room skip (match cb with Some _ => true | None => false end)
  | MDisconnect sid ns _ => ADisc sid ns
  | MEnterRoom sid room ns _ => AEnter sid ns room
  | MLeaveRoom sid room ns _ => ALeave sid ns room
  | MCloseRoom room ns _ => AClose room ns
  | MCallback _ _ _ _ _ => ANop
  end.

Lemma dispatch_echo k m s :
  msg_host m = k -> is_callback_msg m = false -> dispatch k m s = (s, [], Ok tt).
Proof. intros <- H. destruct m; try discriminate H; cbn; rewrite Nat.eqb_refl; reflexivity. Qed.

Lemma dispatch_callback k m s s' es r :
  hst_ok s -> is_callback_msg m = true -> dispatch k m s = (s', es, r) ->
  same_rooms s s' /\ AckInv (h_mgr s') /\ delivered es = [] /\
  Forall (fun m => is_callback_msg m = true) (published es).
Proof.
  intros (_ & _ & HA) Hc H. destruct m; try discriminate Hc. cbn [dispatch] in H.
  destruct (Nat.eqb host k).
  - destruct (fire_frame _ _ _ _ _ _ _ _ _ HA H) as (H1 & H2 & H3 & _ & H5). auto.
  - injection H as <- <- <-. splits; auto using same_rooms_refl. constructor.
Qed.

(* the deliveries of an effect list in the shape of local_dels *)
Lemma deliveries_single k e p : deliveries [Deliver k e p] = [(e, erase_id p)].
Proof. reflexivity. Qed.

Lemma dispatch_foreign k m s :
  hst_ok s -> act_ok (act_of m) -> is_callback_msg m = false -> msg_host m <> k ->
  exists s' es,
    dispatch k m s = (s', es, Ok tt) /\ hst_ok s' /\
    veq (mem (h_mgr s')) (vapply (act_of m) (mem (h_mgr s))) /\
    deliveries es = local_dels (act_of m) (h_mgr s) /\ published es = [] /\ callbacks_of es = [].
Proof.
  intros Hok Hact Hc Hh. pose proof Hok as (HW & Hp & HA).
  destruct m as [ev data ns room skip cb origin| |sid ns origin|sid room ns origin|sid room ns origin|room ns origin];
    try discriminate Hc; cbn [msg_host] in Hh; cbn [dispatch msg_host];
    (destruct (Nat.eqb origin k) eqn:E; [apply Nat.eqb_eq in E; congruence|]); cbn [act_of] in *.
  - (* emit *)
    destruct (parts_of_total (h_mgr s) ns room Hact) as (parts & HP).
    destruct (handle_emit_spec k ev data ns room skip cb origin s parts HA HP)
      as (s' & es & Hrun & Hsame & HA' & Hod & _ & Hdel).
    exists s', es. split; [exact Hrun|]. split; [eapply hst_ok_same; eassumption|].
    split; [intros ns' r' s0 _; rewrite (mem_same _ _ Hsame); reflexivity|].
    split; [|split; [eapply only_deliver_published; eassumption|eapply only_deliver_callbacks; eassumption]].
    cbn [local_dels]. rewrite HP. rewrite Hdel. unfold emit_dels. destruct cb; reflexivity.
  - (* disconnect *)
    destruct (mem (h_mgr s) ns PNone sid) as [e|] eqn:Hm.
    + destruct (srv_disconnect_here k sid ns true s e Hok Hm) as (s' & Hrun & Hok' & Hv).
      exists s', [Deliver k e (PktDisconnect ns)]. splits; auto. cbn [local_dels]. rewrite Hm. reflexivity.
    + exists s, []. rewrite (srv_disconnect_away k sid ns true s Hok Hm). splits; auto.
      * apply veq_sym, vapply_noop; [apply wf_consistent; exact HW|exact I|exact Hm].
      * cbn [local_dels]. rewrite Hm. reflexivity.
  - (* enter_room *)
    rewrite bM_getS. rewrite (is_connected_mem _ _ _ Hp).
    destruct (mem (h_mgr s) ns PNone sid) as [e|] eqn:Hm.
    + destruct (enter_code_spec sid ns room s e Hok Hact Hm) as (s' & Hrun & Hok' & Hv).
      exists s', []. splits; auto.
    + exists s, []. splits; auto.
      apply veq_sym, vapply_noop; [apply wf_consistent; exact HW|exact Hact|exact Hm].
  - (* leave_room *)
    rewrite bM_getS. rewrite (is_connected_mem _ _ _ Hp).
    destruct (mem (h_mgr s) ns PNone sid) as [e|] eqn:Hm.
    + destruct (leave_code_spec sid ns room s Hok Hact) as (Hok' & Hv).
      eexists; exists []. split; [reflexivity|]. splits; auto.
    + exists s, []. splits; auto.
      apply veq_sym, vapply_noop; [apply wf_consistent; exact HW|exact Hact|exact Hm].
  - (* close_room *)
    destruct (close_code_spec room ns s Hok Hact) as (Hok' & Hv).
    eexists; exists []. split; [reflexivity|]. splits; auto.
Qed.

(* ------------------------------------------------------------------ *)
(* the API calls on the issuing host, and on the single server        *)
(* ------------------------------------------------------------------ *)
Definition nsd := ns_or_default.
Definition is_some {A} (o : option A) : bool := match o with Some _ => true | None => false end.

Definition op_act (o : op) : act :=
  match o with
  | Emit _ ev data ns room skip cb => AEmit ev data (nsd ns) room skip (is_some cb)
  | EnterRoom _ sid ns room => AEnter sid (nsd ns) room
  | LeaveRoom _ sid ns room => ALeave sid (nsd ns) room
  | CloseRoom _ ns room => AClose room (nsd ns)
  | Disconnect _ sid ns => ADisc sid (nsd ns)
  | _ => ANop
  end.

Definition op_ok (o : op) : Prop :=
  match o with
  | Emit _ _ _ _ room _ cb => target_ok room = true /\ (cb <> None -> exists r, room = PStr r)
  | EnterRoom _ _ _ room | LeaveRoom _ _ _ room | CloseRoom _ _ room => name_ok room
  | _ => True
  end.
Lemma op_ok_act o : op_ok o -> act_ok (op_act o).
Proof. destruct o; cbn; tauto. Qed.

Definition issuer_code (k : nat) (wo : bool) (o : op) : hst -> hst * list eff :=
  match o with
  | Emit _ ev data ns room skip cb => api k (ps_emit k wo ev data (nsd ns) room skip cb)
  | EnterRoom _ sid ns room => api k (ps_enter_room k sid (nsd ns) room)
  | LeaveRoom _ sid ns room => api k (ps_leave_room k sid (nsd ns) room)
  | CloseRoom _ ns room => api k (ps_close_room k room (nsd ns))
  | Disconnect _ sid ns => api k (srv_disconnect k sid (nsd ns) false)
  | _ => fun s => (s, [])
  end.

Definition single_code (o : op) : hst -> hst * list eff :=
  match o with
  | Emit _ ev data ns room skip cb =>
      api 0 (mgr_emit 0 ev data (nsd ns) room skip (match cb with Some c => Some (cb_app c) | None => None end))
  | EnterRoom _ sid ns room => api 0 (enter_code sid (nsd ns) room)
  | LeaveRoom _ sid ns room => api 0 (set_hmgr (fun m => leave_room m sid (nsd ns) room))
  | CloseRoom _ ns room => api 0 (set_hmgr (fun m => close_room m room (nsd ns)))
  | Disconnect _ sid ns => api 0 (srv_disconnect 0 sid (nsd ns) true)
  | _ => fun s => (s, [])
  end.

Definition local_target (a : act) (m : mgr) : Prop :=
  match a with
  | AEnter sid ns _ | ALeave sid ns _ | ADisc sid ns => exists e, mem m ns PNone sid = Some e
  | _ => False
  end.
Definition pub_ok (k : nat) (a : act) (m : mgr) (l : list msg) : Prop :=
  (l = [] /\ local_target a m) \/
  (exists x, l = [x] /\ act_of x = a /\ msg_host x = k /\ is_callback_msg x = false).

Lemma api_ok k (f : HM unit) s s' es : f s = (s', es, Ok tt) -> api k f s = (s', es).
Proof. intro H. unfold api. rewrite H. reflexivity. Qed.
Lemma contained_ok k (f : HM unit) s s' es : f s = (s', es, Ok tt) -> contained k f s = (s', es).
Proof. intro H. unfold contained. rewrite H. reflexivity. Qed.

Lemma deliveries_snoc_pub es m : deliveries (es ++ [Published m]) = deliveries es.
Proof. rewrite deliveries_app. cbn. apply app_nil_r. Qed.
Lemma callbacks_snoc_pub es m : callbacks_of (es ++ [Published m]) = callbacks_of es.
Proof. rewrite callbacks_of_app. cbn. apply app_nil_r. Qed.
Lemma published_snoc_pub es m : published (es ++ [Published m]) = published es ++ [m].
Proof. rewrite published_app. reflexivity. Qed.

Lemma gen_token_run (r ns : str) c s :
  (g <~ with_hmgr (fun m => generate_ack_id m r (cb_app c)) ;; id <~ lift g ;; ret (Some (r, ns, id))) s =
  match snd (generate_ack_id (h_mgr s) r (cb_app c)) with
  | Ok id => (mkHst (fst (generate_ack_id (h_mgr s) r (cb_app c))) (h_parts s), [], Ok (Some (r, ns, id)))
  | Err e => (mkHst (fst (generate_ack_id (h_mgr s) r (cb_app c))) (h_parts s), [], Err e)
  end.
Proof.
  rewrite (bM_ok _ _ _ _ _ _ (with_hmgr_run _ s)). cbv beta.
  destruct (snd (generate_ack_id (h_mgr s) r (cb_app c))) as [id|e].
  - rewrite bM_lift_ok. reflexivity.
  - reflexivity.
Qed.

Lemma issuer_spec k wo o s :
  hst_ok s -> op_ok o ->
  (forall c, o <> Consume c) -> (forall h e n, o <> Connect h e n) -> (forall h e j a, o <> ClientAck h e j a) ->
  (match o with Emit _ _ _ _ _ _ (Some _) => wo = false | _ => True end) ->
  exists s' es,
    issuer_code k wo o s = (s', es) /\ hst_ok s' /\
    veq (mem (h_mgr s')) (vapply (op_act o) (mem (h_mgr s))) /\
    deliveries es = local_dels (op_act o) (h_mgr s) /\ callbacks_of es = [] /\
    pub_ok k (op_act o) (h_mgr s) (published es).
Proof.
  intros Hok Hop Hn1 Hn2 Hn3 Hwo. pose proof Hok as (HW & Hp & HA).
  destruct o as [h e n|h ev data ns room skip cb|h sid ns room|h sid ns room|h ns room|h sid ns|h e j a|c];
    try (exfalso; eapply Hn1; reflexivity); try (exfalso; eapply Hn2; reflexivity);
    try (exfalso; eapply Hn3; reflexivity); cbn [issuer_code op_act op_ok] in *.
  - (* emit *)
    destruct Hop as [Hdom Hcb].
    destruct (parts_of_total (h_mgr s) (nsd ns) room Hdom) as (parts & HP).
    destruct cb as [c|].
    + subst wo. destruct (Hcb ltac:(discriminate)) as (r & ->).
      unfold ps_emit.
      destruct (generate_ack_id (h_mgr s) r (cb_app c)) as [m1 r1] eqn:G.
      destruct (C06_unique_thm _ _ _ _ _ HA G) as (id & -> & _ & _ & _ & _ & _ & _ & _ & Hr & Hpe).
      pose proof (generate_ack_id_inv (h_mgr s) r (cb_app c) HA) as HA1. rewrite G in HA1. cbn [fst] in HA1.
      set (s1 := mkHst m1 (h_parts s)).
      assert (Hs1 : same_rooms s s1) by (split; cbn; assumption).
      assert (HP1 : parts_of (h_mgr s1) (nsd ns) (PStr r) = Ok parts).
      { unfold parts_of, ns_rooms, participants, room_of, ns_rooms in *. cbn [s1 h_mgr]. rewrite Hr. exact HP. }
      destruct (handle_emit_spec k ev data (nsd ns) (PStr r) skip (Some (r, nsd ns, id)) k s1 parts HA1 HP1)
        as (s' & es & Hrun & Hsame & HA' & Hod & _ & Hdel).
      exists s', (es ++ [Published (MEmit ev data (nsd ns) (PStr r) skip (Some (r, nsd ns, id)) k)]).
      split.
      { apply api_ok. cbv beta iota.
        erewrite bM_ok; [|rewrite gen_token_run, G; reflexivity].
        cbv beta. cbn [fst snd app]. fold s1. erewrite bM_ok; [|exact Hrun]. reflexivity. }
      assert (Hss : same_rooms s s') by (eapply same_rooms_trans; eassumption).
      split; [eapply hst_ok_same; eassumption|].
      split; [intros ns' r' s0 _; rewrite (mem_same _ _ Hss); reflexivity|].
      rewrite deliveries_snoc_pub, callbacks_snoc_pub, published_snoc_pub.
      split; [cbn [local_dels is_some]; rewrite HP, Hdel; reflexivity|].
      split; [eapply only_deliver_callbacks; eassumption|].
      right. rewrite (only_deliver_published _ _ Hod). eexists. split; [reflexivity|]. splits; reflexivity.
    + destruct (handle_emit_spec k ev data (nsd ns) room skip None k s parts HA HP)
        as (s' & es & Hrun & Hsame & HA' & Hod & Hs & Hdel). specialize (Hs eq_refl). subst s'.
      exists s, (es ++ [Published (MEmit ev data (nsd ns) room skip None k)]).
      split.
      { apply api_ok. unfold ps_emit. rewrite bM_ret. erewrite bM_ok; [|exact Hrun]. reflexivity. }
      split; [exact Hok|]. split; [apply veq_refl|].
      rewrite deliveries_snoc_pub, callbacks_snoc_pub, published_snoc_pub.
      split; [cbn [local_dels is_some]; rewrite HP, Hdel; reflexivity|].
      split; [eapply only_deliver_callbacks; eassumption|].
      right. rewrite (only_deliver_published _ _ Hod). eexists. split; [reflexivity|]. splits; reflexivity.
  - (* enter_room *)
    unfold ps_enter_room. unfold api. rewrite bM_getS. rewrite (is_connected_mem _ _ _ Hp).
    destruct (mem (h_mgr s) (nsd ns) PNone sid) as [e|] eqn:Hm.
    + destruct (enter_code_spec sid (nsd ns) room s e Hok Hop Hm) as (s' & Hrun & Hok' & Hv).
      fold (enter_code sid (nsd ns) room). rewrite Hrun.
      exists s', []. splits; auto. left. split; [reflexivity|]. exists e. exact Hm.
    + exists s, [Published (MEnterRoom sid room (nsd ns) k)]. split; [reflexivity|]. splits; auto.
      * apply veq_sym, vapply_noop; [apply wf_consistent; exact HW|exact Hop|exact Hm].
      * right. eexists. split; [reflexivity|]. splits; reflexivity.
  - (* leave_room *)
    unfold ps_leave_room. unfold api. rewrite bM_getS. rewrite (is_connected_mem _ _ _ Hp).
    destruct (mem (h_mgr s) (nsd ns) PNone sid) as [e|] eqn:Hm.
    + destruct (leave_code_spec sid (nsd ns) room s Hok Hop) as (Hok' & Hv).
      eexists; exists []. split; [reflexivity|]. splits; auto. left. split; [reflexivity|]. exists e. exact Hm.
    + exists s, [Published (MLeaveRoom sid room (nsd ns) k)]. split; [reflexivity|]. splits; auto.
      * apply veq_sym, vapply_noop; [apply wf_consistent; exact HW|exact Hop|exact Hm].
      * right. eexists. split; [reflexivity|]. splits; reflexivity.
  - (* close_room *)
    destruct (close_code_spec room (nsd ns) s Hok Hop) as (Hok' & Hv).
    eexists; exists [Published (MCloseRoom room (nsd ns) k)]. split; [reflexivity|]. splits; auto.
    right. eexists. split; [reflexivity|]. splits; reflexivity.
  - (* disconnect *)
    destruct (mem (h_mgr s) (nsd ns) PNone sid) as [e|] eqn:Hm.
    + destruct (srv_disconnect_here k sid (nsd ns) false s e Hok Hm) as (s' & Hrun & Hok' & Hv).
      exists s', [Deliver k e (PktDisconnect (nsd ns))]. split; [apply api_ok; exact Hrun|]. splits; auto.
      * cbn [local_dels]. rewrite Hm. reflexivity.
      * left. split; [reflexivity|]. exists e. exact Hm.
    + exists s, [Published (MDisconnect sid (nsd ns) k)].
      split; [apply api_ok; apply (srv_disconnect_away k sid (nsd ns) false s Hok Hm)|]. splits; auto.
      * apply veq_sym, vapply_noop; [apply wf_consistent; exact HW|exact I|exact Hm].
      * cbn [local_dels]. rewrite Hm. reflexivity.
      * right. eexists. split; [reflexivity|]. splits; reflexivity.
Qed.

Lemma single_spec o s :
  hst_ok s -> op_ok o ->
  exists s' es,
    single_code o s = (s', es) /\ hst_ok s' /\
    veq (mem (h_mgr s')) (vapply (op_act o) (mem (h_mgr s))) /\
    deliveries es = local_dels (op_act o) (h_mgr s) /\ callbacks_of es = [] /\ published es = [].
Proof.
  intros Hok Hop. pose proof Hok as (HW & Hp & HA).
  destruct o as [h e n|h ev data ns room skip cb|h sid ns room|h sid ns room|h ns room|h sid ns|h e j a|c];
    cbn [single_code op_act op_ok] in *;
    try (exists s, []; splits; auto using veq_refl; fail).
  - (* emit *)
    destruct Hop as [Hdom Hcb].
    destruct (parts_of_total (h_mgr s) (nsd ns) room Hdom) as (parts & HP).
    destruct (mgr_emit_spec 0 ev data (nsd ns) room skip (match cb with Some c => Some (cb_app c) | None => None end)
                s parts HA HP) as (s' & es & Hrun & Hsame & _ & HA' & Hod & _ & Hdel).
    exists s', es. split; [apply api_ok; exact Hrun|].
    split; [eapply hst_ok_same; eassumption|].
    split; [intros ns' r' s0 _; rewrite (mem_same _ _ Hsame); reflexivity|].
    split; [|split; [eapply only_deliver_callbacks; eassumption|eapply only_deliver_published; eassumption]].
    cbn [local_dels]. rewrite HP, Hdel. unfold emit_dels. destruct cb; reflexivity.
  - (* enter_room: the single server reports an unknown client to the caller *)
    destruct (mem (h_mgr s) (nsd ns) PNone sid) as [e|] eqn:Hm.
    + destruct (enter_code_spec sid (nsd ns) room s e Hok Hop Hm) as (s' & Hrun & Hok' & Hv).
      exists s', []. split; [apply api_ok; exact Hrun|]. splits; auto.
    + unfold api, enter_code.
      destruct (enter_room (h_mgr s) sid (nsd ns) room) as [m' res] eqn:E.
      destruct (enter_room_spec _ _ _ _ _ _ HW (proj1 Hop) E) as (HW' & Hp' & Hc' & Hres).
      rewrite (bM_ok _ _ _ _ _ _ (with_hmgr_run _ s)). rewrite E. cbn [fst snd app].
      destruct res as [[]|x].
      * destruct Hres as (eio & Hm' & _). congruence.
      * destruct Hres as (-> & _). cbn.
        assert (Es : mkHst (h_mgr s) (h_parts s) = s) by (destruct s; reflexivity). rewrite Es.
        exists s, [Raised 0 x]. splits; auto.
        apply veq_sym, vapply_noop; [apply wf_consistent; exact HW|exact Hop|exact Hm].
  - (* leave_room *)
    destruct (leave_code_spec sid (nsd ns) room s Hok Hop) as (Hok' & Hv).
    eexists; exists []. split; [reflexivity|]. splits; auto.
  - (* close_room *)
    destruct (close_code_spec room (nsd ns) s Hok Hop) as (Hok' & Hv).
    eexists; exists []. split; [reflexivity|]. splits; auto.
  - (* disconnect *)
    destruct (mem (h_mgr s) (nsd ns) PNone sid) as [e|] eqn:Hm.
    + destruct (srv_disconnect_here 0 sid (nsd ns) true s e Hok Hm) as (s' & Hrun & Hok' & Hv).
      exists s', [Deliver 0 e (PktDisconnect (nsd ns))]. split; [apply api_ok; exact Hrun|]. splits; auto.
      cbn [local_dels]. rewrite Hm. reflexivity.
    + exists s, [].
      split; [apply api_ok; apply (srv_disconnect_away 0 sid (nsd ns) true s Hok Hm)|]. splits; auto.
      * apply veq_sym, vapply_noop; [apply wf_consistent; exact HW|exact I|exact Hm].
      * cbn [local_dels]. rewrite Hm. reflexivity.
Qed.

(* ---- connect ---- *)
Lemma h_connect_spec k eio ns sid s :
  hst_ok s -> fresh_sid (h_mgr s) sid ->
  exists s', h_connect k eio ns sid s =
             (s', [Deliver k eio (match snd (mgr_connect (h_mgr s) eio ns sid) with
                                  | Some x => PktConnect ns x | None => PktConnectError ns end)]) /\
    hst_ok s' /\
    match snd (mgr_connect (h_mgr s) eio ns sid) with
    | Some x => x = sid /\ (forall s0, mem (h_mgr s) ns PNone s0 <> Some eio) /\
        forall ns' r' s0, room_ok r' ->
          mem (h_mgr s') ns' r' s0 =
          if str_eqb ns ns' && str_eqb sid s0 && (room_eqb PNone r' || room_eqb (PStr sid) r')
          then Some eio else mem (h_mgr s) ns' r' s0
    | None => veq (mem (h_mgr s')) (mem (h_mgr s)) /\ exists s0, mem (h_mgr s) ns PNone s0 = Some eio
    end.
Proof.
  intros (HW & Hp & HA) Hf. unfold h_connect.
  destruct (mgr_connect (h_mgr s) eio ns sid) as [m' r] eqn:E.
  destruct (mgr_connect_spec _ _ _ _ _ _ HW Hf E) as (HW' & Hp' & Hc' & Hres).
  exists (mkHst m' (h_parts s)). split; [reflexivity|]. cbn [h_mgr snd]. split.
  - split; [exact HW'|]. split; [cbn [h_mgr]; congruence|]. eapply AckInv_ext; [|exact HA]. exact Hc'.
  - destruct r as [x|]; [exact Hres|]. destruct Hres as [Hs He]. split; [|exact He].
    intros ns' r' s0 Hr'. apply Hs. exact Hr'.
Qed.

(* ---- client ACK ---- *)
Lemma h_ack_frame k eio ns id args s s' es :
  hst_ok s -> h_ack k eio ns id args s = (s', es) ->
  same_rooms s s' /\ AckInv (h_mgr s') /\ delivered es = [] /\
  Forall (fun m => is_callback_msg m = true) (published es).
Proof.
  intros (_ & _ & HA) H. unfold h_ack, contained in H.
  destruct (fire 3 k (sid_from_eio (h_mgr s) eio ns) id args s) as [[s1 e1] r] eqn:F.
  destruct (fire_frame _ _ _ _ _ _ _ _ _ HA F) as (H1 & H2 & H3 & _ & H5).
  destruct r; injection H as <- <-; splits; auto.
  - rewrite delivered_app, H3. reflexivity.
  - rewrite published_app. cbn. rewrite app_nil_r. exact H5.
Qed.
