(* Facts about get_participants / recipients on the manager model, in terms of the lookup view of
   Manager/ManagerProofs.v.  This is a verbatim copy of sections 1-2 of Manager/RoomsProofs.v (the part
   that depends on Manager.v and RoomsSpec.v only), kept here so that the C07 development does not depend
   on the Server.v-level proofs of that file. *)
From VT Require Import Manager.Manager Manager.ManagerProofs Manager.RoomsSpec.
From Coq Require Import Lia ZifyBool Permutation.
Open Scope N_scope.

(* ================================================================== *)
(* 1. bridges between RoomsSpec and the lookup view                    *)
(* ================================================================== *)
Lemma members_look m ns : members m ns = look m ns PNone.
Proof. unfold members. rewrite look_room_of. reflexivity. Qed.
Lemma in_room_mem m ns r s :
  in_room m ns r s = match mem m ns r s with Some _ => true | None => false end.
Proof.
  unfold in_room, mem. rewrite look_room_of. destruct (room_of m ns r); reflexivity.
Qed.
Lemma in_room_true m ns r s : in_room m ns r s = true <-> exists e, mem m ns r s = Some e.
Proof.
  rewrite in_room_mem. destruct (mem m ns r s) as [e|]; split; try discriminate; eauto.
  intros [e H]; discriminate H.
Qed.

(* ---- list facts ---- *)
Lemma nodup_map_filter {A B} (f : A -> B) (p : A -> bool) l :
  NoDup (map f l) -> NoDup (map f (filter p l)).
Proof.
  induction l as [|x l IH]; cbn [map filter]; [auto|]. intro H; inversion H; subst.
  destruct (p x); cbn [map]; [|auto]. constructor; [|auto].
  intro Hi. apply H2. apply in_map_iff in Hi as (y & Hy & Hf). apply filter_In in Hf as [Hf _].
  rewrite <- Hy. apply in_map. exact Hf.
Qed.
Lemma nodup_keys_fun (l : bidict) s e e' : NoDup (map fst l) -> In (s, e) l -> In (s, e') l -> e = e'.
Proof.
  intros H H1 H2. apply (bd_get_in l s e H) in H1. apply (bd_get_in l s e' H) in H2. congruence.
Qed.
Lemma nodup_vals (l : bidict) :
  NoDup (map fst l) -> (forall s s' e, In (s, e) l -> In (s', e) l -> s = s') -> NoDup (map snd l).
Proof.
  induction l as [|[s e] l IH]; cbn [map fst snd]; intros Hn Hinj; [constructor|].
  inversion Hn; subst. constructor.
  - intro Hi. apply in_map_iff in Hi as ([s' e'] & He & Hi). cbn [snd] in He. subst e'.
    assert (s = s') by (eapply Hinj; [left; reflexivity|right; exact Hi]). subst s'.
    apply H1. change s with (fst (s, e)). apply in_map. exact Hi.
  - apply IH; [assumption|]. intros a b c Ha Hb. eapply Hinj; right; eauto.
Qed.

(* every member of any room (looked up with any key) is a member of the namespace *)
Lemma look_any m ns r :
  WF m -> look m ns r = [] \/ exists r', room_ok r' /\ look m ns r = look m ns r'.
Proof.
  intros [HS _]. destruct (struct_nsmap m ns HS) as (Hn & Hk & _).
  unfold look at 1 2. unfold agetd.
  destruct (aget room_eqb (nsmap m ns) r) as [b|] eqn:E; [|left; reflexivity].
  right. destruct (aget_self_key room_eqb room_ok room_spec _ _ _ Hk Hn E) as (r' & Hr' & _ & E').
  exists r'. split; [exact Hr'|]. unfold look, agetd. rewrite E'. reflexivity.
Qed.
Lemma look_sub_members m ns r s e :
  WF m -> In (s, e) (look m ns r) -> In (s, e) (members m ns).
Proof.
  intros HW Hi. destruct (look_any m ns r HW) as [E|(r' & Hr' & E)]; rewrite E in Hi; [destruct Hi|].
  destruct HW as [HS [H3 _]]. rewrite members_look.
  apply bd_get_in; [apply struct_look, HS|]. apply (H3 ns r' s e Hr').
  apply bd_get_in; [apply struct_look, HS|exact Hi].
Qed.
Lemma in_room_any m ns r s :
  WF m -> in_room m ns r s = true -> exists r', room_ok r' /\ in_room m ns r' s = true.
Proof.
  intros HW H. rewrite in_room_mem in H. unfold mem in H.
  destruct (look_any m ns r HW) as [E|(r' & Hr' & E)]; rewrite E in H; [discriminate H|].
  exists r'. split; [exact Hr'|]. rewrite in_room_mem. exact H.
Qed.
Lemma members_nodup_keys m ns : WF m -> NoDup (map fst (members m ns)).
Proof. intros [HS _]. rewrite members_look. apply struct_look, HS. Qed.
Lemma members_inj m ns s s' e :
  WF m -> In (s, e) (members m ns) -> In (s', e) (members m ns) -> s = s'.
Proof.
  intros [HS [_ H2]]. rewrite members_look. intros Ha Hb.
  apply bd_get_in in Ha, Hb; try (apply struct_look, HS). eapply H2; eauto.
Qed.

(* ================================================================== *)
(* 2. get_participants                                                 *)
(* ================================================================== *)
Section Merge.
  Variable B : bidict.
  Hypothesis HB : NoDup (map fst B).
  Definition subB (l : bidict) : Prop := forall s e, In (s, e) l -> In (s, e) B.

  Lemma aset_in_B acc s e :
    NoDup (map fst acc) -> subB acc -> In (s, e) B ->
    NoDup (map fst (aset str_eqb acc s e)) /\ subB (aset str_eqb acc s e) /\
    forall x, In x (aset str_eqb acc s e) <-> In x acc \/ x = (s, e).
  Proof.
    intros Hn Hs Hi.
    assert (Hn' : NoDup (map fst (aset str_eqb acc s e))) by (apply (e_nodup_aset str_eqb str_eqb_eq); exact Hn).
    assert (Hiff : forall x, In x (aset str_eqb acc s e) <-> In x acc \/ x = (s, e)).
    { intros [s' e']. rewrite <- (bd_get_in _ s' e' Hn'), <- (bd_get_in _ s' e' Hn), bd_get_aset.
      destruct (str_eqb s s') eqn:E.
      - apply str_eqb_eq in E. subst s'. split.
        + intro H; inversion H; subst. right; reflexivity.
        + intros [H|H]; [|inversion H; reflexivity].
          apply (bd_get_in _ _ _ Hn) in H. f_equal. exact (nodup_keys_fun B s e e' HB Hi (Hs _ _ H)).
      - split; [intro H; left; exact H|]. intros [H|H]; [exact H|].
        inversion H; subst. rewrite str_eqb_refl in E. discriminate. }
    split; [exact Hn'|]. split; [|exact Hiff].
    intros s' e' H. apply Hiff in H as [H|H]; [auto|]. inversion H; subst. exact Hi.
  Qed.

  Lemma merge_spec b : forall acc,
    NoDup (map fst acc) -> subB acc -> subB b ->
    NoDup (map fst (merge_members acc b)) /\ subB (merge_members acc b) /\
    forall x, In x (merge_members acc b) <-> In x acc \/ In x b.
  Proof.
    unfold merge_members. induction b as [|[s e] b IH]; intros acc Hn Hs Hb; cbn [fold_left fst snd].
    - split; [exact Hn|]. split; [exact Hs|]. intro x. split; [auto|intros [H|[]]; exact H].
    - destruct (aset_in_B acc s e Hn Hs (Hb _ _ (or_introl eq_refl))) as (Hn1 & Hs1 & Hi1).
      destruct (IH _ Hn1 Hs1) as (Hn2 & Hs2 & Hi2).
      { intros s' e' H. apply Hb. right; exact H. }
      split; [exact Hn2|]. split; [exact Hs2|]. intro x. rewrite Hi2, Hi1. cbn [In].
      split; intros H; intuition (subst; auto).
  Qed.

  Variable lk : pv -> bidict.
  Hypothesis Hlk : forall r, subB (lk r).
  Lemma merge_rooms_spec rs : forall acc,
    NoDup (map fst acc) -> subB acc ->
    let res := fold_left (fun a r => merge_members a (lk r)) rs acc in
    NoDup (map fst res) /\ subB res /\
    forall x, In x res <-> In x acc \/ exists r, In r rs /\ In x (lk r).
  Proof.
    induction rs as [|r rs IH]; intros acc Hn Hs; cbn [fold_left].
    - split; [exact Hn|]. split; [exact Hs|]. intro x. split; [auto|].
      intros [H|(r & [] & _)]; exact H.
    - destruct (merge_spec (lk r) acc Hn Hs (Hlk r)) as (Hn1 & Hs1 & Hi1).
      destruct (IH _ Hn1 Hs1) as (Hn2 & Hs2 & Hi2).
      split; [exact Hn2|]. split; [exact Hs2|]. intro x. rewrite Hi2, Hi1. split.
      + intros [[H|H]|(r' & Hr' & H)]; [left; exact H|right; exists r; split; [left; reflexivity|exact H]|].
        right; exists r'; split; [right; exact Hr'|exact H].
      + intros [H|(r' & [->|Hr'] & H)]; [left; left; exact H|left; right; exact H|].
        right; exists r'; split; assumption.
  Qed.
End Merge.

(* get_participants: distinct sids, only members of the namespace, exactly the union of the
   addressed rooms *)
Lemma participants_spec m ns target l :
  WF m -> participants m ns target = Ok l ->
  NoDup (map fst l) /\ (forall x, In x l -> In x (members m ns)) /\
  forall x, In x l <-> exists r, In r (addressed target) /\ In x (look m ns r).
Proof.
  intros HW H. pose proof (members_nodup_keys m ns HW) as HB.
  set (lk := fun r => match room_of m ns r with Some b => b | None => [] end).
  assert (Elk : forall r, lk r = look m ns r) by (intro r; unfold lk; rewrite look_room_of; reflexivity).
  assert (Hlk : forall r, subB (members m ns) (lk r)).
  { intros r s e Hi. rewrite Elk in Hi. eapply look_sub_members; eauto. }
  assert (Hscalar : forall r, l = lk r -> addressed target = [r] ->
            NoDup (map fst l) /\ (forall x, In x l -> In x (members m ns)) /\
            forall x, In x l <-> exists r, In r (addressed target) /\ In x (look m ns r)).
  { intros r -> Ea. rewrite Ea. split; [rewrite Elk; apply struct_look, HW|].
    split; [intros [s e]; apply Hlk|]. intro x. rewrite Elk. split.
    - intro Hx. exists r. split; [left; reflexivity|exact Hx].
    - intros (r' & [<-|[]] & Hx). exact Hx. }
  assert (Hmulti : forall r0 rs, l = fold_left (fun a r => merge_members a (lk r)) rs (lk r0) ->
            addressed target = r0 :: rs ->
            NoDup (map fst l) /\ (forall x, In x l -> In x (members m ns)) /\
            forall x, In x l <-> exists r, In r (addressed target) /\ In x (look m ns r)).
  { intros r0 rs -> Ea. rewrite Ea.
    destruct (merge_rooms_spec (members m ns) HB lk Hlk rs (lk r0)) as (Hn & Hs & Hi).
    { rewrite Elk. apply struct_look, HW. } { apply Hlk. }
    split; [exact Hn|]. split; [intros [s e]; apply Hs|]. intro x. rewrite Hi. split.
    - intros [Hx|(r & Hr & Hx)].
      + exists r0. split; [left; reflexivity|rewrite <- Elk; exact Hx].
      + exists r. split; [right; exact Hr|rewrite <- Elk; exact Hx].
    - intros (r & [<-|Hr] & Hx); [left; rewrite Elk; exact Hx|].
      right. exists r. split; [exact Hr|rewrite Elk; exact Hx]. }
  unfold participants in H. fold lk in H.
  destruct target as [| | | | | |tl|tl| |]; try discriminate H;
    try (injection H as <-; eapply Hscalar; reflexivity).
  - destruct tl as [|r0 rs]; [discriminate H|]. injection H as <-. eapply Hmulti; reflexivity.
  - destruct tl as [|r0 rs]; [discriminate H|]. injection H as <-. eapply Hmulti; reflexivity.
Qed.

(* C03_recipients: the recipients of an emit are exactly (as a multiset: a permutation of)
   the connected members of the namespace that are in at least one addressed room and not
   skipped, each once, with pairwise distinct transports, nobody from elsewhere *)
Theorem C03_recipients_thm m ns target skip l :
  WF m -> participants m ns target = Ok l ->
  let rcp := filter (fun se => negb (skipped (skip_list skip) (fst se))) l in
  Permutation rcp (spec_recipients m ns target skip) /\
  NoDup (map fst rcp) /\ NoDup (map snd rcp) /\
  (forall se, In se rcp -> In se (members m ns)).
Proof.
  intros HW H rcp. destruct (participants_spec m ns target l HW H) as (Hn & Hsub & Hiff).
  pose proof (members_nodup_keys m ns HW) as HB.
  assert (Hsub' : forall se, In se rcp -> In se (members m ns)).
  { intros se Hi. apply filter_In in Hi as [Hi _]. auto. }
  assert (Hn1 : NoDup (map fst rcp)) by (apply nodup_map_filter; exact Hn).
  split; [|split; [exact Hn1|split; [|exact Hsub']]].
  - apply NoDup_Permutation.
    + eapply NoDup_map_inv. exact Hn1.
    + unfold spec_recipients. apply NoDup_filter. eapply NoDup_map_inv. exact HB.
    + intros [s e]. unfold rcp, spec_recipients. rewrite !filter_In. cbn [fst]. split.
      * intros [Hi Hsk]. split; [auto|]. apply andb_true_iff. split; [|exact Hsk].
        apply Hiff in Hi as (r & Hr & Hx). apply existsb_exists. exists r. split; [exact Hr|].
        apply in_room_true. exists e. apply bd_get_in; [apply struct_look, HW|exact Hx].
      * intros [Hi Hc]. apply andb_true_iff in Hc as [Hex Hsk]. split; [|exact Hsk].
        apply existsb_exists in Hex as (r & Hr & Hx). apply in_room_true in Hx as [e' Hx].
        apply bd_get_in in Hx; [|apply struct_look, HW].
        assert (e' = e).
        { eapply nodup_keys_fun; [exact HB| |exact Hi]. eapply look_sub_members; eauto. }
        subst e'. apply Hiff. exists r. split; assumption.
  - apply nodup_vals; [exact Hn1|]. intros s s' e Ha Hb.
    eapply members_inj; eauto.
Qed.

