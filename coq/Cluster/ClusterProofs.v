(* Proofs about the cluster model Cluster/PubSub.v: refinement of the single server under immediate
   consumption, echo filter, delayed consumption, callback relay. *)
From VT Require Import Manager.ManagerProofs Cluster.RoomsFacts Manager.AckProofs Base.PyStrProofs.
From VT Require Import Cluster.PubSub Cluster.ClusterLemmas.
From Coq Require Import Lia Permutation.
Open Scope N_scope.

(* ------------------------------------------------------------------ *)
(* 1. a host working through a list of messages                        *)
(* ------------------------------------------------------------------ *)
Definition host_apply (k : nat) (m : msg) (h : host) : host * list eff :=
  let '(s1, e1) := contained k (dispatch k m) (h_st h) in
  (mkHost s1 (h_wo h) (S (h_cur h)), Consumed k (h_cur h) :: e1).
Fixpoint host_run (k : nat) (ms : list msg) (h : host) : host * list eff :=
  match ms with
  | [] => (h, [])
  | m :: r => let '(h1, e1) := host_apply k m h in
              let '(h2, e2) := host_run k r h1 in (h2, e1 ++ e2)
  end.

Lemma host_consume_apply k chan h m :
  h_wo h = false -> nth_error chan (h_cur h) = Some m -> host_consume k chan h = host_apply k m h.
Proof. intros Hw Hn. unfold host_consume, host_apply. rewrite Hw, Hn. reflexivity. Qed.

Lemma host_apply_cur k m h : h_cur (fst (host_apply k m h)) = S (h_cur h) /\ h_wo (fst (host_apply k m h)) = h_wo h.
Proof. unfold host_apply. destruct (contained k (dispatch k m) (h_st h)). split; reflexivity. Qed.

Lemma host_run_app k a : forall b h,
  host_run k (a ++ b) h =
  (fst (host_run k b (fst (host_run k a h))), snd (host_run k a h) ++ snd (host_run k b (fst (host_run k a h)))).
Proof.
  induction a as [|m a IH]; intros b h; cbn [host_run app].
  - cbn [fst snd app]. destruct (host_run k b h); reflexivity.
  - destruct (host_apply k m h) as [h1 e1]. rewrite IH.
    destruct (host_run k a h1) as [h2 e2]. cbn [fst snd].
    destruct (host_run k b h2) as [h3 e3]. cbn [fst snd]. rewrite app_assoc. reflexivity.
Qed.

Lemma host_run_cur k ms : forall h,
  h_cur (fst (host_run k ms h)) = (h_cur h + List.length ms)%nat /\ h_wo (fst (host_run k ms h)) = h_wo h.
Proof.
  induction ms as [|m ms IH]; intro h; cbn [host_run].
  - cbn. split; [lia|reflexivity].
  - pose proof (host_apply_cur k m h) as [H1 H2]. destruct (host_apply k m h) as [h1 e1]. cbn [fst] in *.
    specialize (IH h1). destruct (host_run k ms h1) as [h2 e2]. cbn [fst List.length] in *.
    destruct IH as [I1 I2]. split; [lia|congruence].
Qed.

Lemma skipn_nth_cons {A} (l : list A) n x : nth_error l n = Some x -> skipn n l = x :: skipn (S n) l.
Proof.
  revert n. induction l as [|y l IH]; intros [|n] H; cbn in *; try discriminate.
  - congruence.
  - apply IH. exact H.
Qed.

Definition cl_upd (c : cluster) (k : nat) (h : host) (es : list eff) : cluster :=
  mkCl (upd (c_hosts c) k h) (c_chan c ++ published es) (c_fresh c) (c_log c ++ delivered es).

(* n Consume steps of host k = the host working through its next n messages *)
Lemma consume_n_run n : forall c k h,
  nth_error (c_hosts c) k = Some h -> h_wo h = false -> (h_cur h + n <= List.length (c_chan c))%nat ->
  consume_n n c k =
  (cl_upd c k (fst (host_run k (firstn n (skipn (h_cur h) (c_chan c))) h))
              (snd (host_run k (firstn n (skipn (h_cur h) (c_chan c))) h)),
   snd (host_run k (firstn n (skipn (h_cur h) (c_chan c))) h)).
Proof.
  induction n as [|n IH]; intros c k h Hn Hw Hl.
  - cbn [consume_n firstn host_run fst snd]. unfold cl_upd. cbn [published delivered flat_map].
    rewrite !app_nil_r. rewrite (upd_same _ _ _ Hn). destruct c; reflexivity.
  - cbn [consume_n]. cbn [step]. unfold on_host. rewrite Hn.
    destruct (nth_error (c_chan c) (h_cur h)) as [m|] eqn:Em;
      [|apply nth_error_None in Em; lia].
    rewrite (host_consume_apply _ _ _ _ Hw Em).
    rewrite (skipn_nth_cons _ _ _ Em). cbn [firstn host_run].
    pose proof (host_apply_cur k m h) as [Hc1 Hw1].
    destruct (host_apply k m h) as [h1 e1] eqn:Ea. cbn [fst] in Hc1, Hw1.
    set (c1 := mkCl (upd (c_hosts c) k h1) (c_chan c ++ published e1) (c_fresh c) (c_log c ++ delivered e1)).
    assert (Hn1 : nth_error (c_hosts c1) k = Some h1) by (apply nth_upd_eq; eapply nth_some_lt; eassumption).
    assert (Hl1 : (h_cur h1 + n <= List.length (c_chan c1))%nat) by (cbn [c1 c_chan]; rewrite app_length; lia).
    rewrite (IH c1 k h1 Hn1 (eq_trans Hw1 Hw) Hl1).
    assert (Es : firstn n (skipn (h_cur h1) (c_chan c1)) = firstn n (skipn (S (h_cur h)) (c_chan c))).
    { cbn [c1 c_chan]. rewrite Hc1. rewrite skipn_app.
      rewrite firstn_app. rewrite skipn_length.
      replace (n - (List.length (c_chan c) - S (h_cur h)))%nat with 0%nat by lia.
      cbn [firstn]. apply app_nil_r. }
    rewrite Es. destruct (host_run k (firstn n (skipn (S (h_cur h)) (c_chan c))) h1) as [h2 e2].
    cbn [fst snd]. unfold cl_upd. cbn [c1 c_hosts c_chan c_fresh c_log].
    rewrite upd_upd, published_app, delivered_app, !app_assoc. reflexivity.
Qed.

Lemma drain_host_run c k h :
  nth_error (c_hosts c) k = Some h -> h_wo h = false -> (h_cur h <= List.length (c_chan c))%nat ->
  drain_host c k =
  (cl_upd c k (fst (host_run k (skipn (h_cur h) (c_chan c)) h)) (snd (host_run k (skipn (h_cur h) (c_chan c)) h)),
   snd (host_run k (skipn (h_cur h) (c_chan c)) h)).
Proof.
  intros Hn Hw Hl. unfold drain_host, unread. rewrite Hn, Hw.
  rewrite (consume_n_run _ c k h Hn Hw) by lia.
  rewrite firstn_all2; [reflexivity|]. rewrite skipn_length. lia.
Qed.
Lemma drain_host_wo c k :
  match nth_error (c_hosts c) k with Some h => h_wo h = true | None => True end -> drain_host c k = (c, []).
Proof.
  intro H. unfold drain_host, unread. destruct (nth_error (c_hosts c) k) as [h|]; [rewrite H|]; reflexivity.
Qed.

(* ------------------------------------------------------------------ *)
(* 2. callback-return messages do not touch memberships                *)
(* ------------------------------------------------------------------ *)
Definition all_cb (l : list msg) : Prop := Forall (fun m => is_callback_msg m = true) l.

Lemma contained_dispatch_cb k m s :
  hst_ok s -> is_callback_msg m = true ->
  same_rooms s (fst (contained k (dispatch k m) s)) /\ AckInv (h_mgr (fst (contained k (dispatch k m) s))) /\
  delivered (snd (contained k (dispatch k m) s)) = [] /\ all_cb (published (snd (contained k (dispatch k m) s))).
Proof.
  intros Hok Hc. unfold contained.
  destruct (dispatch k m s) as [[s1 e1] r] eqn:D.
  destruct (dispatch_callback k m s s1 e1 r Hok Hc D) as (H1 & H2 & H3 & H4).
  destruct r; cbn [fst snd]; splits; auto.
  - rewrite delivered_app, H3; try reflexivity.
  - unfold all_cb. rewrite published_app. cbn. rewrite app_nil_r. exact H4.
Qed.

Lemma host_run_cbs k ms : forall h,
  all_cb ms -> hst_ok (h_st h) ->
  same_rooms (h_st h) (h_st (fst (host_run k ms h))) /\ hst_ok (h_st (fst (host_run k ms h))) /\
  delivered (snd (host_run k ms h)) = [] /\ all_cb (published (snd (host_run k ms h))).
Proof.
  induction ms as [|m ms IH]; intros h Hcb Hok; cbn [host_run].
  - cbn. splits; auto using same_rooms_refl; try constructor.
  - inversion Hcb as [|? ? Hm Hms]; subst.
    destruct (contained_dispatch_cb k m (h_st h) Hok Hm) as (H1 & H2 & H3 & H4).
    unfold host_apply. destruct (contained k (dispatch k m) (h_st h)) as [s1 e1]. cbn [fst snd] in *.
    set (h1 := mkHost s1 (h_wo h) (S (h_cur h))).
    assert (Hok1 : hst_ok (h_st h1)) by (eapply hst_ok_same; eassumption).
    destruct (IH h1 Hms Hok1) as (I1 & I2 & I3 & I4).
    destruct (host_run k ms h1) as [h2 e2]. cbn [fst snd] in *.
    split; [eapply same_rooms_trans; eassumption|]. split; [exact I2|]. split.
    + change (delivered ((Consumed k (h_cur h) :: e1) ++ e2)) with (delivered (e1 ++ e2)).
      rewrite delivered_app, H3, I3. reflexivity.
    + unfold all_cb. change (published ((Consumed k (h_cur h) :: e1) ++ e2)) with (published (e1 ++ e2)).
      rewrite published_app. apply Forall_app. split; assumption.
Qed.

(* ------------------------------------------------------------------ *)
(* 3. the refinement relation                                          *)
(* ------------------------------------------------------------------ *)
Section Refinement.
Variable place : str -> nat.       (* which host a transport belongs to *)

Definition restrict (V : view) (k : nat) : view :=
  fun ns r s => match V ns r s with Some e => if Nat.eqb (place e) k then Some e else None | None => None end.

Lemma restrict_veq V W k : veq V W -> veq (restrict V k) (restrict W k).
Proof. intros H ns r s Hr. unfold restrict. rewrite H by assumption. reflexivity. Qed.
Lemma restrict_consistent V k : consistent V -> consistent (restrict V k).
Proof.
  intros HC ns r s e Hr H. unfold restrict in *. destruct (V ns r s) as [e'|] eqn:E; [|discriminate].
  destruct (Nat.eqb (place e') k) eqn:P; [|discriminate]. injection H as <-.
  rewrite (HC _ _ _ _ Hr E), P. reflexivity.
Qed.

(* applying an action to the part of the table that lives on host k = the part on k of the result *)
Lemma restrict_vapply a V k : consistent V -> act_ok a -> veq (vapply a (restrict V k)) (restrict (vapply a V) k).
Proof.
  intros HC Hok ns' r' s' Hr'. unfold vapply, restrict. destruct a; try reflexivity.
  - (* enter *)
    destruct Hok as [Hroom _].
    destruct (V ns PNone sid) as [e|] eqn:E; [|reflexivity].
    destruct (Nat.eqb (place e) k) eqn:P.
    + destruct (str_eqb ns ns' && room_eqb room r' && str_eqb sid s'); [rewrite P|]; reflexivity.
    + destruct (str_eqb ns ns' && room_eqb room r' && str_eqb sid s') eqn:C; [|reflexivity].
      rewrite P. apply cond_split in C as (<- & <- & <-); auto.
      destruct (V ns room sid) as [e'|] eqn:E'; [|reflexivity].
      rewrite (HC _ _ _ _ Hroom E') in E. injection E as ->. rewrite P. reflexivity.
  - destruct (str_eqb ns ns' && room_eqb room r' && str_eqb sid s'); reflexivity.
  - destruct (str_eqb ns ns' && room_eqb room r'); reflexivity.
  - destruct (str_eqb ns ns' && str_eqb sid s'); reflexivity.
Qed.

(* nothing new enters a table: every transport of the result was there before *)
Lemma vapply_range a V ns r s e :
  vapply a V ns r s = Some e -> exists ns' r' s', room_ok r' /\ V ns' r' s' = Some e \/ V ns r s = Some e.
Proof.
  unfold vapply. intro H. destruct a; try (exists ns, r, s; right; exact H).
  - destruct (V ns0 PNone sid) as [e0|] eqn:E; [|exists ns, r, s; right; exact H].
    destruct (str_eqb ns0 ns && room_eqb room r && str_eqb sid s).
    + injection H as <-. exists ns0, PNone, sid. left. split; [apply room_ok_None|exact E].
    + exists ns, r, s; right; exact H.
  - destruct (str_eqb ns0 ns && room_eqb room r && str_eqb sid s); [discriminate|exists ns, r, s; right; exact H].
  - destruct (str_eqb ns0 ns && room_eqb room r); [discriminate|exists ns, r, s; right; exact H].
  - destruct (str_eqb ns0 ns && str_eqb sid s); [discriminate|exists ns, r, s; right; exact H].
Qed.

Definition host_rel (S : mgr) (k : nat) (h : host) : Prop :=
  hst_ok (h_st h) /\ veq (mem (h_mgr (h_st h))) (restrict (mem S) k).
Definition quiet (chan : list msg) (h : host) : Prop :=
  h_wo h = false -> (h_cur h <= List.length chan)%nat /\ all_cb (skipn (h_cur h) chan).
Definition placed (hosts : list host) (V : view) : Prop :=
  forall ns r sid e, room_ok r -> V ns r sid = Some e ->
    exists h, nth_error hosts (place e) = Some h /\ h_wo h = false.

Record R (c : cluster) (s : single) : Prop := mkR {
  R_single : hst_ok (s_host s);
  R_hosts : forall k h, nth_error (c_hosts c) k = Some h ->
              host_rel (h_mgr (s_host s)) k h /\ quiet (c_chan c) h;
  R_placed : placed (c_hosts c) (mem (h_mgr (s_host s)));
  R_fresh : c_fresh c = s_fresh s;
  R_sids : forall ns sid e, mem (h_mgr (s_host s)) ns PNone sid = Some e ->
             exists n, sid = sid_name n /\ n < s_fresh s
}.

Lemma host_rel_veq S S' k h : veq (mem S) (mem S') -> host_rel S k h -> host_rel S' k h.
Proof.
  intros H [Hok Hv]. split; [exact Hok|]. eapply veq_trans; [exact Hv|]. apply restrict_veq. exact H.
Qed.

Lemma quiet_grow chan extra h : all_cb extra -> quiet chan h -> quiet (chan ++ extra) h.
Proof.
  intros He Hq Hw. destruct (Hq Hw) as [Hl Hc]. split; [rewrite app_length; lia|].
  rewrite skipn_app. apply Forall_app. split; [exact Hc|].
  replace (h_cur h - List.length chan)%nat with 0%nat by lia. exact He.
Qed.
End Refinement.

(* ------------------------------------------------------------------ *)
(* 4. one host catches up: callbacks* [the new message] callbacks*     *)
(* ------------------------------------------------------------------ *)
Lemma local_dels_same a s s' : same_rooms s s' -> local_dels a (h_mgr s') = local_dels a (h_mgr s).
Proof.
  intros [Hr _]. unfold local_dels. destruct a; try reflexivity.
  - rewrite (mem_ext _ _ Hr). reflexivity.
  - unfold parts_of, ns_rooms, participants, room_of, ns_rooms. rewrite Hr. reflexivity.
Qed.

Lemma skipn_app_le {A} (l r : list A) n : (n <= List.length l)%nat -> skipn n (l ++ r) = skipn n l ++ r.
Proof.
  intro H. rewrite skipn_app. replace (n - List.length l)%nat with 0%nat by lia. reflexivity.
Qed.

Lemma deliveries_consumed k i es : deliveries (Consumed k i :: es) = deliveries es.
Proof. reflexivity. Qed.
Lemma published_consumed k i es : published (Consumed k i :: es) = published es.
Proof. reflexivity. Qed.
Lemma deliveries_nil_of_delivered es : delivered es = [] -> deliveries es = [].
Proof. unfold deliveries. intros ->. reflexivity. Qed.

Lemma flat_map_ext_in' {A B} (f g : A -> list B) l : (forall x, In x l -> f x = g x) -> flat_map f l = flat_map g l.
Proof.
  induction l as [|x l IH]; intro H; cbn [flat_map]; [reflexivity|].
  rewrite H by (left; reflexivity). rewrite IH; [reflexivity|]. intros y Hy. apply H. right; exact Hy.
Qed.

Lemma host_run_one k m h : host_run k [m] h = (fst (host_apply k m h), snd (host_apply k m h)).
Proof. cbn [host_run]. destruct (host_apply k m h) as [h1 e1]. cbn [fst snd]. rewrite app_nil_r. reflexivity. Qed.

Section CatchUp.
Variable place : str -> nat.
Variables (S S' : mgr) (a : act) (i : nat) (m : msg).
(* what is known about the new message when there is one *)
Definition msg_facts : Prop :=
  consistent (mem S) /\ act_ok a /\ veq (mem S') (vapply a (mem S)) /\
  act_of m = a /\ msg_host m = i /\ is_callback_msg m = false.

(* what host k (state h) does with  pre ++ newm ++ extra, where newm = [] or [m] *)
Lemma catch_up k h (has : bool) pre extra :
  (has = true -> msg_facts) ->
  hst_ok (h_st h) -> all_cb pre -> all_cb extra ->
  ((k = i \/ has = false) -> veq (mem (h_mgr (h_st h))) (restrict place (mem S') k)) ->
  (k <> i -> has = true -> veq (mem (h_mgr (h_st h))) (restrict place (mem S) k)) ->
  let ms := pre ++ (if has then [m] else []) ++ extra in
  let h' := fst (host_run k ms h) in
  let es := snd (host_run k ms h) in
  hst_ok (h_st h') /\ veq (mem (h_mgr (h_st h'))) (restrict place (mem S') k) /\
  h_wo h' = h_wo h /\ h_cur h' = (h_cur h + List.length ms)%nat /\
  all_cb (published es) /\
  deliveries es = (if has && negb (Nat.eqb k i) then local_dels a (h_mgr (h_st h)) else []).
Proof.
  intros Hfacts Hok Hpre Hextra Hv1 Hv2 ms h' es. unfold h', es, ms. clear ms h' es.
  rewrite !host_run_app. cbn [fst snd].
  destruct (host_run_cbs k pre h Hpre Hok) as (P1 & P2 & P3 & P4).
  pose proof (host_run_cur k pre h) as [A1 A2].
  set (h1 := fst (host_run k pre h)) in *. set (e1 := snd (host_run k pre h)) in *.
  set (mid := if has then [m] else []).
  assert (Hmid : hst_ok (h_st (fst (host_run k mid h1))) /\
            veq (mem (h_mgr (h_st (fst (host_run k mid h1))))) (restrict place (mem S') k) /\
            all_cb (published (snd (host_run k mid h1))) /\
            deliveries (snd (host_run k mid h1)) =
              (if has && negb (Nat.eqb k i) then local_dels a (h_mgr (h_st h)) else [])).
  { unfold mid. destruct has.
    - destruct (Hfacts eq_refl) as (Hcons & Hact & HS' & Hm_act & Hm_host & Hm_ncb).
      rewrite host_run_one. unfold host_apply. destruct (Nat.eqb k i) eqn:Eki.
      + apply Nat.eqb_eq in Eki. subst k.
        rewrite (contained_ok _ _ _ _ _ (dispatch_echo i m (h_st h1) Hm_host Hm_ncb)).
        cbn [fst snd h_st andb negb].
        split; [exact P2|]. split; [rewrite (mem_same _ _ P1); apply Hv1; left; reflexivity|].
        split; [constructor|reflexivity].
      + apply Nat.eqb_neq in Eki.
        assert (Hh : msg_host m <> k) by congruence.
        destruct (dispatch_foreign k m (h_st h1) P2 ltac:(rewrite Hm_act; exact Hact) Hm_ncb Hh)
          as (s2 & e2 & Hrun & Hok2 & Hv & Hdel & Hpub & _).
        rewrite (contained_ok _ _ _ _ _ Hrun). cbn [fst snd h_st andb negb].
        split; [exact Hok2|]. split.
        * eapply veq_trans; [exact Hv|]. rewrite Hm_act.
          eapply veq_trans; [apply vapply_veq; rewrite (mem_same _ _ P1); apply Hv2; auto|].
          eapply veq_trans; [apply restrict_vapply; assumption|]. apply restrict_veq, veq_sym, HS'.
        * split; [rewrite published_consumed, Hpub; constructor|].
          rewrite deliveries_consumed, Hdel, Hm_act. apply local_dels_same. exact P1.
    - cbn [host_run fst snd andb]. split; [exact P2|].
      split; [rewrite (mem_same _ _ P1); apply Hv1; right; reflexivity|]. split; [constructor|reflexivity]. }
  destruct Hmid as (Hok2 & Hv2' & Hpub2 & Hdel2).
  pose proof (host_run_cur k mid h1) as [B1 B2].
  set (h2 := fst (host_run k mid h1)) in *. set (e2 := snd (host_run k mid h1)) in *.
  destruct (host_run_cbs k extra h2 Hextra Hok2) as (Q1 & Q2 & Q3 & Q4).
  pose proof (host_run_cur k extra h2) as [C1 C2].
  set (h3 := fst (host_run k extra h2)) in *. set (e3 := snd (host_run k extra h2)) in *.
  split; [exact Q2|]. split; [rewrite (mem_same _ _ Q1); exact Hv2'|].
  split; [congruence|]. split; [rewrite !app_length; fold mid; lia|]. split.
  - unfold all_cb. rewrite !published_app. apply Forall_app. split; [exact P4|].
    apply Forall_app. split; assumption.
  - rewrite !deliveries_app. rewrite (deliveries_nil_of_delivered _ P3), (deliveries_nil_of_delivered _ Q3).
    cbn [app]. rewrite app_nil_r. exact Hdel2.
Qed.

Definition mid_of (has : bool) : list msg := if has then [m] else [].
Definition dels_at (has : bool) (hosts : list host) (k : nat) : list (str * pkt) :=
  match nth_error hosts k with
  | Some h => if has && negb (h_wo h) && negb (Nat.eqb k i) then local_dels a (h_mgr (h_st h)) else []
  | None => []
  end.
Definition pre_ok (has : bool) (chan0 : list msg) (k : nat) (h : host) : Prop :=
  hst_ok (h_st h) /\
  (h_wo h = false -> (h_cur h <= List.length chan0)%nat /\ all_cb (skipn (h_cur h) chan0)) /\
  ((h_wo h = true \/ k = i \/ has = false) -> veq (mem (h_mgr (h_st h))) (restrict place (mem S') k)) /\
  (k <> i -> has = true -> veq (mem (h_mgr (h_st h))) (restrict place (mem S) k)).

Lemma drain_hosts_spec (has : bool) chan0 : (has = true -> msg_facts) -> forall ks c extra,
  NoDup ks ->
  c_chan c = chan0 ++ mid_of has ++ extra -> all_cb extra ->
  (forall k h, In k ks -> nth_error (c_hosts c) k = Some h -> pre_ok has chan0 k h) ->
  exists more,
    all_cb more /\ c_chan (fst (drain_hosts ks c)) = c_chan c ++ more /\
    c_fresh (fst (drain_hosts ks c)) = c_fresh c /\
    List.length (c_hosts (fst (drain_hosts ks c))) = List.length (c_hosts c) /\
    c_log (fst (drain_hosts ks c)) = c_log c ++ delivered (snd (drain_hosts ks c)) /\
    (forall k, ~ In k ks -> nth_error (c_hosts (fst (drain_hosts ks c))) k = nth_error (c_hosts c) k) /\
    (forall k h, In k ks -> nth_error (c_hosts c) k = Some h ->
       exists h', nth_error (c_hosts (fst (drain_hosts ks c))) k = Some h' /\ h_wo h' = h_wo h /\
                  host_rel place S' k h' /\ quiet (c_chan (fst (drain_hosts ks c))) h') /\
    deliveries (snd (drain_hosts ks c)) = flat_map (dels_at has (c_hosts c)) ks.
Proof.
  intro Hfacts. induction ks as [|k r IH]; intros c extra Hnd Hchan Hextra Hpre.
  - exists []. cbn [drain_hosts fst snd flat_map delivered]. rewrite !app_nil_r.
    splits; auto; try constructor. intros k h [].
  - inversion Hnd as [|? ? Hnk Hndr]; subst. cbn [drain_hosts].
    destruct (nth_error (c_hosts c) k) as [h|] eqn:Ek.
    2:{ (* no such host *)
      rewrite (drain_host_wo c k) by (rewrite Ek; exact I).
      destruct (IH c extra Hndr Hchan Hextra) as (more & M1 & M2 & M3 & M4 & M5 & M6 & M7 & M8).
      { intros k2 h2 Hi. apply Hpre. right; exact Hi. }
      destruct (drain_hosts r c) as [c2 e2]. cbn [fst snd app] in *.
      exists more. splits; auto.
      - intros k2 Hk2. apply M6. intro; apply Hk2; right; assumption.
      - intros k2 h2 [<-|Hi] Hn; [congruence|]. apply M7; assumption.
      - cbn [flat_map]. unfold dels_at at 1. rewrite Ek. exact M8. }
    destruct (Hpre k h (or_introl eq_refl) Ek) as (Hok & Hq & Hv1 & Hv2).
    destruct (h_wo h) eqn:Ew.
    + (* write-only: no listener *)
      rewrite (drain_host_wo c k) by (rewrite Ek; exact Ew).
      destruct (IH c extra Hndr Hchan Hextra) as (more & M1 & M2 & M3 & M4 & M5 & M6 & M7 & M8).
      { intros k2 h2 Hi. apply Hpre. right; exact Hi. }
      destruct (drain_hosts r c) as [c2 e2]. cbn [fst snd app] in *.
      exists more. splits; auto.
      * intros k2 Hk2. apply M6. intro; apply Hk2; right; assumption.
      * intros k2 h2 [<-|Hi] Hn; [|apply M7; assumption].
        rewrite Ek in Hn. injection Hn as <-. exists h. rewrite (M6 k Hnk), Ek.
        splits; auto. split; [exact Hok|apply Hv1; left; reflexivity]. intro; congruence.
      * cbn [flat_map]. unfold dels_at at 1. rewrite Ek, Ew. rewrite andb_false_r. exact M8.
    + (* a listening host *)
      destruct (Hq eq_refl) as [Hle Hcb0].
      assert (Hlen : (h_cur h <= List.length (c_chan c))%nat) by (rewrite Hchan, app_length; lia).
      rewrite (drain_host_run c k h Ek Ew Hlen).
      assert (Ems : skipn (h_cur h) (c_chan c) = skipn (h_cur h) chan0 ++ mid_of has ++ extra)
        by (rewrite Hchan; apply skipn_app_le; exact Hle).
      rewrite Ems.
      destruct (catch_up k h has (skipn (h_cur h) chan0) extra Hfacts Hok Hcb0 Hextra) as (C1 & C2 & C3 & C4 & C5 & C6).
      { intros [Hx | Hx]; apply Hv1; auto. } { exact Hv2. }
      fold (mid_of has) in C1, C2, C3, C4, C5, C6.
      set (h' := fst (host_run k (skipn (h_cur h) chan0 ++ mid_of has ++ extra) h)) in *.
      set (e1 := snd (host_run k (skipn (h_cur h) chan0 ++ mid_of has ++ extra) h)) in *.
      set (c1 := cl_upd c k h' e1).
      assert (Hklt : (k < List.length (c_hosts c))%nat) by (eapply nth_some_lt; eassumption).
      destruct (IH c1 (extra ++ published e1) Hndr) as (more & M1 & M2 & M3 & M4 & M5 & M6 & M7 & M8).
      { cbn [c1 cl_upd c_chan]. rewrite Hchan, <- !app_assoc. reflexivity. }
      { apply Forall_app. split; assumption. }
      { intros k2 h2 Hi Hn. cbn [c1 cl_upd c_hosts] in Hn.
        rewrite nth_upd_neq in Hn by (intro; subst; contradiction). apply Hpre; [right; exact Hi|exact Hn]. }
      destruct (drain_hosts r c1) as [c2 e2]. cbn [fst snd] in *.
      exists (published e1 ++ more).
      split; [apply Forall_app; split; assumption|].
      split; [rewrite M2; cbn [c1 cl_upd c_chan]; rewrite app_assoc; reflexivity|].
      split; [rewrite M3; reflexivity|].
      split; [rewrite M4; cbn [c1 cl_upd c_hosts]; apply upd_length|].
      split; [rewrite M5; cbn [c1 cl_upd c_log]; rewrite delivered_app, app_assoc; reflexivity|].
      split.
      { intros k2 Hk2. rewrite M6 by (intro; apply Hk2; right; assumption).
        cbn [c1 cl_upd c_hosts]. apply nth_upd_neq. intro; subst. apply Hk2. left; reflexivity. }
      split.
      { intros k2 h2 [<-|Hi] Hn.
        - rewrite Ek in Hn. injection Hn as <-. exists h'.
          rewrite (M6 k Hnk). cbn [c1 cl_upd c_hosts]. rewrite (nth_upd_eq _ _ _ Hklt).
          split; [reflexivity|]. split; [exact C3|]. split; [split; assumption|].
          intros _. rewrite M2. cbn [c1 cl_upd c_chan]. rewrite C4.
          assert (El : (h_cur h + List.length (skipn (h_cur h) chan0 ++ mid_of has ++ extra))%nat = List.length (c_chan c)).
          { rewrite <- Ems, skipn_length. lia. }
          rewrite El. split; [rewrite !app_length; lia|].
          rewrite <- app_assoc. rewrite skipn_app, skipn_all, Nat.sub_diag. cbn [skipn app].
          apply Forall_app. split; assumption.
        - apply M7; [exact Hi|]. cbn [c1 cl_upd c_hosts]. rewrite nth_upd_neq by (intro; subst; contradiction). exact Hn. }
      rewrite deliveries_app, C6, M8. cbn [flat_map]. unfold dels_at at 2. rewrite Ek, Ew. cbn [negb andb].
      rewrite andb_true_r. f_equal.
      apply flat_map_ext_in'. intros k2 Hi. unfold dels_at. cbn [c1 cl_upd c_hosts].
      rewrite nth_upd_neq by (intro; subst; contradiction). reflexivity.
Qed.
End CatchUp.

(* ------------------------------------------------------------------ *)
(* 5. who gets what: local deliveries against the single server's      *)
(* ------------------------------------------------------------------ *)
(* membership of a pair in the participants a manager computes *)
Lemma parts_of_in m ns room parts sid e :
  WF m -> parts_of m ns room = Ok parts ->
  (In (sid, e) parts <-> exists r, In r (addressed room) /\ mem m ns r sid = Some e).
Proof.
  intros HW HP. unfold parts_of in HP. destruct (ns_rooms m ns) as [rm|] eqn:En.
  - destruct (participants_spec m ns room parts HW HP) as (_ & _ & Hiff). rewrite Hiff.
    split; intros (r & Hr & Hx); exists r; (split; [exact Hr|]).
    + apply bd_get_in; [apply struct_look, HW|exact Hx].
    + apply bd_get_in in Hx; [exact Hx|apply struct_look, HW].
  - injection HP as <-. split; [intros []|]. intros (r & _ & Hx). apply ns_rooms_of_mem in Hx. congruence.
Qed.

Lemma parts_of_nodup m ns room skip parts :
  WF m -> parts_of m ns room = Ok parts ->
  NoDup (map snd (filter (nonskip skip) parts)).
Proof.
  intros HW HP. unfold parts_of in HP. destruct (ns_rooms m ns) as [rm|].
  - destruct (C03_recipients_thm m ns room skip parts HW HP) as (_ & _ & H & _). exact H.
  - injection HP as <-. constructor.
Qed.

Lemma local_dels_nodup a m : WF m -> act_ok a -> NoDup (local_dels a m).
Proof.
  intros HW Hok. destruct a; cbn [local_dels]; try constructor.
  - destruct (mem m ns PNone sid); repeat constructor. intros [].
  - destruct (parts_of m ns room) as [parts|] eqn:HP; [|constructor].
    unfold emit_dels.
    pose proof (parts_of_nodup m ns room skip parts HW HP) as Hn.
    rewrite <- (map_map snd (fun e => (e, PktEvent ns (ev :: pack data) (if cb then Some 0 else None)))).
    apply FinFun.Injective_map_NoDup; [|exact Hn]. intros x y H. congruence.
Qed.

Lemma local_dels_member a S x :
  WF S -> act_ok a -> In x (local_dels a S) -> exists ns r sid, room_ok r /\ mem S ns r sid = Some (fst x).
Proof.
  intros HW Hok Hx. destruct a; cbn [local_dels] in Hx; try destruct Hx.
  - destruct (mem S ns PNone sid) as [e|] eqn:E; [|destruct Hx]. destruct Hx as [<-|[]].
    exists ns, PNone, sid. split; [apply room_ok_None|exact E].
  - cbn [act_ok] in Hok. destruct (parts_of S ns room) as [parts|] eqn:HP; [|destruct Hx].
    unfold emit_dels in Hx. apply in_map_iff in Hx as ([sid e] & <- & Hi). apply filter_In in Hi as [Hi _].
    apply (parts_of_in S ns room parts sid e HW HP) in Hi as (r & Hr & Hm).
    pose proof (target_ok_addressed room Hok) as Hd. rewrite Forall_forall in Hd.
    exists ns, r, sid. split; [apply Hd; exact Hr|exact Hm].
Qed.

Lemma nodup_app_intro {A} (l1 l2 : list A) :
  NoDup l1 -> NoDup l2 -> (forall x, In x l1 -> ~ In x l2) -> NoDup (l1 ++ l2).
Proof.
  induction l1 as [|x l1 IH]; intros H1 H2 Hd; cbn [app]; [exact H2|].
  inversion H1; subst. constructor.
  - intro Hi. apply in_app_or in Hi as [Hi|Hi]; [contradiction|]. apply (Hd x); [left; reflexivity|exact Hi].
  - apply IH; auto. intros y Hy. apply Hd. right; exact Hy.
Qed.

Section Where.
Variable place : str -> nat.

(* the deliveries host k makes are those of the single server that go to k's own clients *)
Lemma local_dels_restrict a S mk k :
  WF S -> WF mk -> act_ok a -> veq (mem mk) (restrict place (mem S) k) ->
  forall x, In x (local_dels a mk) <-> In x (local_dels a S) /\ place (fst x) = k.
Proof.
  intros HWS HWk Hok Hv x. destruct a; cbn [local_dels]; try (split; [intros []|intros [[] _]]).
  - (* disconnect *)
    rewrite (Hv ns PNone sid room_ok_None). unfold restrict.
    destruct (mem S ns PNone sid) as [e|]; [|split; [intros []|intros [[] _]]].
    destruct (Nat.eqb (place e) k) eqn:P.
    + apply Nat.eqb_eq in P. split.
      * intros [<-|[]]. split; [left; reflexivity|exact P].
      * intros [[<-|[]] _]. left; reflexivity.
    + apply Nat.eqb_neq in P. split; [intros []|]. intros [[<-|[]] Hp]. cbn in Hp. contradiction.
  - (* emit *)
    cbn [act_ok] in Hok.
    destruct (parts_of_total mk ns room Hok) as (pk & HPk). destruct (parts_of_total S ns room Hok) as (ps & HPs).
    rewrite HPk, HPs. unfold emit_dels. rewrite !in_map_iff.
    pose proof (target_ok_addressed room Hok) as Hdom. rewrite Forall_forall in Hdom.
    split.
    + intros ([sid e] & <- & Hi). apply filter_In in Hi as [Hi Hsk]. cbn [fst snd].
      apply (parts_of_in mk ns room pk sid e HWk HPk) in Hi as (r & Hr & Hm).
      rewrite (Hv ns r sid (Hdom r Hr)) in Hm. unfold restrict in Hm.
      destruct (mem S ns r sid) as [e'|] eqn:E; [|discriminate].
      destruct (Nat.eqb (place e') k) eqn:P; [|discriminate]. injection Hm as ->.
      split; [|apply Nat.eqb_eq; exact P].
      exists (sid, e). split; [reflexivity|]. apply filter_In. split; [|exact Hsk].
      apply (parts_of_in S ns room ps sid e HWS HPs). exists r. split; assumption.
    + intros (([sid e] & <- & Hi) & Hp). apply filter_In in Hi as [Hi Hsk]. cbn [fst snd] in *.
      apply (parts_of_in S ns room ps sid e HWS HPs) in Hi as (r & Hr & Hm).
      exists (sid, e). split; [reflexivity|]. apply filter_In. split; [|exact Hsk].
      apply (parts_of_in mk ns room pk sid e HWk HPk). exists r. split; [exact Hr|].
      rewrite (Hv ns r sid (Hdom r Hr)). unfold restrict. rewrite Hm.
      apply Nat.eqb_eq in Hp. rewrite Hp. reflexivity.
Qed.

Lemma nodup_flat_map_place {B} (piece : nat -> list (str * B)) ks :
  NoDup ks -> (forall k, In k ks -> NoDup (piece k)) ->
  (forall k x, In k ks -> In x (piece k) -> place (fst x) = k) ->
  NoDup (flat_map piece ks).
Proof.
  induction ks as [|k r IH]; intros Hnd Hp Hpl; cbn [flat_map]; [constructor|].
  inversion Hnd; subst.
  apply nodup_app_intro.
  - apply Hp. left; reflexivity.
  - apply IH; auto.
    + intros k2 Hi. apply Hp. right; exact Hi.
    + intros k2 x Hi. apply Hpl. right; exact Hi.
  - intros x Hx Hin. apply in_flat_map in Hin as (k2 & Hk2 & Hx2).
    assert (place (fst x) = k) by (eapply Hpl; [left; reflexivity|exact Hx]).
    assert (place (fst x) = k2) by (eapply Hpl; [right; exact Hk2|exact Hx2]).
    subst. contradiction.
Qed.
End Where.

(* ------------------------------------------------------------------ *)
(* 6. one operation under immediate consumption                        *)
(* ------------------------------------------------------------------ *)
Definition op_host (o : op) : nat :=
  match o with
  | Connect k _ _ | Emit k _ _ _ _ _ _ | EnterRoom k _ _ _ | LeaveRoom k _ _ _ | CloseRoom k _ _
  | Disconnect k _ _ | ClientAck k _ _ _ | Consume k => k
  end.
Definition msg_kind (o : op) : Prop :=
  match o with
  | Emit _ _ _ _ _ _ _ | EnterRoom _ _ _ _ | LeaveRoom _ _ _ _ | CloseRoom _ _ _ | Disconnect _ _ _ => True
  | _ => False
  end.
Definition needs_server (o : op) : bool :=
  match o with Emit _ _ _ _ _ _ cb => is_some cb | _ => true end.

Lemma step_msg_form c o h :
  msg_kind o -> nth_error (c_hosts c) (op_host o) = Some h -> (needs_server o = true -> h_wo h = false) ->
  step c o = on_host c (op_host o) (in_host (issuer_code (op_host o) (h_wo h) o)).
Proof.
  intros Hk Hn Hw. destruct o; try destruct Hk; cbn [op_host needs_server] in *; cbn [step issuer_code];
    unfold is_wo; rewrite Hn; try rewrite (Hw eq_refl); reflexivity.
Qed.
Lemma single_msg_form s o : msg_kind o -> single_step s o = s_on s (single_code o).
Proof. intro Hk. destruct o; try destruct Hk; reflexivity. Qed.

Definition same_wos (c c' : cluster) : Prop :=
  forall k, option_map h_wo (nth_error (c_hosts c') k) = option_map h_wo (nth_error (c_hosts c) k).
Lemma same_wos_refl c : same_wos c c. Proof. intro k. reflexivity. Qed.
Lemma same_wos_trans a b c : same_wos a b -> same_wos b c -> same_wos a c.
Proof. intros H1 H2 k. rewrite H2, H1. reflexivity. Qed.

Lemma vapply_none_room a V ns sid e :
  act_ok a -> vapply a V ns PNone sid = Some e -> V ns PNone sid = Some e.
Proof.
  intros Hok H. unfold vapply in H. destruct a; try exact H.
  - destruct (V ns0 PNone sid0) as [e0|]; [|exact H].
    destruct (str_eqb ns0 ns && room_eqb room PNone && str_eqb sid0 sid) eqn:C; [|exact H].
    destruct Hok as [Hr Hn]. apply cond_split in C as (_ & C & _); auto using room_ok_None. contradiction.
  - destruct (str_eqb ns0 ns && room_eqb room PNone && str_eqb sid0 sid); [discriminate|exact H].
  - destruct (str_eqb ns0 ns && room_eqb room PNone); [discriminate|exact H].
  - destruct (str_eqb ns0 ns && str_eqb sid0 sid); [discriminate|exact H].
Qed.

Section Immediate.
Variable place : str -> nat.

Lemma restrict_wo_none hosts V k h :
  placed place hosts V -> nth_error hosts k = Some h -> h_wo h = true ->
  forall ns r s, room_ok r -> restrict place V k ns r s = None.
Proof.
  intros Hpl Hn Hw ns r s Hr. unfold restrict. destruct (V ns r s) as [e|] eqn:E; [|reflexivity].
  destruct (Nat.eqb (place e) k) eqn:P; [|reflexivity]. apply Nat.eqb_eq in P.
  destruct (Hpl ns r s e Hr E) as (h' & Hn' & Hw'). rewrite P in Hn'. congruence.
Qed.

Definition host_ok_for (c : cluster) (k : nat) (need_server : bool) : Prop :=
  exists h, nth_error (c_hosts c) k = Some h /\ (need_server = true -> h_wo h = false).
Definition wf_op (c : cluster) (o : op) : Prop :=
  op_ok o /\ host_ok_for c (op_host o) (needs_server o) /\
  match o with
  | Connect k eio _ => place eio = k
  | Consume _ => False
  | _ => True
  end.
Lemma wf_op_stable c c' o : same_wos c c' -> wf_op c o -> wf_op c' o.
Proof.
  intros Hs (H1 & (h & Hn & Hw) & H3). split; [exact H1|]. split; [|exact H3].
  specialize (Hs (op_host o)). rewrite Hn in Hs. cbn in Hs.
  destruct (nth_error (c_hosts c') (op_host o)) as [h'|] eqn:E'; [|discriminate]. cbn in Hs. injection Hs as Hs.
  exists h'. split; [exact E'|]. intro Hx. rewrite Hs. auto.
Qed.

(* the state reached by draining, from the pieces *)
Lemma finish_R c1 c2 S1 s' (a : act) :
  hst_ok (s_host s') -> S1 = h_mgr (s_host s') ->
  (forall k h, nth_error (c_hosts c1) k = Some h ->
     exists h', nth_error (c_hosts c2) k = Some h' /\ h_wo h' = h_wo h /\
                host_rel place S1 k h' /\ quiet (c_chan c2) h') ->
  List.length (c_hosts c2) = List.length (c_hosts c1) ->
  placed place (c_hosts c1) (mem S1) ->
  c_fresh c2 = s_fresh s' ->
  (forall ns sid e, mem S1 ns PNone sid = Some e -> exists n, sid = sid_name n /\ n < s_fresh s') ->
  R place c2 s' /\ same_wos c1 c2.
Proof.
  intros Hok -> Hhosts Hlen Hpl Hfr Hsid.
  assert (Hsw : same_wos c1 c2).
  { intro k. destruct (nth_error (c_hosts c1) k) as [h|] eqn:E.
    - destruct (Hhosts k h E) as (h' & -> & Hw & _). cbn. congruence.
    - apply nth_error_None in E. rewrite <- Hlen in E. apply nth_error_None in E. rewrite E. reflexivity. }
  split; [|exact Hsw]. constructor; auto.
  - intros k h' Hn.
    destruct (nth_error (c_hosts c1) k) as [h|] eqn:E.
    + destruct (Hhosts k h E) as (h2 & Hn2 & _ & Hrel & Hq). rewrite Hn in Hn2. injection Hn2 as <-. split; assumption.
    + apply nth_error_None in E. rewrite <- Hlen in E. apply nth_error_None in E. congruence.
  - intros ns r sid e Hr Hm. destruct (Hpl ns r sid e Hr Hm) as (h & Hn & Hw).
    destruct (Hhosts _ h Hn) as (h' & Hn' & Hw' & _). exists h'. split; [exact Hn'|congruence].
Qed.
End Immediate.

Section ImmediateOps.
Variable place : str -> nat.

Lemma seq_in_lt k n : In k (seq 0 n) <-> (k < n)%nat.
Proof. rewrite in_seq. lia. Qed.

Lemma veq_none_both (V W : view) :
  (forall ns r s, room_ok r -> V ns r s = None) -> (forall ns r s, room_ok r -> W ns r s = None) -> veq V W.
Proof. intros H1 H2 ns r s Hr. rewrite H1, H2; auto. Qed.

Lemma imm_msg_op c s o :
  R place c s -> wf_op place c o -> msg_kind o ->
  R place (fst (imm_step c o)) (fst (single_step s o)) /\ same_wos c (fst (imm_step c o)) /\
  Permutation (deliveries (snd (imm_step c o))) (deliveries (snd (single_step s o))).
Proof.
  intros HR (Hop & (hi & Hni & Hwi) & _) Hk.
  set (i := op_host o) in *. set (a := op_act o).
  pose proof (R_single _ _ _ HR) as HokS. pose proof HokS as (HWS & HpS & HAS).
  destruct (R_hosts _ _ _ HR i hi Hni) as ((Hoki & Hvi) & Hqi).
  pose proof (op_ok_act o Hop) as Hact. fold a in Hact.
  (* the issuing host *)
  destruct (issuer_spec i (h_wo hi) o (h_st hi) Hoki Hop) as (si' & es0 & Hrun & Hoki' & Hvi' & Hdel0 & Hcb0 & Hpub0).
  { intros x Hx; subst o; exact Hk. } { intros x y z Hx; subst o; exact Hk. } { intros x y z w Hx; subst o; exact Hk. }
  { destruct o; try exact I. destruct cb; [|exact I]. apply Hwi. reflexivity. }
  fold a in Hvi', Hdel0, Hpub0.
  (* the single server *)
  destruct (single_spec o (s_host s) HokS Hop) as (sS' & ses & HrunS & HokS' & HvS' & HdelS & _ & _).
  fold a in HvS', HdelS.
  unfold imm_step. rewrite (step_msg_form c o hi Hk Hni Hwi). unfold on_host. fold i. rewrite Hni.
  unfold in_host. rewrite Hrun.
  rewrite (single_msg_form s o Hk). unfold s_on. rewrite HrunS. cbn [fst snd].
  set (hi' := mkHost si' (h_wo hi) (h_cur hi)).
  set (c1 := mkCl (upd (c_hosts c) i hi') (c_chan c ++ published es0) (c_fresh c) (c_log c ++ delivered es0)).
  set (S := h_mgr (s_host s)) in *. set (S' := h_mgr sS') in *.
  assert (Hcons : consistent (mem S)) by (apply wf_consistent; exact HWS).
  assert (Hilt : (i < List.length (c_hosts c))%nat) by (eapply nth_some_lt; eassumption).
  (* every client of the new table was a client of the old one, on the same host *)
  assert (Hpl' : placed place (c_hosts c1) (mem S')).
  { intros ns r sid e Hr Hm. rewrite (HvS' ns r sid Hr) in Hm.
    assert (Hex : exists ns' r' s', room_ok r' /\ mem S ns' r' s' = Some e).
    { destruct (vapply_range a (mem S) ns r sid e Hm) as (ns' & r' & s' & [[H1 H2]|H2]); eauto 6. }
    destruct Hex as (ns' & r' & s' & Hr' & Hm').
    destruct (R_placed _ _ _ HR ns' r' s' e Hr' Hm') as (h & Hn & Hw).
    cbn [c1 c_hosts]. destruct (Nat.eq_dec (place e) i) as [E|E].
    - rewrite E. rewrite (nth_upd_eq _ _ _ Hilt). exists hi'. split; [reflexivity|]. cbn. rewrite E in Hn. congruence.
    - rewrite nth_upd_neq by congruence. eauto. }
  assert (Hpl : placed place (c_hosts c) (mem S)) by (apply (R_placed _ _ _ HR)).
  (* the table of the issuing host after its local application *)
  assert (Hvi2 : veq (mem (h_mgr si')) (restrict place (mem S') i)).
  { eapply veq_trans; [exact Hvi'|]. eapply veq_trans; [apply vapply_veq; exact Hvi|].
    eapply veq_trans; [apply restrict_vapply; assumption|]. apply restrict_veq, veq_sym, HvS'. }
  (* draining *)
  set (has := match published es0 with [] => false | _ => true end).
  set (m := match published es0 with x :: _ => x | [] => MCloseRoom PNone [] i end).
  assert (Hpubm : published es0 = (if has then [m] else [])).
  { unfold has, m. destruct Hpub0 as [[-> _]|(x & -> & _)]; reflexivity. }
  assert (Hfacts : has = true -> msg_facts S S' a i m).
  { intro Hh. destruct Hpub0 as [[E _]|(x & E & H1 & H2 & H3)].
    - unfold has in Hh. rewrite E in Hh. discriminate.
    - unfold m. rewrite E. unfold msg_facts. splits; auto. }
  destruct (drain_hosts_spec place S S' a i m has (c_chan c) Hfacts (seq 0 (List.length (c_hosts c1))) c1 [])
    as (more & M1 & M2 & M3 & M4 & M5 & M6 & M7 & M8).
  { apply seq_NoDup. }
  { cbn [c1 c_chan]. rewrite Hpubm. unfold mid_of. rewrite app_nil_r. reflexivity. }
  { constructor. }
  { (* every host is ready for the new message *)
    intros k h _ Hn. cbn [c1 c_hosts] in Hn. unfold pre_ok.
    destruct (Nat.eq_dec k i) as [->|Eki].
    - rewrite (nth_upd_eq _ _ _ Hilt) in Hn. injection Hn as <-. cbn [hi' h_st h_wo h_cur].
      split; [exact Hoki'|]. split; [exact Hqi|]. split; [intros _; exact Hvi2|]. intros Hx; congruence.
    - rewrite nth_upd_neq in Hn by congruence.
      destruct (R_hosts _ _ _ HR k h Hn) as ((Hokk & Hvk) & Hqk).
      split; [exact Hokk|]. split; [exact Hqk|]. split; [|intros _ _; exact Hvk].
      intros [Hw|[E|Hh]]; [|congruence|].
      + (* write-only: nobody lives there *)
        eapply veq_trans; [exact Hvk|]. apply veq_none_both.
        * eapply restrict_wo_none; eassumption.
        * apply (restrict_wo_none place (c_hosts c1) (mem S') k h Hpl'); [|exact Hw].
          cbn [c1 c_hosts]. rewrite nth_upd_neq by congruence. exact Hn.
      + (* nothing was published: the target lives on the issuing host, so the action is void here *)
        destruct Hpub0 as [[_ Hloc]|(x & E & _)]; [|unfold has in Hh; rewrite E in Hh; discriminate].
        eapply veq_trans; [exact Hvk|]. apply veq_sym.
        eapply veq_trans; [apply restrict_veq; exact HvS'|].
        eapply veq_trans; [apply veq_sym, restrict_vapply; assumption|].
        apply vapply_noop; [apply restrict_consistent; exact Hcons|exact Hact|].
        assert (Hgone : forall sid ns, (exists e, mem (h_mgr (h_st hi)) ns PNone sid = Some e) ->
                                       restrict place (mem S) k ns PNone sid = None).
        { intros sid ns (e & He). rewrite (Hvi ns PNone sid room_ok_None) in He. unfold restrict in *.
          destruct (mem S ns PNone sid) as [e'|]; [|reflexivity].
          destruct (Nat.eqb (place e') i) eqn:P; [|discriminate]. apply Nat.eqb_eq in P.
          destruct (Nat.eqb (place e') k) eqn:P2; [|reflexivity]. apply Nat.eqb_eq in P2. congruence. }
        unfold local_target in Hloc. destruct a; try destruct Hloc; apply Hgone; eauto. }
  destruct (drain_hosts (seq 0 (List.length (c_hosts c1))) c1) as [c2 e2] eqn:Edr.
  unfold drain. rewrite Edr. cbn [fst snd] in *.
  (* the new state *)
  assert (HokS2 : hst_ok (s_host (mkSingle sS' (s_fresh s) (s_log s ++ delivered ses)))) by exact HokS'.
  destruct (finish_R place c1 c2 S' (mkSingle sS' (s_fresh s) (s_log s ++ delivered ses)) a HokS2 eq_refl) as [HR2 Hsw2].
  { intros k h Hn. apply M7; [apply seq_in_lt; eapply nth_some_lt; eassumption|exact Hn]. }
  { exact M4. } { exact Hpl'. }
  { rewrite M3. cbn [c1 c_fresh s_fresh]. apply (R_fresh _ _ _ HR). }
  { intros ns sid e Hm. cbn [s_fresh]. apply (R_sids _ _ _ HR ns sid e).
    fold S. rewrite (HvS' ns PNone sid room_ok_None) in Hm. eapply vapply_none_room; eassumption. }
  split; [exact HR2|]. split.
  { eapply same_wos_trans; [|exact Hsw2]. intro k. cbn [c1 c_hosts].
    destruct (Nat.eq_dec k i) as [->|E]; [rewrite (nth_upd_eq _ _ _ Hilt), Hni; reflexivity|].
    rewrite nth_upd_neq by congruence. reflexivity. }
  (* the deliveries *)
  rewrite deliveries_app, Hdel0, M8, HdelS.
  assert (HWk : forall k h, nth_error (c_hosts c) k = Some h ->
                  WF (h_mgr (h_st h)) /\ veq (mem (h_mgr (h_st h))) (restrict place (mem S) k)).
  { intros k h Hn. destruct (R_hosts _ _ _ HR k h Hn) as (((HW & _) & Hv) & _). split; assumption. }
  apply NoDup_Permutation.
  - apply nodup_app_intro.
    + apply local_dels_nodup; [apply Hoki|exact Hact].
    + apply (nodup_flat_map_place place); [apply seq_NoDup| |].
      * intros k _. unfold dels_at. destruct (nth_error (c_hosts c1) k) as [h|] eqn:Hn; [|constructor].
        destruct (has && negb (h_wo h) && negb (Nat.eqb k i)) eqn:C; [|constructor].
        apply andb_true_iff in C as [_ C]. apply negb_true_iff, Nat.eqb_neq in C.
        cbn [c1 c_hosts] in Hn. rewrite nth_upd_neq in Hn by congruence.
        apply local_dels_nodup; [apply (HWk k h Hn)|exact Hact].
      * intros k x _ Hx. unfold dels_at in Hx. destruct (nth_error (c_hosts c1) k) as [h|] eqn:Hn; [|destruct Hx].
        destruct (has && negb (h_wo h) && negb (Nat.eqb k i)) eqn:C; [|destruct Hx].
        apply andb_true_iff in C as [_ C]. apply negb_true_iff, Nat.eqb_neq in C.
        cbn [c1 c_hosts] in Hn. rewrite nth_upd_neq in Hn by congruence.
        destruct (HWk k h Hn) as [HW Hv].
        apply (local_dels_restrict place a S _ k HWS HW Hact Hv x). exact Hx.
    + intros x Hx Hin. apply in_flat_map in Hin as (k & _ & Hx2).
      unfold dels_at in Hx2. destruct (nth_error (c_hosts c1) k) as [h|] eqn:Hn; [|destruct Hx2].
      destruct (has && negb (h_wo h) && negb (Nat.eqb k i)) eqn:C; [|destruct Hx2].
      apply andb_true_iff in C as [_ C]. apply negb_true_iff, Nat.eqb_neq in C.
      cbn [c1 c_hosts] in Hn. rewrite nth_upd_neq in Hn by congruence.
      destruct (HWk k h Hn) as [HW Hv].
      apply (local_dels_restrict place a S _ k HWS HW Hact Hv x) in Hx2 as [_ P2].
      apply (local_dels_restrict place a S _ i HWS (proj1 Hoki) Hact Hvi x) in Hx as [_ P1]. congruence.
  - apply local_dels_nodup; assumption.
  - intro x. rewrite in_app_iff. split.
    + intros [Hx|Hx].
      * apply (local_dels_restrict place a S _ i HWS (proj1 Hoki) Hact Hvi x) in Hx. apply Hx.
      * apply in_flat_map in Hx as (k & _ & Hx2).
        unfold dels_at in Hx2. destruct (nth_error (c_hosts c1) k) as [h|] eqn:Hn; [|destruct Hx2].
        destruct (has && negb (h_wo h) && negb (Nat.eqb k i)) eqn:C; [|destruct Hx2].
        apply andb_true_iff in C as [_ C]. apply negb_true_iff, Nat.eqb_neq in C.
        cbn [c1 c_hosts] in Hn. rewrite nth_upd_neq in Hn by congruence.
        destruct (HWk k h Hn) as [HW Hv].
        apply (local_dels_restrict place a S _ k HWS HW Hact Hv x) in Hx2. apply Hx2.
    + intro Hx.
      destruct (Nat.eq_dec (place (fst x)) i) as [E|E].
      * left. apply (local_dels_restrict place a S _ i HWS (proj1 Hoki) Hact Hvi x). split; assumption.
      * right.
        (* the recipient lives on a listening host other than the issuer *)
        destruct (local_dels_member a S x HWS Hact Hx) as (ns & r & sid & Hr & Hm).
        destruct (Hpl ns r sid (fst x) Hr Hm) as (h & Hn & Hw).
        assert (Hhas : has = true).
        { destruct has eqn:Hh; [reflexivity|]. exfalso.
          destruct Hpub0 as [[_ Hloc]|(y & Ey & _)]; [|unfold has in Hh; rewrite Ey in Hh; discriminate].
          destruct a; cbn [local_dels local_target] in Hx, Hloc; try contradiction.
          destruct Hloc as (e0 & He0).
          rewrite (Hvi ns0 PNone sid0 room_ok_None) in He0. unfold restrict in He0.
          destruct (mem S ns0 PNone sid0) as [e'|]; [|discriminate].
          destruct (Nat.eqb (place e') i) eqn:P; [|discriminate]. apply Nat.eqb_eq in P.
          destruct Hx as [<-|[]]. cbn [fst] in E. contradiction. }
        apply in_flat_map. exists (place (fst x)). split.
        { apply seq_in_lt. rewrite M4 || idtac. cbn [c1 c_hosts]. rewrite upd_length. eapply nth_some_lt; eassumption. }
        unfold dels_at. cbn [c1 c_hosts]. rewrite nth_upd_neq by congruence. rewrite Hn, Hhas, Hw.
        apply Nat.eqb_neq in E. rewrite E. cbn [negb andb].
        destruct (HWk _ h Hn) as [HW Hv].
        apply (local_dels_restrict place a S _ (place (fst x)) HWS HW Hact Hv x). split; [exact Hx|reflexivity].
Qed.
End ImmediateOps.

Section ImmediateOps2.
Variable place : str -> nat.

(* draining when nothing but callback-return messages is unread *)
Lemma drain_after c1 s' chan0 extra :
  hst_ok (s_host s') ->
  (forall k h, nth_error (c_hosts c1) k = Some h ->
     hst_ok (h_st h) /\ veq (mem (h_mgr (h_st h))) (restrict place (mem (h_mgr (s_host s'))) k) /\
     (h_wo h = false -> (h_cur h <= List.length chan0)%nat /\ all_cb (skipn (h_cur h) chan0))) ->
  c_chan c1 = chan0 ++ extra -> all_cb extra ->
  placed place (c_hosts c1) (mem (h_mgr (s_host s'))) ->
  c_fresh c1 = s_fresh s' ->
  (forall ns sid e, mem (h_mgr (s_host s')) ns PNone sid = Some e -> exists n, sid = sid_name n /\ n < s_fresh s') ->
  R place (fst (drain c1)) s' /\ same_wos c1 (fst (drain c1)) /\ deliveries (snd (drain c1)) = [].
Proof.
  intros HokS Hh Hchan Hextra Hpl Hfr Hsid. set (S' := h_mgr (s_host s')) in *.
  destruct (drain_hosts_spec place S' S' ANop 0%nat (MCloseRoom PNone [] 0%nat) false chan0
              ltac:(discriminate) (seq 0 (List.length (c_hosts c1))) c1 extra)
    as (more & M1 & M2 & M3 & M4 & M5 & M6 & M7 & M8).
  { apply seq_NoDup. } { exact Hchan. } { exact Hextra. }
  { intros k h _ Hn. destruct (Hh k h Hn) as (H1 & H2 & H3). unfold pre_ok. splits; auto; discriminate. }
  unfold drain. destruct (drain_hosts (seq 0 (List.length (c_hosts c1))) c1) as [c2 e2]. cbn [fst snd] in *.
  destruct (finish_R place c1 c2 S' s' ANop HokS eq_refl) as [HR2 Hsw]; auto.
  { intros k h Hn. apply M7; [apply seq_in_lt; eapply nth_some_lt; eassumption|exact Hn]. }
  { congruence. }
  split; [exact HR2|]. split; [exact Hsw|]. rewrite M8.
  clear. induction (seq 0 (List.length (c_hosts c1))) as [|k r IH]; [reflexivity|].
  cbn [flat_map]. rewrite IH. unfold dels_at. destruct (nth_error (c_hosts c1) k); reflexivity.
Qed.

Lemma imm_ack c s k eio j args :
  R place c s -> wf_op place c (ClientAck k eio j args) ->
  R place (fst (imm_step c (ClientAck k eio j args))) (fst (single_step s (ClientAck k eio j args))) /\
  same_wos c (fst (imm_step c (ClientAck k eio j args))) /\
  Permutation (deliveries (snd (imm_step c (ClientAck k eio j args))))
              (deliveries (snd (single_step s (ClientAck k eio j args)))).
Proof.
  intros HR (_ & (hk & Hnk & Hwk) & _). cbn [op_host needs_server] in *. specialize (Hwk eq_refl).
  pose proof (R_single _ _ _ HR) as HokS.
  (* the single server: its table does not move *)
  assert (HS : exists sS' ses, single_step s (ClientAck k eio j args) = (mkSingle sS' (s_fresh s) (s_log s ++ delivered ses), ses) /\
                               same_rooms (s_host s) sS' /\ AckInv (h_mgr sS') /\ delivered ses = []).
  { cbn [single_step]. destruct (nth_error (idpkts (s_log s) eio) j) as [[ns id]|].
    - unfold s_on. destruct (h_ack 0 eio ns id args (s_host s)) as [sS' ses] eqn:E.
      destruct (h_ack_frame _ _ _ _ _ _ _ _ HokS E) as (H1 & H2 & H3 & _).
      exists sS', ses. splits; auto.
    - exists (s_host s), []. cbn [delivered flat_map]. rewrite app_nil_r. destruct s; cbn.
      splits; auto using same_rooms_refl. apply HokS. }
  destruct HS as (sS' & ses & -> & HsS & HAS' & HdS). cbn [fst snd].
  (* the host that receives the ACK *)
  assert (HC : exists sk' es0, step c (ClientAck k eio j args) =
                 (mkCl (upd (c_hosts c) k (mkHost sk' false (h_cur hk))) (c_chan c ++ published es0) (c_fresh c)
                       (c_log c ++ delivered es0), es0) /\
                 same_rooms (h_st hk) sk' /\ AckInv (h_mgr sk') /\ delivered es0 = [] /\ all_cb (published es0)).
  { destruct (R_hosts _ _ _ HR k hk Hnk) as ((Hokk & _) & _).
    cbn [step]. unfold is_wo. rewrite Hnk, Hwk.
    destruct (nth_error (idpkts (c_log c) eio) j) as [[ns id]|].
    - unfold on_host. rewrite Hnk. unfold in_host.
      destruct (h_ack k eio ns id args (h_st hk)) as [sk' es0] eqn:E.
      destruct (h_ack_frame _ _ _ _ _ _ _ _ Hokk E) as (H1 & H2 & H3 & H4).
      exists sk', es0. splits; auto; try exact H4. rewrite Hwk. reflexivity.
    - exists (h_st hk), []. cbn [published delivered flat_map]. rewrite !app_nil_r.
      assert (Eh : mkHost (h_st hk) false (h_cur hk) = hk) by (destruct hk; cbn in *; congruence).
      rewrite Eh, (upd_same _ _ _ Hnk). destruct c; cbn. splits; auto using same_rooms_refl.
      + apply Hokk. + constructor. }
  destruct HC as (sk' & es0 & Hstep & Hsk & HAk & Hdk & Hpk).
  unfold imm_step. rewrite Hstep.
  set (c1 := mkCl _ _ _ _).
  set (s' := mkSingle sS' (s_fresh s) (s_log s ++ delivered ses)).
  assert (HokS' : hst_ok (s_host s')) by (eapply hst_ok_same; eassumption).
  assert (Em : mem (h_mgr (s_host s')) = mem (h_mgr (s_host s))) by (apply mem_same; exact HsS).
  assert (Hklt : (k < List.length (c_hosts c))%nat) by (eapply nth_some_lt; eassumption).
  destruct (drain_after c1 s' (c_chan c) (published es0) HokS') as (HR2 & Hsw & Hd2).
  { intros k2 h Hn. cbn [c1 c_hosts] in Hn. rewrite Em.
    destruct (Nat.eq_dec k2 k) as [->|E].
    - rewrite (nth_upd_eq _ _ _ Hklt) in Hn. injection Hn as <-. cbn [h_st h_wo h_cur].
      destruct (R_hosts _ _ _ HR k hk Hnk) as ((Hokk & Hvk) & Hqk).
      split; [eapply hst_ok_same; eassumption|]. split; [rewrite (mem_same _ _ Hsk); exact Hvk|intros _; apply Hqk; exact Hwk].
    - rewrite nth_upd_neq in Hn by congruence.
      destruct (R_hosts _ _ _ HR k2 h Hn) as ((Hok2 & Hv2) & Hq2). splits; auto. }
  { reflexivity. } { exact Hpk. }
  { rewrite Em. intros ns r sid e Hr Hm. destruct (R_placed _ _ _ HR ns r sid e Hr Hm) as (h & Hn & Hw).
    cbn [c1 c_hosts]. destruct (Nat.eq_dec (place e) k) as [E|E].
    - rewrite E, (nth_upd_eq _ _ _ Hklt). eexists. split; [reflexivity|]. cbn. rewrite E in Hn. congruence.
    - rewrite nth_upd_neq by congruence. eauto. }
  { apply (R_fresh _ _ _ HR). }
  { rewrite Em. apply (R_sids _ _ _ HR). }
  destruct (drain c1) as [c2 e2]. cbn [fst snd] in *.
  split; [exact HR2|]. split.
  - eapply same_wos_trans; [|exact Hsw]. intro k2. cbn [c1 c_hosts].
    destruct (Nat.eq_dec k2 k) as [->|E]; [rewrite (nth_upd_eq _ _ _ Hklt), Hnk; cbn; rewrite Hwk; reflexivity|].
    rewrite nth_upd_neq by congruence. reflexivity.
  - rewrite deliveries_app, Hd2, (deliveries_nil_of_delivered _ Hdk), (deliveries_nil_of_delivered _ HdS). constructor.
Qed.
End ImmediateOps2.

Section ImmediateOps3.
Variable place : str -> nat.

Lemma fresh_from_sids (V : view) (fresh : N) :
  (forall ns sid e, V ns PNone sid = Some e -> exists n, sid = sid_name n /\ n < fresh) ->
  forall ns, V ns PNone (sid_name fresh) = None.
Proof.
  intros H ns. destruct (V ns PNone (sid_name fresh)) as [e|] eqn:E; [|reflexivity].
  destruct (H ns _ e E) as (n & Hn & Hlt). apply sid_name_inj in Hn. lia.
Qed.

Lemma imm_connect c s k eio ns :
  R place c s -> wf_op place c (Connect k eio ns) ->
  R place (fst (imm_step c (Connect k eio ns))) (fst (single_step s (Connect k eio ns))) /\
  same_wos c (fst (imm_step c (Connect k eio ns))) /\
  Permutation (deliveries (snd (imm_step c (Connect k eio ns))))
              (deliveries (snd (single_step s (Connect k eio ns)))).
Proof.
  intros HR (_ & (hk & Hnk & Hwk) & Hplace). cbn [op_host needs_server] in *. specialize (Hwk eq_refl).
  pose proof (R_single _ _ _ HR) as HokS. pose proof HokS as (HWS & _ & _).
  destruct (R_hosts _ _ _ HR k hk Hnk) as ((Hokk & Hvk) & Hqk).
  set (S := h_mgr (s_host s)) in *. set (n := ns_or_default ns). set (sid := sid_name (s_fresh s)).
  assert (Hcons : consistent (mem S)) by (apply wf_consistent; exact HWS).
  assert (HfS : fresh_sid S sid).
  { split; [apply sid_name_nonnil|]. apply fresh_from_sids. apply (R_sids _ _ _ HR). }
  assert (Hfk : fresh_sid (h_mgr (h_st hk)) sid).
  { split; [apply sid_name_nonnil|]. intro ns0. rewrite (Hvk ns0 PNone sid room_ok_None). unfold restrict.
    rewrite (proj2 HfS ns0). reflexivity. }
  assert (HfS_all : forall ns0 r, room_ok r -> mem S ns0 r sid = None).
  { intros ns0 r Hr. destruct (mem S ns0 r sid) as [e|] eqn:E; [|reflexivity].
    apply Hcons in E; [|exact Hr]. rewrite (proj2 HfS ns0) in E. discriminate. }
  destruct (h_connect_spec k eio n sid (h_st hk) Hokk Hfk) as (sk' & Hrunk & Hokk' & Hresk).
  destruct (h_connect_spec 0 eio n sid (s_host s) HokS HfS) as (sS' & HrunS & HokS' & HresS).
  fold S in HresS, HrunS.
  (* same outcome on both sides *)
  assert (Hsame : snd (mgr_connect (h_mgr (h_st hk)) eio n sid) = snd (mgr_connect S eio n sid)).
  { destruct (snd (mgr_connect (h_mgr (h_st hk)) eio n sid)) as [x|] eqn:E1;
      destruct (snd (mgr_connect S eio n sid)) as [y|] eqn:E2.
    - destruct Hresk as (-> & _). destruct HresS as (-> & _). reflexivity.
    - exfalso. destruct Hresk as (_ & Hno & _). destruct HresS as (_ & s0 & Hs0).
      apply (Hno s0). rewrite (Hvk n PNone s0 room_ok_None). unfold restrict. rewrite Hs0, Hplace, Nat.eqb_refl. reflexivity.
    - exfalso. destruct Hresk as (_ & s0 & Hs0). destruct HresS as (_ & Hno & _).
      rewrite (Hvk n PNone s0 room_ok_None) in Hs0. unfold restrict in Hs0.
      destruct (mem S n PNone s0) as [e|] eqn:E; [|discriminate].
      destruct (Nat.eqb (place e) k); [|discriminate]. injection Hs0 as ->. apply (Hno s0). exact E.
    - reflexivity. }
  (* the two steps *)
  assert (Hfr : c_fresh c = s_fresh s) by apply (R_fresh _ _ _ HR).
  unfold imm_step. cbn [step single_step]. unfold is_wo. rewrite Hnk, Hwk.
  unfold on_host. rewrite Hnk. unfold in_host. rewrite Hfr. fold n sid. rewrite Hrunk.
  unfold s_on. rewrite HrunS. cbn [fst snd c_hosts c_chan c_log c_fresh]. rewrite ?Hwk.
  set (e0 := [Deliver k eio _]).
  match goal with |- context [drain ?x] => set (c1 := x) end.
  cbn [s_host s_log s_fresh].
  match goal with |- context [mkSingle sS' (s_fresh s + 1) ?l] => set (s' := mkSingle sS' (s_fresh s + 1) l) end.
  assert (Hklt : (k < List.length (c_hosts c))%nat) by (eapply nth_some_lt; eassumption).
  (* the new tables, related *)
  assert (Hnew : veq (mem (h_mgr sk')) (restrict place (mem (h_mgr sS')) k) /\
                 (forall k2, k2 <> k -> veq (restrict place (mem S) k2) (restrict place (mem (h_mgr sS')) k2)) /\
                 (forall ns0 r s0 e, room_ok r -> mem (h_mgr sS') ns0 r s0 = Some e ->
                                     mem S ns0 r s0 = Some e \/ (e = eio /\ s0 = sid))).
  { rewrite Hsame in Hresk. destruct (snd (mgr_connect S eio n sid)) as [x|].
    - destruct Hresk as (_ & _ & Hk'). destruct HresS as (_ & _ & HS').
      split; [|split].
      + intros ns0 r s0 Hr. rewrite (Hk' ns0 r s0 Hr). unfold restrict. rewrite (HS' ns0 r s0 Hr).
        destruct (str_eqb n ns0 && str_eqb sid s0 && (room_eqb PNone r || room_eqb (PStr sid) r)).
        * rewrite Hplace, Nat.eqb_refl. reflexivity.
        * apply (Hvk ns0 r s0 Hr).
      + intros k2 Hk2 ns0 r s0 Hr. unfold restrict. rewrite (HS' ns0 r s0 Hr).
        destruct (str_eqb n ns0 && str_eqb sid s0 && (room_eqb PNone r || room_eqb (PStr sid) r)) eqn:C; [|reflexivity].
        apply andb_true_iff in C as [C _]. apply andb_true_iff in C as [_ C]. apply str_eqb_eq in C. subst s0.
        rewrite (HfS_all ns0 r Hr). rewrite Hplace. apply Nat.eqb_neq in Hk2. rewrite Nat.eqb_sym, Hk2. reflexivity.
      + intros ns0 r s0 e Hr Hm. rewrite (HS' ns0 r s0 Hr) in Hm.
        destruct (str_eqb n ns0 && str_eqb sid s0 && (room_eqb PNone r || room_eqb (PStr sid) r)) eqn:C; [|left; exact Hm].
        right. injection Hm as <-. apply andb_true_iff in C as [C _]. apply andb_true_iff in C as [_ C].
        apply str_eqb_eq in C. auto.
    - destruct Hresk as (Hk' & _). destruct HresS as (HS' & _).
      split; [|split].
      + eapply veq_trans; [exact Hk'|]. eapply veq_trans; [exact Hvk|]. apply restrict_veq, veq_sym, HS'.
      + intros k2 _. apply restrict_veq, veq_sym, HS'.
      + intros ns0 r s0 e Hr Hm. left. rewrite <- (HS' ns0 r s0 Hr). exact Hm. }
  destruct Hnew as (Hnk' & Hnother & Hnrange).
  destruct (drain_after place c1 s' (c_chan c) [] HokS') as (HR2 & Hsw & Hd2).
  { intros k2 h Hn. cbn [c1 c_hosts] in Hn. cbn [s' s_host].
    destruct (Nat.eq_dec k2 k) as [->|E].
    - rewrite (nth_upd_eq _ _ _ Hklt) in Hn. injection Hn as <-. cbn [h_st h_wo h_cur].
      split; [exact Hokk'|]. split; [exact Hnk'|]. intros _. apply Hqk. exact Hwk.
    - rewrite nth_upd_neq in Hn by congruence.
      destruct (R_hosts _ _ _ HR k2 h Hn) as ((Hok2 & Hv2) & Hq2).
      split; [exact Hok2|]. split; [|exact Hq2]. eapply veq_trans; [exact Hv2|]. apply Hnother. exact E. }
  { cbn [c1 c_chan e0 published flat_map app]. reflexivity. } { constructor. }
  { cbn [s' s_host]. intros ns0 r s0 e Hr Hm. cbn [c1 c_hosts].
    destruct (Hnrange ns0 r s0 e Hr Hm) as [Hold|[-> _]].
    - destruct (R_placed _ _ _ HR ns0 r s0 e Hr Hold) as (h & Hn & Hw).
      destruct (Nat.eq_dec (place e) k) as [E|E].
      + rewrite E, (nth_upd_eq _ _ _ Hklt). eexists. split; reflexivity.
      + rewrite nth_upd_neq by congruence. eauto.
    - rewrite Hplace, (nth_upd_eq _ _ _ Hklt). eexists. split; reflexivity. }
  { reflexivity. }
  { cbn [s' s_host s_fresh]. intros ns0 s0 e Hm.
    destruct (Hnrange ns0 PNone s0 e room_ok_None Hm) as [Hold|[_ ->]].
    - destruct (R_sids _ _ _ HR ns0 s0 e Hold) as (x & -> & Hx). exists x. split; [reflexivity|lia].
    - exists (s_fresh s). split; [reflexivity|lia]. }
  destruct (drain c1) as [c2 e2]. cbn [fst snd] in *.
  split; [exact HR2|]. split.
  - eapply same_wos_trans; [|exact Hsw]. intro k2. cbn [c1 c_hosts].
    destruct (Nat.eq_dec k2 k) as [->|E]; [rewrite (nth_upd_eq _ _ _ Hklt), Hnk; cbn; rewrite Hwk; reflexivity|].
    rewrite nth_upd_neq by congruence. reflexivity.
  - rewrite deliveries_app, Hd2, app_nil_r. unfold e0. rewrite Hsame. apply Permutation_refl.
Qed.
End ImmediateOps3.

(* ------------------------------------------------------------------ *)
(* 7. C07_immediate                                                     *)
(* ------------------------------------------------------------------ *)
Section ImmediateTheorem.
Variable place : str -> nat.

Lemma imm_op c s o :
  R place c s -> wf_op place c o ->
  R place (fst (imm_step c o)) (fst (single_step s o)) /\ same_wos c (fst (imm_step c o)) /\
  Permutation (deliveries (snd (imm_step c o))) (deliveries (snd (single_step s o))).
Proof.
  intros HR Hwf. destruct o.
  - apply imm_connect; assumption.
  - apply imm_msg_op; [assumption|assumption|exact I].
  - apply imm_msg_op; [assumption|assumption|exact I].
  - apply imm_msg_op; [assumption|assumption|exact I].
  - apply imm_msg_op; [assumption|assumption|exact I].
  - apply imm_msg_op; [assumption|assumption|exact I].
  - apply imm_ack; assumption.
  - destruct Hwf as (_ & _ & []).
Qed.

Lemma mem_init ns r s : mem mgr_init ns r s = None.
Proof. reflexivity. Qed.

Lemma R_init wos : R place (cluster_init wos) single_init.
Proof.
  assert (Hok : hst_ok hst_init).
  { split; [apply WF_init|]. split; [reflexivity|apply AckInv_init]. }
  constructor.
  - exact Hok.
  - intros k h Hn. cbn [cluster_init c_hosts c_chan] in *. apply nth_error_In in Hn.
    apply in_map_iff in Hn as (wo & <- & _). split.
    + split; [exact Hok|]. intros ns r s _. reflexivity.
    + intros _. cbn. split; [lia|constructor].
  - intros ns r sid e _ H. discriminate H.
  - reflexivity.
  - intros ns sid e H. discriminate H.
Qed.

Definition deliveries_agree (e se : list eff) : Prop := Permutation (deliveries e) (deliveries se).

Lemma run_imm_refines : forall ops c0 c s,
  R place c s -> same_wos c0 c -> Forall (wf_op place c0) ops ->
  Forall2 deliveries_agree (snd (run_imm c ops)) (snd (run_single s ops)) /\
  R place (fst (run_imm c ops)) (fst (run_single s ops)) /\ same_wos c0 (fst (run_imm c ops)).
Proof.
  induction ops as [|o ops IH]; intros c0 c s HR Hsw Hwf; cbn [run_imm run_single].
  - cbn. split; [constructor|]. split; assumption.
  - inversion Hwf as [|? ? Ho Hops]; subst.
    destruct (imm_op c s o HR (wf_op_stable place c0 c o Hsw Ho)) as (HR1 & Hsw1 & Hp).
    destruct (imm_step c o) as [c1 e1]. destruct (single_step s o) as [s1 se1]. cbn [fst snd] in *.
    destruct (IH c0 c1 s1 HR1 (same_wos_trans _ _ _ Hsw Hsw1) Hops) as (H1 & H2 & H3).
    destruct (run_imm c1 ops) as [c2 es]. destruct (run_single s1 ops) as [s2 ses]. cbn [fst snd] in *.
    split; [constructor; assumption|]. split; assumption.
Qed.

(* abs: the union of the per-host tables is the single server's table *)
Lemma abs_hosts_some hs ns r sid e :
  abs_hosts hs ns r sid = Some e -> exists k h, nth_error hs k = Some h /\ mlook (h_mgr (h_st h)) ns r sid = Some e.
Proof.
  induction hs as [|h hs IH]; cbn [abs_hosts]; [discriminate|].
  destruct (mlook (h_mgr (h_st h)) ns r sid) as [e'|] eqn:E.
  - intro H. injection H as <-. exists 0%nat, h. split; [reflexivity|exact E].
  - intro H. destruct (IH H) as (k & h' & Hn & Hm). exists (Datatypes.S k), h'. split; assumption.
Qed.
Lemma abs_hosts_none hs ns r sid :
  abs_hosts hs ns r sid = None -> forall k h, nth_error hs k = Some h -> mlook (h_mgr (h_st h)) ns r sid = None.
Proof.
  induction hs as [|h hs IH]; cbn [abs_hosts]; intros H k h' Hn; [destruct k; discriminate|].
  destruct (mlook (h_mgr (h_st h)) ns r sid) as [e'|] eqn:E; [discriminate|].
  destruct k as [|k]; cbn in Hn; [congruence|]. eapply IH; eassumption.
Qed.

Lemma abs_of_R c s ns r sid :
  R place c s -> room_ok r -> abs c ns r sid = mlook (h_mgr (s_host s)) ns r sid.
Proof.
  intros HR Hr. rewrite mlook_mem. unfold abs.
  destruct (abs_hosts (c_hosts c) ns r sid) as [e|] eqn:E.
  - destruct (abs_hosts_some _ _ _ _ _ E) as (k & h & Hn & Hm). rewrite mlook_mem in Hm.
    destruct (R_hosts _ _ _ HR k h Hn) as ((_ & Hv) & _). rewrite (Hv ns r sid Hr) in Hm.
    unfold restrict in Hm. destruct (mem (h_mgr (s_host s)) ns r sid) as [e'|]; [|discriminate].
    destruct (Nat.eqb (place e') k); [|discriminate]. congruence.
  - destruct (mem (h_mgr (s_host s)) ns r sid) as [e|] eqn:Em; [|reflexivity].
    destruct (R_placed _ _ _ HR ns r sid e Hr Em) as (h & Hn & _).
    pose proof (abs_hosts_none _ _ _ _ E _ _ Hn) as Hm. rewrite mlook_mem in Hm.
    destruct (R_hosts _ _ _ HR _ h Hn) as ((_ & Hv) & _). rewrite (Hv ns r sid Hr) in Hm.
    unfold restrict in Hm. rewrite Em, Nat.eqb_refl in Hm. discriminate.
Qed.

(* every listening host has consumed everything except, possibly, callback-return messages *)
Definition caught_up (c : cluster) : Prop :=
  forall k h, nth_error (c_hosts c) k = Some h -> h_wo h = false ->
    (h_cur h <= List.length (c_chan c))%nat /\ all_cb (skipn (h_cur h) (c_chan c)).

Theorem immediate_refines wos ops :
  Forall (wf_op place (cluster_init wos)) ops ->
  Forall2 deliveries_agree (snd (run_imm (cluster_init wos) ops)) (snd (run_single single_init ops)) /\
  (forall ns r sid, room_ok r ->
     abs (fst (run_imm (cluster_init wos) ops)) ns r sid =
     mlook (h_mgr (s_host (fst (run_single single_init ops)))) ns r sid) /\
  caught_up (fst (run_imm (cluster_init wos) ops)).
Proof.
  intro Hwf.
  destruct (run_imm_refines ops (cluster_init wos) (cluster_init wos) single_init (R_init wos) (same_wos_refl _) Hwf)
    as (H1 & H2 & _).
  split; [exact H1|]. split.
  - intros ns r sid Hr. apply abs_of_R; assumption.
  - intros k h Hn Hw. destruct (R_hosts _ _ _ H2 k h Hn) as (_ & Hq). apply Hq. exact Hw.
Qed.
End ImmediateTheorem.

(* ------------------------------------------------------------------ *)
(* 8. C07_no_double_on_origin                                           *)
(* ------------------------------------------------------------------ *)
(* the listener of host k meets a non-callback message that carries k's own host_id: nothing happens
   (the echo filter of _thread: data.get('host_id') != self.host_id) *)
Lemma consume_own_echo c k h m :
  nth_error (c_hosts c) k = Some h -> h_wo h = false ->
  nth_error (c_chan c) (h_cur h) = Some m -> msg_host m = k -> is_callback_msg m = false ->
  step c (Consume k) =
  (mkCl (upd (c_hosts c) k (mkHost (h_st h) false (Datatypes.S (h_cur h)))) (c_chan c) (c_fresh c) (c_log c),
   [Consumed k (h_cur h)]).
Proof.
  intros Hn Hw Hm Hh Hc. cbn [step]. unfold on_host. rewrite Hn.
  rewrite (host_consume_apply _ _ _ _ Hw Hm). unfold host_apply.
  rewrite (contained_ok _ _ _ _ _ (dispatch_echo k m (h_st h) Hh Hc)). rewrite Hw.
  cbn [published delivered flat_map]. rewrite !app_nil_r. reflexivity.
Qed.

Lemma local_dels_nodup_eios a m : WF m -> act_ok a -> NoDup (map fst (local_dels a m)).
Proof.
  intros HW Hok. destruct a; cbn [local_dels map]; try constructor.
  - destruct (mem m ns PNone sid); cbn; repeat constructor. intros [].
  - destruct (parts_of m ns room) as [parts|] eqn:HP; [|constructor].
    unfold emit_dels. rewrite map_map. cbn [fst]. apply (parts_of_nodup m ns room skip parts HW HP).
Qed.

Theorem no_double_on_origin c k h ev data ns room skip cb :
  nth_error (c_hosts c) k = Some h -> hst_ok (h_st h) ->
  op_ok (Emit k ev data ns room skip cb) -> (cb <> None -> h_wo h = false) ->
  (* the local application reaches every client of k at most once ... *)
  NoDup (map fst (deliveries (snd (step c (Emit k ev data ns room skip cb))))) /\
  exists m, published (snd (step c (Emit k ev data ns room skip cb))) = [m] /\
            msg_host m = k /\ is_callback_msg m = false /\
    (* ... and whenever, in whatever later state, k reads that message back from the channel, it is dropped *)
    forall c' h', nth_error (c_hosts c') k = Some h' -> h_wo h' = false ->
      nth_error (c_chan c') (h_cur h') = Some m ->
      step c' (Consume k) =
      (mkCl (upd (c_hosts c') k (mkHost (h_st h') false (Datatypes.S (h_cur h')))) (c_chan c') (c_fresh c') (c_log c'),
       [Consumed k (h_cur h')]).
Proof.
  intros Hn Hok Hop Hcb.
  assert (Hw : needs_server (Emit k ev data ns room skip cb) = true -> h_wo h = false).
  { cbn. destruct cb; [intros _; apply Hcb; discriminate|discriminate]. }
  rewrite (step_msg_form c (Emit k ev data ns room skip cb) h I Hn Hw). cbn [op_host].
  destruct (issuer_spec k (h_wo h) (Emit k ev data ns room skip cb) (h_st h) Hok Hop)
    as (s' & es & Hrun & _ & _ & Hdel & _ & Hpub); try discriminate.
  { destruct cb; [apply Hcb; discriminate|exact I]. }
  unfold on_host. rewrite Hn. unfold in_host. rewrite Hrun. cbn [snd].
  split.
  - rewrite Hdel. apply local_dels_nodup_eios; [apply Hok|apply op_ok_act; exact Hop].
  - destruct Hpub as [[_ []]|(m & Hm & _ & Hh & Hc)].
    exists m. split; [exact Hm|]. split; [exact Hh|]. split; [exact Hc|].
    intros c' h' Hn' Hw' Hm'. apply (consume_own_echo c' k h' m); assumption.
Qed.

(* ------------------------------------------------------------------ *)
(* 9. C07_delayed: cursors, eligibility                                 *)
(* ------------------------------------------------------------------ *)
(* (i) whatever the operation, the channel only grows, cursors never move backwards, and the only way a
   cursor moves is one Consume of that host taking exactly the message under the cursor *)
Lemma on_host_in_host_frame c k f :
  let c' := fst (on_host c k (in_host f)) in
  (exists more, c_chan c' = c_chan c ++ more) /\
  List.length (c_hosts c') = List.length (c_hosts c) /\
  forall k2 h, nth_error (c_hosts c) k2 = Some h ->
    exists h', nth_error (c_hosts c') k2 = Some h' /\ h_wo h' = h_wo h /\ h_cur h' = h_cur h.
Proof.
  unfold on_host. destruct (nth_error (c_hosts c) k) as [hk|] eqn:Ek.
  - unfold in_host. destruct (f (h_st hk)) as [s' es]. cbn [fst c_chan c_hosts].
    split; [eexists; reflexivity|]. split; [apply upd_length|].
    intros k2 h Hn. destruct (Nat.eq_dec k2 k) as [->|E].
    + rewrite (nth_upd_eq _ _ _ (nth_some_lt _ _ _ Ek)). rewrite Ek in Hn. injection Hn as <-.
      eexists. split; [reflexivity|]. split; reflexivity.
    + rewrite nth_upd_neq by congruence. eauto.
  - cbn [fst]. split; [exists []; rewrite app_nil_r; reflexivity|]. split; [reflexivity|]. eauto.
Qed.

Definition cursor_step (c c' : cluster) (o : op) : Prop :=
  (exists more, c_chan c' = c_chan c ++ more) /\
  forall k h, nth_error (c_hosts c) k = Some h ->
    exists h', nth_error (c_hosts c') k = Some h' /\ h_wo h' = h_wo h /\
      (h_cur h' = h_cur h \/
       (o = Consume k /\ h_wo h = false /\ h_cur h' = Datatypes.S (h_cur h) /\ (h_cur h < List.length (c_chan c))%nat)).

Theorem cursors_monotone c o : cursor_step c (fst (step c o)) o.
Proof.
  assert (Hframe : forall k f, cursor_step c (fst (on_host c k (in_host f))) o).
  { intros k f. destruct (on_host_in_host_frame c k f) as (H1 & _ & H3). split; [exact H1|].
    intros k2 h Hn. destruct (H3 k2 h Hn) as (h' & A & B & C). exists h'. auto. }
  assert (Hid : cursor_step c c o).
  { split; [exists []; rewrite app_nil_r; reflexivity|]. intros k h Hn. exists h. auto. }
  destruct o; cbn [step]; try (destruct (is_wo c h); [exact Hid|]); try apply Hframe.
  - (* connect *)
    destruct (on_host_in_host_frame c h (h_connect h eio (ns_or_default ns) (sid_name (c_fresh c)))) as (H1 & _ & H3).
    destruct (on_host c h (in_host (h_connect h eio (ns_or_default ns) (sid_name (c_fresh c))))) as [c1 es]. cbn [fst] in *.
    split; [exact H1|]. intros k2 h2 Hn. destruct (H3 k2 h2 Hn) as (h' & A & B & C). exists h'. auto.
  - (* ack *)
    destruct (nth_error (idpkts (c_log c) eio) j) as [[ns id]|]; [apply Hframe|exact Hid].
  - (* consume *)
    unfold on_host. destruct (nth_error (c_hosts c) h) as [hk|] eqn:Ek; [|exact Hid].
    unfold host_consume. destruct (h_wo hk) eqn:Ew.
    + cbn [fst published delivered flat_map]. rewrite !app_nil_r, (upd_same _ _ _ Ek). destruct c; exact Hid.
    + destruct (nth_error (c_chan c) (h_cur hk)) as [m|] eqn:Em.
      * destruct (contained h (dispatch h m) (h_st hk)) as [s1 e1]. cbn [fst c_chan c_hosts].
        split; [eexists; reflexivity|]. intros k2 h2 Hn. cbn [c_hosts c_chan]. destruct (Nat.eq_dec k2 h) as [->|E].
        -- rewrite (nth_upd_eq _ _ _ (nth_some_lt _ _ _ Ek)). rewrite Ek in Hn. injection Hn as <-.
           eexists. split; [reflexivity|]. split; [cbn; congruence|]. right. cbn [h_cur].
           splits; auto. apply nth_error_Some. congruence.
        -- rewrite nth_upd_neq by congruence. exists h2. auto.
      * cbn [fst published delivered flat_map]. rewrite !app_nil_r, (upd_same _ _ _ Ek). destruct c; exact Hid.
Qed.

(* the pairs (host, channel index) applied along a run, read off the states *)
Fixpoint applied (c : cluster) (ops : list op) : list (nat * nat) :=
  match ops with
  | [] => []
  | o :: r =>
      (match o with
       | Consume k => match nth_error (c_hosts c) k with
                      | Some h => if negb (h_wo h) && Nat.ltb (h_cur h) (List.length (c_chan c)) then [(k, h_cur h)] else []
                      | None => [] end
       | _ => [] end) ++ applied (fst (step c o)) r
  end.

Lemma applied_bound ops : forall c k i,
  In (k, i) (applied c ops) -> exists h, nth_error (c_hosts c) k = Some h /\ (h_cur h <= i)%nat.
Proof.
  induction ops as [|o ops IH]; intros c k i Hin; cbn [applied] in Hin; [destruct Hin|].
  apply in_app_or in Hin as [Hin|Hin].
  - destruct o; try destruct Hin. destruct (nth_error (c_hosts c) h) as [hk|] eqn:Ek; [|destruct Hin].
    destruct (negb (h_wo hk) && Nat.ltb (h_cur hk) (List.length (c_chan c))); [|destruct Hin].
    destruct Hin as [Hin|[]]. injection Hin as <- <-. exists hk. split; [exact Ek|lia].
  - destruct (IH _ _ _ Hin) as (h' & Hn' & Hle).
    destruct (cursors_monotone c o) as (_ & Hc).
    destruct (nth_error (c_hosts c) k) as [h|] eqn:Ek.
    + destruct (Hc k h Ek) as (h2 & Hn2 & _ & Hcur). rewrite Hn' in Hn2. injection Hn2 as <-.
      exists h. split; [reflexivity|]. destruct Hcur as [Hc1|(_ & _ & Hc1 & _)]; lia.
    + exfalso. (* hosts are never created *)
      assert (Hlen : List.length (c_hosts (fst (step c o))) = List.length (c_hosts c)).
      { clear. destruct o; cbn [step]; try (destruct (is_wo c h); [reflexivity|]);
          try (apply on_host_in_host_frame).
        - destruct (on_host_in_host_frame c h (h_connect h eio (ns_or_default ns) (sid_name (c_fresh c)))) as (_ & H & _).
          destruct (on_host c h (in_host (h_connect h eio (ns_or_default ns) (sid_name (c_fresh c))))). exact H.
        - destruct (nth_error (idpkts (c_log c) eio) j) as [[ns id]|]; [apply on_host_in_host_frame|reflexivity].
        - unfold on_host. destruct (nth_error (c_hosts c) h); [|reflexivity].
          destruct (host_consume h (c_chan c) h0). cbn. apply upd_length. }
      apply nth_error_None in Ek. rewrite <- Hlen in Ek. apply nth_error_None in Ek. congruence.
Qed.

(* (i') no host ever applies the same channel message twice *)
Theorem applied_once ops : forall c, NoDup (applied c ops).
Proof.
  induction ops as [|o ops IH]; intro c; cbn [applied]; [constructor|].
  apply nodup_app_intro; [| apply IH |].
  - destruct o; try constructor. destruct (nth_error (c_hosts c) h); [|constructor].
    destruct (negb (h_wo h0) && Nat.ltb (h_cur h0) (List.length (c_chan c))); repeat constructor. intros [].
  - intros [k i] Hin Hin2. destruct o; try destruct Hin.
    destruct (nth_error (c_hosts c) h) as [hk|] eqn:Ek; [|destruct Hin].
    destruct (negb (h_wo hk) && Nat.ltb (h_cur hk) (List.length (c_chan c))) eqn:C; [|destruct Hin].
    destruct Hin as [Hin|[]]. injection Hin as <- <-.
    destruct (applied_bound _ _ _ _ Hin2) as (h' & Hn' & Hle).
    apply andb_true_iff in C as [Cw Cl]. apply negb_true_iff in Cw. apply Nat.ltb_lt in Cl.
    (* after this Consume the cursor of h is one further *)
    cbn [step] in Hn'. unfold on_host in Hn'. rewrite Ek in Hn'. unfold host_consume in Hn'. rewrite Cw in Hn'.
    destruct (nth_error (c_chan c) (h_cur hk)) as [m|] eqn:Em; [|apply nth_error_None in Em; lia].
    destruct (contained h (dispatch h m) (h_st hk)) as [s1 e1]. cbn [fst c_hosts] in Hn'.
    rewrite (nth_upd_eq _ _ _ (nth_some_lt _ _ _ Ek)) in Hn'. injection Hn' as <-. cbn [h_cur] in Hle. lia.
Qed.

(* (ii) eligibility: whoever receives an emit through the listener of host k was, at that moment, in an
   addressed room of k's own table and not skipped *)
Lemma in_deliver_deliveries k eio p es : In (Deliver k eio p) es -> In (eio, erase_id p) (deliveries es).
Proof.
  induction es as [|e es IH]; intro H; [destruct H|]. destruct H as [->|H].
  - left. reflexivity.
  - specialize (IH H). unfold deliveries, delivered in *. cbn [flat_map]. rewrite map_app. apply in_or_app. right. exact IH.
Qed.

Lemma only_deliver_in k es k' eio p : only_deliver k es -> In (Deliver k' eio p) es -> k' = k.
Proof.
  intros H Hin. unfold only_deliver in H. rewrite Forall_forall in H.
  destruct (H _ Hin) as (e & q & E). congruence.
Qed.

Theorem delayed_eligible c k h ev data ns room skip cb origin :
  nth_error (c_hosts c) k = Some h -> h_wo h = false -> hst_ok (h_st h) -> target_ok room = true -> origin <> k ->
  nth_error (c_chan c) (h_cur h) = Some (MEmit ev data ns room skip cb origin) ->
  forall k' eio p, In (Deliver k' eio p) (snd (step c (Consume k))) ->
    k' = k /\ (exists id, p = PktEvent ns (ev :: pack data) id) /\
    exists sid r, In r (addressed room) /\ mlook (h_mgr (h_st h)) ns r sid = Some eio /\
                  skipped (skip_list skip) sid = false.
Proof.
  intros Hn Hw Hok Ht Ho Hm k' eio p Hin. pose proof Hok as (HW & _ & HA).
  destruct (parts_of_total (h_mgr (h_st h)) ns room Ht) as (parts & HP).
  destruct (handle_emit_spec k ev data ns room skip cb origin (h_st h) parts HA HP)
    as (s' & es & Hrun & _ & _ & Hod & _ & Hdel).
  cbn [step] in Hin. unfold on_host in Hin. rewrite Hn in Hin.
  rewrite (host_consume_apply _ _ _ _ Hw Hm) in Hin. unfold host_apply in Hin.
  assert (Hd : dispatch k (MEmit ev data ns room skip cb origin) (h_st h) = (s', es, Ok tt)).
  { cbn [dispatch msg_host]. apply Nat.eqb_neq in Ho. rewrite Ho. exact Hrun. }
  rewrite (contained_ok _ _ _ _ _ Hd) in Hin. cbn [snd] in Hin.
  destruct Hin as [Hin|Hin]; [discriminate|].
  split; [eapply only_deliver_in; eassumption|].
  apply in_deliver_deliveries in Hin. rewrite Hdel in Hin.
  apply in_map_iff in Hin as ([sid e] & Heq & Hi). cbn [snd] in Heq. injection Heq as <- Hp.
  apply filter_In in Hi as [Hi Hsk].
  split.
  - destruct p as [n0 d0 i0|n0 s0|n0|n0]; cbn [erase_id] in Hp; try discriminate Hp.
    destruct i0; injection Hp as <- <-; eauto.
  - apply (parts_of_in _ _ _ _ sid e HW HP) in Hi as (r & Hr & Hmem).
    exists sid, r. split; [exact Hr|]. split; [rewrite mlook_mem; exact Hmem|].
    unfold nonskip in Hsk. cbn [fst] in Hsk. apply negb_true_iff in Hsk. exact Hsk.
Qed.

(* ------------------------------------------------------------------ *)
(* 10. C07_delayed: any schedule of consumption                         *)
(* ------------------------------------------------------------------ *)
Definition consumes (sch : list nat) : list op := map Consume sch.

Lemma perm_flat_map_head {B} (f f' : nat -> list B) (k1 : nat) (e1 : list B) ks :
  NoDup ks -> In k1 ks -> f k1 = e1 ++ f' k1 -> (forall k, k <> k1 -> f k = f' k) ->
  Permutation (e1 ++ flat_map f' ks) (flat_map f ks).
Proof.
  induction ks as [|k r IH]; intros Hnd Hin H1 Ho; [destruct Hin|].
  inversion Hnd; subst. cbn [flat_map]. destruct Hin as [->|Hin].
  - rewrite H1. rewrite <- app_assoc. apply Permutation_app_head. apply Permutation_app_head.
    rewrite (flat_map_ext_in' f f' r); [apply Permutation_refl|].
    intros x Hx. apply Ho. intro; subst. contradiction.
  - rewrite (Ho k) by (intro; subst; contradiction).
    eapply Permutation_trans; [|apply Permutation_app_head; apply IH; assumption].
    rewrite !app_assoc. apply Permutation_app_tail. apply Permutation_app_comm.
Qed.

(* a step that takes nothing leaves the cluster alone *)
Lemma consume_idle c k :
  match nth_error (c_hosts c) k with
  | Some h => h_wo h = true \/ nth_error (c_chan c) (h_cur h) = None
  | None => True end ->
  step c (Consume k) = (c, []).
Proof.
  intro H. cbn [step]. unfold on_host. destruct (nth_error (c_hosts c) k) as [h|] eqn:Ek; [|reflexivity].
  unfold host_consume. destruct (h_wo h) eqn:Ew.
  - cbn [published delivered flat_map]. rewrite !app_nil_r, (upd_same _ _ _ Ek). destruct c; reflexivity.
  - destruct H as [H|H]; [discriminate|]. rewrite H.
    cbn [published delivered flat_map]. rewrite !app_nil_r, (upd_same _ _ _ Ek). destruct c; reflexivity.
Qed.

Lemma consume_effective c k h m :
  nth_error (c_hosts c) k = Some h -> h_wo h = false -> nth_error (c_chan c) (h_cur h) = Some m ->
  step c (Consume k) = (cl_upd c k (fst (host_apply k m h)) (snd (host_apply k m h)), snd (host_apply k m h)).
Proof.
  intros Hn Hw Hm. cbn [step]. unfold on_host. rewrite Hn, (host_consume_apply _ _ _ _ Hw Hm).
  destruct (host_apply k m h) as [h1 e1]. reflexivity.
Qed.

(* whatever the interleaving, each host has simply worked through a prefix of what it had not read yet,
   and the effects are a shuffle of the hosts' own effect sequences *)
Lemma schedule_projection sch : forall c,
  exists cnt : nat -> nat,
    let c2 := fst (run c (consumes sch)) in
    let es := List.concat (snd (run c (consumes sch))) in
    c_chan c2 = c_chan c ++ published es /\ c_fresh c2 = c_fresh c /\
    List.length (c_hosts c2) = List.length (c_hosts c) /\
    (forall k h, nth_error (c_hosts c) k = Some h ->
       (h_wo h = true -> cnt k = 0%nat) /\
       nth_error (c_hosts c2) k = Some (fst (host_run k (firstn (cnt k) (skipn (h_cur h) (c_chan c2))) h))) /\
    Permutation es
      (flat_map (fun k => match nth_error (c_hosts c) k with
                          | Some h => snd (host_run k (firstn (cnt k) (skipn (h_cur h) (c_chan c2))) h)
                          | None => [] end) (seq 0 (List.length (c_hosts c)))).
Proof.
  induction sch as [|k1 sch IH]; intro c; cbn [consumes map run].
  - exists (fun _ => 0%nat). cbn [fst snd List.concat published flat_map firstn host_run]. rewrite app_nil_r.
    splits; auto.
    induction (seq 0 (List.length (c_hosts c))) as [|k r IHr]; [constructor|].
    cbn [flat_map]. destruct (nth_error (c_hosts c) k); exact IHr.
  - fold (consumes sch).
    destruct (nth_error (c_hosts c) k1) as [h1|] eqn:Ek1.
    2:{ rewrite (consume_idle c k1) by (rewrite Ek1; exact I).
        destruct (IH c) as (cnt & H). destruct (run c (consumes sch)) as [c2 ess]. exists cnt. exact H. }
    destruct (h_wo h1) eqn:Ew1.
    { rewrite (consume_idle c k1) by (rewrite Ek1; left; exact Ew1).
      destruct (IH c) as (cnt & H). destruct (run c (consumes sch)) as [c2 ess]. exists cnt. exact H. }
    destruct (nth_error (c_chan c) (h_cur h1)) as [m|] eqn:Em.
    2:{ rewrite (consume_idle c k1) by (rewrite Ek1; right; exact Em).
        destruct (IH c) as (cnt & H). destruct (run c (consumes sch)) as [c2 ess]. exists cnt. exact H. }
    rewrite (consume_effective c k1 h1 m Ek1 Ew1 Em).
    pose proof (host_apply_cur k1 m h1) as [Hc1 Hw1].
    set (h1' := fst (host_apply k1 m h1)) in *. set (e1 := snd (host_apply k1 m h1)) in *.
    set (c1 := cl_upd c k1 h1' e1).
    destruct (IH c1) as (cnt' & H1 & H2 & H3 & H4 & H5).
    destruct (run c1 (consumes sch)) as [c2 ess]. cbn [fst snd List.concat] in *.
    assert (Hk1lt : (k1 < List.length (c_hosts c))%nat) by (eapply nth_some_lt; eassumption).
    assert (Hchan2 : c_chan c2 = c_chan c ++ published (e1 ++ List.concat ess)).
    { rewrite H1. cbn [c1 cl_upd c_chan]. rewrite published_app, app_assoc. reflexivity. }
    assert (Hm2 : nth_error (c_chan c2) (h_cur h1) = Some m).
    { rewrite Hchan2. rewrite nth_error_app1; [exact Em|]. apply nth_error_Some. congruence. }
    exists (fun k => if Nat.eqb k k1 then Datatypes.S (cnt' k1) else cnt' k).
    split; [exact Hchan2|]. split; [rewrite H2; reflexivity|].
    split; [rewrite H3; cbn [c1 cl_upd c_hosts]; apply upd_length|].
    assert (Hown : nth_error (c_hosts c1) k1 = Some h1') by (cbn [c1 cl_upd c_hosts]; apply nth_upd_eq; exact Hk1lt).
    destruct (H4 k1 h1' Hown) as (A2 & A3).
    assert (Erun : host_run k1 (firstn (Datatypes.S (cnt' k1)) (skipn (h_cur h1) (c_chan c2))) h1 =
                   (fst (host_run k1 (firstn (cnt' k1) (skipn (h_cur h1') (c_chan c2))) h1'),
                    e1 ++ snd (host_run k1 (firstn (cnt' k1) (skipn (h_cur h1') (c_chan c2))) h1'))).
    { rewrite (skipn_nth_cons _ _ _ Hm2). cbn [firstn host_run]. rewrite Hc1.
      unfold h1', e1. destruct (host_apply k1 m h1) as [hx ex]. cbn [fst snd].
      destruct (host_run k1 (firstn (cnt' k1) (skipn (Datatypes.S (h_cur h1)) (c_chan c2))) hx). reflexivity. }
    split.
    + intros k h Hn. destruct (Nat.eqb k k1) eqn:E.
      * apply Nat.eqb_eq in E. subst k. rewrite Ek1 in Hn. injection Hn as <-.
        split; [intro; congruence|].
        rewrite Erun. cbn [fst]. exact A3.
      * apply Nat.eqb_neq in E. apply H4. cbn [c1 cl_upd c_hosts]. rewrite nth_upd_neq by congruence. exact Hn.
    + eapply Permutation_trans; [apply Permutation_app_head; exact H5|].
      cbn [c1 cl_upd c_hosts]. rewrite upd_length.
      apply (perm_flat_map_head _ _ k1 e1); [apply seq_NoDup|apply seq_in_lt; exact Hk1lt| |].
      * rewrite Ek1, Nat.eqb_refl. rewrite Erun. cbn [snd]. rewrite (nth_upd_eq _ _ _ Hk1lt). reflexivity.
      * intros k Hk. rewrite nth_upd_neq by congruence. apply Nat.eqb_neq in Hk. rewrite Hk. reflexivity.
Qed.

Section Delayed.
Variable place : str -> nat.

(* the deliveries of the issuing host plus those of a selection of the other listening hosts *)
Lemma dels_partition hosts S a i hi (sel : nat -> bool) :
  WF S -> act_ok a -> nth_error hosts i = Some hi ->
  (forall k h, nth_error hosts k = Some h ->
     WF (h_mgr (h_st h)) /\ veq (mem (h_mgr (h_st h))) (restrict place (mem S) k)) ->
  placed place hosts (mem S) ->
  let piece := fun k => match nth_error hosts k with
                        | Some h => if sel k && negb (h_wo h) && negb (Nat.eqb k i)
                                    then local_dels a (h_mgr (h_st h)) else []
                        | None => [] end in
  let T := local_dels a (h_mgr (h_st hi)) ++ flat_map piece (seq 0 (List.length hosts)) in
  NoDup T /\ incl T (local_dels a S) /\
  ((forall k h, nth_error hosts k = Some h -> h_wo h = false -> k <> i -> sel k = true) ->
   Permutation T (local_dels a S)).
Proof.
  intros HWS Hact Hni HWk Hpl piece T.
  destruct (HWk i hi Hni) as [HWi Hvi].
  assert (Hpiece : forall k x, In x (piece k) -> In x (local_dels a S) /\ place (fst x) = k /\ k <> i).
  { intros k x Hx. unfold piece in Hx. destruct (nth_error hosts k) as [h|] eqn:Hn; [|destruct Hx].
    destruct (sel k && negb (h_wo h) && negb (Nat.eqb k i)) eqn:C; [|destruct Hx].
    apply andb_true_iff in C as [_ C]. apply negb_true_iff, Nat.eqb_neq in C.
    destruct (HWk k h Hn) as [HW Hv].
    apply (local_dels_restrict place a S _ k HWS HW Hact Hv x) in Hx as [H1 H2]. auto. }
  assert (Hnd : NoDup T).
  { unfold T. apply nodup_app_intro.
    - apply local_dels_nodup; assumption.
    - apply (nodup_flat_map_place place); [apply seq_NoDup| |].
      + intros k _. unfold piece. destruct (nth_error hosts k) as [h|] eqn:Hn; [|constructor].
        destruct (sel k && negb (h_wo h) && negb (Nat.eqb k i)); [|constructor].
        apply local_dels_nodup; [apply (HWk k h Hn)|exact Hact].
      + intros k x _ Hx. apply (Hpiece k x Hx).
    - intros x Hx Hin. apply in_flat_map in Hin as (k & _ & Hx2).
      destruct (Hpiece k x Hx2) as (_ & P2 & Hki).
      apply (local_dels_restrict place a S _ i HWS HWi Hact Hvi x) in Hx as [_ P1]. congruence. }
  assert (Hincl : incl T (local_dels a S)).
  { intros x Hx. unfold T in Hx. apply in_app_or in Hx as [Hx|Hx].
    - apply (local_dels_restrict place a S _ i HWS HWi Hact Hvi x) in Hx. apply Hx.
    - apply in_flat_map in Hx as (k & _ & Hx2). apply (Hpiece k x Hx2). }
  split; [exact Hnd|]. split; [exact Hincl|].
  intro Hall. apply NoDup_Permutation; [exact Hnd|apply local_dels_nodup; assumption|].
  intro x. split; [apply Hincl|]. intro Hx. unfold T. apply in_or_app.
  destruct (Nat.eq_dec (place (fst x)) i) as [E|E].
  - left. apply (local_dels_restrict place a S _ i HWS HWi Hact Hvi x). split; assumption.
  - right. destruct (local_dels_member a S x HWS Hact Hx) as (ns & r & sid & Hr & Hm).
    destruct (Hpl ns r sid (fst x) Hr Hm) as (h & Hn & Hw).
    apply in_flat_map. exists (place (fst x)). split; [apply seq_in_lt; eapply nth_some_lt; eassumption|].
    unfold piece. rewrite Hn, Hw, (Hall _ h Hn Hw E). apply Nat.eqb_neq in E. rewrite E. cbn [negb andb].
    destruct (HWk _ h Hn) as [HW Hv].
    apply (local_dels_restrict place a S _ (place (fst x)) HWS HW Hact Hv x). split; [exact Hx|reflexivity].
Qed.
End Delayed.

Lemma all_cb_skipn_S l n : all_cb (skipn n l) -> all_cb (skipn (Datatypes.S n) l).
Proof.
  revert n. induction l as [|x l IH]; intros n H; [destruct n; constructor|].
  destruct n as [|n]; cbn [skipn] in *.
  - inversion H; subst. destruct l; assumption.
  - apply IH. exact H.
Qed.

Lemma deliveries_flat_map {A} (F : A -> list eff) ks :
  deliveries (flat_map F ks) = flat_map (fun k => deliveries (F k)) ks.
Proof. induction ks as [|k r IH]; [reflexivity|]. cbn [flat_map]. rewrite deliveries_app, IH. reflexivity. Qed.
Lemma deliveries_perm es es' : Permutation es es' -> Permutation (deliveries es) (deliveries es').
Proof.
  intro H. unfold deliveries, delivered. apply Permutation_map.
  induction H; cbn [flat_map]; auto.
  - apply Permutation_app_head. assumption.
  - rewrite !app_assoc. apply Permutation_app_tail. apply Permutation_app_comm.
  - eapply Permutation_trans; eassumption.
Qed.

Lemma in_firstn' {A} (l : list A) n x : In x (firstn n l) -> In x l.
Proof.
  revert n. induction l as [|y l IH]; intros [|n] H; cbn in *; try contradiction.
  destruct H as [H|H]; [left; exact H|right; eauto].
Qed.

Section Delayed2.
Variable place : str -> nat.
Variables (S : mgr) (a : act) (i : nat) (m : msg) (chan0 : list msg).
Hypothesis Hfacts : msg_facts S S a i m.

Definition Jinv (c : cluster) : Prop :=
  exists X, c_chan c = chan0 ++ m :: X /\ all_cb X /\
  forall k h, nth_error (c_hosts c) k = Some h ->
    hst_ok (h_st h) /\ (h_wo h = false -> all_cb (skipn (h_cur h) chan0)).

Lemma classify_unread X cur x :
  all_cb (skipn cur chan0) -> all_cb X -> nth_error (chan0 ++ m :: X) cur = Some x ->
  (x = m /\ cur = List.length chan0) \/ is_callback_msg x = true.
Proof.
  intros H0 HX Hn. destruct (Nat.lt_ge_cases cur (List.length chan0)) as [Hlt|Hge].
  - right. rewrite nth_error_app1 in Hn by exact Hlt. rewrite (skipn_nth_cons _ _ _ Hn) in H0.
    inversion H0; assumption.
  - rewrite nth_error_app2 in Hn by exact Hge.
    destruct (cur - List.length chan0)%nat as [|d] eqn:E; cbn in Hn.
    + left. split; [congruence|lia].
    + right. apply nth_error_In in Hn. unfold all_cb in HX. rewrite Forall_forall in HX. auto.
Qed.

Lemma J_step c k :
  Jinv c -> Jinv (fst (step c (Consume k))) /\ all_cb (published (snd (step c (Consume k)))).
Proof.
  intros (X & Hchan & HX & Hh). destruct Hfacts as (Hcons & Hact & HS' & Hm_act & Hm_host & Hm_ncb).
  assert (Hsame : Jinv c) by (exists X; auto).
  destruct (nth_error (c_hosts c) k) as [h|] eqn:Ek.
  2:{ rewrite (consume_idle c k) by (rewrite Ek; exact I). split; [exact Hsame|constructor]. }
  destruct (h_wo h) eqn:Ew.
  { rewrite (consume_idle c k) by (rewrite Ek; left; exact Ew). split; [exact Hsame|constructor]. }
  destruct (nth_error (c_chan c) (h_cur h)) as [x|] eqn:Ex.
  2:{ rewrite (consume_idle c k) by (rewrite Ek; right; exact Ex). split; [exact Hsame|constructor]. }
  rewrite (consume_effective c k h x Ek Ew Ex). cbn [fst snd].
  destruct (Hh k h Ek) as (Hok & Hq). specialize (Hq Ew).
  rewrite Hchan in Ex.
  (* what the host does with x *)
  assert (Hx : hst_ok (h_st (fst (host_apply k x h))) /\ all_cb (published (snd (host_apply k x h)))).
  { unfold host_apply. destruct (classify_unread X (h_cur h) x Hq HX Ex) as [[-> _]|Hcb].
    - destruct (Nat.eq_dec k i) as [->|E].
      + rewrite (contained_ok i _ _ _ _ (dispatch_echo i m (h_st h) Hm_host Hm_ncb)). cbn. split; [exact Hok|constructor].
      + assert (Hne : msg_host m <> k) by congruence.
        destruct (dispatch_foreign k m (h_st h) Hok ltac:(rewrite Hm_act; exact Hact) Hm_ncb Hne)
          as (s2 & e2 & Hrun & Hok2 & _ & _ & Hpub & _).
        rewrite (contained_ok k _ _ _ _ Hrun). cbn [fst snd h_st]. split; [exact Hok2|].
        rewrite published_consumed, Hpub. constructor.
    - destruct (contained_dispatch_cb k x (h_st h) Hok Hcb) as (H1 & H2 & _ & H4).
      destruct (contained k (dispatch k x) (h_st h)) as [s1 e1]. cbn [fst snd h_st] in *.
      split; [eapply hst_ok_same; eassumption|]. rewrite published_consumed. exact H4. }
  destruct Hx as (Hok' & Hpub').
  pose proof (host_apply_cur k x h) as [Hc1 Hw1].
  split; [|exact Hpub'].
  exists (X ++ published (snd (host_apply k x h))). cbn [cl_upd c_chan c_hosts].
  split; [rewrite Hchan, <- app_assoc; reflexivity|]. split; [apply Forall_app; split; assumption|].
  intros k2 h2 Hn. destruct (Nat.eq_dec k2 k) as [->|E].
  - rewrite (nth_upd_eq _ _ _ (nth_some_lt _ _ _ Ek)) in Hn. injection Hn as <-.
    split; [exact Hok'|]. intros _. rewrite Hc1. apply all_cb_skipn_S. exact Hq.
  - rewrite nth_upd_neq in Hn by congruence. apply (Hh k2 h2 Hn).
Qed.

Lemma J_run sch : forall c,
  Jinv c -> Jinv (fst (run c (consumes sch))) /\ all_cb (published (List.concat (snd (run c (consumes sch))))).
Proof.
  induction sch as [|k sch IH]; intros c HJ; cbn [consumes map run].
  - cbn. split; [exact HJ|constructor].
  - fold (consumes sch). destruct (J_step c k HJ) as (HJ1 & Hp1).
    destruct (step c (Consume k)) as [c1 e1]. cbn [fst snd] in *.
    destruct (IH c1 HJ1) as (HJ2 & Hp2). destruct (run c1 (consumes sch)) as [c2 ess]. cbn [fst snd List.concat] in *.
    split; [exact HJ2|]. unfold all_cb. rewrite published_app. apply Forall_app. split; assumption.
Qed.

(* a host that has worked through the first n of  pre ++ m :: X *)
Lemma prefix_run k h pre X n :
  hst_ok (h_st h) -> all_cb pre -> all_cb X ->
  veq (mem (h_mgr (h_st h))) (restrict place (mem S) k) ->
  deliveries (snd (host_run k (firstn n (pre ++ m :: X)) h)) =
  (if Nat.ltb (List.length pre) n && negb (Nat.eqb k i) then local_dels a (h_mgr (h_st h)) else []).
Proof.
  intros Hok Hpre HX Hv. destruct (Nat.ltb (List.length pre) n) eqn:E.
  - apply Nat.ltb_lt in E.
    assert (Ef : firstn n (pre ++ m :: X) = pre ++ [m] ++ firstn (n - List.length pre - 1) X).
    { rewrite firstn_app. rewrite firstn_all2 by lia. f_equal.
      destruct (n - List.length pre)%nat as [|d] eqn:Ed; [lia|]. cbn [firstn app]. f_equal. f_equal. lia. }
    rewrite Ef.
    destruct (catch_up place S S a i m k h true pre (firstn (n - List.length pre - 1) X)
                (fun _ => Hfacts) Hok Hpre) as (_ & _ & _ & _ & _ & Hd).
    { unfold all_cb in *. rewrite Forall_forall in *. intros x Hx. apply HX. eapply in_firstn'; eauto. }
    { intros _. exact Hv. } { intros _ _. exact Hv. }
    exact Hd.
  - apply Nat.ltb_ge in E. cbn [andb].
    rewrite firstn_app. replace (n - List.length pre)%nat with 0%nat by lia. cbn [firstn]. rewrite app_nil_r.
    apply deliveries_nil_of_delivered.
    apply (host_run_cbs k (firstn n pre) h); [|exact Hok].
    unfold all_cb in *. rewrite Forall_forall in *. intros x Hx. apply Hpre. eapply in_firstn'; eauto.
Qed.
End Delayed2.

Section DelayedTheorem.
Variable place : str -> nat.

Theorem delayed_exact c s k ev data ns room skip cb sch :
  R place c s -> wf_op place c (Emit k ev data ns room skip cb) ->
  let o := Emit k ev data ns room skip cb in
  let c1 := fst (step c o) in
  let c2 := fst (run c1 (consumes sch)) in
  let es := snd (step c o) ++ List.concat (snd (run c1 (consumes sch))) in
  let ref := deliveries (snd (single_step s o)) in
  NoDup (deliveries es) /\ incl (deliveries es) ref /\
  ((forall k2 h, nth_error (c_hosts c2) k2 = Some h -> h_wo h = false ->
                 (List.length (c_chan c) < h_cur h)%nat) ->
   Permutation (deliveries es) ref).
Proof.
  intros HR (Hop & (hi & Hni & Hwi) & _). cbn zeta.
  set (o := Emit k ev data ns room skip cb) in *. set (a := op_act o).
  cbn [op_host o] in Hni. cbn [needs_server o] in Hwi.
  pose proof (R_single _ _ _ HR) as HokS. pose proof HokS as (HWS & _ & _).
  destruct (R_hosts _ _ _ HR k hi Hni) as ((Hoki & Hvi) & Hqi).
  pose proof (op_ok_act o Hop) as Hact. fold a in Hact.
  destruct (issuer_spec k (h_wo hi) o (h_st hi) Hoki Hop) as (si' & es0 & Hrun & Hoki' & Hvi' & Hdel0 & _ & Hpub0);
    try (unfold o; discriminate).
  { unfold o. destruct cb; [apply Hwi; reflexivity|exact I]. }
  fold a in Hvi', Hdel0, Hpub0.
  destruct (single_spec o (s_host s) HokS Hop) as (sS' & ses & HrunS & _ & _ & HdelS & _ & _). fold a in HdelS.
  assert (Hstep : step c o = on_host c k (in_host (issuer_code k (h_wo hi) o))).
  { apply (step_msg_form c o hi I Hni). exact Hwi. }
  rewrite Hstep. unfold on_host. rewrite Hni. unfold in_host. rewrite Hrun.
  rewrite (single_msg_form s o I). unfold s_on. rewrite HrunS. cbn [fst snd].
  destruct Hpub0 as [[_ []]|(m & Hpm & Hm_act & Hm_host & Hm_ncb)].
  set (S := h_mgr (s_host s)) in *.
  set (hi' := mkHost si' (h_wo hi) (h_cur hi)).
  set (c1 := mkCl (upd (c_hosts c) k hi') (c_chan c ++ published es0) (c_fresh c) (c_log c ++ delivered es0)).
  assert (Hcons : consistent (mem S)) by (apply wf_consistent; exact HWS).
  assert (Hid : veq (mem S) (vapply a (mem S))) by (intros ? ? ? _; reflexivity).
  assert (Hfacts : msg_facts S S a k m) by (unfold msg_facts; splits; auto).
  assert (Hklt : (k < List.length (c_hosts c))%nat) by (eapply nth_some_lt; eassumption).
  (* the hosts of c1 *)
  assert (Hh1 : forall k2 h, nth_error (c_hosts c1) k2 = Some h ->
            hst_ok (h_st h) /\ veq (mem (h_mgr (h_st h))) (restrict place (mem S) k2) /\
            (h_wo h = false -> (h_cur h <= List.length (c_chan c))%nat /\ all_cb (skipn (h_cur h) (c_chan c)))).
  { intros k2 h Hn. cbn [c1 c_hosts] in Hn. destruct (Nat.eq_dec k2 k) as [->|E].
    - rewrite (nth_upd_eq _ _ _ Hklt) in Hn. injection Hn as <-. cbn [hi' h_st h_wo h_cur].
      split; [exact Hoki'|]. split; [|exact Hqi]. eapply veq_trans; [exact Hvi'|exact Hvi].
    - rewrite nth_upd_neq in Hn by congruence. destruct (R_hosts _ _ _ HR k2 h Hn) as ((A & B) & C). auto. }
  assert (HJ : Jinv m (c_chan c) c1).
  { exists []. cbn [c1 c_chan]. rewrite Hpm. split; [reflexivity|]. split; [constructor|].
    intros k2 h Hn. destruct (Hh1 k2 h Hn) as (A & _ & C). split; [exact A|]. intro Hw. apply (C Hw). }
  destruct (J_run S a k m (c_chan c) Hfacts sch c1 HJ) as (_ & HX).
  destruct (schedule_projection sch c1) as (cnt & P1 & _ & _ & P4 & P5).
  destruct (run c1 (consumes sch)) as [c2 ess]. cbn [fst snd] in *.
  set (es2 := List.concat ess) in *.
  assert (Hchan2 : c_chan c2 = c_chan c ++ m :: published es2).
  { rewrite P1. cbn [c1 c_chan]. rewrite Hpm, <- app_assoc. reflexivity. }
  (* which hosts have consumed the message *)
  set (sel := fun k2 => match nth_error (c_hosts c) k2 with
                        | Some h => Nat.ltb (List.length (c_chan c) - h_cur h) (cnt k2) | None => false end).
  set (piece := fun k2 => match nth_error (c_hosts c) k2 with
                          | Some h => if sel k2 && negb (h_wo h) && negb (Nat.eqb k2 k)
                                      then local_dels a (h_mgr (h_st h)) else []
                          | None => [] end).
  assert (Hper : forall k2, deliveries (match nth_error (c_hosts c1) k2 with
                              | Some h => snd (host_run k2 (firstn (cnt k2) (skipn (h_cur h) (c_chan c2))) h)
                              | None => [] end) = piece k2).
  { intro k2. unfold piece, sel. destruct (nth_error (c_hosts c1) k2) as [h|] eqn:Hn.
    - destruct (Hh1 k2 h Hn) as (A & B & C). destruct (P4 k2 h Hn) as (Hcw & _).
      assert (Hl : deliveries (snd (host_run k2 (firstn (cnt k2) (skipn (h_cur h) (c_chan c2))) h)) =
                   if Nat.ltb (List.length (c_chan c) - h_cur h) (cnt k2) && negb (h_wo h) && negb (Nat.eqb k2 k)
                   then local_dels a (h_mgr (h_st h)) else []).
      { destruct (h_wo h) eqn:Ew.
        - rewrite (Hcw eq_refl). cbn [firstn host_run snd]. rewrite andb_false_r. reflexivity.
        - destruct (C eq_refl) as [Cl Cc]. rewrite Hchan2, (skipn_app_le _ _ _ Cl).
          rewrite (prefix_run place S a k m Hfacts k2 h _ _ (cnt k2) A Cc HX B).
          rewrite skipn_length. cbn [negb]. rewrite andb_true_r. reflexivity. }
      rewrite Hl. cbn [c1 c_hosts] in Hn. destruct (Nat.eq_dec k2 k) as [->|E].
      + rewrite Hni. rewrite Nat.eqb_refl. cbn [negb]. rewrite !andb_false_r. reflexivity.
      + rewrite nth_upd_neq in Hn by congruence. rewrite Hn. reflexivity.
    - cbn [c1 c_hosts] in Hn. apply nth_error_None in Hn. rewrite upd_length in Hn. apply nth_error_None in Hn.
      rewrite Hn. reflexivity. }
  assert (Hdel : Permutation (deliveries (es0 ++ es2))
                   (local_dels a (h_mgr (h_st hi)) ++ flat_map piece (seq 0 (List.length (c_hosts c))))).
  { rewrite deliveries_app, Hdel0. apply Permutation_app_head.
    eapply Permutation_trans; [apply deliveries_perm; exact P5|].
    rewrite deliveries_flat_map. cbn [c1 c_hosts]. rewrite upd_length.
    rewrite (flat_map_ext_in' _ _ _ (fun k2 _ => Hper k2)). apply Permutation_refl. }
  destruct (dels_partition place (c_hosts c) S a k hi sel HWS Hact Hni) as (D1 & D2 & D3).
  { intros k2 h Hn. destruct (R_hosts _ _ _ HR k2 h Hn) as (((HW & _) & Hv) & _). split; assumption. }
  { apply (R_placed _ _ _ HR). }
  fold piece in D1, D2, D3. rewrite HdelS.
  split; [eapply Permutation_NoDup; [apply Permutation_sym; exact Hdel|exact D1]|].
  split; [intros x Hx; apply D2; eapply Permutation_in; eassumption|].
  intro Hall. eapply Permutation_trans; [exact Hdel|]. apply D3.
  intros k2 h Hn Hw Hk2. unfold sel. rewrite Hn. apply Nat.ltb_lt.
  assert (Hn1 : nth_error (c_hosts c1) k2 = Some h) by (cbn [c1 c_hosts]; rewrite nth_upd_neq by congruence; exact Hn).
  destruct (P4 k2 h Hn1) as (_ & Hfin).
  pose proof (host_run_cur k2 (firstn (cnt k2) (skipn (h_cur h) (c_chan c2))) h) as [Hc Hw2].
  specialize (Hall k2 _ Hfin (eq_trans Hw2 Hw)). rewrite Hc in Hall.
  pose proof (firstn_le_length (cnt k2) (skipn (h_cur h) (c_chan c2))).
  destruct (Hh1 k2 h Hn1) as (_ & _ & Hq2). destruct (Hq2 Hw) as [Hle _]. lia.
Qed.
End DelayedTheorem.
