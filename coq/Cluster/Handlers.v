(* Cluster/PubSub.v extended with APPLICATION HANDLERS: every host runs the same application, whose
   connect / disconnect / event handlers (functions or a class-based namespace: the model does not
   distinguish them, both must behave alike) call the room API of the server for the handler's own
   client or for another sid.  Definitions only, executable, total; additive (PubSub.v is unchanged).

   Transcribed (read on the current tree, server.py = async_server.py):
     _handle_connect     sid = manager.connect(eio, ns); None => CONNECT_ERROR; otherwise the connect
                         handler runs (always_connect=False) and, as it does not return False, CONNECT
                         {'sid': sid} is sent AFTER it
     _handle_event       sid = sid_from_eio_sid; not is_connected => ignored; otherwise the handler of the
                         event runs with (sid, argument); no ack id => nothing is sent back
     _handle_disconnect  (DISCONNECT packet, reason 'client disconnect'; transport loss, engine.io's reason)
                         sid = sid_from_eio_sid; not is_connected => return; pre_disconnect;
                         try: disconnect handler(sid, reason)  finally: manager.disconnect(ignore_queue=True)
     _handle_eio_disconnect   for every namespace of manager.get_namespaces() (snapshot): _handle_disconnect
     disconnect()        as Cluster/PubSub.v srv_disconnect, with the disconnect handler (reason
                         'server disconnect') between the DISCONNECT packet and manager.disconnect
   The window that matters: while the disconnect handler runs the client is in pending_disconnect (so
   is_connected is False) but still in the room tables (so rooms() lists it and eio_sid_from_sid finds it).
   PubSubManager.enter_room / leave_room decide "local?" with is_connected: from the disconnect handler they
   PUBLISH the request instead of touching the tables. *)
From VT Require Export Cluster.PubSub.
Open Scope N_scope.

(* ---- the application ---- *)
(* who : None = the handler's own client; room : None = the room named like the handler's own sid *)
Inductive act :=
| AEnter (who : option str) (room : option pv)
| ALeave (who : option str) (room : option pv)
| ARooms (who : option str)
| AEmit (ev data : pv) (room : option pv) (skip_self : bool)
| AClose (room : option pv)
| ADisc (who : option str).
(* the handlers of one namespace: event name ("connect", "disconnect", or an event) -> body *)
Definition app := list (str * list (str * list act)).
Definition handler_of (ap : app) (ns name : str) : option (list act) :=
  match aget str_eqb ap ns with Some t => aget str_eqb t name | None => None end.

Inductive heff :=
| HE (e : eff)
| HHandler (h : nat) (ns name sid : str) (arg : pv)   (* host h invokes the handler `name` of ns with (sid, arg) *)
| HResult (h : nat) (r : Res pv).                     (* what one API call made by a handler returned / raised *)

Definition XM := M hst heff.
Definition up {A} (m : HM A) : XM A :=
  fun s => let '(s1, es, r) := m s in (s1, map HE es, r).
Definition base_effs (es : list heff) : list eff :=
  flat_map (fun e => match e with HE x => [x] | _ => [] end) es.

Definition who_of (sid : str) (w : option str) : str := match w with Some s => s | None => sid end.
Definition room_sel (sid : str) (r : option pv) : pv := match r with Some v => v | None => PStr sid end.

(* try: r = api(...) ; record r   except Exception as e: record e *)
Definition recorded (k : nat) (m : XM pv) : XM unit :=
  fun s => match m s with
           | (s1, e1, Ok v) => (s1, e1 ++ [HResult k (Ok v)], Ok tt)
           | (s1, e1, Err x) => (s1, e1 ++ [HResult k (Err x)], Ok tt)
           end.

Definition run_act (disc : str -> str -> XM unit) (k : nat) (ns sid : str) (a : act) : XM unit :=
  recorded k
    match a with
    | AEnter w r => up (ps_enter_room k (who_of sid w) ns (room_sel sid r)) ;;; ret PNone
    | ALeave w r => up (ps_leave_room k (who_of sid w) ns (room_sel sid r)) ;;; ret PNone
    | ARooms w => s <~ getS ;; ret (PList (get_rooms (h_mgr s) (who_of sid w) ns))
    | AEmit ev data r sk =>
        up (ps_emit k false ev data ns (room_sel sid r) (if sk then PStr sid else PNone) None) ;;; ret PNone
    | AClose r => up (ps_close_room k (room_sel sid r) ns) ;;; ret PNone
    | ADisc w => disc (who_of sid w) ns ;;; ret PNone
    end.

(* Server._trigger_event(name, ns, sid, arg) *)
Definition trigger (disc : str -> str -> XM unit) (ap : app) (k : nat) (ns name sid : str) (arg : pv) : XM unit :=
  match handler_of ap ns name with
  | None => ret tt
  | Some acts => tell (HHandler k ns name sid arg) ;;; forM acts (run_act disc k ns sid)
  end.

Definition s_disconnect : str := s2l "disconnect".
Definition s_connect : str := s2l "connect".
Definition reason_server : pv := PStr (s2l "server disconnect").
Definition reason_client : pv := PStr (s2l "client disconnect").

(* Server.disconnect(sid, namespace, ignore_queue) on host k.  A disconnect handler may itself call
   disconnect(): each nesting level marks one more client pending, so the depth is bounded by the number of
   clients; the fuel is never used up on the generated histories (running out shows as Raised OtherError) *)
Fixpoint xdisconnect (fuel : nat) (ap : app) (k : nat) (sid ns : str) (ignore_queue : bool) : XM unit :=
  match fuel with
  | O => raise OtherError
  | S f =>
      s <~ getS ;;
      let here := is_connected (h_mgr s) (Some sid) ns in
      delete_it <~ (if ignore_queue || here then ret here
                    else tell (HE (Published (MDisconnect sid ns k))) ;;; ret false) ;;
      if delete_it then
        r <~ up (with_hmgr (fun m => pre_disconnect m sid ns)) ;;
        eio <~ lift r ;;
        match eio with Some e => tell (HE (Deliver k e (PktDisconnect ns))) | None => ret tt end ;;;
        finallyM (trigger (fun s' n' => xdisconnect f ap k s' n' false) ap k ns s_disconnect sid reason_server)
                 (up (set_hmgr (fun m => mgr_disconnect m sid ns)))
      else ret tt
  end.
Definition FUEL : nat := 12.
Definition disc_api (ap : app) (k : nat) : str -> str -> XM unit :=
  fun s' n' => xdisconnect FUEL ap k s' n' false.

(* Server._handle_disconnect(eio, ns, reason) *)
Definition client_gone (ap : app) (k : nat) (eio ns : str) (reason : pv) : XM unit :=
  s <~ getS ;;
  match sid_from_eio (h_mgr s) eio ns with
  | None => ret tt
  | Some sid =>
      if is_connected (h_mgr s) (Some sid) ns then
        r <~ up (with_hmgr (fun m => pre_disconnect m sid ns)) ;;
        _ <~ lift r ;;
        finallyM (trigger (disc_api ap k) ap k ns s_disconnect sid reason)
                 (up (set_hmgr (fun m => mgr_disconnect m sid ns)))
      else ret tt
  end.

(* Server._handle_eio_disconnect(eio, reason): every namespace, the first exception re-raised at the end *)
Definition transport_lost (ap : app) (k : nat) (eio : str) (reason : pv) : XM unit :=
  s <~ getS ;;
  first <~ forM_keep (get_namespaces (h_mgr s)) (fun n => client_gone ap k eio n reason) None ;;
  match first with Some x => raise x | None => ret tt end.

(* Server._handle_connect *)
Definition x_connect (ap : app) (k : nat) (eio ns sid : str) : XM unit :=
  r <~ up (with_hmgr (fun m => mgr_connect m eio ns sid)) ;;
  match r with
  | None => tell (HE (Deliver k eio (PktConnectError ns)))
  | Some x =>
      trigger (disc_api ap k) ap k ns s_connect x (PStr eio) ;;;
      tell (HE (Deliver k eio (PktConnect ns x)))
  end.

(* Server._handle_event, no ack requested *)
Definition x_event (ap : app) (k : nat) (eio ns ev : str) (arg : pv) : XM unit :=
  s <~ getS ;;
  match sid_from_eio (h_mgr s) eio ns with
  | None => ret tt
  | Some sid =>
      if is_connected (h_mgr s) (Some sid) ns
      then trigger (disc_api ap k) ap k ns ev sid arg
      else ret tt
  end.

(* the listener: as PubSub.dispatch, the disconnect request runs the handler *)
Definition xdispatch (ap : app) (k : nat) (m : msg) : XM unit :=
  match m with
  | MDisconnect sid ns h => if Nat.eqb h k then ret tt else xdisconnect FUEL ap k sid ns true
  | _ => up (dispatch k m)
  end.

Definition xcontained (k : nat) (m : XM unit) : hst -> hst * list heff :=
  fun s => match m s with
           | (s1, e1, Ok _) => (s1, e1)
           | (s1, e1, Err x) => (s1, e1 ++ [HE (Logged k x)])
           end.
Definition xapi (k : nat) (m : XM unit) : hst -> hst * list heff :=
  fun s => match m s with
           | (s1, e1, Ok _) => (s1, e1)
           | (s1, e1, Err x) => (s1, e1 ++ [HE (Raised k x)])
           end.

(* ---- the cluster ---- *)
Inductive xop :=
| XBase (o : op)                                         (* the operations of PubSub.v *)
| XEvent (h : nat) (eio : str) (ns : option str) (ev : str) (arg : pv)   (* the client sends EVENT [ev, arg] *)
| XClientDisc (h : nat) (eio : str) (ns : option str)    (* the client sends DISCONNECT *)
| XLose (h : nat) (eio : str) (reason : pv).             (* the transport is lost *)

Definition xin_host (f : hst -> hst * list heff) (s : host) : host * list heff :=
  let '(s', es) := f (h_st s) in (mkHost s' (h_wo s) (h_cur s), es).
Definition xon_host (c : cluster) (k : nat) (f : host -> host * list heff) : cluster * list heff :=
  match nth_error (c_hosts c) k with
  | None => (c, [])
  | Some s =>
      let '(s', es) := f s in
      let b := base_effs es in
      (mkCl (upd (c_hosts c) k s') (c_chan c ++ published b) (c_fresh c) (c_log c ++ delivered b), es)
  end.

(* host k takes its next unread message (if any) from the channel *)
Definition xhost_consume (ap : app) (k : nat) (chan : list msg) (s : host) : host * list heff :=
  if h_wo s then (s, []) else
  match nth_error chan (h_cur s) with
  | None => (s, [])
  | Some m =>
      let '(s1, e1) := xcontained k (xdispatch ap k m) (h_st s) in
      (mkHost s1 (h_wo s) (S (h_cur s)), HE (Consumed k (h_cur s)) :: e1)
  end.

Definition xstep (ap : app) (c : cluster) (o : xop) : cluster * list heff :=
  match o with
  | XBase (Consume k) => xon_host c k (xhost_consume ap k (c_chan c))
  | XBase (Connect k eio ns) =>
      if is_wo c k then (c, []) else
      let '(c1, es) := xon_host c k (xin_host (xapi k (x_connect ap k eio (ns_or_default ns) (sid_name (c_fresh c))))) in
      (mkCl (c_hosts c1) (c_chan c1) (c_fresh c + 1) (c_log c1), es)
  | XBase (Disconnect k sid ns) =>
      if is_wo c k then (c, []) else
      xon_host c k (xin_host (xapi k (xdisconnect FUEL ap k sid (ns_or_default ns) false)))
  | XBase o' => let '(c1, es) := step c o' in (c1, map HE es)
  | XEvent k eio ns ev arg =>
      if is_wo c k then (c, []) else
      xon_host c k (xin_host (xapi k (x_event ap k eio (ns_or_default ns) ev arg)))
  | XClientDisc k eio ns =>
      if is_wo c k then (c, []) else
      xon_host c k (xin_host (xapi k (client_gone ap k eio (ns_or_default ns) reason_client)))
  | XLose k eio reason =>
      if is_wo c k then (c, []) else xon_host c k (xin_host (xapi k (transport_lost ap k eio reason)))
  end.

Fixpoint xrun (ap : app) (c : cluster) (ops : list xop) : cluster * list (list heff) :=
  match ops with
  | [] => (c, [])
  | o :: r => let '(c1, e) := xstep ap c o in let '(c2, es) := xrun ap c1 r in (c2, e :: es)
  end.

(* immediate consumption, as PubSub.drain: host by host, each reads what is unread when its turn comes *)
Fixpoint xconsume_n (ap : app) (n : nat) (c : cluster) (k : nat) : cluster * list heff :=
  match n with
  | O => (c, [])
  | S n' => let '(c1, e1) := xstep ap c (XBase (Consume k)) in
            let '(c2, e2) := xconsume_n ap n' c1 k in (c2, e1 ++ e2)
  end.
Fixpoint xdrain_hosts (ap : app) (ks : list nat) (c : cluster) : cluster * list heff :=
  match ks with
  | [] => (c, [])
  | k :: r => let '(c1, e1) := xconsume_n ap (unread c k) c k in
              let '(c2, e2) := xdrain_hosts ap r c1 in (c2, e1 ++ e2)
  end.
Definition ximm_step (ap : app) (c : cluster) (o : xop) : cluster * list heff :=
  let '(c1, e1) := xstep ap c o in
  let '(c2, e2) := xdrain_hosts ap (seq 0 (List.length (c_hosts c1))) c1 in (c2, e1 ++ e2).
Fixpoint xrun_imm (ap : app) (c : cluster) (ops : list xop) : cluster * list (list heff) :=
  match ops with
  | [] => (c, [])
  | o :: r => let '(c1, e) := ximm_step ap c o in let '(c2, es) := xrun_imm ap c1 r in (c2, e :: es)
  end.

(* ---- without handlers the extension is PubSub.v ---- *)
Lemma handler_of_nil ns name : handler_of [] ns name = None.
Proof. reflexivity. Qed.
