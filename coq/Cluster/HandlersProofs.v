(* Cluster/Handlers.v is a conservative extension of Cluster/PubSub.v: when the application registers no
   handler, every operation of PubSub.v has exactly the effects and the successor state PubSub.step gives it
   (so the theorems of Cluster/ClusterProofs.v keep talking about the same system), and the disconnect window
   behaves as the comment of Handlers.v says. *)
From VT Require Import Cluster.Handlers.
Open Scope N_scope.

Lemma base_effs_map_HE es : base_effs (map HE es) = es.
Proof. induction es as [|e es IH]; [reflexivity|]. cbn. f_equal. exact IH. Qed.

Lemma trigger_nil d k ns name sid arg : trigger d [] k ns name sid arg = ret tt.
Proof. reflexivity. Qed.

(* Server.disconnect without handlers *)
Lemma xdisconnect_nil f k sid ns iq s :
  xdisconnect (S f) [] k sid ns iq s = up (srv_disconnect k sid ns iq) s.
Proof.
  cbn [xdisconnect]. rewrite trigger_nil.
  unfold srv_disconnect, up, bindM, getS, ret, tell, lift, finallyM, with_hmgr, set_hmgr, modify, putS.
  destruct (is_connected (h_mgr s) (Some sid) ns) eqn:Hc; destruct iq; cbn [orb]; cbn;
    try reflexivity;
    destruct (pre_disconnect (h_mgr s) sid ns) as [m' [[e|]|x]]; cbn; reflexivity.
Qed.

Lemma xdispatch_nil k m s : xdispatch [] k m s = up (dispatch k m) s.
Proof.
  destruct m; try reflexivity.
  cbn [xdispatch dispatch msg_host]. destruct (Nat.eqb host k); [reflexivity|].
  unfold FUEL. apply xdisconnect_nil.
Qed.

Lemma xcontained_up k (m : HM unit) (m' : XM unit) s :
  m' s = up m s -> xcontained k m' s = let '(s1, es) := contained k m s in (s1, map HE es).
Proof.
  unfold xcontained, contained, up. intros ->. destruct (m s) as [[s1 e1] [u|x]]; [reflexivity|].
  rewrite map_app. reflexivity.
Qed.
Lemma xapi_up k (m : HM unit) (m' : XM unit) s :
  m' s = up m s -> xapi k m' s = let '(s1, es) := api k m s in (s1, map HE es).
Proof.
  unfold xapi, api, up. intros ->. destruct (m s) as [[s1 e1] [u|x]]; [reflexivity|].
  rewrite map_app. reflexivity.
Qed.

Lemma x_connect_nil k eio ns sid s :
  xapi k (x_connect [] k eio ns sid) s = let '(s1, es) := h_connect k eio ns sid s in (s1, map HE es).
Proof.
  cbv [xapi x_connect h_connect trigger handler_of aget up with_hmgr bindM getS putS ret tell].
  destruct (mgr_connect (h_mgr s) eio ns sid) as [m' [x|]]; reflexivity.
Qed.

Theorem xstep_no_handlers c o :
  xstep [] c (XBase o) = let '(c1, es) := step c o in (c1, map HE es).
Proof.
  destruct o as [k eio ns| | | | |k sid ns| |k]; try (cbn [xstep]; destruct (step c _); reflexivity).
  - (* Connect *)
    cbn [xstep step]. destruct (is_wo c k); [reflexivity|].
    unfold xon_host, on_host, xin_host, in_host. destruct (nth_error (c_hosts c) k) as [h|]; [|reflexivity].
    rewrite x_connect_nil. destruct (h_connect k eio (ns_or_default ns) (sid_name (c_fresh c)) (h_st h)) as [s1 es].
    rewrite base_effs_map_HE. reflexivity.
  - (* Disconnect *)
    cbn [xstep step]. destruct (is_wo c k); [reflexivity|].
    unfold xon_host, on_host, xin_host, in_host. destruct (nth_error (c_hosts c) k) as [h|]; [|reflexivity].
    rewrite (xapi_up k (srv_disconnect k sid (ns_or_default ns) false)) by (unfold FUEL; apply xdisconnect_nil).
    destruct (api k (srv_disconnect k sid (ns_or_default ns) false) (h_st h)) as [s1 es].
    rewrite base_effs_map_HE. reflexivity.
  - (* Consume *)
    cbn [xstep step]. unfold xon_host, on_host, xhost_consume, host_consume.
    destruct (nth_error (c_hosts c) k) as [h|]; [|reflexivity].
    destruct (h_wo h); [reflexivity|].
    destruct (nth_error (c_chan c) (h_cur h)) as [m|]; [|reflexivity].
    rewrite (xcontained_up k (dispatch k m)) by apply xdispatch_nil.
    destruct (contained k (dispatch k m) (h_st h)) as [s1 es].
    cbn [base_effs flat_map app map]. fold (base_effs (map HE es)). rewrite base_effs_map_HE. reflexivity.
Qed.

(* whole histories *)
Theorem xrun_no_handlers ops : forall c,
  xrun [] c (map XBase ops) = let '(c1, es) := run c ops in (c1, map (map HE) es).
Proof.
  induction ops as [|o ops IH]; intro c; [reflexivity|].
  cbn [map xrun run]. rewrite xstep_no_handlers. destruct (step c o) as [c1 e].
  rewrite IH. destruct (run c1 ops) as [c2 es]. reflexivity.
Qed.

(* ---- the disconnect window ---- *)
(* a client that is marked pending is "not connected" whatever the room tables say *)
Lemma pending_not_connected m sid ns : is_pending m sid ns = true -> is_connected m (Some sid) ns = false.
Proof. intro H. unfold is_connected. rewrite H. reflexivity. Qed.

(* ... so leave_room / enter_room called for it (from its disconnect handler) publish the request and leave
   the tables alone, on the threaded and on the asyncio manager alike *)
Theorem leave_room_in_window k sid ns room s :
  is_pending (h_mgr s) sid ns = true ->
  ps_leave_room k sid ns room s = (s, [Published (MLeaveRoom sid room ns k)], Ok tt).
Proof.
  intro H. unfold ps_leave_room, bindM, getS. rewrite (pending_not_connected _ _ _ H). reflexivity.
Qed.
Theorem enter_room_in_window k sid ns room s :
  is_pending (h_mgr s) sid ns = true ->
  ps_enter_room k sid ns room s = (s, [Published (MEnterRoom sid room ns k)], Ok tt).
Proof.
  intro H. unfold ps_enter_room, bindM, getS. rewrite (pending_not_connected _ _ _ H). reflexivity.
Qed.

(* the hypotheses are satisfiable: a client whose disconnect handler is running *)
Example window_state :
  let m := fst (pre_disconnect (fst (mgr_connect mgr_init (s2l "e") (s2l "/") (s2l "S0"))) (s2l "S0") (s2l "/")) in
  is_pending m (s2l "S0") (s2l "/") = true /\ get_rooms m (s2l "S0") (s2l "/") = [PStr (s2l "S0")].
Proof. vm_compute. split; reflexivity. Qed.
