(* Model of src/socketio/pubsub_manager.py (= async_pubsub_manager.py) for WELL-FORMED traffic:
   several servers, each with its own Manager state (Manager/Manager.v), joined by ONE ordered
   reliable channel.  Definitions only, executable, total.

   Transcribed (read on the current tree):
     emit            room = to or room; callback => server required, room required,
                     id = _generate_ack_id(room, callback) ON THE ISSUING HOST, callback := (room, ns, id);
                     message literal; self._handle_emit(message) (local application); self._publish(message)
     can_disconnect  local client => Manager.can_disconnect; otherwise publish {'method': 'disconnect', ...}
                     (the sync class first runs _handle_disconnect locally, which is a no-op for a client
                     that is not local) and return None
     disconnect      only reached with ignore_queue=True from Server.disconnect => Manager.disconnect
     enter_room / leave_room   local client => Manager.*; otherwise publish, nothing local
     close_room      _handle_close_room locally, then publish
     _thread         'callback' messages go to _handle_callback whatever their host_id; every other
                     method is skipped when data['host_id'] == self.host_id (echo filter), otherwise
                     dispatched; exceptions of the handlers are logged and swallowed
     _handle_emit    callback triple of length 3 => partial(self._return_callback, host_id, room, ns, id);
                     Manager.emit(event, data, namespace, room, skip_sid, callback)
     _handle_callback    only if message host_id == self.host_id: trigger_callback(sid, id, args)
     _return_callback    issuing host is this host => trigger_callback(sid, id, args), otherwise publish
                         {'method': 'callback', 'host_id': issuer, 'sid', 'namespace', 'id', 'args'}
     _handle_disconnect  server.disconnect(sid, namespace, ignore_queue=True)
     _handle_enter_room / _handle_leave_room   only if is_connected(sid, namespace) here
     _handle_close_room  Manager.close_room
   plus server.py: disconnect(), enter_room/leave_room/close_room (namespace or '/'), _handle_connect
   (no connect handler, always_connect=False), _handle_ack; manager.py: emit, trigger_callback.

   Packets are abstract (event arguments, namespace, ack id): their encoding is property C01's business.
   A write-only manager is a host without server, without clients and without listener. *)
From VT Require Export Manager.RoomsSpec.
Open Scope N_scope.

(* ---- what travels ---- *)
Inductive pkt :=
| PktEvent (ns : str) (data : list pv) (id : option N)   (* EVENT: data = [event] + arguments *)
| PktConnect (ns sid : str)                              (* CONNECT {'sid': sid} *)
| PktConnectError (ns : str)                             (* CONNECT_ERROR 'Unable to connect' *)
| PktDisconnect (ns : str).                              (* DISCONNECT *)

(* the dict literals the code publishes; host = 'host_id' (for MCallback: the addressee) *)
Inductive msg :=
| MEmit (event data : pv) (ns : str) (room skip : pv) (cb : option (str * str * N)) (host : nat)
| MCallback (host : nat) (sid ns : str) (id : N) (args : list pv)
| MDisconnect (sid ns : str) (host : nat)
| MEnterRoom (sid : str) (room : pv) (ns : str) (host : nat)
| MLeaveRoom (sid : str) (room : pv) (ns : str) (host : nat)
| MCloseRoom (room : pv) (ns : str) (host : nat).

Definition msg_host (m : msg) : nat :=
  match m with
  | MEmit _ _ _ _ _ _ h | MCallback h _ _ _ _ | MDisconnect _ _ h
  | MEnterRoom _ _ _ h | MLeaveRoom _ _ _ h | MCloseRoom _ _ h => h
  end.
Definition is_callback_msg (m : msg) : bool := match m with MCallback _ _ _ _ _ => true | _ => false end.

Inductive eff :=
| Deliver (h : nat) (eio : str) (p : pkt)        (* host h hands a packet to the transport of a client *)
| Callback (h : nat) (cb : N) (args : list pv)   (* host h invokes application callback cb( *args ) *)
| Published (m : msg)                            (* _publish(m) *)
| Raised (h : nat) (e : exn)                     (* the API call raised *)
| Logged (h : nat) (e : exn)                     (* the listener logged a handler exception *)
| Consumed (h : nat) (i : nat).                  (* ghost: host h took channel message number i *)

(* ---- one host ---- *)
(* callbacks[key][id] holds either an application callback n (stored as 2n) or the partial object
   number k created by _handle_emit on this host (stored as 2k+1); h_parts lists the arguments bound
   in those partials: (issuing host, room, namespace, id) *)
Record hst := mkHst {                            (* what the handlers of a host read and write *)
  h_mgr : mgr;
  h_parts : list (nat * str * str * N)
}.
Record host := mkHost {
  h_st : hst;
  h_wo : bool;                                   (* write_only=True: no server, no listener *)
  h_cur : nat                                    (* channel messages consumed so far *)
}.
Definition hst_init : hst := mkHst mgr_init [].
Definition host_init (wo : bool) : host := mkHost hst_init wo 0.

Definition cb_app (n : N) : N := 2 * n.
Definition cb_part (k : nat) : N := 2 * N.of_nat k + 1.

Definition HM := M hst eff.
Definition set_hmgr (f : mgr -> mgr) : HM unit :=
  modify (fun s => mkHst (f (h_mgr s)) (h_parts s)).
Definition with_hmgr {A} (f : mgr -> mgr * A) : HM A :=
  s <~ getS ;; let '(m', a) := f (h_mgr s) in
  putS (mkHst m' (h_parts s)) ;;; ret a.

(* Manager.emit / AsyncManager.emit on host k; cb = the (encoded) callback object *)
Definition emit_one (k : nat) (ns : str) (payload : list pv) (cb : option N) (se : str * str) : HM unit :=
  match cb with
  | None => tell (Deliver k (snd se) (PktEvent ns payload None))
  | Some c =>
      r <~ with_hmgr (fun m => generate_ack_id m (fst se) c) ;;
      id <~ lift r ;;
      tell (Deliver k (snd se) (PktEvent ns payload (Some id)))
  end.
Definition mgr_emit (k : nat) (event data : pv) (ns : str) (room skip : pv) (cb : option N) : HM unit :=
  s <~ getS ;;
  match ns_rooms (h_mgr s) ns with
  | None => ret tt
  | Some _ =>
      parts <~ lift (participants (h_mgr s) ns room) ;;
      forM (filter (fun se => negb (skipped (skip_list skip) (fst se))) parts)
           (emit_one k ns (event :: pack data) cb)
  end.

(* _handle_emit *)
Definition handle_emit (k : nat) (event data : pv) (ns : str) (room skip : pv)
                       (cb : option (str * str * N)) (origin : nat) : HM unit :=
  match cb with
  | None => mgr_emit k event data ns room skip None
  | Some (r, n, id) =>
      s <~ getS ;;
      putS (mkHst (h_mgr s) (h_parts s ++ [(origin, r, n, id)])) ;;;
      mgr_emit k event data ns room skip (Some (cb_part (List.length (h_parts s))))
  end.

(* trigger_callback(sid, id, args) on host k, following partial objects through _return_callback.
   A chain is at most two long (client ack -> partial -> application callback); fuel 3 is never used up *)
Fixpoint fire (fuel : nat) (k : nat) (sid : option str) (id : N) (args : list pv) : HM unit :=
  match fuel with
  | O => raise OtherError
  | S f =>
      t <~ with_hmgr (fun m => trigger_callback m sid (Some (Z.of_N id))) ;;
      match t with
      | CbNone => ret tt                          (* 'Unknown callback received, ignoring.' *)
      | CbRef v =>
          if N.even v then tell (Callback k (N.div2 v) args)
          else
            s <~ getS ;;
            match nth_error (h_parts s) (N.to_nat (N.div2 v)) with
            | None => raise OtherError            (* no such partial: unreachable *)
            | Some (origin, r, n, gid) =>         (* _return_callback(origin, r, n, gid, *args) *)
                if Nat.eqb origin k then fire f k (Some r) gid args
                else tell (Published (MCallback origin r n gid args))
            end
      end
  end.

(* Server.disconnect(sid, namespace, ignore_queue) on host k *)
Definition srv_disconnect (k : nat) (sid ns : str) (ignore_queue : bool) : HM unit :=
  s <~ getS ;;
  let here := is_connected (h_mgr s) (Some sid) ns in
  delete_it <~ (if ignore_queue || here then ret here
                else tell (Published (MDisconnect sid ns k)) ;;; ret false) ;;
  if delete_it then
    r <~ with_hmgr (fun m => pre_disconnect m sid ns) ;;
    eio <~ lift r ;;
    match eio with Some e => tell (Deliver k e (PktDisconnect ns)) | None => ret tt end ;;;
    set_hmgr (fun m => mgr_disconnect m sid ns)       (* manager.disconnect(..., ignore_queue=True) *)
  else ret tt.

(* PubSubManager.enter_room / leave_room / close_room on host k *)
Definition ps_enter_room (k : nat) (sid ns : str) (room : pv) : HM unit :=
  s <~ getS ;;
  if is_connected (h_mgr s) (Some sid) ns
  then r <~ with_hmgr (fun m => enter_room m sid ns room) ;; lift r
  else tell (Published (MEnterRoom sid room ns k)).
Definition ps_leave_room (k : nat) (sid ns : str) (room : pv) : HM unit :=
  s <~ getS ;;
  if is_connected (h_mgr s) (Some sid) ns
  then set_hmgr (fun m => leave_room m sid ns room)
  else tell (Published (MLeaveRoom sid room ns k)).
Definition ps_close_room (k : nat) (room : pv) (ns : str) : HM unit :=
  set_hmgr (fun m => close_room m room ns) ;;;
  tell (Published (MCloseRoom room ns k)).

(* PubSubManager.emit on host k (through Server.emit, or directly on a write-only manager) *)
Definition ps_emit (k : nat) (wo : bool) (event data : pv) (ns : str) (room skip : pv) (cb : option N) : HM unit :=
  cbt <~ match cb with
         | None => ret None
         | Some c =>
             if wo then raise RuntimeError                 (* self.server is None *)
             else match room with
                  | PNone => raise ValueError                  (* 'Cannot use callback without a room set.' *)
                  | PStr r =>
                      g <~ with_hmgr (fun m => generate_ack_id m r (cb_app c)) ;;
                      id <~ lift g ;;
                      ret (Some (r, ns, id))
                  | PList _ | PDict _ => raise TypeError       (* unhashable callbacks key *)
                  | _ => raise OtherError                      (* outside the modelled domain *)
                  end
         end ;;
  handle_emit k event data ns room skip cbt k ;;;              (* handle in this host *)
  tell (Published (MEmit event data ns room skip cbt k)).      (* notify other hosts *)

(* the body of _thread's for loop for a decoded, well-formed message *)
Definition dispatch (k : nat) (m : msg) : HM unit :=
  match m with
  | MCallback origin sid _ id args =>
      if Nat.eqb origin k then fire 3 k (Some sid) id args else ret tt
  | _ =>
      if Nat.eqb (msg_host m) k then ret tt else              (* data.get('host_id') != self.host_id *)
      match m with
      | MEmit event data ns room skip cb origin => handle_emit k event data ns room skip cb origin
      | MDisconnect sid ns _ => srv_disconnect k sid ns true
      | MEnterRoom sid room ns _ =>
          s <~ getS ;;
          if is_connected (h_mgr s) (Some sid) ns
          then r <~ with_hmgr (fun m => enter_room m sid ns room) ;; lift r else ret tt
      | MLeaveRoom sid room ns _ =>
          s <~ getS ;;
          if is_connected (h_mgr s) (Some sid) ns
          then set_hmgr (fun m => leave_room m sid ns room) else ret tt
      | MCloseRoom room ns _ => set_hmgr (fun m => close_room m room ns)
      | MCallback _ _ _ _ _ => ret tt
      end
  end.

(* an exception inside the dispatch is logged by the listener and the loop goes on *)
Definition contained (k : nat) (m : HM unit) : hst -> hst * list eff :=
  fun s => match m s with
           | (s1, e1, Ok _) => (s1, e1)
           | (s1, e1, Err x) => (s1, e1 ++ [Logged k x])
           end.
(* an exception inside an API call reaches the application *)
Definition api (k : nat) (m : HM unit) : hst -> hst * list eff :=
  fun s => match m s with
           | (s1, e1, Ok _) => (s1, e1)
           | (s1, e1, Err x) => (s1, e1 ++ [Raised k x])
           end.

(* host k takes its next unread message (if any) from the channel *)
Definition host_consume (k : nat) (chan : list msg) (s : host) : host * list eff :=
  if h_wo s then (s, []) else
  match nth_error chan (h_cur s) with
  | None => (s, [])
  | Some m =>
      let '(s1, e1) := contained k (dispatch k m) (h_st s) in
      (mkHost s1 (h_wo s) (S (h_cur s)), Consumed k (h_cur s) :: e1)
  end.

(* ---- the cluster ---- *)
Record cluster := mkCl {
  c_hosts : list host;
  c_chan : list msg;                              (* everything ever published, in order *)
  c_fresh : N;                                    (* eio.generate_id(): one counter for the whole cluster *)
  c_log : list (str * pkt)                        (* ghost: every packet handed to a transport, in order *)
}.
Definition cluster_init (wos : list bool) : cluster := mkCl (map host_init wos) [] 0 [].

Inductive op :=
| Connect (h : nat) (eio : str) (ns : option str)
| Emit (h : nat) (event data : pv) (ns : option str) (room skip : pv) (cb : option N)
| EnterRoom (h : nat) (sid : str) (ns : option str) (room : pv)
| LeaveRoom (h : nat) (sid : str) (ns : option str) (room : pv)
| CloseRoom (h : nat) (ns : option str) (room : pv)
| Disconnect (h : nat) (sid : str) (ns : option str)
| ClientAck (h : nat) (eio : str) (j : nat) (args : list pv)  (* the client acknowledges the j-th ack-requesting packet it received *)
| Consume (h : nat).

Fixpoint upd {A} (l : list A) (k : nat) (x : A) : list A :=
  match l, k with
  | [], _ => []
  | _ :: r, O => x :: r
  | y :: r, S k' => y :: upd r k' x
  end.

Definition published (es : list eff) : list msg :=
  flat_map (fun e => match e with Published m => [m] | _ => [] end) es.
Definition delivered (es : list eff) : list (str * pkt) :=
  flat_map (fun e => match e with Deliver _ eio p => [(eio, p)] | _ => [] end) es.

(* the ack-requesting packets a transport has received: (namespace, id) in order *)
Definition idpkts (log : list (str * pkt)) (eio : str) : list (str * N) :=
  flat_map (fun ep => match ep with
                      | (e, PktEvent ns _ (Some id)) => if str_eqb e eio then [(ns, id)] else []
                      | _ => [] end) log.

(* run a host-level action on host k and account for what it published / delivered *)
Definition in_host (f : hst -> hst * list eff) (s : host) : host * list eff :=
  let '(s', es) := f (h_st s) in (mkHost s' (h_wo s) (h_cur s), es).
Definition on_host (c : cluster) (k : nat) (f : host -> host * list eff) : cluster * list eff :=
  match nth_error (c_hosts c) k with
  | None => (c, [])
  | Some s =>
      let '(s', es) := f s in
      (mkCl (upd (c_hosts c) k s') (c_chan c ++ published es) (c_fresh c) (c_log c ++ delivered es), es)
  end.

(* Server._handle_connect on host k: manager.connect(eio, ns) with the next generated id *)
Definition h_connect (k : nat) (eio ns sid : str) : hst -> hst * list eff :=
  fun s => let '(m', r) := mgr_connect (h_mgr s) eio ns sid in
           (mkHst m' (h_parts s),
            [Deliver k eio (match r with Some x => PktConnect ns x | None => PktConnectError ns end)]).

(* Server._handle_ack on host k for the ACK the client sends back *)
Definition h_ack (k : nat) (eio ns : str) (id : N) (args : list pv) : hst -> hst * list eff :=
  fun s => contained k (fire 3 k (sid_from_eio (h_mgr s) eio ns) id args) s.

Definition is_wo (c : cluster) (k : nat) : bool :=
  match nth_error (c_hosts c) k with Some s => h_wo s | None => true end.

Definition step (c : cluster) (o : op) : cluster * list eff :=
  match o with
  | Consume k => on_host c k (host_consume k (c_chan c))
  | Emit k event data ns room skip cb =>
      on_host c k (in_host (api k (ps_emit k (is_wo c k) event data (ns_or_default ns) room skip cb)))
  (* everything else needs a server: not available on a write-only manager *)
  | Connect k eio ns =>
      if is_wo c k then (c, []) else
      let '(c1, es) := on_host c k (in_host (h_connect k eio (ns_or_default ns) (sid_name (c_fresh c)))) in
      (mkCl (c_hosts c1) (c_chan c1) (c_fresh c + 1) (c_log c1), es)
  | EnterRoom k sid ns room =>
      if is_wo c k then (c, []) else on_host c k (in_host (api k (ps_enter_room k sid (ns_or_default ns) room)))
  | LeaveRoom k sid ns room =>
      if is_wo c k then (c, []) else on_host c k (in_host (api k (ps_leave_room k sid (ns_or_default ns) room)))
  | CloseRoom k ns room =>
      if is_wo c k then (c, []) else on_host c k (in_host (api k (ps_close_room k room (ns_or_default ns))))
  | Disconnect k sid ns =>
      if is_wo c k then (c, []) else on_host c k (in_host (api k (srv_disconnect k sid (ns_or_default ns) false)))
  | ClientAck k eio j args =>
      if is_wo c k then (c, []) else
      match nth_error (idpkts (c_log c) eio) j with
      | Some (ns, id) => on_host c k (in_host (h_ack k eio ns id args))
      | None => (c, [])
      end
  end.

(* a history: the effects of each operation, in order *)
Fixpoint run (c : cluster) (ops : list op) : cluster * list (list eff) :=
  match ops with
  | [] => (c, [])
  | o :: r => let '(c1, e) := step c o in let '(c2, es) := run c1 r in (c2, e :: es)
  end.

(* ---- immediate consumption: after every operation every host drains the channel ---- *)
Fixpoint consume_n (n : nat) (c : cluster) (k : nat) : cluster * list eff :=
  match n with
  | O => (c, [])
  | S n' => let '(c1, e1) := step c (Consume k) in
            let '(c2, e2) := consume_n n' c1 k in (c2, e1 ++ e2)
  end.
Definition unread (c : cluster) (k : nat) : nat :=
  match nth_error (c_hosts c) k with
  | Some s => if h_wo s then O else (List.length (c_chan c) - h_cur s)%nat
  | None => O
  end.
Definition drain_host (c : cluster) (k : nat) : cluster * list eff := consume_n (unread c k) c k.
Fixpoint drain_hosts (ks : list nat) (c : cluster) : cluster * list eff :=
  match ks with
  | [] => (c, [])
  | k :: r => let '(c1, e1) := drain_host c k in
              let '(c2, e2) := drain_hosts r c1 in (c2, e1 ++ e2)
  end.
Definition drain (c : cluster) : cluster * list eff :=
  drain_hosts (seq 0 (List.length (c_hosts c))) c.
Definition imm_step (c : cluster) (o : op) : cluster * list eff :=
  let '(c1, e1) := step c o in let '(c2, e2) := drain c1 in (c2, e1 ++ e2).
Fixpoint run_imm (c : cluster) (ops : list op) : cluster * list (list eff) :=
  match ops with
  | [] => (c, [])
  | o :: r => let '(c1, e) := imm_step c o in let '(c2, es) := run_imm c1 r in (c2, e :: es)
  end.

(* ---- the reference: ONE server with a plain Manager holding every client ---- *)
(* same host-level functions (Manager.emit, Server.disconnect, _handle_ack), no channel; effects carry host 0 *)
Record single := mkSingle { s_host : hst; s_fresh : N; s_log : list (str * pkt) }.
Definition single_init : single := mkSingle hst_init 0 [].

Definition s_on (s : single) (f : hst -> hst * list eff) : single * list eff :=
  let '(h', es) := f (s_host s) in (mkSingle h' (s_fresh s) (s_log s ++ delivered es), es).

Definition single_step (s : single) (o : op) : single * list eff :=
  match o with
  | Connect _ eio ns =>
      let '(s1, es) := s_on s (h_connect 0 eio (ns_or_default ns) (sid_name (s_fresh s))) in
      (mkSingle (s_host s1) (s_fresh s + 1) (s_log s1), es)
  | Emit _ event data ns room skip cb =>
      s_on s (api 0 (mgr_emit 0 event data (ns_or_default ns) room skip
                              (match cb with Some c => Some (cb_app c) | None => None end)))
  | EnterRoom _ sid ns room =>
      s_on s (api 0 (r <~ with_hmgr (fun m => enter_room m sid (ns_or_default ns) room) ;; lift r))
  | LeaveRoom _ sid ns room => s_on s (api 0 (set_hmgr (fun m => leave_room m sid (ns_or_default ns) room)))
  | CloseRoom _ ns room => s_on s (api 0 (set_hmgr (fun m => close_room m room (ns_or_default ns))))
  | Disconnect _ sid ns => s_on s (api 0 (srv_disconnect 0 sid (ns_or_default ns) true))
  | ClientAck _ eio j args =>
      match nth_error (idpkts (s_log s) eio) j with
      | Some (ns, id) => s_on s (h_ack 0 eio ns id args)
      | None => (s, [])
      end
  | Consume _ => (s, [])
  end.
Fixpoint run_single (s : single) (ops : list op) : single * list (list eff) :=
  match ops with
  | [] => (s, [])
  | o :: r => let '(s1, e) := single_step s o in let '(s2, es) := run_single s1 r in (s2, e :: es)
  end.

(* ---- observation functions used by the statements ---- *)
(* a delivery as the client sees it, ack ids hidden (the cluster and the single server number them differently) *)
Definition erase_id (p : pkt) : pkt :=
  match p with PktEvent ns d (Some _) => PktEvent ns d (Some 0) | p => p end.
Definition deliveries (es : list eff) : list (str * pkt) :=
  map (fun ep => (fst ep, erase_id (snd ep))) (delivered es).
Definition callbacks_of (es : list eff) : list (nat * N * list pv) :=
  flat_map (fun e => match e with Callback h cb a => [(h, cb, a)] | _ => [] end) es.

(* membership as a function: is sid in room of ns, and through which transport *)
Definition mlook (m : mgr) (ns : str) (room : pv) (sid : str) : option str :=
  match room_of m ns room with Some b => bd_get b sid | None => None end.
(* abs: the union of the per-host tables (first host that knows the client) *)
Fixpoint abs_hosts (hs : list host) (ns : str) (room : pv) (sid : str) : option str :=
  match hs with
  | [] => None
  | h :: r => match mlook (h_mgr (h_st h)) ns room sid with Some e => Some e | None => abs_hosts r ns room sid end
  end.
Definition abs (c : cluster) := abs_hosts (c_hosts c).
