(* C17 - the life of one class-based namespace object: created for a namespace, attached to /
   registered with a server or client, events routed to it through the dispatch path
   (_trigger_event -> _get_namespace_handler -> trigger_event -> on_<event>), helper calls made
   before, between, after and from inside the handlers.  Definitions only.

   What `self.namespace` evaluates to at the moment of a helper call is no longer a parameter of
   the model (as in Forward.forwards_ok) but the content of the object's `namespace` attribute,
   which every operation of the life may have written.  The class description [nsclass] (how the
   constructor fills the attributes, whether `namespace` is a plain instance attribute, which
   attributes of the object the registration and the dispatch path write) is regenerated from
   /repo's source by harness/translator/fwd2coq.py into Gen_forward.v, like the helpers. *)
From VT Require Import Base.PyVal Forward.Forward.

(* value written into an attribute of the namespace object by code outside the helpers *)
Inductive wexpr :=
| WEventNs                      (* the namespace of the event being routed *)
| WConst (v : pv)
| WOpaque                       (* an object that is not a Python value of the model (the server) *)
| WUnsupported.                 (* anything else (fail closed) *)
(* the key register_namespace files the object under *)
Inductive kexpr := KSelfNamespace | KUnsupported.

Record nsclass := mkNsClass {
  k_class : name;
  k_ctor_sig : signature;                 (* parameters of __init__ (self removed) *)
  k_ctor : list (name * expr);            (* `self.<a> = <e>` of __init__ in execution order,
                                             base-class constructors inlined *)
  k_plain : bool;                         (* `namespace` is a plain instance attribute: no class of
                                             the MRO binds the name, defines __getattr__ & co, or
                                             writes it outside __init__; nothing else in the
                                             package stores into `<object>.namespace` *)
  k_attach : list (name * wexpr);         (* writes of _set_server / _set_client *)
  k_register : list (name * wexpr);       (* further writes of register_namespace to the object *)
  k_key : kexpr;                          (* namespace_handlers[<object>.namespace] = <object> *)
  k_dispatch : list (name * wexpr) }.     (* writes to the object while an event is routed to it
                                             (_trigger_event, _get_event_handler,
                                             _get_namespace_handler, trigger_event) *)

(* ---- the object: its instance attributes, most recent write first ---- *)
Definition ostate := list (name * pv).
Definition server_obj : pv := PObj 0.
Definition weval (ev_ns : pv) (w : wexpr) : pv :=
  match w with WEventNs => ev_ns | WConst v => v | WOpaque => server_obj | WUnsupported => PNone end.
Definition apply_writes (ev_ns : pv) (ws : list (name * wexpr)) (st : ostate) : ostate :=
  fold_left (fun s aw => (fst aw, weval ev_ns (snd aw)) :: s) ws st.

(* what `self.namespace` evaluates to *)
Definition read_ns (k : nsclass) (st : ostate) : Res pv :=
  if k_plain k then match lookup ns_name st with Some v => Ok v | None => Err AttributeError end
  else Err OtherError.

(* __init__: the attribute writes in order; the expressions range over the parameters *)
Fixpoint init_writes (env : list (name * pv)) (ws : list (name * expr)) (st : ostate) : Res ostate :=
  match ws with
  | [] => Ok st
  | (a, e) :: r => v <- eval pid por PNone env e ;; init_writes env r ((a, v) :: st)
  end.
Definition init_state (k : nsclass) (cc : call pv) : Res ostate :=
  env <- bind_call pid (k_ctor_sig k) cc ;; init_writes env (k_ctor k) [].

(* ---- operations of a life and what each of them shows ---- *)
Inductive lop :=
| LAttach                                   (* obj._set_server(server) / obj._set_client(client) *)
| LRegister                                 (* server.register_namespace(obj) *)
| LEnter (ev_ns : pv)                       (* an event that arrived on ev_ns is routed to obj: the
                                               dispatch path ran, the handler method starts *)
| LExit                                     (* that handler returns *)
| LHelper (h : helper) (u : method) (c : call pv).   (* obj.<helper>(...) *)

Definition call_result := Res (name * call pv * list (name * pv)).
Inductive lres :=
| RNone
| RKey (key : Res pv)                       (* key of namespace_handlers the object is filed under *)
| RCall (r : call_result).                  (* method, raw call, bound parameters received *)

(* one helper call with self.namespace read from the object *)
Definition helper_run (k : nsclass) (st : ostate) (h : helper) (u : method) (c : call pv)
  : call_result :=
  env <- bind_call pid (h_sig h) c ;;
  self_ns <- read_ns k st ;;
  c' <- run_body pid por self_ns env (h_body h) ;;
  env' <- bind_call pid (m_sig u) c' ;;
  Ok (match h_body h with Return b => snd (callee b) | Unsupported => [] end, c', env').

Definition step (k : nsclass) (st : ostate) (op : lop) : ostate * lres :=
  match op with
  | LAttach => (apply_writes PNone (k_attach k) st, RNone)
  | LRegister =>
      let st' := apply_writes PNone (k_register k) (apply_writes PNone (k_attach k) st) in
      (st', RKey (match k_key k with KSelfNamespace => read_ns k st' | KUnsupported => Err OtherError end))
  | LEnter ev_ns => (apply_writes ev_ns (k_dispatch k) st, RNone)
  | LExit => (st, RNone)
  | LHelper h u c => (st, RCall (helper_run k st h u c))
  end.
Fixpoint life_run (k : nsclass) (st : ostate) (ops : list lop) : list lres :=
  match ops with
  | [] => []
  | op :: r => let sx := step k st op in snd sx :: life_run k (fst sx) r
  end.
Definition reach (k : nsclass) (st : ostate) (ops : list lop) : ostate :=
  fold_left (fun s op => fst (step k s op)) ops st.

(* ---- the specification ---- *)
(* the namespace an object is created (and therefore registered) for: Namespace(x) is for x,
   Namespace() / Namespace(None) / Namespace('') for the default namespace.  Stated on the
   constructor call itself, independent of the generated description. *)
Definition root_ns : pv := PStr (s2l "/").
Definition ctor_arg (cc : call pv) : pv :=
  match c_pos cc with
  | x :: _ => x
  | [] => match lookup ns_name (c_kw cc) with Some x => x | None => PNone end
  end.
Definition created_ns (cc : call pv) : pv := por (ctor_arg cc) root_ns.

(* Whatever sequence of attach / register / event dispatch / handler exit / helper calls the
   object has gone through: it is filed under the namespace it was created for, and every helper
   call forwards as Forward.post_ok demands with THAT namespace as the own namespace. *)
Definition life_ok (k : nsclass) (tbl : list (helper * method)) : Prop :=
  forall cc env0, bind_call pid (k_ctor_sig k) cc = Ok env0 ->
  exists st0, init_state k cc = Ok st0 /\
  forall ops,
    snd (step k (reach k st0 ops) LRegister) = RKey (Ok (created_ns cc)) /\
    forall h u c env, In (h, u) tbl -> bind_call pid (h_sig h) c = Ok env ->
      exists c' env',
        snd (step k (reach k st0 ops) (LHelper h u c)) = RCall (Ok (m_name u, c', env')) /\
        post_ok (h_sig h) (m_sig u) c (created_ns cc) env env'.

(* ---- the decidable checker ---- *)
Fixpoint expr_eqb (a b : expr) : bool :=
  match a, b with
  | EParam p, EParam q => str_eqb p q
  | EConst x, EConst y => pv_eqb x y
  | ESelfNamespace, ESelfNamespace => true
  | EOr a1 a2, EOr b1 b2 => expr_eqb a1 b1 && expr_eqb a2 b2
  | _, _ => false
  end.
(* `namespace or '/'` *)
Definition ns_or_root : expr := EOr (EParam ns_name) (EConst root_ns).
(* the constructor's writes: constants, except for one write of `namespace or '/'` into
   `namespace`, which is the last write into that attribute *)
Fixpoint ctor_okb (ws : list (name * expr)) (seen : bool) : bool :=
  match ws with
  | [] => seen
  | (a, e) :: r =>
      if str_eqb a ns_name then expr_eqb e ns_or_root && ctor_okb r true
      else match e with EConst _ => ctor_okb r seen | _ => false end
  end.
Definition no_ns_write (ws : list (name * wexpr)) : bool :=
  forallb (fun aw => negb (str_eqb (fst aw) ns_name)) ws.
Definition ctor_sig_okb (s : signature) : bool :=
  match s with
  | [(p, Some PNone)] => str_eqb p ns_name
  | _ => false
  end.
Definition nsclass_okb (k : nsclass) : bool :=
  k_plain k && ctor_sig_okb (k_ctor_sig k) && ctor_okb (k_ctor k) false &&
  no_ns_write (k_attach k) && no_ns_write (k_register k) && no_ns_write (k_dispatch k) &&
  match k_key k with KSelfNamespace => true | KUnsupported => false end.
Definition life_okb (k : nsclass) (tbl : list (helper * method)) : bool :=
  nsclass_okb k && forallb (fun hu => forwards_okb (fst hu) (snd hu)) tbl.
