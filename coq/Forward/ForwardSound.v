(* C17 - general facts about the forwarding model, proved once:
   - argument binding and body evaluation commute with the interpretation of symbolic values;
   - what bind_call returns is determined by the explicitly given arguments;
   - the symbolic checker is sound:  forwards_okb h u = true -> forwards_ok h u;
   - the boolean postcondition is sound:  post_okb ... = true -> post_ok ... .
   Nothing here depends on the generated descriptions. *)
From VT Require Import Base.PyVal Forward.Forward.

(* ---- reflection of the small boolean tests ---- *)
Lemma str_eqb_neq a b : str_eqb a b = false -> a <> b.
Proof. intros H E. subst. rewrite str_eqb_refl in H. discriminate. Qed.

Lemma memb_In k l : memb k l = true <-> In k l.
Proof.
  unfold memb. rewrite existsb_exists. split.
  - intros [x [Hin Heq]]. apply str_eqb_eq in Heq. subst. exact Hin.
  - intros Hin. exists k. split; [exact Hin|apply str_eqb_refl].
Qed.
Lemma memb_false k l : memb k l = false -> ~ In k l.
Proof. intros H Hin. apply memb_In in Hin. congruence. Qed.

Lemma nodupb_NoDup l : nodupb l = true -> NoDup l.
Proof.
  induction l as [|x r IH]; simpl; intros H; [constructor|].
  apply andb_true_iff in H as [H1 H2]. constructor; [|apply IH; exact H2].
  apply memb_false. destruct (memb x r); [discriminate|reflexivity].
Qed.

Lemma sval_eqb_eq a b : sval_eqb a b = true -> a = b.
Proof.
  revert b; induction a as [p|v| |a1 IH1 a2 IH2]; intros [q|w| |b1 b2]; simpl; intros H;
    try discriminate; try reflexivity.
  - apply str_eqb_eq in H. congruence.
  - apply pv_eqb_eq in H. congruence.
  - apply andb_true_iff in H as [H1 H2]. apply IH1 in H1. apply IH2 in H2. congruence.
Qed.
Lemma opt_eqb_sval a b : opt_eqb sval_eqb a (Some b) = true -> a = Some b.
Proof. destruct a as [x|]; simpl; intros H; [apply sval_eqb_eq in H; congruence|discriminate]. Qed.
Lemma opt_eqb_pv a b : opt_eqb pv_eqb a (Some b) = true -> a = Some b.
Proof. destruct a as [x|]; simpl; intros H; [apply pv_eqb_eq in H; congruence|discriminate]. Qed.

Lemma lookup_In {A} k (l : list (name * A)) v : lookup k l = Some v -> In k (map fst l).
Proof.
  induction l as [|[k' x] r IH]; simpl; intros H; [discriminate|].
  destruct (str_eqb k' k) eqn:E; [left; apply str_eqb_eq; exact E|right; apply IH; exact H].
Qed.

(* constant folding does not change the meaning *)
Lemma interp_snorm sigma self s : interp sigma self (snorm s) = interp sigma self s.
Proof.
  induction s as [p|v| |a IHa b IHb]; simpl; try reflexivity.
  rewrite <- IHa, <- IHb.
  destruct (snorm a) as [q|c| |a1 a2] eqn:Ea; simpl; try reflexivity.
  unfold por. simpl. destruct (truthy c); reflexivity.
Qed.

Definition map_res {A B} (f : A -> B) (r : Res A) : Res B :=
  match r with Ok a => Ok (f a) | Err e => Err e end.

(* ---- binding and evaluation commute with a homomorphism of value domains ---- *)
Section Hom.
  Context {V1 V2 : Type}.
  Variables (inj1 : pv -> V1) (vor1 : V1 -> V1 -> V1) (self1 : V1).
  Variables (inj2 : pv -> V2) (vor2 : V2 -> V2 -> V2) (self2 : V2).
  Variable g : V1 -> V2.
  Hypothesis g_inj : forall c, g (inj1 c) = inj2 c.
  Hypothesis g_or : forall a b, g (vor1 a b) = vor2 (g a) (g b).
  Hypothesis g_self : g self1 = self2.

  Definition map_env (env : list (name * V1)) : list (name * V2) :=
    map (fun kv => (fst kv, g (snd kv))) env.
  Definition map_call (c : call V1) : call V2 := mkCall (map g (c_pos c)) (map_env (c_kw c)).

  Lemma lookup_map_env k env : lookup k (map_env env) = option_map g (lookup k env).
  Proof.
    induction env as [|[k' v] r IH]; simpl; [reflexivity|].
    destruct (str_eqb k' k); [reflexivity|apply IH].
  Qed.
  Lemma map_env_fst env : map fst (map_env env) = map fst env.
  Proof. unfold map_env. rewrite map_map. apply map_ext. intros [k v]. reflexivity. Qed.

  Lemma eval_hom env e :
    eval inj2 vor2 self2 (map_env env) e = map_res g (eval inj1 vor1 self1 env e).
  Proof.
    induction e as [p|c| |a IHa b IHb]; simpl.
    - rewrite lookup_map_env. destruct (lookup p env); reflexivity.
    - rewrite g_inj. reflexivity.
    - rewrite g_self. reflexivity.
    - rewrite IHa, IHb.
      destruct (eval inj1 vor1 self1 env a); simpl; [|reflexivity].
      destruct (eval inj1 vor1 self1 env b); simpl; [|reflexivity].
      rewrite g_or. reflexivity.
  Qed.
  Lemma eval_list_hom env l :
    eval_list inj2 vor2 self2 (map_env env) l = map_res (map g) (eval_list inj1 vor1 self1 env l).
  Proof.
    induction l as [|e r IH]; simpl; [reflexivity|].
    rewrite eval_hom, IH.
    destruct (eval inj1 vor1 self1 env e); simpl; [|reflexivity].
    destruct (eval_list inj1 vor1 self1 env r); reflexivity.
  Qed.
  Lemma eval_kw_hom env l :
    eval_kw inj2 vor2 self2 (map_env env) l = map_res map_env (eval_kw inj1 vor1 self1 env l).
  Proof.
    induction l as [|[k e] r IH]; simpl; [reflexivity|].
    rewrite eval_hom, IH.
    destruct (eval inj1 vor1 self1 env e); simpl; [|reflexivity].
    destruct (eval_kw inj1 vor1 self1 env r); reflexivity.
  Qed.
  Lemma run_body_hom env s :
    run_body inj2 vor2 self2 (map_env env) s = map_res map_call (run_body inj1 vor1 self1 env s).
  Proof.
    destruct s as [c|]; simpl; [|reflexivity].
    induction c as [t m pos kw|c IH]; simpl; [|exact IH].
    rewrite eval_list_hom, eval_kw_hom.
    destruct (eval_list inj1 vor1 self1 env pos); simpl; [|reflexivity].
    destruct (eval_kw inj1 vor1 self1 env kw); reflexivity.
  Qed.

  Lemma arg_for_hom p pos kw :
    arg_for p (map g pos) (map_env kw) = option_map g (arg_for p pos kw).
  Proof. destruct pos; simpl; [apply lookup_map_env|reflexivity]. Qed.
  Lemma tl_map (pos : list V1) : tl (map g pos) = map g (tl pos).
  Proof. destruct pos; reflexivity. Qed.

  Lemma bind_params_hom sig : forall pos kw,
    bind_params inj2 sig (map g pos) (map_env kw) = map_res map_env (bind_params inj1 sig pos kw).
  Proof.
    induction sig as [|[p d] rest IH]; intros pos kw; simpl; [reflexivity|].
    rewrite arg_for_hom, tl_map, IH.
    destruct (arg_for p pos kw) as [x|]; simpl.
    - destruct (bind_params inj1 rest (tl pos) kw); reflexivity.
    - destruct d as [dv|]; simpl; [|reflexivity].
      rewrite <- g_inj. destruct (bind_params inj1 rest (tl pos) kw); reflexivity.
  Qed.
  Lemma bind_call_hom sig c :
    bind_call inj2 sig (map_call c) = map_res map_env (bind_call inj1 sig c).
  Proof.
    unfold bind_call, map_call; simpl. rewrite map_length, map_env_fst.
    destruct (Nat.ltb _ _); [reflexivity|].
    destruct (negb (forallb _ _)); [reflexivity|].
    destruct (existsb _ _); [reflexivity|].
    destruct (negb (nodupb _)); [reflexivity|].
    apply bind_params_hom.
  Qed.
End Hom.

(* ---- what binding returns is determined by the explicitly given arguments ---- *)
Section Explicit.
  Context {V : Type} (inj : pv -> V).

  Lemma explicit_In sig : forall (pos : list V) kw p v,
    explicit sig pos kw p = Some v -> In p (sig_names sig).
  Proof.
    induction sig as [|[q d] rest IH]; intros pos kw p v; simpl; [discriminate|].
    destruct (str_eqb q p) eqn:E; intros H.
    - left. apply str_eqb_eq. exact E.
    - right. eapply IH. exact H.
  Qed.

  Definition bound_value (sig : signature) (pos : list V) (kw : list (name * V))
             (pd : name * option pv) : name * V :=
    (fst pd, match explicit sig pos kw (fst pd) with
             | Some v => v
             | None => match snd pd with Some d => inj d | None => inj PNone end
             end).

  Lemma bind_params_explicit sig : forall pos kw env,
    NoDup (sig_names sig) ->
    bind_params inj sig pos kw = Ok env ->
    env = map (bound_value sig pos kw) sig /\
    (forall p, In (p, None) sig -> explicit sig pos kw p <> None).
  Proof.
    induction sig as [|[q d] rest IH]; intros pos kw env Hnd H; simpl in H.
    - inversion H. split; [reflexivity|]. intros p [].
    - simpl in Hnd. inversion Hnd as [|x l Hq Hnd']; subst.
      destruct (bind_params inj rest (tl pos) kw) as [r|e] eqn:Er;
        [|destruct (arg_for q pos kw); [discriminate|destruct d; discriminate]].
      destruct (IH _ _ _ Hnd' Er) as [Hr Hreq].
      assert (Hrest : forall p, In p (sig_names rest) ->
                explicit ((q, d) :: rest) pos kw p = explicit rest (tl pos) kw p).
      { intros p Hp. simpl. destruct (str_eqb q p) eqn:E; [|reflexivity].
        apply str_eqb_eq in E. subst. contradiction. }
      assert (Htail : map (bound_value ((q, d) :: rest) pos kw) rest
                      = map (bound_value rest (tl pos) kw) rest).
      { apply map_ext_in. intros [p dp] Hin. unfold bound_value. simpl fst. simpl snd.
        rewrite Hrest; [reflexivity|]. apply in_map_iff. exists (p, dp). split; [reflexivity|exact Hin]. }
      split.
      + simpl map. rewrite Htail, <- Hr. unfold bound_value at 1. simpl fst. simpl snd.
        simpl explicit. rewrite str_eqb_refl.
        destruct (arg_for q pos kw) as [x|]; simpl in H.
        * inversion H. reflexivity.
        * destruct d as [dv|]; simpl in H; [inversion H; reflexivity|discriminate].
      + intros p [Hp|Hp].
        * inversion Hp; subst. simpl. rewrite str_eqb_refl.
          destruct (arg_for p pos kw); [discriminate|]. simpl in H. discriminate.
        * rewrite Hrest; [apply Hreq; exact Hp|].
          apply in_map_iff. exists (p, None). split; [reflexivity|exact Hp].
  Qed.

  Lemma bind_call_params sig c env :
    bind_call inj sig c = Ok env -> bind_params inj sig (c_pos c) (c_kw c) = Ok env.
  Proof.
    unfold bind_call.
    destruct (Nat.ltb _ _); [discriminate|].
    destruct (negb (forallb _ _)); [discriminate|].
    destruct (existsb _ _); [discriminate|].
    destruct (negb (nodupb _)); [discriminate|].
    exact (fun H => H).
  Qed.

  Lemma bind_params_fst sig : forall pos kw env,
    bind_params inj sig pos kw = Ok env -> map fst env = sig_names sig.
  Proof.
    induction sig as [|[q d] rest IH]; intros pos kw env H; simpl in H.
    - inversion H. reflexivity.
    - destruct (bind_params inj rest (tl pos) kw) as [r|e] eqn:Er;
        [|destruct (arg_for q pos kw); [discriminate|destruct d; discriminate]].
      assert (E : env = (q, match arg_for q pos kw with
                            | Some x => x
                            | None => match d with Some dv => inj dv | None => inj PNone end
                            end) :: r).
      { destruct (arg_for q pos kw); simpl in H; [inversion H; reflexivity|].
        destruct d; simpl in H; [inversion H; reflexivity|discriminate]. }
      subst env. simpl. f_equal. eapply IH. exact Er.
  Qed.
End Explicit.

(* ---- every choice of given optional arguments is one of the enumerated environments ---- *)
Lemma sym_env_in_all given sig : In (sym_env_of given sig) (all_envs sig).
Proof.
  induction sig as [|[p d] rest IH]; simpl; [left; reflexivity|].
  destruct d as [dv|]; simpl.
  - apply in_or_app. destruct (given p).
    + left. apply in_map. exact IH.
    + right. apply in_map. exact IH.
  - apply in_map. exact IH.
Qed.
Lemma sym_env_fst given sig : map fst (sym_env_of given sig) = sig_names sig.
Proof. unfold sym_env_of, sig_names. rewrite map_map. reflexivity. Qed.

(* ---- static shape ---- *)
Lemma static_okb_sound h u : static_okb h u = true -> static_ok h u.
Proof.
  unfold static_okb, static_ok. destruct (h_body h) as [c|]; [|discriminate].
  intros H. repeat (apply andb_true_iff in H as [H ?]).
  exists c. split; [reflexivity|].
  repeat split.
  - destruct (callee c) as [t m]; simpl in *.
    match goal with E : str_eqb m _ = true |- _ => apply str_eqb_eq in E; subst m end.
    destruct t, (m_side u); simpl in *; try discriminate; reflexivity.
  - match goal with E : str_eqb (h_name h) _ = true |- _ => apply str_eqb_eq in E; exact E end.
  - match goal with E : Nat.eqb _ _ = true |- _ => apply Nat.eqb_eq in E; exact E end.
  - intros Ha. match goal with E : (if m_async u then _ else _) = true |- _ =>
                           rewrite Ha in E; exact E end.
  - apply nodupb_NoDup. assumption.
  - apply nodupb_NoDup. assumption.
Qed.

(* ---- the symbolic checker is sound ---- *)
Theorem forwards_okb_sound h u : forwards_okb h u = true -> forwards_ok h u.
Proof.
  unfold forwards_okb. intros H. apply andb_true_iff in H as [Hst Hall].
  pose proof (static_okb_sound _ _ Hst) as Hstatic.
  split; [exact Hstatic|].
  destruct Hstatic as [cb [_ [_ [_ [_ [_ [Hndh Hndu]]]]]]].
  intros self_ns c env Hbind.
  pose proof (bind_call_params _ _ _ _ Hbind) as Hbp.
  destruct (bind_params_explicit pid _ _ _ _ Hndh Hbp) as [Henv Hreq].
  set (ex := explicit (h_sig h) (c_pos c) (c_kw c)) in *.
  set (given := fun p => match ex p with Some _ => true | None => false end).
  set (sigma := fun p => match ex p with Some v => v | None => PNone end).
  set (g := interp sigma self_ns).
  set (senv := sym_env_of given (h_sig h)).
  assert (Eenv : env = map_env g senv).
  { rewrite Henv. unfold senv, sym_env_of, map_env. rewrite map_map.
    apply map_ext_in. intros [p d] Hin. unfold bound_value. simpl fst. simpl snd.
    fold ex. unfold g, given, sigma.
    destruct d as [dv|]; simpl.
    - destruct (ex p) eqn:E; simpl; try rewrite E; reflexivity.
    - destruct (ex p) eqn:E; simpl; try rewrite E; [reflexivity|].
      exfalso. apply (Hreq p Hin). exact E. }
  rewrite forallb_forall in Hall.
  pose proof (Hall senv (sym_env_in_all given (h_sig h))) as Hok.
  unfold env_okb in Hok.
  destruct (run_body SConst SOr SSelf senv (h_body h)) as [sc|] eqn:Erun; [|discriminate].
  destruct (bind_call SConst (m_sig u) sc) as [senv'|] eqn:Ebind'; [|discriminate].
  assert (Hg_inj : forall x, g (SConst x) = pid x) by reflexivity.
  assert (Hg_or : forall a b, g (SOr a b) = por (g a) (g b)) by reflexivity.
  assert (Hg_self : g SSelf = self_ns) by reflexivity.
  exists (map_call g sc), (map_env g senv').
  split; [|split].
  - rewrite Eenv.
    rewrite (run_body_hom SConst SOr SSelf pid por self_ns g Hg_inj Hg_or Hg_self).
    rewrite Erun. reflexivity.
  - rewrite (bind_call_hom SConst pid g Hg_inj). rewrite Ebind'. reflexivity.
  - unfold spost_okb in Hok.
    apply andb_true_iff in Hok as [Hok Hun]. apply andb_true_iff in Hok as [Hok Hns].
    apply andb_true_iff in Hok as [Hnd Hsh].
    rewrite forallb_forall in Hsh. rewrite forallb_forall in Hun.
    split; [|split; [|split]].
    + rewrite map_env_fst. apply nodupb_NoDup. exact Hnd.
    + intros p v Hpns Hpu Hex. fold ex in Hex.
      pose proof (explicit_In _ _ _ _ _ Hex) as Hph.
      unfold sig_names in Hph. apply in_map_iff in Hph as [[p' d] [Hp' Hin]]. simpl in Hp'. subst p'.
      assert (Hs : In (p, SGiven p) senv).
      { unfold senv, sym_env_of. apply in_map_iff. exists (p, d). split; [|exact Hin].
        simpl. unfold given. rewrite Hex. destruct d; reflexivity. }
      specialize (Hsh _ Hs). simpl in Hsh.
      destruct (str_eqb p ns_name) eqn:En; [apply str_eqb_eq in En; contradiction|].
      apply memb_In in Hpu. rewrite Hpu in Hsh. simpl in Hsh. rewrite str_eqb_refl in Hsh.
      apply opt_eqb_sval in Hsh.
      rewrite lookup_map_env, Hsh. simpl. unfold g. simpl. unfold sigma. rewrite Hex. reflexivity.
    + intros Hnsu. apply memb_In in Hnsu. rewrite Hnsu in Hns.
      rewrite lookup_map_env.
      destruct (lookup ns_name senv') as [a|] eqn:Ea; simpl in Hns; [|discriminate].
      apply sval_eqb_eq in Hns. simpl. f_equal.
      unfold g at 1. rewrite <- interp_snorm, Hns, interp_snorm.
      unfold expected_ns, sexpected_ns. rewrite Eenv, lookup_map_env.
      destruct (lookup ns_name senv) as [b|]; simpl; reflexivity.
    + intros p d Hin Hpns Hnh.
      specialize (Hun _ Hin). simpl in Hun.
      destruct (str_eqb p ns_name) eqn:En; [apply str_eqb_eq in En; contradiction|].
      unfold senv in Hun. rewrite sym_env_fst in Hun.
      destruct (memb p (sig_names (h_sig h))) eqn:Em; [apply memb_In in Em; contradiction|].
      simpl in Hun. rewrite lookup_map_env.
      destruct (lookup p senv') as [a|] eqn:Ea; simpl in Hun; [|discriminate].
      apply sval_eqb_eq in Hun. simpl. f_equal.
      unfold g. rewrite <- interp_snorm, Hun. reflexivity.
Qed.

(* ---- the boolean postcondition is sound (used on the implementation's observations) ---- *)
Theorem post_okb_sound hsig usig c self_ns env env' :
  post_okb hsig usig c self_ns env env' = true -> post_ok hsig usig c self_ns env env'.
Proof.
  unfold post_okb, post_nodupb, post_sharedb, post_nsb, post_unexposedb, post_ok. intros H.
  apply andb_true_iff in H as [H Hun]. apply andb_true_iff in H as [H Hns].
  apply andb_true_iff in H as [Hnd Hsh].
  rewrite forallb_forall in Hsh. rewrite forallb_forall in Hun.
  split; [|split; [|split]].
  - apply nodupb_NoDup. exact Hnd.
  - intros p v Hpns Hpu Hex.
    pose proof (explicit_In _ _ _ _ _ Hex) as Hph.
    unfold sig_names in Hph. apply in_map_iff in Hph as [[p' d] [Hp' Hin]]. simpl in Hp'. subst p'.
    specialize (Hsh _ Hin). simpl in Hsh.
    destruct (str_eqb p ns_name) eqn:En; [apply str_eqb_eq in En; contradiction|].
    apply memb_In in Hpu. rewrite Hpu in Hsh. simpl in Hsh. rewrite Hex in Hsh.
    apply opt_eqb_pv. exact Hsh.
  - intros Hnsu. apply memb_In in Hnsu. rewrite Hnsu in Hns. apply opt_eqb_pv. exact Hns.
  - intros p d Hin Hpns Hnh.
    specialize (Hun _ Hin). simpl in Hun.
    destruct (str_eqb p ns_name) eqn:En; [apply str_eqb_eq in En; contradiction|].
    destruct (memb p (sig_names hsig)) eqn:Em; [apply memb_In in Em; contradiction|].
    simpl in Hun. apply opt_eqb_pv. exact Hun.
Qed.

(* a successful binding binds every parameter exactly once *)
Lemma bind_call_names {V} (inj : pv -> V) sig c env :
  bind_call inj sig c = Ok env -> map fst env = sig_names sig.
Proof. intros H. eapply bind_params_fst. eapply bind_call_params. exact H. Qed.
