(* C17 - the life of a namespace object: soundness of the decidable checker, proved once.
     life_okb k tbl = true -> life_ok k tbl
   i.e. when `namespace` is a plain attribute that only the constructor writes (as
   `namespace or '/'`), and neither attaching, registering nor routing an event writes it, then
   after ANY sequence of operations the object is filed under the namespace it was created for
   and every helper of the table forwards with that namespace.
   Nothing here depends on the generated descriptions. *)
From VT Require Import Base.PyVal Forward.Forward Forward.ForwardSound Forward.Life.

Lemma expr_eqb_eq a : forall b, expr_eqb a b = true -> a = b.
Proof.
  induction a as [p|v| |a1 IH1 a2 IH2]; intros b Hb; destruct b; simpl in Hb; try discriminate.
  - apply str_eqb_eq in Hb. subst. reflexivity.
  - apply pv_eqb_eq in Hb. subst. reflexivity.
  - reflexivity.
  - apply andb_true_iff in Hb as [H1 H2]. rewrite (IH1 _ H1), (IH2 _ H2). reflexivity.
Qed.

(* the constructor's own binding: one optional parameter `namespace` *)
Lemma bind_ctor_gen (n : name) pos kw env0 :
  bind_call pid [(n, Some PNone)] (mkCall pos kw) = Ok env0 ->
  env0 = [(n, match pos with
              | x :: _ => x
              | [] => match lookup n kw with Some x => x | None => PNone end
              end)].
Proof.
  unfold bind_call. cbn [c_pos c_kw].
  destruct (Nat.ltb _ _); [discriminate|].
  destruct (negb _); [discriminate|].
  destruct (existsb _ _); [discriminate|].
  destruct (negb _); [discriminate|].
  unfold pid.
  destruct pos as [|x pos'].
  - cbn. destruct (lookup n kw); cbn; intros H; inversion H; reflexivity.
  - cbn. intros H. inversion H. reflexivity.
Qed.
Lemma bind_ctor cc env0 :
  bind_call pid [(ns_name, Some PNone)] cc = Ok env0 -> env0 = [(ns_name, ctor_arg cc)].
Proof. destruct cc as [pos kw]. apply bind_ctor_gen. Qed.

Lemma lookup_cons_other {A} a k (v : A) st :
  str_eqb a k = false -> lookup k ((a, v) :: st) = lookup k st.
Proof. intros H. cbn [lookup]. rewrite H. reflexivity. Qed.

(* after the constructor, `namespace` holds `arg or '/'` *)
Lemma init_writes_ns arg ws : forall seen st,
  ctor_okb ws seen = true ->
  (seen = true -> lookup ns_name st = Some (por arg root_ns)) ->
  exists st', init_writes [(ns_name, arg)] ws st = Ok st' /\
              lookup ns_name st' = Some (por arg root_ns).
Proof.
  induction ws as [|[a e] r IH]; intros seen st Hok Hseen.
  - cbn in Hok. subst seen. exists st. split; [reflexivity|auto].
  - cbn [ctor_okb] in Hok. cbn [init_writes].
    destruct (str_eqb a ns_name) eqn:Ea.
    + apply andb_true_iff in Hok as [He Hr]. apply expr_eqb_eq in He. subst e.
      apply str_eqb_eq in Ea. subst a.
      assert (Ev : eval pid por PNone [(ns_name, arg)] ns_or_root = Ok (por arg root_ns)).
      { unfold ns_or_root. cbn [eval lookup]. rewrite str_eqb_refl. reflexivity. }
      rewrite Ev. cbn.
      apply (IH true); [exact Hr|]. intros _. cbn [lookup]. rewrite str_eqb_refl. reflexivity.
    + destruct e as [p|v| |e1 e2]; try discriminate.
      cbn [eval]. cbn.
      apply (IH seen); [exact Hok|]. intros Hs. rewrite lookup_cons_other by exact Ea. auto.
Qed.

Lemma apply_writes_ns ev ws : forall st,
  no_ns_write ws = true -> lookup ns_name (apply_writes ev ws st) = lookup ns_name st.
Proof.
  unfold apply_writes, no_ns_write.
  induction ws as [|[a w] r IH]; intros st H; [reflexivity|].
  cbn [forallb fst snd] in H. apply andb_true_iff in H as [Ha Hr].
  cbn [fold_left fst snd]. rewrite IH by exact Hr.
  apply lookup_cons_other. destruct (str_eqb a ns_name); [discriminate|reflexivity].
Qed.

Section Invariant.
  Variable k : nsclass.
  Hypothesis Hatt : no_ns_write (k_attach k) = true.
  Hypothesis Hreg : no_ns_write (k_register k) = true.
  Hypothesis Hdis : no_ns_write (k_dispatch k) = true.

  Lemma step_ns st op : lookup ns_name (fst (step k st op)) = lookup ns_name st.
  Proof.
    destruct op; cbn [step fst].
    - apply apply_writes_ns. exact Hatt.
    - rewrite apply_writes_ns by exact Hreg. apply apply_writes_ns. exact Hatt.
    - apply apply_writes_ns. exact Hdis.
    - reflexivity.
    - reflexivity.
  Qed.

  Lemma reach_ns ops : forall st, lookup ns_name (reach k st ops) = lookup ns_name st.
  Proof.
    unfold reach. induction ops as [|op r IH]; intros st; [reflexivity|].
    cbn [fold_left]. rewrite IH. apply step_ns.
  Qed.
End Invariant.

Theorem life_okb_sound k tbl : life_okb k tbl = true -> life_ok k tbl.
Proof.
  unfold life_okb, nsclass_okb. intros H.
  apply andb_true_iff in H as [H Htbl].
  repeat (apply andb_true_iff in H as [H ?]).
  rename H into Hplain.
  match goal with Hx : ctor_sig_okb _ = true |- _ => rename Hx into Hsig end.
  match goal with Hx : ctor_okb _ _ = true |- _ => rename Hx into Hctor end.
  match goal with Hx : no_ns_write (k_attach k) = true |- _ => rename Hx into Hatt end.
  match goal with Hx : no_ns_write (k_register k) = true |- _ => rename Hx into Hreg end.
  match goal with Hx : no_ns_write (k_dispatch k) = true |- _ => rename Hx into Hdis end.
  match goal with Hx : match k_key k with _ => _ end = true |- _ => rename Hx into Hkey end.
  assert (Esig : k_ctor_sig k = [(ns_name, Some PNone)]).
  { unfold ctor_sig_okb in Hsig. destruct (k_ctor_sig k) as [|[p d] r]; [discriminate|].
    destruct d as [d|]; [|discriminate]. destruct d; try discriminate.
    destruct r; [|discriminate]. apply str_eqb_eq in Hsig. subst p. reflexivity. }
  intros cc env0 Hb. rewrite Esig in Hb. pose proof (bind_ctor _ _ Hb) as Eenv. subst env0.
  destruct (init_writes_ns (ctor_arg cc) (k_ctor k) false [] Hctor) as [st0 [Hinit Hns0]];
    [discriminate|].
  exists st0. split.
  { unfold init_state. rewrite Esig, Hb. cbn. exact Hinit. }
  intros ops.
  assert (Hinv : lookup ns_name (reach k st0 ops) = Some (created_ns cc)).
  { rewrite (reach_ns k Hatt Hreg Hdis). exact Hns0. }
  split.
  - cbn [step snd]. destruct (k_key k); [|discriminate].
    unfold read_ns. rewrite Hplain.
    rewrite (apply_writes_ns _ _ _ Hreg), (apply_writes_ns _ _ _ Hatt), Hinv. reflexivity.
  - intros h u c env Hin Hbind.
    rewrite forallb_forall in Htbl. specialize (Htbl _ Hin). cbn [fst snd] in Htbl.
    apply forwards_okb_sound in Htbl. destruct Htbl as [Hst Hfw].
    destruct (Hfw (created_ns cc) c env Hbind) as [c' [env' [Hrun [Hbind' Hpost]]]].
    exists c', env'. split; [|exact Hpost].
    cbn [step snd]. unfold helper_run. rewrite Hbind. cbn.
    unfold read_ns. rewrite Hplain, Hinv. cbn. rewrite Hrun. cbn. rewrite Hbind'. cbn.
    destruct Hst as [c0 [Hbody [Hcallee _]]]. rewrite Hbody, Hcallee. reflexivity.
Qed.
