(* C17 - class-based namespace helpers: first-order description of a delegating helper,
   Python's argument binding, and the forwarding specification.  Definitions only.

   The helper descriptions (values of type [helper]) and the signatures of the underlying
   server/client methods (values of type [method]) are NOT written by hand: they are
   regenerated from /repo's source by harness/translator/fwd2coq.py into Gen_forward.v. *)
From VT Require Import Base.PyVal.

Definition name := str.
Definition ns_name : name := s2l "namespace".

(* ordered parameters (self removed), with the default constant of the optional ones;
   only plain positional-or-keyword parameters exist in this fragment (the translator
   fails closed on positional-only, keyword-only, *args, ** kwargs) *)
Definition signature := list (name * option pv).
Definition sig_names (s : signature) : list name := map fst s.

Fixpoint lookup {A} (k : name) (l : list (name * A)) : option A :=
  match l with
  | [] => None
  | (k', v) :: r => if str_eqb k' k then Some v else lookup k r
  end.
Definition memb (k : name) (l : list name) : bool := existsb (str_eqb k) l.
Fixpoint nodupb (l : list name) : bool :=
  match l with [] => true | x :: r => negb (memb x r) && nodupb r end.

(* a call: positional values, then keyword values in source order *)
Record call (V : Type) := mkCall { c_pos : list V; c_kw : list (name * V) }.
Arguments mkCall {V} _ _.
Arguments c_pos {V} _.
Arguments c_kw {V} _.

(* ---- the description language produced by the translator ---- *)
Inductive expr :=
| EParam (p : name)             (* a parameter of the helper *)
| EConst (v : pv)               (* a literal constant *)
| ESelfNamespace                (* self.namespace *)
| EOr (a b : expr).             (* a or b *)
Inductive target := TServer | TClient.          (* self.server / self.client *)
Inductive cexpr :=
| Call (t : target) (m : name) (pos : list expr) (kw : list (name * expr))
| Await (c : cexpr).            (* await erased by the semantics, recorded here *)
Inductive stmt :=
| Return (c : cexpr)            (* the whole body is `return <c>` *)
| Unsupported.                  (* body outside the translator's whitelist (fail closed) *)

Record helper := mkHelper {
  h_class : name;               (* class the helper is looked up on *)
  h_owner : name;               (* class that defines it (inheritance resolved) *)
  h_name : name;
  h_async : bool;               (* async def *)
  h_sig : signature;
  h_body : stmt }.
Record method := mkMethod {
  m_class : name;               (* Server / AsyncServer / Client / AsyncClient *)
  m_owner : name;               (* defining class, e.g. BaseServer for rooms *)
  m_side : target;              (* reached through self.server or self.client *)
  m_name : name;
  m_async : bool;
  m_sig : signature }.

(* ---- Python's argument binding (positional first, then keywords, then defaults) ---- *)
Section Bind.
  Context {V : Type} (inj : pv -> V).
  Definition arg_for (p : name) (pos : list V) (kw : list (name * V)) : option V :=
    match pos with x :: _ => Some x | [] => lookup p kw end.
  Fixpoint bind_params (sig : signature) (pos : list V) (kw : list (name * V))
    : Res (list (name * V)) :=
    match sig with
    | [] => Ok []
    | (p, d) :: rest =>
        v <- match arg_for p pos kw with
             | Some x => Ok x
             | None => match d with
                       | Some dv => Ok (inj dv)
                       | None => Err TypeError         (* missing required argument *)
                       end
             end ;;
        r <- bind_params rest (tl pos) kw ;;
        Ok ((p, v) :: r)
    end.
  Definition bind_call (sig : signature) (c : call V) : Res (list (name * V)) :=
    let names := sig_names sig in
    let kws := map fst (c_kw c) in
    if Nat.ltb (List.length sig) (List.length (c_pos c)) then Err TypeError  (* too many positional *)
    else if negb (forallb (fun k => memb k names) kws) then Err TypeError     (* unexpected keyword *)
    else if existsb (fun k => memb k (firstn (List.length (c_pos c)) names)) kws
         then Err TypeError                                                   (* multiple values *)
    else if negb (nodupb kws) then Err TypeError                              (* keyword repeated *)
    else bind_params sig (c_pos c) (c_kw c).

  (* the value the caller supplied explicitly for parameter p, positionally or by keyword *)
  Fixpoint explicit (sig : signature) (pos : list V) (kw : list (name * V)) (p : name)
    : option V :=
    match sig with
    | [] => None
    | (q, _) :: rest => if str_eqb q p then arg_for q pos kw else explicit rest (tl pos) kw p
    end.
End Bind.

(* ---- evaluation of a helper body, generic in the value domain ---- *)
Section Eval.
  Context {V : Type} (inj : pv -> V) (vor : V -> V -> V) (self_ns : V).
  Fixpoint eval (env : list (name * V)) (e : expr) : Res V :=
    match e with
    | EParam p => match lookup p env with Some v => Ok v | None => Err OtherError end
    | EConst c => Ok (inj c)
    | ESelfNamespace => Ok self_ns
    | EOr a b => x <- eval env a ;; y <- eval env b ;; Ok (vor x y)
    end.
  Fixpoint eval_list (env : list (name * V)) (l : list expr) : Res (list V) :=
    match l with
    | [] => Ok []
    | e :: r => x <- eval env e ;; xs <- eval_list env r ;; Ok (x :: xs)
    end.
  Fixpoint eval_kw (env : list (name * V)) (l : list (name * expr)) : Res (list (name * V)) :=
    match l with
    | [] => Ok []
    | (k, e) :: r => x <- eval env e ;; xs <- eval_kw env r ;; Ok ((k, x) :: xs)
    end.
  Fixpoint run_cexpr (env : list (name * V)) (c : cexpr) : Res (call V) :=
    match c with
    | Call _ _ pos kw => ps <- eval_list env pos ;; ks <- eval_kw env kw ;; Ok (mkCall ps ks)
    | Await c' => run_cexpr env c'
    end.
  (* the call the helper makes on the object it is registered with *)
  Definition run_body (env : list (name * V)) (s : stmt) : Res (call V) :=
    match s with Return c => run_cexpr env c | Unsupported => Err OtherError end.
End Eval.

(* ---- the concrete domain: Python values ---- *)
Definition pid (v : pv) : pv := v.
Definition por (a b : pv) : pv := if truthy a then a else b.       (* a or b *)

(* ---- the symbolic domain: caller-supplied values are opaque ---- *)
Inductive sval :=
| SGiven (p : name)             (* whatever the caller passed for parameter p *)
| SConst (v : pv)
| SSelf                         (* self.namespace *)
| SOr (a b : sval).
Fixpoint interp (sigma : name -> pv) (self_ns : pv) (s : sval) : pv :=
  match s with
  | SGiven p => sigma p
  | SConst v => v
  | SSelf => self_ns
  | SOr a b => por (interp sigma self_ns a) (interp sigma self_ns b)
  end.
Fixpoint sval_eqb (a b : sval) : bool :=
  match a, b with
  | SGiven p, SGiven q => str_eqb p q
  | SConst x, SConst y => pv_eqb x y
  | SSelf, SSelf => true
  | SOr a1 a2, SOr b1 b2 => sval_eqb a1 b1 && sval_eqb a2 b2
  | _, _ => false
  end.
(* constant folding of `or` (semantics-preserving, see ForwardSound.interp_snorm) *)
Fixpoint snorm (s : sval) : sval :=
  match s with
  | SOr a b => match snorm a with
               | SConst c => if truthy c then SConst c else snorm b
               | a' => SOr a' (snorm b)
               end
  | _ => s
  end.

(* ---- static shape of a delegating helper ---- *)
Fixpoint callee (c : cexpr) : target * name :=
  match c with Call t m _ _ => (t, m) | Await c' => callee c' end.
Fixpoint awaits (c : cexpr) : nat :=
  match c with Call _ _ _ _ => O | Await c' => S (awaits c') end.
Definition target_eqb (a b : target) : bool :=
  match a, b with TServer, TServer | TClient, TClient => true | _, _ => false end.
(* the body is a bare `return` of one call of the same-named method on the object the
   namespace is registered with; awaited exactly when that method is a coroutine function *)
Definition static_okb (h : helper) (u : method) : bool :=
  match h_body h with
  | Return c =>
      target_eqb (fst (callee c)) (m_side u) &&
      str_eqb (snd (callee c)) (m_name u) &&
      str_eqb (h_name h) (m_name u) &&
      Nat.eqb (awaits c) (if m_async u then 1%nat else 0%nat) &&
      (if m_async u then h_async h else true) &&
      nodupb (sig_names (h_sig h)) && nodupb (sig_names (m_sig u))
  | Unsupported => false
  end.
Definition static_ok (h : helper) (u : method) : Prop :=
  exists c, h_body h = Return c /\
    callee c = (m_side u, m_name u) /\ h_name h = m_name u /\
    awaits c = (if m_async u then 1%nat else 0%nat) /\
    (m_async u = true -> h_async h = true) /\
    NoDup (sig_names (h_sig h)) /\ NoDup (sig_names (m_sig u)).

(* ---- the specification ---- *)
Definition expected_ns (self_ns : pv) (env : list (name * pv)) : pv :=
  match lookup ns_name env with
  | Some v => if truthy v then v else self_ns
  | None => self_ns
  end.

(* [c] is the caller's call of the helper, [env] the helper's parameters after binding,
   [env'] the parameters of the underlying method after binding the helper's call *)
Definition post_ok (hsig usig : signature) (c : call pv) (self_ns : pv)
           (env env' : list (name * pv)) : Prop :=
  (* nothing is bound twice *)
  NoDup (map fst env') /\
  (* every argument given explicitly reaches the same-named parameter unchanged *)
  (forall p v, p <> ns_name -> In p (sig_names usig) ->
               explicit hsig (c_pos c) (c_kw c) p = Some v -> lookup p env' = Some v) /\
  (* namespace: the caller's if truthy, else the namespace the object is registered for *)
  (In ns_name (sig_names usig) -> lookup ns_name env' = Some (expected_ns self_ns env)) /\
  (* parameters of the underlying method that the helper does not expose keep their default *)
  (forall p d, In (p, Some d) usig -> p <> ns_name -> ~ In p (sig_names hsig) ->
               lookup p env' = Some d).

Definition forwards_ok (h : helper) (u : method) : Prop :=
  static_ok h u /\
  forall (self_ns : pv) (c : call pv) (env : list (name * pv)),
    bind_call pid (h_sig h) c = Ok env ->
    exists c' env',
      run_body pid por self_ns env (h_body h) = Ok c' /\
      bind_call pid (m_sig u) c' = Ok env' /\
      post_ok (h_sig h) (m_sig u) c self_ns env env'.

(* ---- boolean version of the postcondition (used on what the implementation did) ---- *)
Definition post_nodupb (env' : list (name * pv)) : bool := nodupb (map fst env').
Definition post_sharedb (hsig usig : signature) (c : call pv) (env' : list (name * pv)) : bool :=
  forallb (fun pd =>
             let p := fst pd in
             if str_eqb p ns_name then true
             else if negb (memb p (sig_names usig)) then true
             else match explicit hsig (c_pos c) (c_kw c) p with
                  | Some v => opt_eqb pv_eqb (lookup p env') (Some v)
                  | None => true
                  end) hsig.
Definition post_nsb (usig : signature) (self_ns : pv) (env env' : list (name * pv)) : bool :=
  if memb ns_name (sig_names usig)
  then opt_eqb pv_eqb (lookup ns_name env') (Some (expected_ns self_ns env)) else true.
Definition post_unexposedb (hsig usig : signature) (env' : list (name * pv)) : bool :=
  forallb (fun pd =>
             let p := fst pd in
             if str_eqb p ns_name || memb p (sig_names hsig) then true
             else match snd pd with
                  | Some d => opt_eqb pv_eqb (lookup p env') (Some d)
                  | None => true
                  end) usig.
Definition post_okb (hsig usig : signature) (c : call pv) (self_ns : pv)
           (env env' : list (name * pv)) : bool :=
  post_nodupb env' && post_sharedb hsig usig c env' && post_nsb usig self_ns env env' &&
  post_unexposedb hsig usig env'.

(* ---- the decidable checker: symbolic execution over every subset of optional arguments ---- *)
(* all symbolic parameter environments of a signature: a required parameter is always
   given; an optional one is either given or left to its default *)
Fixpoint all_envs (sig : signature) : list (list (name * sval)) :=
  match sig with
  | [] => [[]]
  | (p, d) :: rest =>
      let r := all_envs rest in
      match d with
      | None => map (cons (p, SGiven p)) r
      | Some dv => map (cons (p, SGiven p)) r ++ map (cons (p, SConst dv)) r
      end
  end.
Definition sym_env_of (given : name -> bool) (sig : signature) : list (name * sval) :=
  map (fun pd => (fst pd, match snd pd with
                          | None => SGiven (fst pd)
                          | Some d => if given (fst pd) then SGiven (fst pd) else SConst d
                          end)) sig.
Definition is_given (p : name) (v : sval) : bool :=
  match v with SGiven q => str_eqb p q | _ => false end.
Definition sexpected_ns (env : list (name * sval)) : sval :=
  match lookup ns_name env with Some v => SOr v SSelf | None => SSelf end.

Definition spost_okb (usig : signature) (env env' : list (name * sval)) : bool :=
  nodupb (map fst env') &&
  forallb (fun kv =>
             let p := fst kv in
             if str_eqb p ns_name then true
             else if negb (memb p (sig_names usig)) then true
             else if is_given p (snd kv)
                  then opt_eqb sval_eqb (lookup p env') (Some (SGiven p)) else true) env &&
  (if memb ns_name (sig_names usig)
   then opt_eqb sval_eqb (option_map snorm (lookup ns_name env'))
                (Some (snorm (sexpected_ns env))) else true) &&
  forallb (fun pd =>
             let p := fst pd in
             if str_eqb p ns_name || memb p (map fst env) then true
             else match snd pd with
                  | Some d => opt_eqb sval_eqb (option_map snorm (lookup p env')) (Some (SConst d))
                  | None => true
                  end) usig.

Definition env_okb (h : helper) (u : method) (env : list (name * sval)) : bool :=
  match run_body SConst SOr SSelf env (h_body h) with
  | Ok c' => match bind_call SConst (m_sig u) c' with
             | Ok env' => spost_okb (m_sig u) env env'
             | Err _ => false
             end
  | Err _ => false
  end.
Definition forwards_okb (h : helper) (u : method) : bool :=
  static_okb h u && forallb (env_okb h u) (all_envs (h_sig h)).

(* diagnosis: the subsets of explicitly given parameters on which the check fails *)
Definition given_names (env : list (name * sval)) : list name :=
  map fst (filter (fun kv => is_given (fst kv) (snd kv)) env).
Definition forwards_bad (h : helper) (u : method) : list (list name) :=
  map given_names (filter (fun e => negb (env_okb h u e)) (all_envs (h_sig h))).
