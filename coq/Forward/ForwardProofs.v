(* C17 - one theorem per helper of the four class-based namespace classes, over the
   descriptions regenerated from /repo by harness/translator/fwd2coq.py (Gen_forward.v).
   Each is proved by running the symbolic checker (all subsets of the optional arguments,
   caller-supplied values opaque) and lifting with ForwardSound.forwards_okb_sound. *)
From VT Require Import Base.PyVal Forward.Forward Forward.ForwardSound Forward.Gen_forward.

Ltac fwd := apply forwards_okb_sound; vm_compute; reflexivity.

Theorem Namespace_emit_forwards : forwards_ok h_Namespace_emit m_Server_emit.
Proof. fwd. Qed.
Theorem Namespace_send_forwards : forwards_ok h_Namespace_send m_Server_send.
Proof. fwd. Qed.
Theorem Namespace_call_forwards : forwards_ok h_Namespace_call m_Server_call.
Proof. fwd. Qed.
Theorem Namespace_enter_room_forwards : forwards_ok h_Namespace_enter_room m_Server_enter_room.
Proof. fwd. Qed.
Theorem Namespace_leave_room_forwards : forwards_ok h_Namespace_leave_room m_Server_leave_room.
Proof. fwd. Qed.
Theorem Namespace_close_room_forwards : forwards_ok h_Namespace_close_room m_Server_close_room.
Proof. fwd. Qed.
Theorem Namespace_rooms_forwards : forwards_ok h_Namespace_rooms m_Server_rooms.
Proof. fwd. Qed.
Theorem Namespace_get_session_forwards : forwards_ok h_Namespace_get_session m_Server_get_session.
Proof. fwd. Qed.
Theorem Namespace_save_session_forwards : forwards_ok h_Namespace_save_session m_Server_save_session.
Proof. fwd. Qed.
Theorem Namespace_session_forwards : forwards_ok h_Namespace_session m_Server_session.
Proof. fwd. Qed.
Theorem Namespace_disconnect_forwards : forwards_ok h_Namespace_disconnect m_Server_disconnect.
Proof. fwd. Qed.
Theorem ClientNamespace_emit_forwards : forwards_ok h_ClientNamespace_emit m_Client_emit.
Proof. fwd. Qed.
Theorem ClientNamespace_send_forwards : forwards_ok h_ClientNamespace_send m_Client_send.
Proof. fwd. Qed.
Theorem ClientNamespace_call_forwards : forwards_ok h_ClientNamespace_call m_Client_call.
Proof. fwd. Qed.
Theorem ClientNamespace_disconnect_forwards : forwards_ok h_ClientNamespace_disconnect m_Client_disconnect.
Proof. fwd. Qed.
Theorem AsyncNamespace_emit_forwards : forwards_ok h_AsyncNamespace_emit m_AsyncServer_emit.
Proof. fwd. Qed.
Theorem AsyncNamespace_send_forwards : forwards_ok h_AsyncNamespace_send m_AsyncServer_send.
Proof. fwd. Qed.
Theorem AsyncNamespace_call_forwards : forwards_ok h_AsyncNamespace_call m_AsyncServer_call.
Proof. fwd. Qed.
Theorem AsyncNamespace_enter_room_forwards : forwards_ok h_AsyncNamespace_enter_room m_AsyncServer_enter_room.
Proof. fwd. Qed.
Theorem AsyncNamespace_leave_room_forwards : forwards_ok h_AsyncNamespace_leave_room m_AsyncServer_leave_room.
Proof. fwd. Qed.
Theorem AsyncNamespace_close_room_forwards : forwards_ok h_AsyncNamespace_close_room m_AsyncServer_close_room.
Proof. fwd. Qed.
Theorem AsyncNamespace_rooms_forwards : forwards_ok h_AsyncNamespace_rooms m_AsyncServer_rooms.
Proof. fwd. Qed.
Theorem AsyncNamespace_get_session_forwards : forwards_ok h_AsyncNamespace_get_session m_AsyncServer_get_session.
Proof. fwd. Qed.
Theorem AsyncNamespace_save_session_forwards : forwards_ok h_AsyncNamespace_save_session m_AsyncServer_save_session.
Proof. fwd. Qed.
Theorem AsyncNamespace_session_forwards : forwards_ok h_AsyncNamespace_session m_AsyncServer_session.
Proof. fwd. Qed.
Theorem AsyncNamespace_disconnect_forwards : forwards_ok h_AsyncNamespace_disconnect m_AsyncServer_disconnect.
Proof. fwd. Qed.
Theorem AsyncClientNamespace_emit_forwards : forwards_ok h_AsyncClientNamespace_emit m_AsyncClient_emit.
Proof. fwd. Qed.
Theorem AsyncClientNamespace_send_forwards : forwards_ok h_AsyncClientNamespace_send m_AsyncClient_send.
Proof. fwd. Qed.
Theorem AsyncClientNamespace_call_forwards : forwards_ok h_AsyncClientNamespace_call m_AsyncClient_call.
Proof. fwd. Qed.
Theorem AsyncClientNamespace_disconnect_forwards : forwards_ok h_AsyncClientNamespace_disconnect m_AsyncClient_disconnect.
Proof. fwd. Qed.

(* ---- the generated table covers exactly the helpers the property names ---- *)
Definition expected_cover : list (name * name * name) :=
   [ (s2l "Namespace", s2l "emit", s2l "Server")
   ; (s2l "Namespace", s2l "send", s2l "Server")
   ; (s2l "Namespace", s2l "call", s2l "Server")
   ; (s2l "Namespace", s2l "enter_room", s2l "Server")
   ; (s2l "Namespace", s2l "leave_room", s2l "Server")
   ; (s2l "Namespace", s2l "close_room", s2l "Server")
   ; (s2l "Namespace", s2l "rooms", s2l "Server")
   ; (s2l "Namespace", s2l "get_session", s2l "Server")
   ; (s2l "Namespace", s2l "save_session", s2l "Server")
   ; (s2l "Namespace", s2l "session", s2l "Server")
   ; (s2l "Namespace", s2l "disconnect", s2l "Server")
   ; (s2l "ClientNamespace", s2l "emit", s2l "Client")
   ; (s2l "ClientNamespace", s2l "send", s2l "Client")
   ; (s2l "ClientNamespace", s2l "call", s2l "Client")
   ; (s2l "ClientNamespace", s2l "disconnect", s2l "Client")
   ; (s2l "AsyncNamespace", s2l "emit", s2l "AsyncServer")
   ; (s2l "AsyncNamespace", s2l "send", s2l "AsyncServer")
   ; (s2l "AsyncNamespace", s2l "call", s2l "AsyncServer")
   ; (s2l "AsyncNamespace", s2l "enter_room", s2l "AsyncServer")
   ; (s2l "AsyncNamespace", s2l "leave_room", s2l "AsyncServer")
   ; (s2l "AsyncNamespace", s2l "close_room", s2l "AsyncServer")
   ; (s2l "AsyncNamespace", s2l "rooms", s2l "AsyncServer")
   ; (s2l "AsyncNamespace", s2l "get_session", s2l "AsyncServer")
   ; (s2l "AsyncNamespace", s2l "save_session", s2l "AsyncServer")
   ; (s2l "AsyncNamespace", s2l "session", s2l "AsyncServer")
   ; (s2l "AsyncNamespace", s2l "disconnect", s2l "AsyncServer")
   ; (s2l "AsyncClientNamespace", s2l "emit", s2l "AsyncClient")
   ; (s2l "AsyncClientNamespace", s2l "send", s2l "AsyncClient")
   ; (s2l "AsyncClientNamespace", s2l "call", s2l "AsyncClient")
   ; (s2l "AsyncClientNamespace", s2l "disconnect", s2l "AsyncClient") ].
Theorem all_pairs_cover :
  map (fun hu => (h_class (fst hu), h_name (fst hu), m_class (snd hu))) all_pairs = expected_cover.
Proof. vm_compute. reflexivity. Qed.

Theorem all_helpers_forward :
  Forall (fun hu => forwards_ok (fst hu) (snd hu)) all_pairs.
Proof.
  assert (H : forallb (fun hu => forwards_okb (fst hu) (snd hu)) all_pairs = true)
    by (vm_compute; reflexivity).
  rewrite forallb_forall in H. apply Forall_forall. intros hu Hin.
  apply forwards_okb_sound. apply H. exact Hin.
Qed.

(* ---- the hypothesis of forwards_ok is satisfiable: a concrete call, end to end ---- *)
Example Namespace_emit_run :
  let c := mkCall [PStr (s2l "ev"); PObj 1]
                  [(s2l "skip_sid", PList []); (s2l "namespace", PStr [])] in
  (env <- bind_call pid (h_sig h_Namespace_emit) c ;;
   c' <- run_body pid por (PStr (s2l "/chat")) env (h_body h_Namespace_emit) ;;
   bind_call pid (m_sig m_Server_emit) c')
  = Ok [ (s2l "event", PStr (s2l "ev")); (s2l "data", PObj 1); (s2l "to", PNone);
         (s2l "room", PNone); (s2l "skip_sid", PList []);
         (s2l "namespace", PStr (s2l "/chat"));        (* '' is falsy: own namespace *)
         (s2l "callback", PNone); (s2l "ignore_queue", PBool false) ].
Proof. vm_compute. reflexivity. Qed.

Example AsyncNamespace_call_timeout_zero :
  let c := mkCall [PStr (s2l "ev")] [(s2l "timeout", PInt 0); (s2l "namespace", PStr (s2l "/other"))] in
  (env <- bind_call pid (h_sig h_AsyncNamespace_call) c ;;
   c' <- run_body pid por (PStr (s2l "/chat")) env (h_body h_AsyncNamespace_call) ;;
   env' <- bind_call pid (m_sig m_AsyncServer_call) c' ;;
   Ok (lookup (s2l "timeout") env', lookup ns_name env'))
  = Ok (Some (PInt 0), Some (PStr (s2l "/other"))).
Proof. vm_compute. reflexivity. Qed.

(* Python's binding errors *)
Example bind_unknown_keyword :
  bind_call pid (h_sig h_Namespace_close_room) (mkCall [PObj 1] [(s2l "bogus", PObj 2)]) = Err TypeError.
Proof. vm_compute. reflexivity. Qed.
Example bind_duplicate :
  bind_call pid (h_sig h_Namespace_close_room) (mkCall [PObj 1] [(s2l "room", PObj 2)]) = Err TypeError.
Proof. vm_compute. reflexivity. Qed.
Example bind_missing :
  bind_call pid (h_sig h_Namespace_enter_room) (mkCall [PObj 1] [(s2l "namespace", PObj 2)]) = Err TypeError.
Proof. vm_compute. reflexivity. Qed.

(* ---- the specification is not vacuous: hand-written defective helpers are rejected ---- *)
Definition u_emit : method :=
  mkMethod (s2l "Server") (s2l "Server") TServer (s2l "emit") false
    [(s2l "event", None); (s2l "data", Some PNone); (s2l "to", Some PNone); (s2l "room", Some PNone);
     (s2l "skip_sid", Some PNone); (s2l "namespace", Some PNone); (s2l "callback", Some PNone);
     (s2l "ignore_queue", Some (PBool false))].
Definition mk_emit (kw : list (name * expr)) : helper :=
  mkHelper (s2l "Namespace") (s2l "Namespace") (s2l "emit") false (m_sig u_emit)
    (Return (Call TServer (s2l "emit") [EParam (s2l "event")] kw)).
Definition P (s : string) := EParam (s2l s).
Definition ns_or_self := EOr (EParam ns_name) ESelfNamespace.
Definition good_emit := mk_emit
  [(s2l "data", P "data"); (s2l "to", P "to"); (s2l "room", P "room"); (s2l "skip_sid", P "skip_sid");
   (ns_name, ns_or_self); (s2l "callback", P "callback"); (s2l "ignore_queue", P "ignore_queue")].
Definition bad_drop := mk_emit        (* ignore_queue not forwarded *)
  [(s2l "data", P "data"); (s2l "to", P "to"); (s2l "room", P "room"); (s2l "skip_sid", P "skip_sid");
   (ns_name, ns_or_self); (s2l "callback", P "callback")].
Definition bad_ns := mk_emit          (* namespace override ignored *)
  [(s2l "data", P "data"); (s2l "to", P "to"); (s2l "room", P "room"); (s2l "skip_sid", P "skip_sid");
   (ns_name, ESelfNamespace); (s2l "callback", P "callback"); (s2l "ignore_queue", P "ignore_queue")].
Definition bad_plain_ns := mk_emit    (* namespace forwarded without the fallback *)
  [(s2l "data", P "data"); (s2l "to", P "to"); (s2l "room", P "room"); (s2l "skip_sid", P "skip_sid");
   (ns_name, EParam ns_name); (s2l "callback", P "callback"); (s2l "ignore_queue", P "ignore_queue")].
Definition bad_swap := mk_emit        (* to and room exchanged *)
  [(s2l "data", P "data"); (s2l "to", P "room"); (s2l "room", P "to"); (s2l "skip_sid", P "skip_sid");
   (ns_name, ns_or_self); (s2l "callback", P "callback"); (s2l "ignore_queue", P "ignore_queue")].
Definition bad_const := mk_emit       (* skip_sid replaced by a constant *)
  [(s2l "data", P "data"); (s2l "to", P "to"); (s2l "room", P "room"); (s2l "skip_sid", EConst PNone);
   (ns_name, ns_or_self); (s2l "callback", P "callback"); (s2l "ignore_queue", P "ignore_queue")].
Definition bad_or := mk_emit          (* falsy-but-meaningful skip_sid=[] replaced *)
  [(s2l "data", P "data"); (s2l "to", P "to"); (s2l "room", P "room");
   (s2l "skip_sid", EOr (P "skip_sid") (EConst PNone));
   (ns_name, ns_or_self); (s2l "callback", P "callback"); (s2l "ignore_queue", P "ignore_queue")].
Definition bad_twice := mk_emit       (* data bound twice: TypeError *)
  [(s2l "event", P "data"); (s2l "data", P "data"); (s2l "to", P "to"); (s2l "room", P "room");
   (s2l "skip_sid", P "skip_sid"); (ns_name, ns_or_self); (s2l "callback", P "callback");
   (s2l "ignore_queue", P "ignore_queue")].

Example good_emit_accepted : forwards_okb good_emit u_emit = true.
Proof. vm_compute. reflexivity. Qed.
Example defective_helpers_rejected :
  map (fun h => forwards_okb h u_emit)
      [bad_drop; bad_ns; bad_plain_ns; bad_swap; bad_const; bad_or; bad_twice]
  = [false; false; false; false; false; false; false].
Proof. vm_compute. reflexivity. Qed.
(* the smallest failing argument subsets, as the check reports them *)
Example bad_drop_witness :
  existsb (list_eqb str_eqb [s2l "event"; s2l "ignore_queue"]) (forwards_bad bad_drop u_emit) = true.
Proof. vm_compute. reflexivity. Qed.
Example bad_ns_witness :
  existsb (list_eqb str_eqb [s2l "event"; ns_name]) (forwards_bad bad_ns u_emit) = true.
Proof. vm_compute. reflexivity. Qed.

(* and the rejection is semantic, not an artefact of the checker *)
Theorem bad_drop_refuted : ~ forwards_ok bad_drop u_emit.
Proof.
  intros [_ H].
  specialize (H (PStr (s2l "/chat"))
                (mkCall [PObj 1] [(s2l "ignore_queue", PBool true)]) _ eq_refl).
  destruct H as [c' [env' [Hrun [Hbind [_ [Hsh _]]]]]].
  vm_compute in Hrun. inversion Hrun; subst c'; clear Hrun.
  vm_compute in Hbind. inversion Hbind; subst env'; clear Hbind.
  specialize (Hsh (s2l "ignore_queue") (PBool true)).
  assert (E : lookup (s2l "ignore_queue")
     [(s2l "event", PObj 1); (s2l "data", PNone); (s2l "to", PNone); (s2l "room", PNone);
      (s2l "skip_sid", PNone); (ns_name, PStr (s2l "/chat")); (s2l "callback", PNone);
      (s2l "ignore_queue", PBool false)] = Some (PBool true)).
  { apply Hsh.
    - intros E. vm_compute in E. discriminate.
    - vm_compute. tauto.
    - vm_compute. reflexivity. }
  vm_compute in E. discriminate.
Qed.
