(* C17 - the life of a namespace object, over the class descriptions regenerated from /repo
   (Gen_forward.v: k_<Class>, pairs_<Class>): whatever was attached, registered, dispatched or
   called before, every helper forwards with the namespace the object was created for. *)
From VT Require Import Base.PyVal Forward.Forward Forward.ForwardSound Forward.Gen_forward
                       Forward.ForwardProofs Forward.Life Forward.LifeSound.

Ltac life := apply life_okb_sound; vm_compute; reflexivity.

Theorem Namespace_life : life_ok k_Namespace pairs_Namespace.
Proof. life. Qed.
Theorem ClientNamespace_life : life_ok k_ClientNamespace pairs_ClientNamespace.
Proof. life. Qed.
Theorem AsyncNamespace_life : life_ok k_AsyncNamespace pairs_AsyncNamespace.
Proof. life. Qed.
Theorem AsyncClientNamespace_life : life_ok k_AsyncClientNamespace pairs_AsyncClientNamespace.
Proof. life. Qed.

(* the per-class tables are exactly the table of the forwarding theorems, class by class *)
Theorem all_classes_cover :
  flat_map snd all_classes = all_pairs /\
  map (fun kp => k_class (fst kp)) all_classes =
    [s2l "Namespace"; s2l "ClientNamespace"; s2l "AsyncNamespace"; s2l "AsyncClientNamespace"] /\
  forallb (fun kp => forallb (fun hu => list_eqb N.eqb (h_class (fst hu)) (k_class (fst kp))) (snd kp))
          all_classes = true.
Proof. vm_compute. repeat split; reflexivity. Qed.

(* ---- the hypotheses are satisfiable and the model does something: a catch-all object, two events
        from different namespaces routed to it, helper calls in between and inside ---- *)
Definition ev_call : call pv := mkCall [PStr (s2l "ev")] [].
Example catch_all_life :
  let ops := [LRegister; LHelper h_Namespace_emit m_Server_emit ev_call;
              LEnter (PStr (s2l "/chat")); LHelper h_Namespace_emit m_Server_emit ev_call; LExit;
              LEnter (PStr (s2l "/news")); LExit;
              LHelper h_Namespace_rooms m_Server_rooms (mkCall [PObj 7] []);
              LHelper h_Namespace_rooms m_Server_rooms (mkCall [PObj 7] [(ns_name, PStr (s2l "/x"))])] in
  (st0 <- init_state k_Namespace (mkCall [PStr (s2l "*")] []) ;;
   Ok (map (fun r => match r with
                     | RKey key => Some key
                     | RCall (Ok (_, _, env')) => Some (match lookup ns_name env' with
                                                        | Some v => Ok v | None => Err KeyError end)
                     | _ => None
                     end) (life_run k_Namespace st0 ops)))
  = Ok [Some (Ok (PStr (s2l "*"))); Some (Ok (PStr (s2l "*")));
        None; Some (Ok (PStr (s2l "*"))); None; None; None;
        Some (Ok (PStr (s2l "*"))); Some (Ok (PStr (s2l "/x")))].
Proof. vm_compute. reflexivity. Qed.
Example default_namespace_created :
  map created_ns [mkCall [] []; mkCall [PNone] []; mkCall [PStr []] []; mkCall [] [(ns_name, PStr (s2l "/a"))]]
  = [root_ns; root_ns; root_ns; PStr (s2l "/a")].
Proof. vm_compute. reflexivity. Qed.

(* ---- the specification is not vacuous: hand-written classes whose dispatch path or attribute
        protocol lets the namespace follow the events are rejected (independent of the generated
        text: good_emit / u_emit are the hand-written pair of ForwardProofs.v) ---- *)
Definition hand_ctor : list (name * expr) := [(ns_name, ns_or_root); (s2l "server", EConst PNone)].
Definition hand_sig : signature := [(ns_name, Some PNone)].
Definition hand_attach : list (name * wexpr) := [(s2l "server", WOpaque)].
Definition k_hand : nsclass :=
  mkNsClass (s2l "Namespace") hand_sig hand_ctor true hand_attach [] KSelfNamespace [].
(* `handler.namespace = namespace` in _get_namespace_handler *)
Definition k_follow : nsclass :=
  mkNsClass (s2l "Namespace") hand_sig hand_ctor true hand_attach [] KSelfNamespace [(ns_name, WEventNs)].
(* `namespace` turned into a property / served by __getattr__; the dispatcher leaves a note *)
Definition k_property : nsclass :=
  mkNsClass (s2l "Namespace") hand_sig
            [(s2l "_namespace", ns_or_root); (s2l "_event_namespace", EConst PNone); (s2l "server", EConst PNone)]
            false hand_attach [] KSelfNamespace [(s2l "_event_namespace", WEventNs)].
(* the constructor stores the argument without the `or '/'` *)
Definition k_no_default : nsclass :=
  mkNsClass (s2l "Namespace") hand_sig [(ns_name, EParam ns_name)] true hand_attach [] KSelfNamespace [].
(* _set_server overwrites the namespace *)
Definition k_attach_resets : nsclass :=
  mkNsClass (s2l "Namespace") hand_sig hand_ctor true [(ns_name, WConst root_ns)] [] KSelfNamespace [].
(* register_namespace files the object under something else *)
Definition k_other_key : nsclass :=
  mkNsClass (s2l "Namespace") hand_sig hand_ctor true hand_attach [] KUnsupported [].
Definition hand_tbl : list (helper * method) := [(good_emit, u_emit)].
Example hand_class_accepted : life_okb k_hand hand_tbl = true.
Proof. vm_compute. reflexivity. Qed.
Example defective_classes_rejected :
  map (fun k => life_okb k hand_tbl) [k_follow; k_property; k_no_default; k_attach_resets; k_other_key]
  = [false; false; false; false; false].
Proof. vm_compute. reflexivity. Qed.

(* and the rejection is semantic: after one event from /chat the catch-all object of k_follow
   forwards '/chat' where the specification demands '*' *)
Theorem k_follow_refuted : ~ life_ok k_follow hand_tbl.
Proof.
  intros H.
  destruct (H (mkCall [PStr (s2l "*")] []) _ eq_refl) as [st0 [Hinit Hops]].
  vm_compute in Hinit. inversion Hinit; subst st0; clear Hinit.
  destruct (Hops [LEnter (PStr (s2l "/chat"))]) as [_ Hh].
  destruct (Hh good_emit u_emit ev_call _ (or_introl eq_refl) eq_refl)
    as [c' [env' [Hstep [_ [_ [Hns _]]]]]].
  vm_compute in Hstep. inversion Hstep; subst c' env'; clear Hstep.
  assert (Hin : In ns_name (sig_names (m_sig u_emit))) by (vm_compute; tauto).
  specialize (Hns Hin). vm_compute in Hns. discriminate.
Qed.
(* while the accepted hand-written class is fine in the same history *)
Example k_hand_same_history :
  (st0 <- init_state k_hand (mkCall [PStr (s2l "*")] []) ;;
   match snd (step k_hand (reach k_hand st0 [LEnter (PStr (s2l "/chat"))]) (LHelper good_emit u_emit ev_call)) with
   | RCall (Ok (_, _, env')) => Ok (lookup ns_name env')
   | _ => Err OtherError
   end) = Ok (Some (PStr (s2l "*"))).
Proof. vm_compute. reflexivity. Qed.
