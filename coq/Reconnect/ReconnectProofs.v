(* C10 - proofs about the model Reconnect.v.  Property statements are re-exported in Props/C10.v. *)
From Coq Require Import List Bool Arith ZArith QArith Qabs Qminmax Lia Lqa ZifyBool Setoid.
From VT Require Import Reconnect.Reconnect.
Import ListNotations.
Local Open Scope nat_scope.

(* ================================================================== *)
(* Part A - the loop of _handle_reconnect                              *)
(* ================================================================== *)

Lemma cap_compat p x y : (x == y)%Q -> (cap p x == cap p y)%Q.
Proof.
  intro H. unfold cap.
  destruct (Qle_bool x (delay_max p)) eqn:Hx, (Qle_bool y (delay_max p)) eqn:Hy;
    try exact H; try reflexivity.
  - apply Qle_bool_iff in Hx. rewrite H in Hx. apply Qle_bool_iff in Hx. congruence.
  - apply Qle_bool_iff in Hy. rewrite <- H in Hy. apply Qle_bool_iff in Hy. congruence.
Qed.

Lemma cap_is_min p x : (cap p x == Qmin x (delay_max p))%Q.
Proof.
  unfold cap. destruct (Qle_bool x (delay_max p)) eqn:Hx.
  - apply Qle_bool_iff in Hx. symmetry. apply Q.min_l. exact Hx.
  - symmetry. apply Q.min_r. apply Qlt_le_weak. apply Qnot_le_lt. intro H.
    apply Qle_bool_iff in H. congruence.
Qed.

(* the reference delay is the one of the property text: min(d * 2^k, dmax) *)
Lemma ideal_is_min p k : (ideal p k == Qmin (delay0 p * pow2 k) (delay_max p))%Q.
Proof. apply cap_is_min. Qed.

Lemma next_wait_fst p cur r : (fst (next_wait p cur r) == cap p cur + rfactor p * (2 * r - 1))%Q.
Proof. unfold next_wait, cap. simpl. reflexivity. Qed.
Lemma next_wait_snd p cur r : snd (next_wait p cur r) = (cur * 2)%Q.
Proof. reflexivity. Qed.

Lemma loop_unfold p count cur r w s :
  reconnect_loop p count cur ((r, w) :: s) =
  let delay := fst (next_wait p cur r) in
  match w with
  | WAbort => ([(delay, TAbort)], LAborted)
  | WTry ok =>
      match after_attempt p (S count) ok with
      | DSuccess => ([(delay, TOk)], LReconnected)
      | DGiveUp => ([(delay, TFail)], LGaveUp)
      | DContinue =>
          let '(tr, o) := reconnect_loop p (S count) (cur * 2)%Q s in ((delay, TFail) :: tr, o)
      end
  end.
Proof. reflexivity. Qed.

Lemma loop_waits_gen p : forall s count cur k w,
  nth_error (waits (fst (reconnect_loop p count cur s))) k = Some w ->
  exists r, nth_error (map fst s) k = Some r /\
            (w == cap p (cur * pow2 k) + rfactor p * (2 * r - 1))%Q.
Proof.
  induction s as [|[r ws] s IH]; intros count cur k w H.
  - destruct k; discriminate.
  - rewrite loop_unfold in H. cbv zeta in H.
    assert (Hhead : forall x, (x == fst (next_wait p cur r))%Q ->
              (x == cap p (cur * pow2 0) + rfactor p * (2 * r - 1))%Q).
    { intros x Hx. rewrite Hx, next_wait_fst.
      rewrite (cap_compat p (cur * pow2 0) cur); [reflexivity|simpl; ring]. }
    destruct ws as [|ok].
    + destruct k as [|k]; simpl in H; [|destruct k; discriminate].
      inversion H; subst. exists r. split; [reflexivity|]. apply Hhead. reflexivity.
    + destruct (after_attempt p (S count) ok) eqn:Hd.
      * destruct k as [|k]; simpl in H; [|destruct k; discriminate].
        inversion H; subst. exists r. split; [reflexivity|]. apply Hhead. reflexivity.
      * destruct k as [|k]; simpl in H; [|destruct k; discriminate].
        inversion H; subst. exists r. split; [reflexivity|]. apply Hhead. reflexivity.
      * destruct (reconnect_loop p (S count) (cur * 2)%Q s) as [tr o] eqn:Hrec.
        destruct k as [|k]; simpl in H.
        -- inversion H; subst. exists r. split; [reflexivity|]. apply Hhead. reflexivity.
        -- specialize (IH (S count) (cur * 2)%Q k w). rewrite Hrec in IH. simpl in IH.
           destruct (IH H) as [r' [Hr' Hw]]. exists r'. split; [exact Hr'|].
           rewrite Hw. rewrite (cap_compat p (cur * 2 * pow2 k) (cur * pow2 (S k))); [reflexivity|].
           simpl. ring.
Qed.

(* C10_delay, exact form: the k-th wait (k = 0 first) is min(d*2^k, dmax) + rf*(2 r_k - 1):
   cap before jitter, the jitter does not enter the doubling *)
Theorem delay_exact p s k w :
  nth_error (waits (fst (handle_reconnect p s))) k = Some w ->
  exists r, nth_error (map fst s) k = Some r /\
            (w == Qmin (delay0 p * pow2 k) (delay_max p) + rfactor p * (2 * r - 1))%Q.
Proof.
  intro H. destruct (loop_waits_gen p s 0 (delay0 p) k w H) as [r [Hr Hw]].
  exists r. split; [exact Hr|]. rewrite Hw. rewrite cap_is_min. reflexivity.
Qed.

Lemma jitter_bound rf r : (0 <= r)%Q -> (r < 1)%Q -> (Qabs (rf * (2 * r - 1)) <= Qabs rf)%Q.
Proof.
  intros H0 H1. rewrite Qabs_Qmult.
  assert (Hj : (Qabs (2 * r - 1) <= 1)%Q).
  { apply Qabs_Qle_condition. split; lra. }
  setoid_replace (Qabs rf)%Q with (Qabs rf * 1)%Q at 2 by ring.
  rewrite (Qmult_comm (Qabs rf) (Qabs (2 * r - 1))), (Qmult_comm (Qabs rf) 1).
  apply Qmult_le_compat_r; [exact Hj|apply Qabs_nonneg].
Qed.

(* C10_delay: "min(d*2^(k-1), dmax) give or take randomization_factor" *)
Theorem delay_bound p s k w :
  (forall r, In r (map fst s) -> (0 <= r)%Q /\ (r < 1)%Q) ->
  nth_error (waits (fst (handle_reconnect p s))) k = Some w ->
  (Qabs (w - Qmin (delay0 p * pow2 k) (delay_max p)) <= Qabs (rfactor p))%Q.
Proof.
  intros Hr H. destruct (delay_exact p s k w H) as [r [Hk Hw]].
  assert (Hin : In r (map fst s)) by (eapply nth_error_In; exact Hk).
  destruct (Hr r Hin) as [H0 H1].
  setoid_replace (w - Qmin (delay0 p * pow2 k) (delay_max p))%Q with (rfactor p * (2 * r - 1))%Q
    by (rewrite Hw; ring).
  apply jitter_bound; assumption.
Qed.

(* ---- attempts ---- *)
Lemma n_attempts_cons x tr : n_attempts (x :: tr) = (if is_attempt x then 1 else 0) + n_attempts tr.
Proof. unfold n_attempts. simpl. destruct (is_attempt x); reflexivity. Qed.

Lemma loop_attempts_gen p : forall s count cur,
  (0 < attempts p)%Z -> (Z.of_nat count < attempts p)%Z ->
  (Z.of_nat (n_attempts (fst (reconnect_loop p count cur s)) + count) <= attempts p)%Z.
Proof.
  induction s as [|[r ws] s IH]; intros count cur Hpos Hc.
  - simpl. lia.
  - rewrite loop_unfold. cbv zeta. destruct ws as [|ok].
    + simpl. lia.
    + unfold after_attempt. destruct ok.
      * simpl. lia.
      * destruct (negb (attempts p =? 0)%Z && (attempts p <=? Z.of_nat (S count))%Z) eqn:Hg.
        -- simpl. lia.
        -- destruct (reconnect_loop p (S count) (cur * 2)%Q s) as [tr o] eqn:Hrec.
           cbn [fst]. rewrite n_attempts_cons. cbn [is_attempt snd].
           assert (Hc' : (Z.of_nat (S count) < attempts p)%Z).
           { apply andb_false_iff in Hg as [Hg|Hg].
             - apply negb_false_iff in Hg. lia.
             - lia. }
           specialize (IH (S count) (cur * 2)%Q Hpos Hc'). rewrite Hrec in IH. cbn [fst] in IH. lia.
Qed.

(* C10_attempts (1): at most reconnection_attempts attempts when it is positive *)
Theorem attempts_bounded p s :
  (0 < attempts p)%Z ->
  (Z.of_nat (n_attempts (fst (handle_reconnect p s))) <= attempts p)%Z.
Proof.
  intro Hpos. pose proof (loop_attempts_gen p s 0 (delay0 p) Hpos) as H.
  simpl in H. rewrite Nat.add_0_r in H. apply H. lia.
Qed.

Lemma loop_all_fail p : forall m count cur,
  attempts p = 0%Z ->
  let res := reconnect_loop p count cur (repeat (0%Q, WTry false) m) in
  n_attempts (fst res) = m /\ snd res = LRunning.
Proof.
  induction m as [|m IH]; intros count cur H0; [split; reflexivity|].
  simpl repeat. cbv zeta. rewrite loop_unfold. cbv zeta.
  unfold after_attempt. rewrite H0. simpl negb. simpl andb. cbv iota.
  destruct (IH (S count) (cur * 2)%Q H0) as [Hn Ho].
  destruct (reconnect_loop p (S count) (cur * 2)%Q (repeat (0%Q, WTry false) m)) as [tr o].
  simpl in *. rewrite n_attempts_cons. simpl. split; congruence.
Qed.

(* C10_attempts (2): no limit when reconnection_attempts = 0 *)
Theorem attempts_unbounded p :
  attempts p = 0%Z ->
  forall N, exists s, N < n_attempts (fst (handle_reconnect p s)) /\ snd (handle_reconnect p s) = LRunning.
Proof.
  intros H0 N. exists (repeat (0%Q, WTry false) (S N)).
  destruct (loop_all_fail p (S N) 0 (delay0 p) H0) as [Hn Ho].
  unfold handle_reconnect. split; [rewrite Hn; lia|exact Ho].
Qed.

(* C10_attempts (3): the loop stops at the first success: a successful attempt is the last entry
   of the trace and the outcome is LReconnected; conversely LReconnected ends with a success *)
Lemma loop_success_last p : forall s count cur i x,
  nth_error (fst (reconnect_loop p count cur s)) i = Some x -> is_ok x = true ->
  S i = List.length (fst (reconnect_loop p count cur s)) /\
  snd (reconnect_loop p count cur s) = LReconnected.
Proof.
  induction s as [|[r ws] s IH]; intros count cur i x H Hok.
  - destruct i; discriminate.
  - rewrite loop_unfold in *. cbv zeta in *. destruct ws as [|ok].
    + destruct i as [|i]; simpl in H; [|destruct i; discriminate].
      inversion H; subst. discriminate.
    + destruct (after_attempt p (S count) ok) eqn:Hd.
      * destruct i as [|i]; simpl in H; [|destruct i; discriminate]. split; reflexivity.
      * destruct i as [|i]; simpl in H; [|destruct i; discriminate].
        inversion H; subst. discriminate.
      * specialize (IH (S count) (cur * 2)%Q).
        destruct (reconnect_loop p (S count) (cur * 2)%Q s) as [tr o] eqn:Hrec.
        destruct i as [|i]; simpl in H.
        -- inversion H; subst. discriminate.
        -- destruct (IH i x H Hok) as [Hl Ho]. simpl in *. split; congruence.
Qed.

Theorem stops_at_first_success p s i x :
  nth_error (fst (handle_reconnect p s)) i = Some x -> is_ok x = true ->
  S i = List.length (fst (handle_reconnect p s)) /\ snd (handle_reconnect p s) = LReconnected.
Proof. apply loop_success_last. Qed.

Lemma loop_outcomes p : forall s count cur,
  match snd (reconnect_loop p count cur s) with
  | LReconnected => exists w, last (fst (reconnect_loop p count cur s)) (0%Q, TAbort) = (w, TOk)
  | LGaveUp => attempts p <> 0%Z /\
               (attempts p <= Z.of_nat (n_attempts (fst (reconnect_loop p count cur s)) + count))%Z
  | LAborted => exists w, last (fst (reconnect_loop p count cur s)) (0%Q, TOk) = (w, TAbort)
  | LRunning => True
  end.
Proof.
  induction s as [|[r ws] s IH]; intros count cur; [exact I|].
  rewrite loop_unfold. cbv zeta. destruct ws as [|ok].
  - simpl. eexists; reflexivity.
  - unfold after_attempt. destruct ok.
    + simpl. eexists; reflexivity.
    + destruct (negb (attempts p =? 0)%Z && (attempts p <=? Z.of_nat (S count))%Z) eqn:Hg.
      * simpl snd. simpl fst. apply andb_true_iff in Hg as [Hg1 Hg2].
        apply negb_true_iff in Hg1. unfold n_attempts. simpl. split; lia.
      * specialize (IH (S count) (cur * 2)%Q).
        destruct (reconnect_loop p (S count) (cur * 2)%Q s) as [tr o] eqn:Hrec.
        simpl snd in *. simpl fst in *. destruct o.
        -- destruct IH as [w Hw]. exists w. destruct tr; [discriminate|]. exact Hw.
        -- destruct IH as [Hn Hle]. split; [exact Hn|]. rewrite n_attempts_cons. simpl. lia.
        -- destruct IH as [w Hw]. exists w. destruct tr; [discriminate|]. exact Hw.
        -- exact I.
Qed.

(* giving up happens exactly when the limit is reached (never when the limit is 0) *)
Theorem gave_up_only_at_limit p s :
  snd (handle_reconnect p s) = LGaveUp ->
  attempts p <> 0%Z /\ (attempts p <= Z.of_nat (n_attempts (fst (handle_reconnect p s))))%Z.
Proof.
  intro H. pose proof (loop_outcomes p s 0 (delay0 p)) as L. unfold handle_reconnect in *.
  rewrite H in L. rewrite Nat.add_0_r in L. exact L.
Qed.

(* an abort ends the loop without an attempt at that wait *)
Theorem abort_is_last p s i x :
  nth_error (fst (handle_reconnect p s)) i = Some x -> snd x = TAbort ->
  S i = List.length (fst (handle_reconnect p s)) /\ snd (handle_reconnect p s) = LAborted.
Proof.
  unfold handle_reconnect. generalize 0 (delay0 p). revert i x.
  induction s as [|[r ws] s IH]; intros i x count cur H Hx.
  - destruct i; discriminate.
  - rewrite loop_unfold in *. cbv zeta in *. destruct ws as [|ok].
    + destruct i as [|i]; simpl in H; [|destruct i; discriminate]. split; reflexivity.
    + destruct (after_attempt p (S count) ok) eqn:Hd.
      * destruct i as [|i]; simpl in H; [|destruct i; discriminate]. inversion H; subst. discriminate.
      * destruct i as [|i]; simpl in H; [|destruct i; discriminate]. inversion H; subst. discriminate.
      * specialize (IH).
        destruct (reconnect_loop p (S count) (cur * 2)%Q s) as [tr o] eqn:Hrec.
        destruct i as [|i]; simpl in H.
        -- inversion H; subst. discriminate.
        -- specialize (IH i x (S count) (cur * 2)%Q). rewrite Hrec in IH.
           destruct (IH H Hx) as [Hl Ho]. simpl in *. split; congruence.
Qed.

Example delay_example :
  waits (fst (handle_reconnect (mkParams true 0 1 5 (1#2) false)
     [(1#4, WTry false); (1#2, WTry false); (0, WTry false); (3#4, WTry false); (0, WTry true)]%Q)) =
  [6#8; 8#4; 7#2; 42#8; 9#2]%Q.
Proof. reflexivity. Qed.

(* ================================================================== *)
(* Part B - the client-level machine                                   *)
(* ================================================================== *)

(* effects of the paths that only notify / close: application handlers, DISCONNECT packets,
   eio.disconnect calls *)
Definition passive (x : eff) : bool :=
  match x with
  | FHandler _ _ _ | FSendDisconnect _ | FEioDisconnect _ | FSendEvent _ _ | FEmit _ | FCallback _ => true
  | _ => false
  end.
Definition core (st : state) := (rtask st, aflag st, rcl st, tasks st, next_id st).

Lemma Forall_finals l : Forall (fun x => passive x = true) (finals l).
Proof. unfold finals. apply Forall_forall. intros x Hx. apply in_map_iff in Hx as [n [<- _]]. reflexivity. Qed.

Lemma Forall_flat_map {A B} (P : B -> Prop) (f : A -> list B) l :
  (forall a, In a l -> Forall P (f a)) -> Forall P (flat_map f l).
Proof.
  intro H. apply Forall_forall. intros x Hx. apply in_flat_map in Hx as [a [Ha Hx]].
  specialize (H a Ha). rewrite Forall_forall in H. auto.
Qed.

(* ---- (1) _handle_eio_disconnect ---- *)
Lemma hed_spec p st why :
  let '(st', e, sp) := handle_eio_disconnect p st why in
  est st' = est st /\ args st' = args st /\ cns st' = cns st /\
  aflag st' = aflag st /\ rcl st' = rcl st /\ tasks st' = tasks st /\ connected st' = false /\
  (if will_reconnect p st && negb (is_some (rtask st))
   then sp = Some (next_id st) /\ rtask st' = Some (next_id st) /\ next_id st' = S (next_id st) /\
        exists e0, e = e0 ++ [FSpawn (next_id st)] /\ Forall (fun x => passive x = true) e0
   else sp = None /\ rtask st' = rtask st /\ next_id st' = next_id st /\
        Forall (fun x => passive x = true) e).
Proof.
  unfold handle_eio_disconnect.
  set (will := will_reconnect p st).
  assert (Hpas : forall w : bool, Forall (fun x => passive x = true)
            (flat_map (fun n => FHandler HDisconnect n (Some why) ::
                                (if w then [] else [FHandler HFinal n None])) (nss st))).
  { intro w. apply Forall_flat_map. intros n _. destruct w; repeat constructor. }
  destruct (connected st) eqn:Hc; cbn [rtask set_connected set_nss set_cbs];
    destruct (will && negb (is_some (rtask st))) eqn:Hw; cbn;
    repeat split; auto; try (eexists; split; [reflexivity|]); auto.
  exists []. split; [reflexivity|constructor].
Qed.

(* the decision itself: an effort is started exactly when reconnection is enabled, engine.io
   still says 'connected' (an accidental loss), and no reconnect task is recorded *)
Theorem spawn_decision p st why :
  snd (handle_eio_disconnect p st why) <> None <->
  reconnection p = true /\ est st = EConn /\ rtask st = None.
Proof.
  pose proof (hed_spec p st why) as H.
  destruct (handle_eio_disconnect p st why) as [[st' e] sp]. simpl.
  unfold will_reconnect in H.
  destruct H as (_ & _ & _ & _ & _ & _ & _ & H).
  destruct (reconnection p), (est st) eqn:He, (rtask st) eqn:Hr; simpl in H;
    destruct H as [Hsp _]; subst sp; split; intro X;
    try congruence; try (destruct X as (? & ? & ?); congruence);
    try (repeat split; congruence).
Qed.

Lemma eio_disconnect_spec p st why :
  let '(st', e) := eio_disconnect p st why in
  core st' = core st /\ est st' = EDisc /\ args st' = args st /\ cns st' = cns st /\
  (connected st = false -> connected st' = false) /\
  (est st = EConn -> connected st' = false) /\
  Forall (fun x => passive x = true) e.
Proof.
  unfold eio_disconnect. destruct (est st) eqn:He.
  - cbn. repeat split; auto; discriminate.
  - pose proof (hed_spec p (set_est st EDisconnecting) why) as H.
    destruct (handle_eio_disconnect p (set_est st EDisconnecting) why) as [[st1 e1] sp].
    unfold will_reconnect in H. cbn [est set_est is_conn] in H. rewrite andb_false_r in H.
    cbn [andb] in H. destruct H as (H1 & H2 & H3 & H4 & H5 & H6 & H7 & H8 & H9 & H10 & H11).
    cbn in *. unfold core. cbn. repeat split; auto; congruence.
  - cbn. repeat split; auto; discriminate.
Qed.

Lemma api_disconnect_spec p st :
  let '(st', e) := api_disconnect p st in
  core st' = core st /\ est st' = EDisc /\ args st' = args st /\ cns st' = cns st /\
  (connected st = false -> connected st' = false) /\
  (est st = EConn -> connected st' = false) /\
  Forall (fun x => passive x = true) e.
Proof.
  unfold api_disconnect. pose proof (eio_disconnect_spec p st RClient) as H.
  destruct (eio_disconnect p st RClient) as [st1 e1].
  destruct H as (H1 & H2 & H3 & H4 & H5 & H6 & H7). repeat split; auto.
  apply Forall_app. split.
  - destruct (is_conn (est st)); [|constructor].
    apply Forall_forall. intros x Hx. apply in_map_iff in Hx as [n [<- _]]. reflexivity.
  - constructor; [reflexivity|exact H7].
Qed.

(* ---- connect() ---- *)
Definition connect_eff (a : cargs) (l : list ns) (x : eff) : Prop :=
  match x with
  | FEioConnect u h t q => u = a_url a /\ h = a_headers a /\ t = a_transports a /\ q = a_path a
  | FSendConnect n au => au = a_auth a /\ In n l
  | FHandler _ _ _ | FSendDisconnect _ | FEioDisconnect _ | FSendEvent _ _ | FEmit _ | FCallback _ => True
  | _ => False
  end.

Lemma passive_connect_eff a l x : passive x = true -> connect_eff a l x.
Proof. destruct x; simpl; try discriminate; auto. Qed.

Lemma connect_replies_effs a : forall l l0 rs cur,
  (forall n, In n l -> In n l0) ->
  Forall (connect_eff a l0) (snd (connect_replies (a_auth a) l rs cur)).
Proof.
  induction l as [|n l IH]; intros l0 rs cur Hsub; [constructor|].
  cbn [connect_replies].
  set (r1 := match hd RAccept rs with
             | RAccept => if mem n cur then (cur, []) else (cur ++ [n], [FHandler HConnect n None])
             | RRefuse => (if n =? 0 then [] else remove_ns n cur, [FHandler HConnectError n None])
             | RSilent => (cur, [])
             end).
  assert (H1 : Forall (connect_eff a l0) (snd r1)).
  { subst r1. destruct (hd RAccept rs); [destruct (mem n cur)| |]; simpl; repeat constructor. }
  destruct r1 as [cur1 e1].
  specialize (IH l0 (tl rs) cur1 (fun m Hm => Hsub m (or_intror Hm))).
  destruct (connect_replies (a_auth a) l (tl rs) cur1) as [cur2 e2].
  simpl in *. constructor; [split; [reflexivity|apply Hsub; left; reflexivity]|].
  apply Forall_app; split; assumption.
Qed.

(* a namespace ends up connected only if its 'connect' handler ran *)
Lemma connect_replies_connected au : forall l rs cur n,
  In n (fst (connect_replies au l rs cur)) ->
  In n cur \/ In (FHandler HConnect n None) (snd (connect_replies au l rs cur)).
Proof.
  induction l as [|m l IH]; intros rs cur n H; [left; exact H|].
  cbn [connect_replies] in *.
  set (r1 := match hd RAccept rs with
             | RAccept => if mem m cur then (cur, []) else (cur ++ [m], [FHandler HConnect m None])
             | RRefuse => (if m =? 0 then [] else remove_ns m cur, [FHandler HConnectError m None])
             | RSilent => (cur, [])
             end) in *.
  assert (H1 : forall k, In k (fst r1) -> In k cur \/ In (FHandler HConnect k None) (snd r1)).
  { subst r1. intros k Hk. destruct (hd RAccept rs).
    - destruct (mem m cur); simpl in *; [left; exact Hk|].
      apply in_app_or in Hk as [Hk|[<-|[]]]; [left; exact Hk|right; left; reflexivity].
    - simpl in *. destruct (m =? 0); [destruct Hk|].
      unfold remove_ns in Hk. apply filter_In in Hk as [Hk _]. left; exact Hk.
    - left; exact Hk. }
  destruct r1 as [cur1 e1].
  specialize (IH (tl rs) cur1 n).
  destruct (connect_replies au l (tl rs) cur1) as [cur2 e2]. simpl in *.
  destruct (IH H) as [Hc|He].
  - destruct (H1 n Hc) as [Hc'|He']; [left; exact Hc'|].
    right. right. apply in_or_app. left. exact He'.
  - right. right. apply in_or_app. right. exact He.
Qed.

Lemma mem_In n l : mem n l = true <-> In n l.
Proof.
  unfold mem. rewrite existsb_exists. split.
  - intros [x [Hx He]]. apply Nat.eqb_eq in He. subst. exact Hx.
  - intro H. exists n. split; [exact H|apply Nat.eqb_refl].
Qed.
Lemma subset_In a b : subset a b = true -> forall n, In n a -> In n b.
Proof.
  unfold subset. intros H n Hn. rewrite forallb_forall in H. apply mem_In. apply H. exact Hn.
Qed.

Lemma do_connect_spec p st a l o :
  let '(st', e, res) := do_connect p st a l o in
  core st' = core st /\
  (connected st = true -> st' = st /\ e = [] /\ res = RConnectionError) /\
  (connected st = false -> args st' = a /\ cns st' = l) /\
  (res = ROk -> connected st' = true /\ est st' = EConn /\ connected st = false /\ est st = EDisc /\
                attempt_ok a l o = true /\
                forall n, In n l -> In (FHandler HConnect n None) e) /\
  (res <> ROk -> connected st = false -> connected st' = false) /\
  (res <> ROk -> est st = EDisc -> est st' = EDisc) /\
  (connected st = false -> est st = EDisc -> attempt_ok a l o = true -> res = ROk) /\
  (est st <> EDisconnecting -> est st' <> EDisconnecting) /\
  res <> ROther /\
  Forall (connect_eff a l) e.
Proof.
  unfold do_connect. destruct (connected st) eqn:Hc.
  { repeat split; auto; try discriminate; try congruence. }
  destruct (est st) eqn:He.
  - destruct o as [|rs].
    + cbn. repeat split; auto; try discriminate; try congruence.
      constructor; [repeat split|].
      apply Forall_forall. intros x Hx. apply in_map_iff in Hx as [n [<- _]]. exact I.
    + pose proof (connect_replies_effs a l l rs [] (fun n H => H)) as Heff.
      pose proof (connect_replies_connected (a_auth a) l rs []) as Hconn.
      unfold attempt_ok.
      destruct (connect_replies (a_auth a) l rs []) as [cur e] eqn:Hcr. cbn [fst snd] in *.
      destruct (set_eq cur l) eqn:Hse.
      * cbn. repeat split; auto; try discriminate; try congruence.
        -- intros n Hn. right. unfold set_eq in Hse. apply andb_true_iff in Hse as [_ Hs].
           destruct (Hconn n (subset_In _ _ Hs n Hn)) as [[]|Hh]. exact Hh.
        -- constructor; [repeat split|exact Heff].
      * pose proof (api_disconnect_spec p
           (set_nss (set_est (set_nss (set_conn_args st a l) []) EConn) cur)) as Hd.
        destruct (api_disconnect p (set_nss (set_est (set_nss (set_conn_args st a l) []) EConn) cur))
          as [st3 e3].
        destruct Hd as (D1 & D2 & D3 & D4 & D5 & D6 & D7). cbn in D3, D4, D5, D6.
        unfold core in *. cbn in D1. cbn [set_nss connected est args cns rtask aflag rcl tasks next_id].
        repeat split; auto; try discriminate; try congruence.
        constructor; [repeat split|]. apply Forall_app. split; [exact Heff|].
        eapply Forall_impl; [|exact D7]. intros x. apply passive_connect_eff.
  - cbn. repeat split; auto; try discriminate; try congruence. constructor; [repeat split|constructor].
  - cbn. repeat split; auto; try discriminate; try congruence. constructor; [repeat split|constructor].
Qed.

(* ---- emit with callback / ACK from the server: only self.callbacks changes ---- *)
Definition is_cb_ev (ev : event) : bool :=
  match ev with EmitCb _ | ServerAck _ _ => true | _ => false end.
Lemma emit_ack_spec p st ev :
  is_cb_ev ev = true ->
  let '(st', e) := step p st ev in
  core st' = core st /\ est st' = est st /\ connected st' = connected st /\
  args st' = args st /\ cns st' = cns st /\ nss st' = nss st /\
  Forall (fun x => passive x = true) e.
Proof.
  destruct ev; try discriminate; intros _; cbn [step].
  - destruct (mem n (nss st)); [|repeat split; repeat constructor].
    destruct (cb_lookup n (cbs st)) as [nxt entries]. cbn.
    repeat split; auto. destruct (is_conn (est st)); repeat constructor.
  - destruct (is_conn (est st)); [|repeat split; repeat constructor].
    destruct (cb_find n (cbs st)) as [[nxt entries]|]; [|repeat split; repeat constructor].
    destruct (find (fun e => fst e =? id) entries) as [[i k]|]; repeat split; repeat constructor.
Qed.

(* ---- the invariant of reachable states ---- *)
Definition task_ok (p : params) (st : state) (t : task) : Prop :=
  rtask st = Some (t_id t) /\ aflag st = false /\
  (t_cur t == delay0 p * pow2 (S (t_count t)))%Q /\
  ((0 < attempts p)%Z -> (Z.of_nat (t_count t) < attempts p)%Z).

Definition Inv (p : params) (st : state) : Prop :=
  match tasks st with
  | [] => rcl st = 0
  | [t] => rcl st = 1 /\ task_ok p st t
  | _ => False
  end /\ est st <> EDisconnecting /\ (fixed p = true -> stale st = false) /\
  (connected st = true -> est st = EConn).

Lemma inv_core p st st' :
  core st' = core st -> est st' <> EDisconnecting -> (connected st' = true -> est st' = EConn) ->
  Inv p st -> Inv p st'.
Proof.
  unfold core, Inv, task_ok, stale, live. intros Hc He Hce (H1 & H2 & H3 & H4).
  inversion Hc as [[Hr Ha Hl Ht Hn]]. rewrite Hr, Ha, Hl, Ht. auto.
Qed.

Lemma inv_init p : Inv p init.
Proof. unfold Inv, init, stale. simpl. repeat split; auto; discriminate. Qed.

Lemma nth_error_single {A} (t : A) i x : nth_error [t] i = Some x -> i = 0 /\ x = t.
Proof. destruct i as [|[|i]]; simpl; intro H; inversion H; auto. Qed.

Lemma after_attempt_false p c :
  after_attempt p c false =
  if negb (attempts p =? 0)%Z && (attempts p <=? Z.of_nat c)%Z then DGiveUp else DContinue.
Proof. reflexivity. Qed.

(* what a time-out of the (single) live task does *)
Lemma timeout_live_spec p st t o r race :
  Inv p st -> tasks st = [t] ->
  let '(st1, e1, res) := do_connect p st (args st) (cns st) o in
  let '(st', e) := task_timeout p st 0 o r race in
  est st' <> EDisconnecting /\ aflag st' = aflag st /\ next_id st' = next_id st /\
  args st' = args st1 /\ cns st' = cns st1 /\
  match res with
  | ROk =>
      tasks st' = [] /\ rtask st' = None /\ rcl st' = 0 /\
      exists e2, e = e1 ++ e2 ++ [FTaskEnd (t_id t) Reconnected] /\
                 Forall (fun x => passive x = true \/ x = FLost) e2 /\
                 (race = false -> e2 = [] /\ connected st' = true /\ est st' = EConn) /\
                 (race = true -> connected st' = false)
  | _ =>
      connected st' = connected st1 /\ est st' = est st1 /\
      match after_attempt p (S (t_count t)) false with
      | DGiveUp =>
          tasks st' = [] /\ rcl st' = 0 /\ rtask st' = (if fixed p then None else rtask st) /\
          e = e1 ++ finals (cns st1) ++ [FTaskEnd (t_id t) GaveUp]
      | _ =>
          tasks st' = [mkTask (t_id t) (S (t_count t)) (t_cur t * 2)%Q] /\ rcl st' = 1 /\
          rtask st' = rtask st /\
          e = e1 ++ [FRandom; FWait (fst (next_wait p (t_cur t) r))]
      end
  end.
Proof.
  intros (Ht & Hest & Hfix & Hce) Htasks. rewrite Htasks in Ht. destruct Ht as (Hrcl & Hrt & Haf & Hcur & Hcnt).
  pose proof (do_connect_spec p st (args st) (cns st) o) as Hd.
  unfold task_timeout. rewrite Htasks. cbn [nth_error].
  destruct (do_connect p st (args st) (cns st) o) as [[st1 e1] res].
  destruct Hd as (Dcore & Dconn & Dargs & Dok & Dnok & Ddisc & Dsucc & Dest & Doth & Deff).
  unfold core in Dcore. inversion Dcore as [[Cr Ca Cl Ct Cn]].
  destruct res.
  - (* success *)
    destruct (Dok eq_refl) as (K1 & K2 & K3 & K4 & K5 & K6).
    destruct race.
    + unfold transport_error. rewrite K2.
      pose proof (hed_spec p st1 RTransport) as Hh.
      destruct (handle_eio_disconnect p st1 RTransport) as [[st2 e2] sp].
      destruct Hh as (H1 & H2 & H3 & H4 & H5 & H6 & H7 & H8).
      rewrite Cr, Hrt in H8. cbn [is_some negb] in H8. rewrite andb_false_r in H8.
      destruct H8 as (-> & H9 & H10 & H11).
      unfold task_exit. cbn. rewrite H6, Ct, Htasks, H5, Cl, Hrcl. cbn.
      repeat split; auto; try discriminate; try congruence.
      exists (FLost :: e2). repeat split; auto; try discriminate.
      constructor; [right; reflexivity|]. eapply Forall_impl; [|exact H11]. intros x Hx. left. exact Hx.
    + unfold task_exit. cbn. rewrite Ct, Htasks, Cl, Hrcl. cbn.
      repeat split; auto; try discriminate; try congruence.
      exists []. repeat split; auto; discriminate.
  - (* ConnectionError *)
    rewrite after_attempt_false.
    destruct (negb (attempts p =? 0)%Z && (attempts p <=? Z.of_nat (S (t_count t)))%Z).
    + unfold task_exit. rewrite Ct, Htasks, Cl, Hrcl.
      destruct (fixed p); cbn; repeat split; auto; try congruence; try (apply Dest; exact Hest).
    + cbn [next_wait]. rewrite Ca, Haf. cbn. rewrite Ct, Htasks. cbn.
      repeat split; auto; try congruence; try (apply Dest; exact Hest).
  - (* ValueError *)
    rewrite after_attempt_false.
    destruct (negb (attempts p =? 0)%Z && (attempts p <=? Z.of_nat (S (t_count t)))%Z).
    + unfold task_exit. rewrite Ct, Htasks, Cl, Hrcl.
      destruct (fixed p); cbn; repeat split; auto; try congruence; try (apply Dest; exact Hest).
    + cbn [next_wait]. rewrite Ca, Haf. cbn. rewrite Ct, Htasks. cbn.
      repeat split; auto; try congruence; try (apply Dest; exact Hest).
  - congruence.
Qed.

(* shutdown() outside a connection / SIGINT: set the abort event, the waiting task returns *)
Lemma abort_all_spec p st :
  Inv p st ->
  let '(st', e) := abort_all p st in
  tasks st' = [] /\ rcl st' = 0 /\ est st' = est st /\ connected st' = connected st /\
  next_id st' = next_id st /\ args st' = args st /\ cns st' = cns st /\ nss st' = nss st /\
  aflag st' = true /\
  match tasks st with
  | [] => rtask st' = rtask st /\ e = []
  | t :: _ => rtask st' = (if fixed p then None else rtask st) /\
              e = finals (cns st) ++ [FTaskEnd (t_id t) Aborted]
  end.
Proof.
  intros (Ht & Hest & Hfix & Hce). unfold abort_all.
  destruct (tasks st) as [|t [|t' l]] eqn:Htasks; [| |destruct Ht].
  - cbn. rewrite Htasks. repeat split; auto.
  - destruct Ht as (Hrcl & _). cbn [List.length wake_all]. cbn [tasks set_aflag]. rewrite Htasks.
    unfold task_abort, task_exit. cbn [tasks set_aflag set_tasks set_rcl rcl remove_nth].
    rewrite Htasks. cbn [remove_nth]. rewrite Hrcl.
    destruct (fixed p); cbn; rewrite app_nil_r; repeat split; auto.
Qed.

Lemma pow2_S k : (pow2 (S k) == 2 * pow2 k)%Q.
Proof. reflexivity. Qed.

Theorem inv_step p st ev : Inv p st -> Inv p (fst (step p st ev)).
Proof.
  intro HI. pose proof HI as (Ht & Hest & Hfix & Hce).
  destruct ev as [a l o|r| |n| | | |i o r race|n|n aid]; cbn [step].
  - (* Connect *)
    pose proof (do_connect_spec p st a l o) as Hd.
    destruct (do_connect p st a l o) as [[st1 e1] res].
    destruct Hd as (Dcore & Dc & _ & Dok & Dnok & _ & _ & Dest & _). cbn.
    eapply inv_core; eauto.
    intro Hc1. destruct res; try (apply Dok; reflexivity);
      (destruct (connected st) eqn:Hc;
       [destruct (Dc eq_refl) as (-> & _); auto|rewrite Dnok in Hc1; [discriminate|discriminate|reflexivity]]).
  - (* Loss *)
    unfold transport_error. destruct (est st) eqn:He; try exact HI.
    pose proof (hed_spec p st RTransport) as Hh.
    destruct (handle_eio_disconnect p st RTransport) as [[st1 e1] sp].
    destruct Hh as (H1 & H2 & H3 & H4 & H5 & H6 & H7 & H8).
    destruct (will_reconnect p st && negb (is_some (rtask st))) eqn:Hw.
    + destruct H8 as (-> & H9 & H10 & _).
      apply andb_true_iff in Hw as [_ Hw]. destruct (rtask st) eqn:Hr; [discriminate|].
      assert (Hnil : tasks st = []).
      { destruct (tasks st) as [|t [|t' l']]; [reflexivity| |destruct Ht].
        destruct Ht as (_ & Hrt & _). congruence. }
      rewrite Hnil in Ht.
      unfold task_start. cbn. unfold Inv, task_ok, stale, live. cbn.
      rewrite H6, Hnil, H5, Ht, H9, H7. cbn. rewrite Nat.eqb_refl.
      repeat split; auto; try discriminate; try lia; try (cbn; ring).
    + destruct H8 as (-> & H9 & H10 & _). cbn.
      eapply inv_core; [| | |exact HI]; [unfold core; cbn; congruence|cbn; discriminate|cbn; congruence].
  - (* Disconnect *)
    pose proof (api_disconnect_spec p st) as Hd. destruct (api_disconnect p st) as [st1 e1].
    destruct Hd as (D1 & D2 & _ & _ & D5 & D6 & _). cbn. eapply inv_core; eauto.
    + rewrite D2. discriminate.
    + intro Hc1. destruct (connected st) eqn:Hc; [rewrite D6 in Hc1; auto|rewrite D5 in Hc1; auto]; discriminate.
  - (* ServerDisconnect *)
    destruct (is_conn (est st) && (connected st || mem n (nss st))); [|exact HI].
    destruct (remove_ns n (nss st)).
    + pose proof (eio_disconnect_spec p (set_connected (set_nss st []) false) RClient) as Hd.
      destruct (eio_disconnect p (set_connected (set_nss st []) false) RClient) as [st1 e1].
      destruct Hd as (D1 & D2 & _ & _ & D5 & _). cbn.
      eapply inv_core; [exact D1|rewrite D2; discriminate| |].
      * intro Hc1. rewrite D5 in Hc1; [discriminate|reflexivity].
      * eapply inv_core; [| | |exact HI]; [reflexivity|exact Hest|cbn; discriminate].
    + cbn. eapply inv_core; [| | |exact HI]; [reflexivity|exact Hest|exact Hce].
  - (* ServerClose *)
    destruct (is_conn (est st)) eqn:Hic; [|exact HI].
    pose proof (eio_disconnect_spec p st RServer) as Hd. destruct (eio_disconnect p st RServer) as [st1 e1].
    destruct Hd as (D1 & D2 & _ & _ & _ & D6 & _). cbn. eapply inv_core; eauto.
    + rewrite D2. discriminate.
    + intro Hc1. rewrite D6 in Hc1; [discriminate|]. destruct (est st); try discriminate; reflexivity.
  - (* Shutdown *)
    destruct (connected st) eqn:Hc.
    + pose proof (api_disconnect_spec p st) as Hd. destruct (api_disconnect p st) as [st1 e1].
      destruct Hd as (D1 & D2 & _ & _ & _ & D6 & _). cbn. eapply inv_core; eauto.
      * rewrite D2. discriminate.
      * intro Hc1. rewrite D6 in Hc1; auto. discriminate.
    + destruct (is_some (rtask st)); [|exact HI].
      pose proof (abort_all_spec p st HI) as Ha. destruct (abort_all p st) as [st1 e1].
      destruct Ha as (A1 & A2 & A3 & A4 & A5 & A6 & A7 & A8 & A9 & A10). cbn.
      unfold Inv, stale, live. rewrite A1, A2, A3, A4. repeat split; auto; try (intros X; congruence).
      intro Hf. specialize (Hfix Hf). unfold stale, live in Hfix.
      destruct (tasks st) as [|t l].
      * destruct A10 as (-> & _). exact Hfix.
      * destruct A10 as (-> & _). rewrite Hf. reflexivity.
  - (* Sigint *)
    destruct (0 <? rcl st); [|exact HI].
    pose proof (abort_all_spec p st HI) as Ha. destruct (abort_all p st) as [st1 e1].
    destruct Ha as (A1 & A2 & A3 & A4 & A5 & A6 & A7 & A8 & A9 & A10). cbn.
    unfold Inv, stale, live. rewrite A1, A2, A3, A4. repeat split; auto; try (intros X; congruence).
    intro Hf. specialize (Hfix Hf). unfold stale, live in Hfix.
    destruct (tasks st) as [|t l].
    * destruct A10 as (-> & _). exact Hfix.
    * destruct A10 as (-> & _). rewrite Hf. reflexivity.
  - (* Timeout *)
    destruct (tasks st) as [|t [|t' l']] eqn:Htasks; [| |destruct Ht].
    + unfold task_timeout. rewrite Htasks. destruct i; exact HI.
    + destruct i as [|i].
      2:{ unfold task_timeout. rewrite Htasks. destruct i; exact HI. }
      pose proof (timeout_live_spec p st t o r race HI Htasks) as Hs.
      pose proof (do_connect_spec p st (args st) (cns st) o) as Hd.
      destruct (do_connect p st (args st) (cns st) o) as [[st1 e1] res].
      destruct Hd as (_ & Dc & _ & _ & Dnok & _ & _ & _ & Doth & _).
      destruct (task_timeout p st 0 o r race) as [st' e].
      destruct Hs as (S1 & S2 & S3 & S4 & S5 & S6). cbn [fst].
      destruct Ht as (Hrcl & Hrt & Haf & Hcur & Hcnt).
      assert (Hce1 : res <> ROk -> connected st1 = true -> est st1 = EConn).
      { intros Hres Hc1. destruct (connected st) eqn:Hc.
        - destruct (Dc eq_refl) as (-> & _). auto.
        - rewrite Dnok in Hc1; auto; discriminate. }
      unfold Inv, task_ok, stale, live.
      destruct res.
      * destruct S6 as (T1 & T2 & T3 & e2 & _ & _ & T4 & T5). rewrite T1, T2, T3. repeat split; auto.
        destruct race; [rewrite T5; [discriminate|reflexivity]|]. intros _. apply T4. reflexivity.
      * destruct S6 as (C1 & C2 & S6). rewrite after_attempt_false in S6.
        assert (Hce' : connected st' = true -> est st' = EConn)
          by (rewrite C1, C2; apply Hce1; discriminate).
        destruct (negb (attempts p =? 0)%Z && (attempts p <=? Z.of_nat (S (t_count t)))%Z) eqn:Hg.
        -- destruct S6 as (T1 & T2 & T3 & _). rewrite T1, T2, T3. repeat split; auto.
           intro Hf. rewrite Hf. reflexivity.
        -- destruct S6 as (T1 & T2 & T3 & _). rewrite T1, T2, T3, S2, Hrt. cbn.
           rewrite Nat.eqb_refl. repeat split; auto.
           ++ rewrite Hcur. rewrite (pow2_S (S (t_count t))). ring.
           ++ intro Hpos. apply andb_false_iff in Hg as [Hg|Hg]; lia.
      * destruct S6 as (C1 & C2 & S6). rewrite after_attempt_false in S6.
        assert (Hce' : connected st' = true -> est st' = EConn)
          by (rewrite C1, C2; apply Hce1; discriminate).
        destruct (negb (attempts p =? 0)%Z && (attempts p <=? Z.of_nat (S (t_count t)))%Z) eqn:Hg.
        -- destruct S6 as (T1 & T2 & T3 & _). rewrite T1, T2, T3. repeat split; auto.
           intro Hf. rewrite Hf. reflexivity.
        -- destruct S6 as (T1 & T2 & T3 & _). rewrite T1, T2, T3, S2, Hrt. cbn.
           rewrite Nat.eqb_refl. repeat split; auto.
           ++ rewrite Hcur. rewrite (pow2_S (S (t_count t))). ring.
           ++ intro Hpos. apply andb_false_iff in Hg as [Hg|Hg]; lia.
      * congruence.
  - (* EmitCb *)
    pose proof (emit_ack_spec p st (EmitCb n) eq_refl) as Hs. cbn [step] in Hs.
    match goal with |- Inv p (fst ?x) => destruct x as [st1 e1] end.
    destruct Hs as (S1 & S2 & S3 & _). cbn [fst].
    eapply inv_core; [exact S1|congruence|rewrite S2, S3; exact Hce|exact HI].
  - (* ServerAck *)
    pose proof (emit_ack_spec p st (ServerAck n aid) eq_refl) as Hs. cbn [step] in Hs.
    match goal with |- Inv p (fst ?x) => destruct x as [st1 e1] end.
    destruct Hs as (S1 & S2 & S3 & _). cbn [fst].
    eapply inv_core; [exact S1|congruence|rewrite S2, S3; exact Hce|exact HI].
Qed.

Lemma inv_run_from p : forall evs st, Inv p st -> Inv p (fst (run_from p st evs)).
Proof.
  induction evs as [|ev evs IH]; intros st HI; [exact HI|].
  cbn [run_from]. pose proof (inv_step p st ev HI) as H1.
  destruct (step p st ev) as [st1 e1]. cbn [fst] in H1. specialize (IH st1 H1).
  destruct (run_from p st1 evs) as [st2 es]. exact IH.
Qed.

Theorem inv_final p evs : Inv p (final p evs).
Proof. apply inv_run_from. apply inv_init. Qed.

Lemma inv_tasks p st : Inv p st -> tasks st = [] \/ exists t, tasks st = [t] /\ task_ok p st t /\ rcl st = 1.
Proof.
  intros (Ht & _). destruct (tasks st) as [|t [|t' l]]; [left; reflexivity| |destruct Ht].
  right. exists t. destruct Ht. auto.
Qed.

(* C10_single_effort: at any moment at most one reconnect task exists, and `_reconnect_task`
   refers to it; reconnecting_clients contains the client exactly while the task runs *)
Theorem single_effort p evs :
  let st := final p evs in
  List.length (tasks st) <= 1 /\
  (forall t, In t (tasks st) -> rtask st = Some (t_id t)) /\
  rcl st = List.length (tasks st).
Proof.
  cbv zeta. destruct (inv_tasks p _ (inv_final p evs)) as [H|[t [H [Hok Hrcl]]]]; rewrite H.
  - pose proof (inv_final p evs) as (Ht & _). rewrite H in Ht. simpl. repeat split; auto.
    intros t [].
  - simpl. repeat split; auto. intros t' [<-|[]]. apply Hok.
Qed.

(* ---- the shape of the effects of every step from a reachable state ---- *)
Definition tail_shape (p : params) (st : state) (t : task) (r : Q) (tl : list eff) : Prop :=
  (exists e2, tl = e2 ++ [FTaskEnd (t_id t) Reconnected] /\
              Forall (fun x => passive x = true \/ x = FLost) e2) \/
  (exists l, tl = finals l ++ [FTaskEnd (t_id t) GaveUp]) \/
  tl = [FRandom; FWait (fst (next_wait p (t_cur t) r))].

Definition step_shape (p : params) (st : state) (ev : event) (e : list eff) : Prop :=
  match ev with
  | Connect a l o => exists e1 res, e = e1 ++ [FResult res] /\ Forall (connect_eff a l) e1
  | Loss r =>
      e = [] \/
      exists e0, Forall (fun x => passive x = true) e0 /\ est st = EConn /\
        (e = FLost :: e0 \/
         (e = FLost :: (e0 ++ [FSpawn (next_id st)]) ++ [FRandom; FWait (fst (next_wait p (delay0 p) r))] /\
          reconnection p = true /\ rtask st = None /\ tasks st = []))
  | Disconnect | ServerDisconnect _ | ServerClose | EmitCb _ | ServerAck _ _ =>
      Forall (fun x => passive x = true) e
  | Shutdown | Sigint =>
      Forall (fun x => passive x = true) e \/
      exists t, tasks st = [t] /\ e = finals (cns st) ++ [FTaskEnd (t_id t) Aborted]
  | Timeout i o r race =>
      e = [] \/
      exists t e1 tl, tasks st = [t] /\ i = 0 /\ e = e1 ++ tl /\
                      Forall (connect_eff (args st) (cns st)) e1 /\ tail_shape p st t r tl
  end.

Lemma step_effects p st ev : Inv p st -> step_shape p st ev (snd (step p st ev)).
Proof.
  intro HI. pose proof HI as (Ht & Hest & Hfix & Hce).
  destruct ev as [a l o|r| |n| | | |i o r race|n|n aid]; cbn [step step_shape].
  - pose proof (do_connect_spec p st a l o) as Hd.
    destruct (do_connect p st a l o) as [[st1 e1] res].
    destruct Hd as (_ & _ & _ & _ & _ & _ & _ & _ & _ & Deff). cbn. eauto.
  - unfold transport_error. destruct (est st) eqn:He; try (left; reflexivity).
    right. pose proof (hed_spec p st RTransport) as Hh.
    destruct (handle_eio_disconnect p st RTransport) as [[st1 e1] sp].
    destruct Hh as (H1 & H2 & H3 & H4 & H5 & H6 & H7 & H8).
    destruct (will_reconnect p st && negb (is_some (rtask st))) eqn:Hw.
    + destruct H8 as (-> & H9 & H10 & e0 & -> & Hp).
      apply andb_true_iff in Hw as [Hw1 Hw]. destruct (rtask st) eqn:Hr; [discriminate|].
      unfold will_reconnect in Hw1. apply andb_true_iff in Hw1 as [Hrec _].
      assert (Hnil : tasks st = []).
      { destruct (tasks st) as [|t [|t' l']]; [reflexivity| |destruct Ht].
        destruct Ht as (_ & Hrt & _). congruence. }
      exists e0. split; [exact Hp|]. split; [reflexivity|]. right. unfold task_start. cbn. repeat split; auto.
    + destruct H8 as (-> & H9 & H10 & Hp). exists e1. cbn. repeat split; auto.
  - pose proof (api_disconnect_spec p st) as Hd. destruct (api_disconnect p st) as [st1 e1].
    destruct Hd as (_ & _ & _ & _ & _ & _ & D7). exact D7.
  - destruct (is_conn (est st) && (connected st || mem n (nss st))); [|constructor].
    destruct (remove_ns n (nss st)).
    + pose proof (eio_disconnect_spec p (set_connected (set_nss st []) false) RClient) as Hd.
      destruct (eio_disconnect p (set_connected (set_nss st []) false) RClient) as [st1 e1].
      destruct Hd as (_ & _ & _ & _ & _ & _ & D7). cbn. repeat constructor. exact D7.
    + cbn. repeat constructor.
  - destruct (is_conn (est st)); [|constructor].
    pose proof (eio_disconnect_spec p st RServer) as Hd. destruct (eio_disconnect p st RServer) as [st1 e1].
    destruct Hd as (_ & _ & _ & _ & _ & _ & D7). exact D7.
  - destruct (connected st).
    + left. pose proof (api_disconnect_spec p st) as Hd. destruct (api_disconnect p st) as [st1 e1].
      destruct Hd as (_ & _ & _ & _ & _ & _ & D7). exact D7.
    + destruct (is_some (rtask st)); [|left; constructor].
      pose proof (abort_all_spec p st HI) as Ha. destruct (abort_all p st) as [st1 e1].
      destruct Ha as (_ & _ & _ & _ & _ & _ & _ & _ & _ & A10). cbn.
      destruct (inv_tasks p st HI) as [Hn|[t [Hn _]]]; rewrite Hn in A10.
      * destruct A10 as (_ & ->). left. constructor.
      * destruct A10 as (_ & ->). right. exists t. auto.
  - destruct (0 <? rcl st); [|left; constructor].
    pose proof (abort_all_spec p st HI) as Ha. destruct (abort_all p st) as [st1 e1].
    destruct Ha as (_ & _ & _ & _ & _ & _ & _ & _ & _ & A10). cbn.
    destruct (inv_tasks p st HI) as [Hn|[t [Hn _]]]; rewrite Hn in A10.
    * destruct A10 as (_ & ->). left. constructor.
    * destruct A10 as (_ & ->). right. exists t. auto.
  - destruct (inv_tasks p st HI) as [Hn|[t [Hn _]]].
    + left. unfold task_timeout. rewrite Hn. destruct i; reflexivity.
    + destruct i as [|i].
      2:{ left. unfold task_timeout. rewrite Hn. destruct i; reflexivity. }
      right. pose proof (timeout_live_spec p st t o r race HI Hn) as Hs.
      pose proof (do_connect_spec p st (args st) (cns st) o) as Hd.
      destruct (do_connect p st (args st) (cns st) o) as [[st1 e1] res].
      destruct Hd as (_ & _ & _ & _ & _ & _ & _ & _ & Doth & Deff).
      destruct (task_timeout p st 0 o r race) as [st' e].
      destruct Hs as (_ & _ & _ & _ & _ & S6). cbn [snd].
      exists t, e1. unfold tail_shape.
      destruct res; [| | |congruence].
      * destruct S6 as (_ & _ & _ & e2 & -> & Hp & _).
        eexists. repeat split; eauto.
      * destruct S6 as (_ & _ & S6). rewrite after_attempt_false in S6.
        destruct (negb (attempts p =? 0)%Z && (attempts p <=? Z.of_nat (S (t_count t)))%Z);
          destruct S6 as (_ & _ & _ & ->); eexists; repeat split; eauto.
      * destruct S6 as (_ & _ & S6). rewrite after_attempt_false in S6.
        destruct (negb (attempts p =? 0)%Z && (attempts p <=? Z.of_nat (S (t_count t)))%Z);
          destruct S6 as (_ & _ & _ & ->); eexists; repeat split; eauto.
  - pose proof (emit_ack_spec p st (EmitCb n) eq_refl) as Hs. cbn [step] in Hs.
    match goal with |- Forall _ (snd ?x) => destruct x as [st1 e1] end.
    destruct Hs as (_ & _ & _ & _ & _ & _ & S7). exact S7.
  - pose proof (emit_ack_spec p st (ServerAck n aid) eq_refl) as Hs. cbn [step] in Hs.
    match goal with |- Forall _ (snd ?x) => destruct x as [st1 e1] end.
    destruct Hs as (_ & _ & _ & _ & _ & _ & S7). exact S7.
Qed.

(* ---- consequences ---- *)
Lemma passive_in e x : Forall (fun y => passive y = true) e -> In x e -> passive x = true.
Proof. intros H Hx. rewrite Forall_forall in H. auto. Qed.
Lemma connect_eff_in a l e x : Forall (connect_eff a l) e -> In x e -> connect_eff a l x.
Proof. intros H Hx. rewrite Forall_forall in H. auto. Qed.
Lemma finals_in l x : In x (finals l) -> exists n, x = FHandler HFinal n None /\ In n l.
Proof. unfold finals. intro H. apply in_map_iff in H as [n [<- Hn]]. eauto. Qed.
Lemma in_finals l n : In n l -> In (FHandler HFinal n None) (finals l).
Proof. intro H. unfold finals. apply in_map_iff. eauto. Qed.

Lemma wait_form p cur r k :
  (cur == delay0 p * pow2 k)%Q ->
  (fst (next_wait p cur r) == Qmin (delay0 p * pow2 k) (delay_max p) + rfactor p * (2 * r - 1))%Q.
Proof.
  intro H. eapply Qeq_trans; [apply next_wait_fst|]. apply Qplus_comp; [|reflexivity].
  eapply Qeq_trans; [apply cap_compat; exact H|apply cap_is_min].
Qed.

Definition event_r (ev : event) : option Q :=
  match ev with Loss r | Timeout _ _ r _ => Some r | _ => None end.

(* C10_delay on the machine: every back-off wait a reachable client performs is
   min(d*2^k, dmax) + rf*(2r-1), k = number of attempts the effort has made so far *)
Theorem machine_delay p evs ev w :
  let st := final p evs in
  In (FWait w) (snd (step p st ev)) ->
  exists r k, event_r ev = Some r /\
    (w == Qmin (delay0 p * pow2 k) (delay_max p) + rfactor p * (2 * r - 1))%Q /\
    ((k = 0 /\ tasks st = []) \/ exists t, tasks st = [t] /\ k = S (t_count t)).
Proof.
  cbv zeta. intro Hin. pose proof (inv_final p evs) as HI.
  pose proof (step_effects p _ ev HI) as Hs. set (st := final p evs) in *.
  destruct ev as [a l o|r| |n| | | |i o r race|n|n aid]; cbn [step_shape] in Hs.
  - destruct Hs as (e1 & res & He & Hf). rewrite He in Hin. apply in_app_or in Hin as [Hin|[Hin|[]]].
    + apply (connect_eff_in _ _ _ _ Hf) in Hin. destruct Hin.
    + discriminate.
  - destruct Hs as [He|(e0 & Hp & Hc & [He|(He & Hrec & Hr & Hn)])]; rewrite He in Hin.
    + destruct Hin.
    + destruct Hin as [Hin|Hin]; [discriminate|]. apply (passive_in _ _ Hp) in Hin. discriminate.
    + exists r, 0. split; [reflexivity|]. split; [|left; auto].
      destruct Hin as [Hin|Hin]; [discriminate|].
      apply in_app_or in Hin as [Hin|Hin].
      * apply in_app_or in Hin as [Hin|[Hin|[]]]; [|discriminate].
        apply (passive_in _ _ Hp) in Hin. discriminate.
      * destruct Hin as [Hin|[Hin|[]]]; [discriminate|]. inversion Hin; subst.
        apply wait_form. simpl. ring.
  - apply (passive_in _ _ Hs) in Hin. discriminate.
  - apply (passive_in _ _ Hs) in Hin. discriminate.
  - apply (passive_in _ _ Hs) in Hin. discriminate.
  - destruct Hs as [Hs|(t & Ht & He)].
    + apply (passive_in _ _ Hs) in Hin. discriminate.
    + rewrite He in Hin. apply in_app_or in Hin as [Hin|[Hin|[]]]; [|discriminate].
      apply finals_in in Hin as (n & Hx & _). discriminate.
  - destruct Hs as [Hs|(t & Ht & He)].
    + apply (passive_in _ _ Hs) in Hin. discriminate.
    + rewrite He in Hin. apply in_app_or in Hin as [Hin|[Hin|[]]]; [|discriminate].
      apply finals_in in Hin as (n & Hx & _). discriminate.
  - destruct Hs as [He|(t & e1 & tl & Ht & Hi & He & Hf & Htl)]; rewrite He in Hin; [destruct Hin|].
    apply in_app_or in Hin as [Hin|Hin].
    { apply (connect_eff_in _ _ _ _ Hf) in Hin. destruct Hin. }
    destruct Htl as [(e2 & -> & Hp)|[(l & ->)| ->]].
    + apply in_app_or in Hin as [Hin|[Hin|[]]]; [|discriminate].
      rewrite Forall_forall in Hp. destruct (Hp _ Hin); discriminate.
    + apply in_app_or in Hin as [Hin|[Hin|[]]]; [|discriminate].
      apply finals_in in Hin as (n & Hx & _). discriminate.
    + destruct Hin as [Hin|[Hin|[]]]; [discriminate|]. inversion Hin; subst.
      exists r, (S (t_count t)). split; [reflexivity|]. split; [|right; eauto].
      destruct (inv_tasks p st HI) as [Hn|(t' & Hn & Hok & _)]; [congruence|].
      rewrite Ht in Hn. inversion Hn; subst t'. destruct Hok as (_ & _ & Hcur & _).
      apply wait_form. exact Hcur.
  - apply (passive_in _ _ Hs) in Hin. discriminate.
  - apply (passive_in _ _ Hs) in Hin. discriminate.
Qed.


Lemma filter_none l : Forall (fun x => is_eio_connect x = false) l -> filter is_eio_connect l = [].
Proof. induction 1 as [|x l Hx _ IH]; [reflexivity|]. simpl. rewrite Hx. exact IH. Qed.

Lemma connect_replies_no_call au : forall l rs cur,
  filter is_eio_connect (snd (connect_replies au l rs cur)) = [].
Proof.
  induction l as [|n l IH]; intros rs cur; [reflexivity|]. cbn [connect_replies].
  set (r1 := match hd RAccept rs with
       | RAccept => if mem n cur then (cur, []) else (cur ++ [n], [FHandler HConnect n None])
       | RRefuse => (if n =? 0 then [] else remove_ns n cur, [FHandler HConnectError n None])
       | RSilent => (cur, [])
       end).
  assert (H1 : filter is_eio_connect (snd r1) = []).
  { subst r1. destruct (hd RAccept rs); [destruct (mem n cur)| |]; reflexivity. }
  destruct r1 as [cur1 e1']. specialize (IH (List.tl rs) cur1).
  destruct (connect_replies au l (List.tl rs) cur1) as [cur2 e2]. simpl in *.
  rewrite filter_app, H1, IH. reflexivity.
Qed.

(* connect() calls eio.connect at most once *)
Lemma do_connect_one_call p st a l o :
  List.length (filter is_eio_connect (snd (fst (do_connect p st a l o)))) <= 1.
Proof.
  unfold do_connect. destruct (connected st); [simpl; lia|].
  assert (Hnf : forall l : list ns, filter is_eio_connect (map (fun n => FHandler HConnectError n None) l) = []).
  { induction l0 as [|n l0 IH]; [reflexivity|exact IH]. }
  destruct (est st).
  - destruct o as [|rs].
    + simpl. rewrite Hnf. simpl. lia.
    + pose proof (connect_replies_no_call (a_auth a) l rs []) as Hcr.
      destruct (connect_replies (a_auth a) l rs []) as [cur e]. simpl in Hcr.
      destruct (set_eq cur l).
      * simpl. rewrite Hcr. simpl. lia.
      * pose proof (api_disconnect_spec p
          (set_nss (set_est (set_nss (set_conn_args st a l) []) EConn) cur)) as Ha.
        destruct (api_disconnect p _) as [st3 e3]. destruct Ha as (_ & _ & _ & _ & _ & _ & A7).
        simpl. rewrite filter_app, Hcr. simpl.
        assert (Hz3 : filter is_eio_connect e3 = []).
        { apply filter_none. eapply Forall_impl; [|exact A7]. intros x Hx. destruct x; try discriminate; reflexivity. }
        rewrite Hz3. simpl. lia.
  - simpl. lia.
  - simpl. lia.
Qed.

(* C10_attempts on the machine: the live task has made fewer than n attempts, a time-out makes
   exactly one more, and a task that goes on waiting has counted it *)
Theorem machine_attempts p evs :
  let st := final p evs in
  forall t, tasks st = [t] ->
  ((0 < attempts p)%Z -> (Z.of_nat (S (t_count t)) <= attempts p)%Z) /\
  forall o r race,
    let '(st', e) := step p st (Timeout 0 o r race) in
    List.length (filter is_eio_connect e) <= 1 /\
    (tasks st' = [] \/ exists t', tasks st' = [t'] /\ t_id t' = t_id t /\ t_count t' = S (t_count t)).
Proof.
  cbv zeta. intros t Ht. pose proof (inv_final p evs) as HI. set (st := final p evs) in *.
  split.
  - destruct (inv_tasks p st HI) as [Hn|(t' & Hn & Hok & _)]; [congruence|].
    rewrite Ht in Hn. inversion Hn; subst t'. destruct Hok as (_ & _ & _ & Hc). intro Hp.
    specialize (Hc Hp). lia.
  - intros o r race. cbn [step].
    pose proof (timeout_live_spec p st t o r race HI Ht) as Hs.
    pose proof (do_connect_spec p st (args st) (cns st) o) as Hd.
    assert (Hone : forall st1 e1 res, do_connect p st (args st) (cns st) o = (st1, e1, res) ->
                   forall tail, Forall (fun x => is_eio_connect x = false) tail ->
                   List.length (filter is_eio_connect (e1 ++ tail)) <= 1).
    { intros st1 e1 res Hdc tail Htl. rewrite filter_app, (filter_none _ Htl), app_nil_r.
      pose proof (do_connect_one_call p st (args st) (cns st) o) as H1. rewrite Hdc in H1. exact H1. }
    destruct (do_connect p st (args st) (cns st) o) as [[st1 e1] res] eqn:Hdc.
    destruct Hd as (_ & _ & _ & _ & _ & _ & _ & _ & Doth & _).
    destruct (task_timeout p st 0 o r race) as [st' e].
    destruct Hs as (_ & _ & _ & _ & _ & S6).
    destruct res; [| | |congruence].
    + destruct S6 as (T1 & _ & _ & e2 & -> & Hp & _). split; [|left; exact T1].
      apply (Hone _ _ _ eq_refl). apply Forall_app. split.
      * eapply Forall_impl; [|exact Hp]. intros x [Hx| ->]; [destruct x; try discriminate|]; reflexivity.
      * repeat constructor.
    + destruct S6 as (_ & _ & S6). rewrite after_attempt_false in S6.
      destruct (negb (attempts p =? 0)%Z && (attempts p <=? Z.of_nat (S (t_count t)))%Z).
      * destruct S6 as (T1 & _ & _ & ->). split; [|left; exact T1].
        apply (Hone _ _ _ eq_refl). apply Forall_app. split; [|repeat constructor].
        apply Forall_forall. intros x Hx. apply finals_in in Hx as (n & -> & _). reflexivity.
      * destruct S6 as (T1 & _ & _ & ->). split; [|right; eexists; split; [exact T1|split; reflexivity]].
        apply (Hone _ _ _ eq_refl). repeat constructor.
    + destruct S6 as (_ & _ & S6). rewrite after_attempt_false in S6.
      destruct (negb (attempts p =? 0)%Z && (attempts p <=? Z.of_nat (S (t_count t)))%Z).
      * destruct S6 as (T1 & _ & _ & ->). split; [|left; exact T1].
        apply (Hone _ _ _ eq_refl). apply Forall_app. split; [|repeat constructor].
        apply Forall_forall. intros x Hx. apply finals_in in Hx as (n & -> & _). reflexivity.
      * destruct S6 as (T1 & _ & _ & ->). split; [|right; eexists; split; [exact T1|split; reflexivity]].
        apply (Hone _ _ _ eq_refl). repeat constructor.
Qed.

(* C10_only_accidental: a reconnect task is started only by the notification of a transport
   error (engine.io still 'connected'), with reconnection enabled and no task recorded; the
   transport is only ever (re)connected by the application's connect() or by a time-out of the
   live reconnect task; disconnect(), a server DISCONNECT, a server CLOSE and a loss with
   reconnection disabled leave the set of tasks unchanged and the transport disconnected *)
Theorem only_accidental p evs ev :
  let st := final p evs in
  let '(st', e) := step p st ev in
  (forall id, In (FSpawn id) e ->
     exists r, ev = Loss r /\ reconnection p = true /\ est st = EConn /\ rtask st = None /\ tasks st = []) /\
  (forall u h t q, In (FEioConnect u h t q) e ->
     is_connect_ev ev = true \/ (exists o r b, ev = Timeout 0 o r b) /\ tasks st <> []) /\
  (match ev with
   | Disconnect | ServerClose | ServerDisconnect _ | Connect _ _ _ => tasks st' = tasks st
   | Loss _ => reconnection p = false -> tasks st' = tasks st
   | _ => True
   end) /\
  (match ev with
   | Disconnect | ServerClose => est st' = EDisc /\ connected st' = false
   | _ => True
   end).
Proof.
  cbv zeta. pose proof (inv_final p evs) as HI. set (st := final p evs) in *.
  pose proof (step_effects p st ev HI) as Hs.
  destruct (step p st ev) as [st' e] eqn:Hstep. cbn [snd] in Hs.
  split; [|split; [|split]].
  - intros id Hin.
    destruct ev as [a l o|r| |n| | | |i o r race|n|n aid]; cbn [step_shape] in Hs.
    + destruct Hs as (e1 & res & He & Hf). rewrite He in Hin. apply in_app_or in Hin as [Hin|[Hin|[]]].
      * apply (connect_eff_in _ _ _ _ Hf) in Hin. destruct Hin.
      * discriminate.
    + destruct Hs as [He|(e0 & Hp & Hc & [He|(He & Hrec & Hr & Hn)])]; rewrite He in Hin.
      * destruct Hin.
      * destruct Hin as [Hin|Hin]; [discriminate|]. apply (passive_in _ _ Hp) in Hin. discriminate.
      * exists r. auto.
    + apply (passive_in _ _ Hs) in Hin. discriminate.
    + apply (passive_in _ _ Hs) in Hin. discriminate.
    + apply (passive_in _ _ Hs) in Hin. discriminate.
    + destruct Hs as [Hs|(t & Ht & He)].
      * apply (passive_in _ _ Hs) in Hin. discriminate.
      * rewrite He in Hin. apply in_app_or in Hin as [Hin|[Hin|[]]]; [|discriminate].
        apply finals_in in Hin as (n & Hx & _). discriminate.
    + destruct Hs as [Hs|(t & Ht & He)].
      * apply (passive_in _ _ Hs) in Hin. discriminate.
      * rewrite He in Hin. apply in_app_or in Hin as [Hin|[Hin|[]]]; [|discriminate].
        apply finals_in in Hin as (n & Hx & _). discriminate.
    + destruct Hs as [He|(t & e1 & tl & Ht & Hi & He & Hf & Htl)]; rewrite He in Hin; [destruct Hin|].
      apply in_app_or in Hin as [Hin|Hin].
      { apply (connect_eff_in _ _ _ _ Hf) in Hin. destruct Hin. }
      destruct Htl as [(e2 & -> & Hp)|[(l & ->)| ->]].
      * apply in_app_or in Hin as [Hin|[Hin|[]]]; [|discriminate].
        rewrite Forall_forall in Hp. destruct (Hp _ Hin); discriminate.
      * apply in_app_or in Hin as [Hin|[Hin|[]]]; [|discriminate].
        apply finals_in in Hin as (n & Hx & _). discriminate.
      * destruct Hin as [Hin|[Hin|[]]]; discriminate.
    + apply (passive_in _ _ Hs) in Hin. discriminate.
    + apply (passive_in _ _ Hs) in Hin. discriminate.
  - intros u h t q Hin.
    destruct ev as [a l o|r| |n| | | |i o r race|n|n aid]; cbn [step_shape] in Hs.
    + left. reflexivity.
    + destruct Hs as [He|(e0 & Hp & Hc & [He|(He & Hrec & Hr & Hn)])]; rewrite He in Hin.
      * destruct Hin.
      * destruct Hin as [Hin|Hin]; [discriminate|]. apply (passive_in _ _ Hp) in Hin. discriminate.
      * destruct Hin as [Hin|Hin]; [discriminate|]. apply in_app_or in Hin as [Hin|Hin].
        -- apply in_app_or in Hin as [Hin|[Hin|[]]]; [|discriminate].
           apply (passive_in _ _ Hp) in Hin. discriminate.
        -- destruct Hin as [Hin|[Hin|[]]]; discriminate.
    + apply (passive_in _ _ Hs) in Hin. discriminate.
    + apply (passive_in _ _ Hs) in Hin. discriminate.
    + apply (passive_in _ _ Hs) in Hin. discriminate.
    + destruct Hs as [Hs|(t' & Ht & He)].
      * apply (passive_in _ _ Hs) in Hin. discriminate.
      * rewrite He in Hin. apply in_app_or in Hin as [Hin|[Hin|[]]]; [|discriminate].
        apply finals_in in Hin as (n & Hx & _). discriminate.
    + destruct Hs as [Hs|(t' & Ht & He)].
      * apply (passive_in _ _ Hs) in Hin. discriminate.
      * rewrite He in Hin. apply in_app_or in Hin as [Hin|[Hin|[]]]; [|discriminate].
        apply finals_in in Hin as (n & Hx & _). discriminate.
    + destruct Hs as [He|(t' & e1 & tl & Ht & Hi & He & Hf & Htl)]; rewrite He in Hin; [destruct Hin|].
      right. subst i. split; [eauto|]. rewrite Ht. discriminate.
    + apply (passive_in _ _ Hs) in Hin. discriminate.
    + apply (passive_in _ _ Hs) in Hin. discriminate.
  - destruct ev as [a l o|r| |n| | | |i o r race|n|n aid]; auto; cbn [step] in Hstep.
    + pose proof (do_connect_spec p st a l o) as Hd.
      destruct (do_connect p st a l o) as [[st1 e1] res].
      destruct Hd as (Dcore & _). inversion Hstep; subst. unfold core in Dcore. congruence.
    + intro Hoff. unfold transport_error in Hstep. destruct (est st) eqn:He; try (inversion Hstep; subst; reflexivity).
      pose proof (hed_spec p st RTransport) as Hh.
      destruct (handle_eio_disconnect p st RTransport) as [[st1 e1] sp].
      unfold will_reconnect in Hh. rewrite Hoff in Hh. cbn [andb] in Hh.
      destruct Hh as (_ & _ & _ & _ & _ & H6 & _ & -> & _). inversion Hstep; subst. cbn. exact H6.
    + pose proof (api_disconnect_spec p st) as Hd. destruct (api_disconnect p st) as [st1 e1].
      destruct Hd as (Dcore & _). inversion Hstep; subst. unfold core in Dcore. congruence.
    + destruct (is_conn (est st) && (connected st || mem n (nss st))); [|inversion Hstep; subst; reflexivity].
      destruct (remove_ns n (nss st)).
      * pose proof (eio_disconnect_spec p (set_connected (set_nss st []) false) RClient) as Hd.
        destruct (eio_disconnect p (set_connected (set_nss st []) false) RClient) as [st1 e1].
        destruct Hd as (Dcore & _). inversion Hstep; subst. unfold core in Dcore. cbn in Dcore. congruence.
      * inversion Hstep; subst. reflexivity.
    + destruct (is_conn (est st)); [|inversion Hstep; subst; reflexivity].
      pose proof (eio_disconnect_spec p st RServer) as Hd. destruct (eio_disconnect p st RServer) as [st1 e1].
      destruct Hd as (Dcore & _). inversion Hstep; subst. unfold core in Dcore. congruence.
  - pose proof HI as (_ & Hest & _ & Hce).
    destruct ev as [a l o|r| |n| | | |i o r race|n|n aid]; auto; cbn [step] in Hstep.
    + pose proof (api_disconnect_spec p st) as Hd. destruct (api_disconnect p st) as [st1 e1].
      destruct Hd as (_ & D2 & _ & _ & D5 & D6 & _). inversion Hstep; subst. split; [exact D2|].
      destruct (connected st) eqn:Hc; auto.
    + destruct (is_conn (est st)) eqn:Hc.
      * pose proof (eio_disconnect_spec p st RServer) as Hd. destruct (eio_disconnect p st RServer) as [st1 e1].
        destruct Hd as (_ & D2 & _ & _ & _ & D6 & _). inversion Hstep; subst. split; [exact D2|].
        apply D6. destruct (est st); try discriminate. reflexivity.
      * assert (Hst : st' = st) by (inversion Hstep; reflexivity). rewrite Hst.
        destruct (est st) eqn:He; try discriminate; try congruence.
        split; [reflexivity|]. destruct (connected st) eqn:Hc'; [|reflexivity].
        specialize (Hce eq_refl). congruence.
Qed.

(* C10_attempts (same connection parameters): the stored connection parameters change only
   when the application calls connect() while not connected ... *)
Theorem args_set_by_connect p evs ev :
  let st := final p evs in
  let st' := fst (step p st ev) in
  match ev with
  | Connect a l o =>
      if connected st then args st' = args st /\ cns st' = cns st else args st' = a /\ cns st' = l
  | _ => args st' = args st /\ cns st' = cns st
  end.
Proof.
  cbv zeta. pose proof (inv_final p evs) as HI. set (st := final p evs) in *.
  destruct ev as [a l o|r| |n| | | |i o r race|n|n aid]; cbn [step].
  - pose proof (do_connect_spec p st a l o) as Hd.
    destruct (do_connect p st a l o) as [[st1 e1] res].
    destruct Hd as (_ & Dc & Da & _). cbn. destruct (connected st).
    + destruct (Dc eq_refl) as (-> & _). auto.
    + apply Da. reflexivity.
  - unfold transport_error. destruct (est st); auto.
    pose proof (hed_spec p st RTransport) as Hh.
    destruct (handle_eio_disconnect p st RTransport) as [[st1 e1] sp].
    destruct Hh as (_ & H2 & H3 & _). destruct sp; [unfold task_start|]; cbn; auto.
  - pose proof (api_disconnect_spec p st) as Hd. destruct (api_disconnect p st) as [st1 e1].
    destruct Hd as (_ & _ & D3 & D4 & _). auto.
  - destruct (is_conn (est st) && (connected st || mem n (nss st))); auto. destruct (remove_ns n (nss st)); auto.
    pose proof (eio_disconnect_spec p (set_connected (set_nss st []) false) RClient) as Hd.
    destruct (eio_disconnect p (set_connected (set_nss st []) false) RClient) as [st1 e1].
    destruct Hd as (_ & _ & D3 & D4 & _). auto.
  - destruct (is_conn (est st)); auto.
    pose proof (eio_disconnect_spec p st RServer) as Hd. destruct (eio_disconnect p st RServer) as [st1 e1].
    destruct Hd as (_ & _ & D3 & D4 & _). auto.
  - destruct (connected st).
    + pose proof (api_disconnect_spec p st) as Hd. destruct (api_disconnect p st) as [st1 e1].
      destruct Hd as (_ & _ & D3 & D4 & _). auto.
    + destruct (is_some (rtask st)); auto.
      pose proof (abort_all_spec p st HI) as Ha. destruct (abort_all p st) as [st1 e1].
      destruct Ha as (_ & _ & _ & _ & _ & A6 & A7 & _). auto.
  - destruct (0 <? rcl st); auto.
    pose proof (abort_all_spec p st HI) as Ha. destruct (abort_all p st) as [st1 e1].
    destruct Ha as (_ & _ & _ & _ & _ & A6 & A7 & _). auto.
  - destruct (inv_tasks p st HI) as [Hn|[t [Hn _]]].
    + unfold task_timeout. rewrite Hn. destruct i; auto.
    + destruct i as [|i]; [|unfold task_timeout; rewrite Hn; destruct i; auto].
      pose proof (timeout_live_spec p st t o r race HI Hn) as Hs.
      pose proof (do_connect_spec p st (args st) (cns st) o) as Hd.
      destruct (do_connect p st (args st) (cns st) o) as [[st1 e1] res].
      destruct Hd as (_ & Dc & Da & _).
      destruct (task_timeout p st 0 o r race) as [st' e].
      destruct Hs as (_ & _ & _ & S4 & S5 & _). cbn [fst]. rewrite S4, S5.
      destruct (connected st).
      * destruct (Dc eq_refl) as (-> & _). auto.
      * apply Da. reflexivity.
  - pose proof (emit_ack_spec p st (EmitCb n) eq_refl) as Hs. cbn [step] in Hs.
    match goal with |- args (fst ?x) = _ /\ _ => destruct x as [st1 e1] end.
    destruct Hs as (_ & _ & _ & S4 & S5 & _). auto.
  - pose proof (emit_ack_spec p st (ServerAck n aid) eq_refl) as Hs. cbn [step] in Hs.
    match goal with |- args (fst ?x) = _ /\ _ => destruct x as [st1 e1] end.
    destruct Hs as (_ & _ & _ & S4 & S5 & _). auto.
Qed.

(* ... and every reconnection attempt uses exactly the stored ones: url, headers, transports and
   socketio_path for the transport, auth in the CONNECT packet of each connection namespace *)
Theorem same_parameters p evs i o r race :
  let st := final p evs in
  let e := snd (step p st (Timeout i o r race)) in
  (forall u h t q, In (FEioConnect u h t q) e ->
     u = a_url (args st) /\ h = a_headers (args st) /\ t = a_transports (args st) /\ q = a_path (args st)) /\
  (forall n au, In (FSendConnect n au) e -> au = a_auth (args st) /\ In n (cns st)).
Proof.
  cbv zeta. pose proof (inv_final p evs) as HI. set (st := final p evs) in *.
  pose proof (step_effects p st (Timeout i o r race) HI) as Hs. cbn [step_shape] in Hs.
  destruct Hs as [He|(t & e1 & tl & Ht & Hi & He & Hf & Htl)]; rewrite He.
  { split; intros; contradiction. }
  assert (Htail : forall x, In x tl -> is_eio_connect x = false /\ (forall n au, x <> FSendConnect n au)).
  { intros x Hx. destruct Htl as [(e2 & -> & Hp)|[(l & ->)| ->]].
    - apply in_app_or in Hx as [Hx|[<-|[]]]; [|split; [reflexivity|discriminate]].
      rewrite Forall_forall in Hp. destruct (Hp _ Hx) as [Hpx| ->]; [|split; [reflexivity|discriminate]].
      destruct x; try discriminate; split; try reflexivity; discriminate.
    - apply in_app_or in Hx as [Hx|[<-|[]]]; [|split; [reflexivity|discriminate]].
      apply finals_in in Hx as (n & -> & _). split; [reflexivity|discriminate].
    - destruct Hx as [<-|[<-|[]]]; split; try reflexivity; discriminate. }
  split.
  - intros u h t' q Hin. apply in_app_or in Hin as [Hin|Hin].
    + apply (connect_eff_in _ _ _ _ Hf) in Hin. exact Hin.
    + destruct (Htail _ Hin) as [Hx _]. discriminate.
  - intros n au Hin. apply in_app_or in Hin as [Hin|Hin].
    + apply (connect_eff_in _ _ _ _ Hf) in Hin. exact Hin.
    + destruct (Htail _ Hin) as [_ Hx]. exfalso. eapply Hx. reflexivity.
Qed.

(* "after which the connect handlers run again": an effort that ends in success has connected
   every connection namespace, the task is gone and `_reconnect_task` is None *)
Theorem success_runs_connect_handlers p evs i o r race id :
  let st := final p evs in
  let '(st', e) := step p st (Timeout i o r race) in
  In (FTaskEnd id Reconnected) e ->
  (forall n, In n (cns st) -> In (FHandler HConnect n None) e) /\
  attempt_ok (args st) (cns st) o = true /\
  tasks st' = [] /\ rtask st' = None /\ rcl st' = 0 /\ (race = false -> connected st' = true) /\
  connected st = false /\ est st = EDisc.
Proof.
  cbv zeta. pose proof (inv_final p evs) as HI. set (st := final p evs) in *. cbn [step].
  destruct (inv_tasks p st HI) as [Hn|[t [Hn _]]].
  { unfold task_timeout. rewrite Hn. destruct i; intros []. }
  destruct i as [|i]; [|unfold task_timeout; rewrite Hn; destruct i; intros []].
  pose proof (timeout_live_spec p st t o r race HI Hn) as Hs.
  pose proof (do_connect_spec p st (args st) (cns st) o) as Hd.
  destruct (do_connect p st (args st) (cns st) o) as [[st1 e1] res].
  destruct Hd as (_ & _ & _ & Dok & _ & _ & _ & _ & Doth & Deff).
  destruct (task_timeout p st 0 o r race) as [st' e].
  destruct Hs as (_ & _ & _ & _ & _ & S6). intro Hin.
  assert (Hne1 : ~ In (FTaskEnd id Reconnected) e1).
  { intro H. apply (connect_eff_in _ _ _ _ Deff) in H. exact H. }
  destruct res; [| | |congruence].
  - destruct (Dok eq_refl) as (_ & _ & K3 & K4 & K5 & K6).
    destruct S6 as (T1 & T2 & T3 & e2 & -> & _ & T4 & _).
    repeat split; auto.
    + intros n Hn'. apply in_or_app. left. apply K6. exact Hn'.
    + intro Hr. apply T4. exact Hr.
  - exfalso. destruct S6 as (_ & _ & S6). rewrite after_attempt_false in S6.
    destruct (negb (attempts p =? 0)%Z && (attempts p <=? Z.of_nat (S (t_count t)))%Z);
      destruct S6 as (_ & _ & _ & ->); apply in_app_or in Hin as [Hin|Hin]; try contradiction.
    + apply in_app_or in Hin as [Hin|[Hin|[]]]; [|discriminate].
      apply finals_in in Hin as (n & Hx & _). discriminate.
    + destruct Hin as [Hin|[Hin|[]]]; discriminate.
  - exfalso. destruct S6 as (_ & _ & S6). rewrite after_attempt_false in S6.
    destruct (negb (attempts p =? 0)%Z && (attempts p <=? Z.of_nat (S (t_count t)))%Z);
      destruct S6 as (_ & _ & _ & ->); apply in_app_or in Hin as [Hin|Hin]; try contradiction.
    + apply in_app_or in Hin as [Hin|[Hin|[]]]; [|discriminate].
      apply finals_in in Hin as (n & Hx & _). discriminate.
    + destruct Hin as [Hin|[Hin|[]]]; discriminate.
Qed.

(* C10_abort: shutdown() while not connected (the state of every back-off wait) and SIGINT end
   the effort: the waiting task returns after `__disconnect_final` for every connection
   namespace, without a further attempt or wait, and later time-outs find no task *)
Theorem abort_ends_effort p evs ev :
  let st := final p evs in
  (ev = Shutdown /\ connected st = false) \/ ev = Sigint ->
  let '(st', e) := step p st ev in
  tasks st' = [] /\ rcl st' = 0 /\
  (forall x, In x e -> is_eio_connect x = false /\ is_wait x = false /\ is_spawn x = false) /\
  (forall t, In t (tasks st) ->
     In (FTaskEnd (t_id t) Aborted) e /\ forall n, In n (cns st) -> In (FHandler HFinal n None) e) /\
  (forall i o r b, step p st' (Timeout i o r b) = (st', [])).
Proof.
  cbv zeta. pose proof (inv_final p evs) as HI. set (st := final p evs) in *. intro Hev.
  assert (Hcases : step p st ev = (st, []) /\ tasks st = [] /\ rcl st = 0 \/ step p st ev = abort_all p st).
  { destruct Hev as [[-> Hc]| ->]; cbn [step].
    - rewrite Hc. destruct (rtask st) eqn:Hr; cbn [is_some]; [right; reflexivity|left].
      split; [reflexivity|]. destruct (inv_tasks p st HI) as [Hn|(t & Hn & (Hrt & _) & _)]; [|congruence].
      destruct HI as (Ht & _). rewrite Hn in Ht. auto.
    - destruct (0 <? rcl st) eqn:Hl; [right; reflexivity|left]. split; [reflexivity|].
      destruct (inv_tasks p st HI) as [Hn|(t & Hn & _ & Hrcl)].
      + destruct HI as (Ht & _). rewrite Hn in Ht. auto.
      + rewrite Hrcl in Hl. discriminate. }
  assert (Hnop : forall s, tasks s = [] -> forall i o r b, step p s (Timeout i o r b) = (s, [])).
  { intros s Hs i o r b. cbn [step]. unfold task_timeout. rewrite Hs. destruct i; reflexivity. }
  destruct Hcases as [(-> & Hn & Hr)| ->].
  - rewrite Hn. repeat split; auto; intros; contradiction.
  - pose proof (abort_all_spec p st HI) as Ha. destruct (abort_all p st) as [st' e].
    destruct Ha as (A1 & A2 & _ & _ & _ & _ & _ & _ & _ & A10).
    split; [exact A1|]. split; [exact A2|].
    destruct (inv_tasks p st HI) as [Hn|(t & Hn & _)]; rewrite Hn in *.
    + destruct A10 as (_ & ->). repeat split; auto; intros; contradiction.
    + destruct A10 as (_ & ->). split; [|split; [|auto]].
      * intros x Hx. apply in_app_or in Hx as [Hx|[<-|[]]]; [|repeat split].
        apply finals_in in Hx as (n & -> & _). repeat split.
      * intros t' [<-|[]]. split.
        -- apply in_or_app. right. left. reflexivity.
        -- intros n Hn'. apply in_or_app. left. apply in_finals. exact Hn'.
Qed.

(* ---- C10_retries_after_every_accidental_loss ---- *)
(* An accidental loss: engine.io reports a transport error while it is 'connected'. *)

(* holds whenever `_reconnect_task` is not stale *)
Theorem retry_except_stale p evs r :
  let st := final p evs in
  reconnection p = true -> est st = EConn -> stale st = false ->
  tasks (fst (step p st (Loss r))) <> [].
Proof.
  cbv zeta. pose proof (inv_final p evs) as HI. set (st := final p evs) in *.
  intros Hrec He Hst. cbn [step]. unfold transport_error. rewrite He.
  pose proof (hed_spec p st RTransport) as Hh.
  destruct (handle_eio_disconnect p st RTransport) as [[st1 e1] sp].
  destruct Hh as (_ & _ & _ & _ & _ & H6 & _ & H8).
  unfold will_reconnect in H8. rewrite Hrec, He in H8. cbn [is_conn andb] in H8.
  unfold stale in Hst. destruct (rtask st) as [id|] eqn:Hr; cbn [is_some negb] in H8.
  - destruct H8 as (-> & _). cbn. rewrite H6.
    apply negb_false_iff in Hst. unfold live in Hst. destruct (tasks st); [discriminate|discriminate].
  - destruct H8 as (-> & _). unfold task_start. cbn. intro H. apply app_eq_nil in H as [_ H]. discriminate.
Qed.

(* stale is the ONLY obstacle, and it arises only on the pinned tree, after an effort that
   gave up or was aborted *)
Definition ended_badly (effs : list (list eff)) (id : nat) : Prop :=
  In (FTaskEnd id GaveUp) (concat effs) \/ In (FTaskEnd id Aborted) (concat effs).

Lemma hist_step p st ev acc :
  Inv p st ->
  (forall id, rtask st = Some id -> live st id = true \/
              In (FTaskEnd id GaveUp) acc \/ In (FTaskEnd id Aborted) acc) ->
  let '(st', e) := step p st ev in
  forall id, rtask st' = Some id -> live st' id = true \/
             In (FTaskEnd id GaveUp) (acc ++ e) \/ In (FTaskEnd id Aborted) (acc ++ e).
Proof.
  intros HI Hacc.
  assert (Hkeep : forall st' e, core st' = core st ->
            forall id, rtask st' = Some id -> live st' id = true \/
              In (FTaskEnd id GaveUp) (acc ++ e) \/ In (FTaskEnd id Aborted) (acc ++ e)).
  { intros st' e Hc id Hr. unfold core in Hc. inversion Hc as [[C1 C2 C3 C4 C5]].
    rewrite C1 in Hr. unfold live. rewrite C4. destruct (Hacc id Hr) as [H|[H|H]]; auto.
    - right. left. apply in_or_app. auto.
    - right. right. apply in_or_app. auto. }
  destruct ev as [a l o|r| |n| | | |i o r race|n|n aid]; cbn [step].
  - pose proof (do_connect_spec p st a l o) as Hd.
    destruct (do_connect p st a l o) as [[st1 e1] res]. destruct Hd as (Dcore & _). apply Hkeep. exact Dcore.
  - unfold transport_error. destruct (est st) eqn:He; try (apply Hkeep; reflexivity).
    pose proof (hed_spec p st RTransport) as Hh.
    destruct (handle_eio_disconnect p st RTransport) as [[st1 e1] sp].
    destruct Hh as (H1 & H2 & H3 & H4 & H5 & H6 & H7 & H8).
    destruct (will_reconnect p st && negb (is_some (rtask st))) eqn:Hw.
    + destruct H8 as (-> & H9 & H10 & _). unfold task_start. cbn. intros id Hid. left.
      rewrite H9 in Hid. inversion Hid; subst. unfold live. cbn. rewrite existsb_app. cbn.
      rewrite Nat.eqb_refl. apply orb_true_r.
    + destruct H8 as (-> & H9 & H10 & _). apply Hkeep. unfold core. cbn. congruence.
  - pose proof (api_disconnect_spec p st) as Hd. destruct (api_disconnect p st) as [st1 e1].
    destruct Hd as (Dcore & _). apply Hkeep. exact Dcore.
  - destruct (is_conn (est st) && (connected st || mem n (nss st))); [|apply Hkeep; reflexivity].
    destruct (remove_ns n (nss st)); [|apply Hkeep; reflexivity].
    pose proof (eio_disconnect_spec p (set_connected (set_nss st []) false) RClient) as Hd.
    destruct (eio_disconnect p (set_connected (set_nss st []) false) RClient) as [st1 e1].
    destruct Hd as (Dcore & _). apply Hkeep. exact Dcore.
  - destruct (is_conn (est st)); [|apply Hkeep; reflexivity].
    pose proof (eio_disconnect_spec p st RServer) as Hd. destruct (eio_disconnect p st RServer) as [st1 e1].
    destruct Hd as (Dcore & _). apply Hkeep. exact Dcore.
  - assert (Hab : let '(st', e) := abort_all p st in
              forall id, rtask st' = Some id -> live st' id = true \/
                In (FTaskEnd id GaveUp) (acc ++ e) \/ In (FTaskEnd id Aborted) (acc ++ e)).
    { pose proof (abort_all_spec p st HI) as Ha. destruct (abort_all p st) as [st1 e1].
      destruct Ha as (A1 & _ & _ & _ & _ & _ & _ & _ & _ & A10).
      destruct (inv_tasks p st HI) as [Hn|(t & Hn & (Hrt & _) & _)]; rewrite Hn in A10.
      - destruct A10 as (Hr & ->). intros id Hid. rewrite Hr in Hid. rewrite app_nil_r.
        destruct (Hacc id Hid) as [H|H]; [|auto]. unfold live in H. rewrite Hn in H. discriminate.
      - destruct A10 as (Hr & ->). intros id Hid. rewrite Hr in Hid.
        destruct (fixed p); [discriminate|]. rewrite Hrt in Hid. inversion Hid; subst.
        right. right. apply in_or_app. right. apply in_or_app. right. left. reflexivity. }
    destruct (connected st).
    + pose proof (api_disconnect_spec p st) as Hd. destruct (api_disconnect p st) as [st1 e1].
      destruct Hd as (Dcore & _). apply Hkeep. exact Dcore.
    + destruct (is_some (rtask st)); [exact Hab|apply Hkeep; reflexivity].
  - destruct (0 <? rcl st); [|apply Hkeep; reflexivity].
    pose proof (abort_all_spec p st HI) as Ha. destruct (abort_all p st) as [st1 e1].
    destruct Ha as (A1 & _ & _ & _ & _ & _ & _ & _ & _ & A10).
    destruct (inv_tasks p st HI) as [Hn|(t & Hn & (Hrt & _) & _)]; rewrite Hn in A10.
    + destruct A10 as (Hr & ->). intros id Hid. rewrite Hr in Hid. rewrite app_nil_r.
      destruct (Hacc id Hid) as [H|H]; [|auto]. unfold live in H. rewrite Hn in H. discriminate.
    + destruct A10 as (Hr & ->). intros id Hid. rewrite Hr in Hid.
      destruct (fixed p); [discriminate|]. rewrite Hrt in Hid. inversion Hid; subst.
      right. right. apply in_or_app. right. apply in_or_app. right. left. reflexivity.
  - destruct (inv_tasks p st HI) as [Hn|[t [Hn ((Hrt & _) & _)]]].
    + unfold task_timeout. rewrite Hn. destruct i; cbn; apply Hkeep; reflexivity.
    + destruct i as [|i]; [|unfold task_timeout; rewrite Hn; destruct i; cbn; apply Hkeep; reflexivity].
      pose proof (timeout_live_spec p st t o r race HI Hn) as Hs.
      pose proof (do_connect_spec p st (args st) (cns st) o) as Hd.
      destruct (do_connect p st (args st) (cns st) o) as [[st1 e1] res].
      destruct Hd as (_ & _ & _ & _ & _ & _ & _ & _ & Doth & _).
      destruct (task_timeout p st 0 o r race) as [st' e].
      destruct Hs as (_ & _ & _ & _ & _ & S6).
      destruct res; [| | |congruence].
      * destruct S6 as (_ & T2 & _). intros id Hid. congruence.
      * destruct S6 as (_ & _ & S6). rewrite after_attempt_false in S6.
        destruct (negb (attempts p =? 0)%Z && (attempts p <=? Z.of_nat (S (t_count t)))%Z).
        -- destruct S6 as (_ & _ & T3 & ->). intros id Hid. rewrite T3 in Hid.
           destruct (fixed p); [discriminate|]. rewrite Hrt in Hid. inversion Hid; subst.
           right. left. apply in_or_app. right. apply in_or_app. right. apply in_or_app. right. left. reflexivity.
        -- destruct S6 as (T1 & _ & T3 & _). intros id Hid. rewrite T3, Hrt in Hid. inversion Hid; subst.
           left. unfold live. rewrite T1. cbn. rewrite Nat.eqb_refl. reflexivity.
      * destruct S6 as (_ & _ & S6). rewrite after_attempt_false in S6.
        destruct (negb (attempts p =? 0)%Z && (attempts p <=? Z.of_nat (S (t_count t)))%Z).
        -- destruct S6 as (_ & _ & T3 & ->). intros id Hid. rewrite T3 in Hid.
           destruct (fixed p); [discriminate|]. rewrite Hrt in Hid. inversion Hid; subst.
           right. left. apply in_or_app. right. apply in_or_app. right. apply in_or_app. right. left. reflexivity.
        -- destruct S6 as (T1 & _ & T3 & _). intros id Hid. rewrite T3, Hrt in Hid. inversion Hid; subst.
           left. unfold live. rewrite T1. cbn. rewrite Nat.eqb_refl. reflexivity.
  - pose proof (emit_ack_spec p st (EmitCb n) eq_refl) as Hs. cbn [step] in Hs.
    match goal with |- (let '(_, _) := ?x in _) => destruct x as [st1 e1] end.
    destruct Hs as (S1 & _). apply Hkeep. exact S1.
  - pose proof (emit_ack_spec p st (ServerAck n aid) eq_refl) as Hs. cbn [step] in Hs.
    match goal with |- (let '(_, _) := ?x in _) => destruct x as [st1 e1] end.
    destruct Hs as (S1 & _). apply Hkeep. exact S1.
Qed.

Lemma hist_run p : forall evs st acc,
  Inv p st ->
  (forall id, rtask st = Some id -> live st id = true \/
              In (FTaskEnd id GaveUp) acc \/ In (FTaskEnd id Aborted) acc) ->
  let '(st', es) := run_from p st evs in
  forall id, rtask st' = Some id -> live st' id = true \/
             In (FTaskEnd id GaveUp) (acc ++ concat es) \/ In (FTaskEnd id Aborted) (acc ++ concat es).
Proof.
  induction evs as [|ev evs IH]; intros st acc HI Hacc.
  - cbn. rewrite app_nil_r. exact Hacc.
  - cbn [run_from]. pose proof (hist_step p st ev acc HI Hacc) as H1.
    pose proof (inv_step p st ev HI) as HI1.
    destruct (step p st ev) as [st1 e1]. cbn [fst] in HI1.
    specialize (IH st1 (acc ++ e1) HI1 H1).
    destruct (run_from p st1 evs) as [st2 es]. cbn [concat]. rewrite app_assoc. exact IH.
Qed.

Theorem stale_only_after_failed_effort p evs :
  stale (final p evs) = true ->
  fixed p = false /\
  exists id, rtask (final p evs) = Some id /\ ended_badly (snd (run p evs)) id.
Proof.
  intro Hst. pose proof (inv_final p evs) as (_ & _ & Hfix & _).
  split; [destruct (fixed p); [rewrite Hfix in Hst; [discriminate|reflexivity]|reflexivity]|].
  pose proof (hist_run p evs init [] (inv_init p)) as H. unfold final, run in *.
  destruct (run_from p init evs) as [st es]. cbn [fst snd] in *.
  unfold stale in Hst. destruct (rtask st) as [id|] eqn:Hr; [|discriminate].
  exists id. split; [reflexivity|].
  assert (H0 : forall id, rtask init = Some id -> live init id = true \/
              In (FTaskEnd id GaveUp) [] \/ In (FTaskEnd id Aborted) []) by (intros ? X; discriminate X).
  destruct (H H0 id eq_refl) as [Hl|Hb].
  - rewrite Hl in Hst. discriminate.
  - exact Hb.
Qed.

(* the statement of the property, with the proposed fix *)
Theorem retry_fixed p evs r :
  let st := final p evs in
  fixed p = true -> reconnection p = true -> est st = EConn ->
  tasks (fst (step p st (Loss r))) <> [].
Proof.
  cbv zeta. intros Hf Hrec He. apply retry_except_stale; auto.
  pose proof (inv_final p evs) as (_ & _ & Hfix & _). auto.
Qed.

(* ... and its refutation on the pinned tree: loss, the only allowed attempt fails, the
   application connects again, the next accidental loss starts no effort *)
Definition witness_params : params := mkParams true 1 1 5 (1#2) false.
Definition witness_history : list event :=
  [Connect (mkArgs 1 1 1 0 1) [0] (OReplies [RAccept]); Loss (1#4);
   Timeout 0 OConnErr (1#2) false; Connect (mkArgs 1 1 1 0 1) [0] (OReplies [RAccept])].

Theorem retry_refuted :
  exists p evs r,
    let st := final p evs in
    fixed p = false /\ reconnection p = true /\ est st = EConn /\ connected st = true /\
    tasks (fst (step p st (Loss r))) = [] /\
    In (FHandler HDisconnect 0 (Some RTransport)) (snd (step p st (Loss r))) /\
    ~ In (FHandler HFinal 0 None) (snd (step p st (Loss r))).
Proof.
  exists witness_params, witness_history, (3#4)%Q. vm_compute.
  repeat split; auto. intros [H|[H|[]]]; discriminate.
Qed.

(* same witness with the effort ended by shutdown() instead of the attempt limit *)
Theorem retry_refuted_after_abort :
  exists p evs r,
    let st := final p evs in
    fixed p = false /\ attempts p = 0%Z /\ reconnection p = true /\ est st = EConn /\
    tasks (fst (step p st (Loss r))) = [].
Proof.
  exists (mkParams true 0 1 5 (1#2) false),
    [Connect (mkArgs 1 1 1 0 1) [0] (OReplies [RAccept]); Loss (1#4); Shutdown;
     Connect (mkArgs 1 1 1 0 1) [0] (OReplies [RAccept])], (3#4)%Q.
  vm_compute. repeat split; auto.
Qed.

(* thread granularity only: the transport is lost after connect() returned and before
   `_reconnect_task = None`: the notification sees the old task and starts nothing, then the
   old task clears the field and returns.  Independent of `fixed`. *)
Theorem loss_in_success_window_refuted :
  forall fx, exists p evs,
    let st := final p evs in
    fixed p = fx /\ reconnection p = true /\
    In FLost (last (snd (run p evs)) []) /\
    est st = EDisc /\ connected st = false /\ tasks st = [] /\ rtask st = None.
Proof.
  intro fx.
  exists (mkParams true 0 1 5 (1#2) fx),
    [Connect (mkArgs 1 1 1 0 1) [0] (OReplies [RAccept]); Loss (1#4);
     Timeout 0 (OReplies [RAccept]) (1#2) true].
  destruct fx; vm_compute; repeat split; auto 10.
Qed.

(* without such a switch point (asyncio; threads unless the race is lost) every accidental loss
   inside a time-out step cannot happen at all *)
Theorem no_loss_inside_timeout_without_race p evs i o r :
  ~ In FLost (snd (step p (final p evs) (Timeout i o r false))).
Proof.
  pose proof (inv_final p evs) as HI. set (st := final p evs) in *. cbn [step].
  destruct (inv_tasks p st HI) as [Hn|[t [Hn _]]].
  { unfold task_timeout. rewrite Hn. destruct i; intros []. }
  destruct i as [|i]; [|unfold task_timeout; rewrite Hn; destruct i; intros []].
  pose proof (timeout_live_spec p st t o r false HI Hn) as Hs.
  pose proof (do_connect_spec p st (args st) (cns st) o) as Hd.
  destruct (do_connect p st (args st) (cns st) o) as [[st1 e1] res].
  destruct Hd as (_ & _ & _ & _ & _ & _ & _ & _ & Doth & Deff).
  destruct (task_timeout p st 0 o r false) as [st' e].
  destruct Hs as (_ & _ & _ & _ & _ & S6). cbn [snd]. intro Hin.
  assert (Hne1 : ~ In FLost e1).
  { intro H. apply (connect_eff_in _ _ _ _ Deff) in H. exact H. }
  destruct res; [| | |congruence].
  - destruct S6 as (_ & _ & _ & e2 & -> & _ & T4 & _). destruct (T4 eq_refl) as (-> & _).
    apply in_app_or in Hin as [Hin|[Hin|[]]]; [contradiction|discriminate].
  - destruct S6 as (_ & _ & S6). rewrite after_attempt_false in S6.
    destruct (negb (attempts p =? 0)%Z && (attempts p <=? Z.of_nat (S (t_count t)))%Z);
      destruct S6 as (_ & _ & _ & ->); apply in_app_or in Hin as [Hin|Hin]; try contradiction.
    + apply in_app_or in Hin as [Hin|[Hin|[]]]; [|discriminate].
      apply finals_in in Hin as (n & Hx & _). discriminate.
    + destruct Hin as [Hin|[Hin|[]]]; discriminate.
  - destruct S6 as (_ & _ & S6). rewrite after_attempt_false in S6.
    destruct (negb (attempts p =? 0)%Z && (attempts p <=? Z.of_nat (S (t_count t)))%Z);
      destruct S6 as (_ & _ & _ & ->); apply in_app_or in Hin as [Hin|Hin]; try contradiction.
    + apply in_app_or in Hin as [Hin|[Hin|[]]]; [|discriminate].
      apply finals_in in Hin as (n & Hx & _). discriminate.
    + destruct Hin as [Hin|[Hin|[]]]; discriminate.
Qed.

(* the premise `connected = false` of abort_ends_effort is needed: if the application connected
   by hand during the back-off, shutdown() takes its `if self.connected` branch and the
   reconnect task stays alive (documented edge, outside the property's quantifier) *)
Theorem abort_needs_disconnected :
  exists p evs, connected (final p evs) = true /\
                tasks (fst (step p (final p evs) Shutdown)) <> [].
Proof.
  exists (mkParams true 0 1 5 (1#2) false),
    [Connect (mkArgs 1 1 1 0 1) [0] (OReplies [RAccept]); Loss (1#4);
     Connect (mkArgs 1 1 1 0 1) [0] (OReplies [RAccept])].
  vm_compute. split; [reflexivity|discriminate].
Qed.

(* ---- the hypotheses of the theorems above are satisfiable by non-trivial states ---- *)
Example live_effort_state :
  let p := mkParams true 3 (1#2) 4 (1#4) false in
  let st := final p [Connect (mkArgs 1 2 3 1 1) [0; 1] (OReplies []); Loss (1#4);
                     Timeout 0 OConnErr (3#4) false] in
  connected st = false /\ est st = EDisc /\ rtask st = Some 0 /\ stale st = false /\
  map t_count (tasks st) = [1] /\ rcl st = 1.
Proof. vm_compute. repeat split. Qed.

Example retry_premises_satisfiable :
  let p := mkParams true 0 1 5 (1#2) false in
  let st := final p [Connect (mkArgs 1 1 1 0 1) [0; 1] (OReplies []); Loss (1#4);
                     Timeout 0 (OReplies []) (1#2) false] in
  reconnection p = true /\ est st = EConn /\ stale st = false /\ connected st = true /\
  tasks (fst (step p st (Loss (1#2)))) <> [].
Proof. vm_compute. repeat split; auto; discriminate. Qed.

Example stale_state_reachable :
  stale (final witness_params witness_history) = true.
Proof. reflexivity. Qed.

(* ================================================================== *)
(* Part C - the machine's effort IS the loop of Part A                 *)
(* ================================================================== *)
Inductive mstep := MAbort | MTry (o : conn_outcome).
Definition mscript := list (Q * mstep).
Definition to_wstep (a : cargs) (l : list ns) (m : mstep) : wstep :=
  match m with MAbort => WAbort | MTry o => WTry (attempt_ok a l o) end.
Definition to_script (a : cargs) (l : list ns) (ms : mscript) : script :=
  map (fun x => (fst x, to_wstep a l (snd x))) ms.
Definition next_r (ms : mscript) : Q := match ms with (r, _) :: _ => r | [] => 0%Q end.
(* r_{k+1} is drawn at the end of pass k, so the event of pass k carries it *)
Fixpoint effort_events (ms : mscript) : list event :=
  match ms with
  | [] => []
  | (_, m) :: rest =>
      (match m with MAbort => Shutdown | MTry o => Timeout 0 o (next_r rest) false end)
      :: effort_events rest
  end.
Definition eff_waits (e : list eff) : list Q :=
  flat_map (fun x => match x with FWait w => [w] | _ => [] end) e.

Lemma eff_waits_app a b : eff_waits (a ++ b) = eff_waits a ++ eff_waits b.
Proof. unfold eff_waits. apply flat_map_app. Qed.
Lemma eff_waits_none e : (forall w, ~ In (FWait w) e) -> eff_waits e = [].
Proof.
  induction e as [|x e IH]; intro H; [reflexivity|]. simpl.
  rewrite IH; [|intros w Hw; apply (H w); right; exact Hw].
  destruct x; try reflexivity. exfalso. apply (H q). left. reflexivity.
Qed.
Lemma connect_eff_no_wait a l e : Forall (connect_eff a l) e -> eff_waits e = [].
Proof.
  intro H. apply eff_waits_none. intros w Hw. apply (connect_eff_in _ _ _ _ H) in Hw. exact Hw.
Qed.
Lemma passive_no_wait e : Forall (fun x => passive x = true) e -> eff_waits e = [].
Proof.
  intro H. apply eff_waits_none. intros w Hw. apply (passive_in _ _ H) in Hw. discriminate.
Qed.
Lemma finals_no_wait l : eff_waits (finals l) = [].
Proof. apply passive_no_wait. apply Forall_finals. Qed.

(* once no task is left, the remaining events of an effort script do nothing to the waits *)
Lemma idle_step p st ev :
  Inv p st -> tasks st = [] -> (ev = Shutdown \/ exists o r, ev = Timeout 0 o r false) ->
  tasks (fst (step p st ev)) = [] /\ eff_waits (snd (step p st ev)) = [].
Proof.
  intros HI Hn Hev. pose proof (step_effects p st ev HI) as Hs.
  destruct Hev as [->|(o & r & ->)]; cbn [step_shape] in Hs.
  - split.
    + cbn [step]. destruct (connected st).
      * pose proof (api_disconnect_spec p st) as Hd. destruct (api_disconnect p st) as [st1 e1].
        destruct Hd as (Dcore & _). unfold core in Dcore. cbn. congruence.
      * destruct (is_some (rtask st)); [|exact Hn].
        pose proof (abort_all_spec p st HI) as Ha. destruct (abort_all p st) as [st1 e1].
        destruct Ha as (A1 & _). exact A1.
    + destruct Hs as [Hs|(t & Ht & _)]; [apply passive_no_wait; exact Hs|congruence].
  - split.
    + cbn [step]. unfold task_timeout. rewrite Hn. cbn. exact Hn.
    + destruct Hs as [->|(t & e1 & tl & Ht & _)]; [reflexivity|congruence].
Qed.

Definition ev_of (m : mstep) (rnext : Q) : event :=
  match m with MAbort => Shutdown | MTry o => Timeout 0 o rnext false end.

Lemma effort_events_cons r m ms :
  effort_events ((r, m) :: ms) = ev_of m (next_r ms) :: effort_events ms.
Proof. reflexivity. Qed.

Lemma idle_run p : forall ms st,
  Inv p st -> tasks st = [] -> eff_waits (concat (snd (run_from p st (effort_events ms)))) = [].
Proof.
  induction ms as [|[r m] ms IH]; intros st HI Hn; [reflexivity|].
  rewrite effort_events_cons. cbn [run_from].
  assert (Hev : ev_of m (next_r ms) = Shutdown \/ exists o r, ev_of m (next_r ms) = Timeout 0 o r false).
  { destruct m; [left; reflexivity|right; eexists; eexists; reflexivity]. }
  destruct (idle_step p st _ HI Hn Hev) as [H1 H2].
  pose proof (inv_step p st (ev_of m (next_r ms)) HI) as HI1.
  destruct (step p st (ev_of m (next_r ms))) as [st1 e1]. cbn [fst snd] in *.
  specialize (IH st1 HI1 H1). destruct (run_from p st1 (effort_events ms)) as [st2 es].
  cbn [snd concat] in *. rewrite eff_waits_app, H2, IH. reflexivity.
Qed.

(* one pass of the loop, on the machine *)
Lemma effort_step p st t cur m rnext :
  Inv p st -> tasks st = [t] -> connected st = false -> est st = EDisc -> t_cur t = (cur * 2)%Q ->
  let st' := fst (step p st (ev_of m rnext)) in
  let e := snd (step p st (ev_of m rnext)) in
  args st' = args st /\ cns st' = cns st /\
  match m with
  | MAbort => tasks st' = [] /\ eff_waits e = []
  | MTry o =>
      match after_attempt p (S (t_count t)) (attempt_ok (args st) (cns st) o) with
      | DContinue =>
          tasks st' = [mkTask (t_id t) (S (t_count t)) (cur * 2 * 2)%Q] /\
          connected st' = false /\ est st' = EDisc /\
          eff_waits e = [fst (next_wait p (cur * 2)%Q rnext)]
      | _ => tasks st' = [] /\ eff_waits e = []
      end
  end.
Proof.
  intros HI Ht Hc He Hcur. cbv zeta.
  destruct m as [|o]; cbn [ev_of step].
  - rewrite Hc. pose proof HI as (HT & _). rewrite Ht in HT. destruct HT as (_ & (Hrt & _)).
    rewrite Hrt. cbn [is_some].
    pose proof (abort_all_spec p st HI) as Ha. destruct (abort_all p st) as [st1 e1].
    destruct Ha as (A1 & _ & _ & _ & _ & A6 & A7 & _ & _ & A10). rewrite Ht in A10.
    destruct A10 as (_ & ->). cbn [fst snd]. repeat split; auto.
    rewrite eff_waits_app, finals_no_wait. reflexivity.
  - pose proof (timeout_live_spec p st t o rnext false HI Ht) as Hs.
    pose proof (do_connect_spec p st (args st) (cns st) o) as Hd.
    destruct (do_connect p st (args st) (cns st) o) as [[st1 e1] res].
    destruct Hd as (_ & _ & Da & Dok & Dnok & Ddisc & Dsucc & _ & Doth & Deff).
    destruct (Da Hc) as (Da1 & Da2).
    destruct (task_timeout p st 0 o rnext false) as [st' e].
    destruct Hs as (_ & _ & _ & S4 & S5 & S6). cbn [fst snd].
    rewrite S4, S5. split; [exact Da1|]. split; [exact Da2|].
    pose proof (connect_eff_no_wait _ _ _ Deff) as Hw1.
    destruct (attempt_ok (args st) (cns st) o) eqn:Hok.
    + rewrite (Dsucc Hc He eq_refl) in S6. cbn [after_attempt].
      destruct S6 as (T1 & _ & _ & e2 & -> & _ & T4 & _). destruct (T4 eq_refl) as (-> & _).
      split; [exact T1|]. rewrite !eff_waits_app, Hw1. reflexivity.
    + assert (Hres : res <> ROk).
      { intro Hr. destruct (Dok Hr) as (_ & _ & _ & _ & K5 & _). congruence. }
      assert (Hshape :
        connected st' = connected st1 /\ est st' = est st1 /\
        match after_attempt p (S (t_count t)) false with
        | DGiveUp => tasks st' = [] /\ rcl st' = 0 /\ rtask st' = (if fixed p then None else rtask st) /\
                     e = e1 ++ finals (cns st1) ++ [FTaskEnd (t_id t) GaveUp]
        | _ => tasks st' = [mkTask (t_id t) (S (t_count t)) (t_cur t * 2)%Q] /\ rcl st' = 1 /\
               rtask st' = rtask st /\ e = e1 ++ [FRandom; FWait (fst (next_wait p (t_cur t) rnext))]
        end).
      { destruct res; try congruence; exact S6. }
      destruct Hshape as (C1 & C2 & Hshape).
      rewrite after_attempt_false in *.
      destruct (negb (attempts p =? 0)%Z && (attempts p <=? Z.of_nat (S (t_count t)))%Z).
      * destruct Hshape as (T1 & _ & _ & ->). split; [exact T1|].
        rewrite !eff_waits_app, Hw1, finals_no_wait. reflexivity.
      * destruct Hshape as (T1 & _ & _ & ->). rewrite T1, Hcur, C1, C2.
        rewrite (Dnok Hres Hc), (Ddisc Hres He). repeat split; auto.
        rewrite eff_waits_app, Hw1. reflexivity.
Qed.

Lemma waits_nonempty_tl p count cur r w s :
  waits (fst (reconnect_loop p count cur ((r, w) :: s))) =
  fst (next_wait p cur r) :: tl (waits (fst (reconnect_loop p count cur ((r, w) :: s)))).
Proof.
  rewrite loop_unfold. cbv zeta. destruct w as [|ok]; [reflexivity|].
  destruct (after_attempt p (S count) ok); try reflexivity.
  destruct (reconnect_loop p (S count) (cur * 2)%Q s). reflexivity.
Qed.

Lemma effort_gen p : forall ms st t cur r m,
  Inv p st -> tasks st = [t] -> connected st = false -> est st = EDisc ->
  t_cur t = (cur * 2)%Q ->
  snd (reconnect_loop p (t_count t) cur (to_script (args st) (cns st) ((r, m) :: ms))) <> LRunning ->
  eff_waits (concat (snd (run_from p st (effort_events ((r, m) :: ms))))) =
  tl (waits (fst (reconnect_loop p (t_count t) cur (to_script (args st) (cns st) ((r, m) :: ms))))).
Proof.
  induction ms as [|[r' m'] ms IH]; intros st t cur r m HI Ht Hc He Hcur Hrun;
    rewrite effort_events_cons; cbn [run_from];
    match goal with |- context [step p st (ev_of m (next_r ?l))] =>
      pose proof (effort_step p st t cur m (next_r l) HI Ht Hc He Hcur) as Hstep;
      pose proof (inv_step p st (ev_of m (next_r l)) HI) as HI1;
      cbv zeta in Hstep;
      destruct (step p st (ev_of m (next_r l))) as [st1 e1]
    end; cbn [fst snd] in *;
    destruct Hstep as (Ha & Hn & Hstep).
  - (* last step of the script *)
    cbn [effort_events run_from concat snd]. rewrite app_nil_r.
    cbn [to_script map fst snd] in *. rewrite loop_unfold in *. cbv zeta in *.
    destruct m as [|o]; cbn [to_wstep] in *.
    + destruct Hstep as (_ & ->). reflexivity.
    + destruct (after_attempt p (S (t_count t)) (attempt_ok (args st) (cns st) o)).
      * destruct Hstep as (_ & ->). reflexivity.
      * destruct Hstep as (_ & ->). reflexivity.
      * exfalso. apply Hrun. reflexivity.
  - cbn [to_script map fst snd] in *. rewrite loop_unfold in *. cbv zeta in *.
    destruct m as [|o]; cbn [to_wstep] in *.
    + destruct Hstep as (Ht1 & Hw).
      pose proof (idle_run p ((r', m') :: ms) st1 HI1 Ht1) as Hidle.
      destruct (run_from p st1 (effort_events ((r', m') :: ms))) as [st2 es].
      cbn [snd concat] in *. rewrite eff_waits_app, Hw, Hidle. reflexivity.
    + destruct (after_attempt p (S (t_count t)) (attempt_ok (args st) (cns st) o)) eqn:Hd.
      * destruct Hstep as (Ht1 & Hw).
        pose proof (idle_run p ((r', m') :: ms) st1 HI1 Ht1) as Hidle.
        destruct (run_from p st1 (effort_events ((r', m') :: ms))) as [st2 es].
        cbn [snd concat] in *. rewrite eff_waits_app, Hw, Hidle. reflexivity.
      * destruct Hstep as (Ht1 & Hw).
        pose proof (idle_run p ((r', m') :: ms) st1 HI1 Ht1) as Hidle.
        destruct (run_from p st1 (effort_events ((r', m') :: ms))) as [st2 es].
        cbn [snd concat] in *. rewrite eff_waits_app, Hw, Hidle. reflexivity.
      * destruct Hstep as (Ht1 & Hc1 & He1 & Hw).
        specialize (IH st1 (mkTask (t_id t) (S (t_count t)) (cur * 2 * 2)%Q) (cur * 2)%Q r' m'
                       HI1 Ht1 Hc1 He1 eq_refl).
        cbn [t_count] in IH. rewrite Ha, Hn in IH.
        change (map (fun x : Q * mstep => (fst x, to_wstep (args st) (cns st) (snd x))) ms)
          with (to_script (args st) (cns st) ms) in *.
        change ((r', to_wstep (args st) (cns st) m') :: to_script (args st) (cns st) ms)
          with (to_script (args st) (cns st) ((r', m') :: ms)) in *.
        destruct (reconnect_loop p (S (t_count t)) (cur * 2)%Q
                    (to_script (args st) (cns st) ((r', m') :: ms))) as [tr o'] eqn:Hrec.
        cbn [fst snd] in *. specialize (IH Hrun).
        destruct (run_from p st1 (effort_events ((r', m') :: ms))) as [st2 es].
        cbn [snd concat] in *. rewrite eff_waits_app, Hw, IH.
        cbn [waits map fst tl].
        pose proof (waits_nonempty_tl p (S (t_count t)) (cur * 2)%Q r' (to_wstep (args st) (cns st) m')
                      (to_script (args st) (cns st) ms)) as Hne.
        change ((r', to_wstep (args st) (cns st) m') :: to_script (args st) (cns st) ms)
          with (to_script (args st) (cns st) ((r', m') :: ms)) in Hne.
        rewrite Hrec in Hne. cbn [fst] in Hne. unfold waits in *. rewrite Hne at 2. reflexivity.
Qed.

(* the waits a real effort performs are exactly those of the loop function:
   an accidental loss of a connected client, then the script *)
Theorem effort_follows_loop p evs r0 m0 ms :
  let st := final p evs in
  let sc := to_script (args st) (cns st) ((r0, m0) :: ms) in
  reconnection p = true -> est st = EConn -> rtask st = None ->
  snd (handle_reconnect p sc) <> LRunning ->
  eff_waits (concat (snd (run_from p st (Loss r0 :: effort_events ((r0, m0) :: ms))))) =
  waits (fst (handle_reconnect p sc)).
Proof.
  cbv zeta. pose proof (inv_final p evs) as HI. set (st := final p evs) in *.
  intros Hrec He Hr Hrun. cbn [run_from].
  pose proof (inv_step p st (Loss r0) HI) as HI1.
  assert (Hloss : let st1 := fst (step p st (Loss r0)) in
            tasks st1 = [mkTask (next_id st) 0 (delay0 p * 2)%Q] /\ connected st1 = false /\
            est st1 = EDisc /\ args st1 = args st /\ cns st1 = cns st /\
            eff_waits (snd (step p st (Loss r0))) = [fst (next_wait p (delay0 p) r0)]).
  { cbn [step]. unfold transport_error. rewrite He.
    pose proof (hed_spec p st RTransport) as Hh.
    destruct (handle_eio_disconnect p st RTransport) as [[s1 e1] sp].
    destruct Hh as (_ & H2 & H3 & _ & _ & H6 & H7 & H8).
    unfold will_reconnect in H8. rewrite Hrec, He, Hr in H8. cbn in H8.
    destruct H8 as (-> & _ & _ & e0 & -> & Hp).
    destruct (inv_tasks p st HI) as [Hn|(t & Hn & (Hrt & _) & _)]; [|congruence].
    unfold task_start. cbn. rewrite H6, Hn. cbn. repeat split; auto.
    rewrite !eff_waits_app, (passive_no_wait _ Hp). reflexivity. }
  cbv zeta in Hloss. destruct (step p st (Loss r0)) as [st1 e1]. cbn [fst snd] in *.
  destruct Hloss as (Ht1 & Hc1 & He1 & Ha1 & Hn1 & Hw1).
  pose proof (effort_gen p ms st1 (mkTask (next_id st) 0 (delay0 p * 2)%Q) (delay0 p) r0 m0
                HI1 Ht1 Hc1 He1 eq_refl) as Hg.
  cbn [t_count] in Hg. rewrite Ha1, Hn1 in Hg. unfold handle_reconnect in *.
  specialize (Hg Hrun).
  destruct (run_from p st1 (effort_events ((r0, m0) :: ms))) as [st2 es].
  cbn [snd concat] in *. rewrite eff_waits_app, Hw1, Hg.
  pose proof (waits_nonempty_tl p 0 (delay0 p) r0 (to_wstep (args st) (cns st) m0)
                (to_script (args st) (cns st) ms)) as Hne.
  symmetry. exact Hne.
Qed.

Example effort_example :
  let p := mkParams true 3 1 5 (1#2) false in
  let st := final p [Connect (mkArgs 1 1 1 0 1) [0; 1] (OReplies [])] in
  let ms := [((1#4)%Q, MTry OConnErr); ((1#2)%Q, MTry (OReplies [RAccept; RRefuse]));
             ((3#4)%Q, MTry (OReplies []))] in
  let sc := to_script (args st) (cns st) ms in
  reconnection p = true /\ est st = EConn /\ rtask st = None /\
  snd (handle_reconnect p sc) = LReconnected /\
  eff_waits (concat (snd (run_from p st (Loss (1#4) :: effort_events ms)))) =
  waits (fst (handle_reconnect p sc)) /\
  List.length (waits (fst (handle_reconnect p sc))) = 3.
Proof. vm_compute. repeat split. Qed.

(* ================================================================== *)
(* Part D - a reconnection starts fresh: self.callbacks                *)
(* ================================================================== *)
Lemma hed_extra p st why :
  let '(st', e, sp) := handle_eio_disconnect p st why in
  cbs st' = [] /\ nss st' = (if connected st then [] else nss st) /\ next_cb st' = next_cb st.
Proof.
  unfold handle_eio_disconnect.
  destruct (connected st); cbn [rtask set_connected set_nss set_cbs];
    match goal with |- context [if ?c then _ else _] => destruct c end; cbn; auto.
Qed.

Lemma eio_disconnect_extra p st why :
  let '(st', e) := eio_disconnect p st why in
  if is_conn (est st) then cbs st' = [] /\ nss st' = (if connected st then [] else nss st)
  else cbs st' = cbs st /\ nss st' = nss st /\ connected st' = connected st.
Proof.
  unfold eio_disconnect. destruct (est st) eqn:He; cbn [is_conn]; try (cbn; auto).
  pose proof (hed_extra p (set_est st EDisconnecting) why) as H.
  destruct (handle_eio_disconnect p (set_est st EDisconnecting) why) as [[st1 e1] sp].
  cbn in *. destruct H as (H1 & H2 & _). auto.
Qed.

Lemma wake_all_fields p : forall fuel st,
  let st' := fst (wake_all p st fuel) in
  cbs st' = cbs st /\ nss st' = nss st /\ est st' = est st /\ connected st' = connected st.
Proof.
  induction fuel as [|f IH]; intro st; cbn [wake_all]; [cbn; auto|].
  destruct (tasks st) as [|t l]; [cbn; auto|].
  unfold task_abort. specialize (IH (task_exit p st 0 (fixed p))).
  destruct (wake_all p (task_exit p st 0 (fixed p)) f) as [st2 e2]. cbn [fst] in *.
  destruct IH as (I1 & I2 & I3 & I4). unfold task_exit in *.
  destruct (fixed p); cbn in *; auto.
Qed.

Lemma abort_all_fields p st :
  let st' := fst (abort_all p st) in
  cbs st' = cbs st /\ nss st' = nss st /\ est st' = est st /\ connected st' = connected st.
Proof. unfold abort_all. apply (wake_all_fields p _ (set_aflag st true)). Qed.

Lemma do_connect_extra p st a l o :
  connected st = false -> est st = EDisc -> cbs st = [] ->
  let '(st', e, res) := do_connect p st a l o in
  cbs st' = [] /\ (res <> ROk -> nss st' = []).
Proof.
  intros Hc He Hcb. unfold do_connect. rewrite Hc, He.
  destruct o as [|rs]; [cbn; auto|].
  destruct (connect_replies (a_auth a) l rs []) as [cur e].
  destruct (set_eq cur l); [cbn; split; [exact Hcb|congruence]|].
  unfold api_disconnect.
  pose proof (eio_disconnect_extra p (set_nss (set_est (set_nss (set_conn_args st a l) []) EConn) cur) RClient) as H.
  destruct (eio_disconnect p _ RClient) as [st3 e3]. cbn in H. destruct H as (H1 & _). cbn. auto.
Qed.

(* engine.io says 'connected' exactly while the client is connected; a disconnected client has
   no namespaces and no pending callbacks *)
Definition Fresh (st : state) : Prop :=
  (est st = EConn -> connected st = true) /\ (est st = EDisc -> nss st = [] /\ cbs st = []).

Lemma fresh_init : Fresh init.
Proof. split; [discriminate|auto]. Qed.

Lemma timeout_fields p st t o r race :
  tasks st = [t] ->
  let '(st1, e1, res) := do_connect p st (args st) (cns st) o in
  let st' := fst (task_timeout p st 0 o r race) in
  match res with
  | ROk =>
      if race && is_conn (est st1) then est st' = EDisc /\ cbs st' = [] /\ connected st' = false /\
                                        nss st' = (if connected st1 then [] else nss st1)
      else est st' = est st1 /\ connected st' = connected st1 /\ nss st' = nss st1 /\ cbs st' = cbs st1
  | _ => est st' = est st1 /\ connected st' = connected st1 /\ nss st' = nss st1 /\ cbs st' = cbs st1
  end.
Proof.
  intro Ht. unfold task_timeout. rewrite Ht. cbn [nth_error].
  destruct (do_connect p st (args st) (cns st) o) as [[st1 e1] res].
  assert (Hfail : forall c,
    let st' := fst (match after_attempt p (S (t_count t)) false with
      | DGiveUp => (task_exit p st1 0 (fixed p), e1 ++ finals (cns st1) ++ [FTaskEnd (t_id t) GaveUp])
      | _ => let '(w, cur) := next_wait p (t_cur t) r in
             if aflag st1 then let '(st2, e2) := task_abort p st1 0 t in (st2, e1 ++ FRandom :: FWait w :: e2)
             else (set_tasks st1 (replace_nth 0 (mkTask (t_id t) (S (t_count t)) cur) (tasks st1)), c w)
      end) in
    est st' = est st1 /\ connected st' = connected st1 /\ nss st' = nss st1 /\ cbs st' = cbs st1).
  { intro c. destruct (after_attempt p (S (t_count t)) false); cbn [next_wait];
      unfold task_abort, task_exit; destruct (aflag st1), (fixed p); cbn; auto. }
  destruct res; try apply (Hfail (fun w => e1 ++ [FRandom; FWait w])).
  destruct race; cbn [andb].
  - unfold transport_error. destruct (est st1) eqn:He1; cbn [is_conn];
      try (unfold task_exit; cbn; auto).
    pose proof (hed_spec p st1 RTransport) as Hs. pose proof (hed_extra p st1 RTransport) as Hx.
    destruct (handle_eio_disconnect p st1 RTransport) as [[st2 e2] sp].
    destruct Hs as (_ & _ & _ & _ & _ & _ & H7 & _). destruct Hx as (X1 & X2 & _).
    destruct sp; unfold task_start, task_exit; cbn; auto.
  - unfold task_exit. cbn. auto.
Qed.

Lemma fresh_step p st ev : Inv p st -> Fresh st -> Fresh (fst (step p st ev)).
Proof.
  intros HI (F1 & F2). pose proof HI as (_ & Hest & _ & Hce).
  assert (Hcases : est st = EConn /\ connected st = true \/
                   est st = EDisc /\ connected st = false /\ nss st = [] /\ cbs st = []).
  { destruct (est st) eqn:He; [right|left; auto|congruence].
    destruct (F2 eq_refl). repeat split; auto.
    destruct (connected st) eqn:Hc; [specialize (Hce eq_refl); congruence|reflexivity]. }
  destruct ev as [a l o|r| |n| | | |i o r race|n|n aid]; cbn [step].
  - (* Connect *)
    pose proof (do_connect_spec p st a l o) as Hd.
    destruct Hcases as [(He & Hc)|(He & Hc & Hn & Hb)].
    + destruct (do_connect p st a l o) as [[st1 e1] res].
      destruct Hd as (_ & Dc & _). destruct (Dc Hc) as (-> & _). cbn. split; auto.
    + pose proof (do_connect_extra p st a l o Hc He Hb) as Hx.
      destruct (do_connect p st a l o) as [[st1 e1] res].
      destruct Hd as (_ & _ & _ & Dok & Dnok & Ddisc & _). destruct Hx as (X1 & X2). cbn [fst].
      destruct res.
      * destruct (Dok eq_refl) as (K1 & K2 & _). split; [auto|congruence].
      * split; [rewrite Ddisc; [discriminate|discriminate|exact He]|]. intros _. split; [apply X2; discriminate|exact X1].
      * split; [rewrite Ddisc; [discriminate|discriminate|exact He]|]. intros _. split; [apply X2; discriminate|exact X1].
      * split; [rewrite Ddisc; [discriminate|discriminate|exact He]|]. intros _. split; [apply X2; discriminate|exact X1].
  - (* Loss *)
    unfold transport_error. destruct Hcases as [(He & Hc)|(He & Hc & Hn & Hb)]; rewrite He; [|split; auto].
    pose proof (hed_extra p st RTransport) as Hx.
    destruct (handle_eio_disconnect p st RTransport) as [[st1 e1] sp]. destruct Hx as (X1 & X2 & _).
    rewrite Hc in X2. destruct sp; unfold task_start; cbn; split; try discriminate; auto.
  - (* Disconnect *)
    unfold api_disconnect. pose proof (eio_disconnect_extra p st RClient) as Hx.
    pose proof (eio_disconnect_spec p st RClient) as Hs.
    destruct (eio_disconnect p st RClient) as [st1 e1]. destruct Hs as (_ & S2 & _). cbn [fst].
    split; [rewrite S2; discriminate|]. intros _.
    destruct Hcases as [(He & Hc)|(He & Hc & Hn & Hb)]; rewrite He in Hx; cbn [is_conn] in Hx.
    + rewrite Hc in Hx. destruct Hx; auto.
    + destruct Hx as (X1 & X2 & _). split; congruence.
  - (* ServerDisconnect *)
    destruct Hcases as [(He & Hc)|(He & Hc & Hn & Hb)]; rewrite He; cbn [is_conn andb]; [|split; auto].
    rewrite Hc. cbn [orb]. destruct (remove_ns n (nss st)).
    + pose proof (eio_disconnect_extra p (set_connected (set_nss st []) false) RClient) as Hx.
      pose proof (eio_disconnect_spec p (set_connected (set_nss st []) false) RClient) as Hs.
      destruct (eio_disconnect p (set_connected (set_nss st []) false) RClient) as [st1 e1].
      destruct Hs as (_ & S2 & _). cbn in Hx. rewrite He in Hx. cbn in Hx. cbn [fst].
      split; [rewrite S2; discriminate|]. intros _. destruct Hx; auto.
    + unfold Fresh. cbn. split; [auto|intro X; congruence].
  - (* ServerClose *)
    destruct Hcases as [(He & Hc)|(He & Hc & Hn & Hb)]; rewrite He; cbn [is_conn]; [|split; auto].
    pose proof (eio_disconnect_extra p st RServer) as Hx. pose proof (eio_disconnect_spec p st RServer) as Hs.
    destruct (eio_disconnect p st RServer) as [st1 e1]. destruct Hs as (_ & S2 & _). cbn [fst].
    rewrite He, Hc in Hx. cbn in Hx. split; [rewrite S2; discriminate|]. intros _. destruct Hx; auto.
  - (* Shutdown *)
    destruct Hcases as [(He & Hc)|(He & Hc & Hn & Hb)]; rewrite Hc.
    + unfold api_disconnect. pose proof (eio_disconnect_extra p st RClient) as Hx.
      pose proof (eio_disconnect_spec p st RClient) as Hs.
      destruct (eio_disconnect p st RClient) as [st1 e1]. destruct Hs as (_ & S2 & _). cbn [fst].
      rewrite He, Hc in Hx. cbn in Hx. split; [rewrite S2; discriminate|]. intros _. destruct Hx; auto.
    + destruct (is_some (rtask st)); [|split; auto].
      pose proof (abort_all_fields p st) as Hf. cbv zeta in Hf.
      destruct (abort_all p st) as [st1 e1]. cbn [fst] in *. destruct Hf as (A1 & A2 & A3 & A4).
      split; [congruence|]. intros _. split; congruence.
  - (* Sigint *)
    destruct (0 <? rcl st); [|split; auto].
    pose proof (abort_all_fields p st) as Hf. cbv zeta in Hf.
    destruct (abort_all p st) as [st1 e1]. cbn [fst] in *. destruct Hf as (A1 & A2 & A3 & A4).
    split; [rewrite A3, A4; exact F1|]. rewrite A1, A2, A3. exact F2.
  - (* Timeout *)
    destruct (inv_tasks p st HI) as [Hn0|[t [Hn0 _]]].
    { unfold task_timeout. rewrite Hn0. destruct i; split; auto. }
    destruct i as [|i]; [|unfold task_timeout; rewrite Hn0; destruct i; split; auto].
    pose proof (timeout_fields p st t o r race Hn0) as Hf.
    pose proof (do_connect_spec p st (args st) (cns st) o) as Hd.
    destruct Hcases as [(He & Hc)|(He & Hc & Hn & Hb)].
    + destruct (do_connect p st (args st) (cns st) o) as [[st1 e1] res].
      destruct Hd as (_ & Dc & _). destruct (Dc Hc) as (-> & _ & ->). cbv zeta in Hf.
      destruct Hf as (G1 & G2 & G3 & G4). split; [rewrite G1, G2; exact F1|]. rewrite G1, G3, G4. exact F2.
    + pose proof (do_connect_extra p st (args st) (cns st) o Hc He Hb) as Hx.
      destruct (do_connect p st (args st) (cns st) o) as [[st1 e1] res].
      destruct Hd as (_ & _ & _ & Dok & Dnok & Ddisc & _). destruct Hx as (X1 & X2). cbv zeta in Hf.
      destruct res.
      * destruct (Dok eq_refl) as (K1 & K2 & _). rewrite K2, K1 in Hf. cbn [is_conn] in Hf.
        destruct race; cbn [andb] in Hf.
        -- destruct Hf as (G1 & G2 & G3 & G4). split; [congruence|]. intros _. split; congruence.
        -- destruct Hf as (G1 & G2 & G3 & G4). split; [congruence|]. intros X. congruence.
      * destruct Hf as (G1 & G2 & G3 & G4).
        assert (est st1 = EDisc) by (apply Ddisc; [discriminate|exact He]).
        split; [congruence|]. intros _. split; [rewrite G3; apply X2; discriminate|congruence].
      * destruct Hf as (G1 & G2 & G3 & G4).
        assert (est st1 = EDisc) by (apply Ddisc; [discriminate|exact He]).
        split; [congruence|]. intros _. split; [rewrite G3; apply X2; discriminate|congruence].
      * destruct Hf as (G1 & G2 & G3 & G4).
        assert (est st1 = EDisc) by (apply Ddisc; [discriminate|exact He]).
        split; [congruence|]. intros _. split; [rewrite G3; apply X2; discriminate|congruence].
  - (* EmitCb *)
    destruct Hcases as [(He & Hc)|(He & Hc & Hn & Hb)].
    + destruct (mem n (nss st)); [|split; auto].
      destruct (cb_lookup n (cbs st)) as [nxt entries]. unfold Fresh. cbn. split; [auto|intro X; congruence].
    + rewrite Hn. cbn. split; auto.
  - (* ServerAck *)
    destruct Hcases as [(He & Hc)|(He & Hc & Hn & Hb)]; rewrite He; cbn [is_conn]; [|split; auto].
    destruct (cb_find n (cbs st)) as [[nxt entries]|]; [|split; auto].
    destruct (find (fun e => fst e =? aid) entries) as [[i' k]|]; unfold Fresh; cbn; split; auto; intro X; congruence.
Qed.

Lemma fresh_run p : forall evs st, Inv p st -> Fresh st -> Fresh (fst (run_from p st evs)).
Proof.
  induction evs as [|ev evs IH]; intros st HI HF; [exact HF|].
  cbn [run_from]. pose proof (inv_step p st ev HI) as H1. pose proof (fresh_step p st ev HI HF) as H2.
  destruct (step p st ev) as [st1 e1]. cbn [fst] in *. specialize (IH st1 H1 H2).
  destruct (run_from p st1 evs) as [st2 es]. exact IH.
Qed.

Lemma do_connect_ok_nss p st a l o :
  let '(st', e, res) := do_connect p st a l o in
  res = ROk -> forall n, In n l -> mem n (nss st') = true.
Proof.
  unfold do_connect. destruct (connected st); [discriminate|].
  destruct (est st); try discriminate. destruct o as [|rs]; [discriminate|].
  destruct (connect_replies (a_auth a) l rs []) as [cur e].
  destruct (set_eq cur l) eqn:Hse.
  - intros _ n Hn. cbn. unfold set_eq in Hse. apply andb_true_iff in Hse as [_ Hs].
    apply mem_In. apply (subset_In _ _ Hs). exact Hn.
  - destruct (api_disconnect p _). discriminate.
Qed.

(* C10_reconnect_resets_callbacks: whenever engine.io is not connected (in particular after any
   loss, during the whole back-off, and at the moment a reconnection succeeds) self.callbacks is
   empty; every loss empties it on the spot; and the first emit with a callback on a namespace
   after a successful reconnection carries id 1, while an ACK arriving then invokes nothing *)
Theorem reconnect_resets_callbacks p evs :
  let st := final p evs in
  (est st = EDisc -> cbs st = [] /\ nss st = []) /\
  (forall r, est st = EConn -> cbs (fst (step p st (Loss r))) = []) /\
  (forall i o r id,
     let '(st', e) := step p st (Timeout i o r false) in
     In (FTaskEnd id Reconnected) e ->
     cbs st' = [] /\
     (forall n aid, snd (step p st' (ServerAck n aid)) = []) /\
     (forall n, In n (cns st) -> snd (step p st' (EmitCb n)) = [FSendEvent n 1; FEmit true])).
Proof.
  cbv zeta. pose proof (inv_final p evs) as HI.
  pose proof (fresh_run p evs init (inv_init p) fresh_init) as HF. fold (final p evs) in HF.
  set (st := final p evs) in *. destruct HF as (F1 & F2).
  split; [intro He; destruct (F2 He); auto|]. split.
  - intros r He. cbn [step]. unfold transport_error. rewrite He.
    pose proof (hed_extra p st RTransport) as Hx.
    destruct (handle_eio_disconnect p st RTransport) as [[st1 e1] sp]. destruct Hx as (X1 & _).
    destruct sp; unfold task_start; cbn; exact X1.
  - intros i o r id.
    pose proof (success_runs_connect_handlers p evs i o r false id) as Hs.
    fold st in Hs. cbv zeta in Hs.
    destruct (step p st (Timeout i o r false)) as [st' e] eqn:Hstep.
    intro Hin. destruct (Hs Hin) as (_ & Hok & _ & _ & _ & _ & Hc & He).
    destruct (F2 He) as (_ & Hb).
    destruct (inv_tasks p st HI) as [Hn0|[t [Hn0 _]]].
    { cbn [step] in Hstep. unfold task_timeout in Hstep. rewrite Hn0 in Hstep.
      destruct i; inversion Hstep; subst; destruct Hin. }
    destruct i as [|i].
    2:{ cbn [step] in Hstep. unfold task_timeout in Hstep. rewrite Hn0 in Hstep.
        destruct i; inversion Hstep; subst; destruct Hin. }
    pose proof (timeout_fields p st t o r false Hn0) as Hf.
    pose proof (do_connect_spec p st (args st) (cns st) o) as Hd.
    pose proof (do_connect_extra p st (args st) (cns st) o Hc He Hb) as Hx.
    pose proof (do_connect_ok_nss p st (args st) (cns st) o) as Hm.
    cbn [step] in Hstep. rewrite Hstep in Hf. cbn [fst] in Hf.
    destruct (do_connect p st (args st) (cns st) o) as [[st1 e1] res].
    destruct Hd as (_ & _ & _ & Dok & _ & _ & Dsucc & _).
    rewrite (Dsucc Hc He Hok) in *. destruct (Dok eq_refl) as (K1 & K2 & _).
    destruct Hx as (X1 & _). cbv zeta in Hf. cbn [andb] in Hf. destruct Hf as (G1 & G2 & G3 & G4).
    assert (Hcb : cbs st' = []) by congruence.
    assert (Hest' : est st' = EConn) by congruence.
    split; [exact Hcb|]. split.
    + intros n aid. cbn [step]. rewrite Hest', Hcb. reflexivity.
    + intros n Hn. cbn [step]. rewrite G3, (Hm eq_refl n Hn). unfold cb_lookup. rewrite Hcb, Hest'. reflexivity.
Qed.

Example reconnect_resets_example :
  let p := mkParams true 0 1 5 (1#2) false in
  let evs := [Connect (mkArgs 1 1 1 0 1) [0; 1] (OReplies []); EmitCb 0; EmitCb 0; EmitCb 1; Loss (1#4);
              EmitCb 0; Timeout 0 OConnErr (1#2) false; Timeout 0 (OReplies []) (1#2) false;
              ServerAck 0 1; EmitCb 0] in
  map (filter (fun x => match x with FSendEvent _ _ | FEmit _ | FCallback _ => true | _ => false end))
      (snd (run p evs)) =
  [[]; [FSendEvent 0 1; FEmit true]; [FSendEvent 0 2; FEmit true]; [FSendEvent 1 1; FEmit true]; [];
   [FEmit false]; []; []; []; [FSendEvent 0 1; FEmit true]].
Proof. vm_compute. reflexivity. Qed.
